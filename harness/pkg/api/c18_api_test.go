package api

// Harness for C18, admin-API part (DESIGN 5/C18): real api.Server(s) on an embedded single-node
// etcd (member 1 = primary, member 2 = secondary sharing the store), driven in-process through
// their chi routers.
//   TestVerifC18ApiReplay - replays TLC-generated sequential histories (AdminApi_Gen) in lock-step
//   TestVerifC18ApiConc   - concurrent clients, inv/ret events for TLC linearisation (AdminApi_CTrace)

import (
	"bytes"
	"fmt"
	"math/rand"
	"net/http"
	"net/http/httptest"
	"os"
	"strconv"
	"sync"
	"sync/atomic"
	"testing"
	"time"

	"github.com/go-chi/chi/v5"
	"github.com/go-chi/chi/v5/middleware"
	"github.com/phayes/freeport"
	yaml "gopkg.in/yaml.v2"

	"github.com/megaease/easegress/pkg/cluster"
	"github.com/megaease/easegress/pkg/env"
	"github.com/megaease/easegress/pkg/logger"
	"github.com/megaease/easegress/pkg/option"
	"github.com/megaease/easegress/pkg/supervisor"
	vx "github.com/megaease/easegress/pkg/verifx"
)

// ---- two test-only kinds (business controllers that do nothing)
type (
	c18Spec struct {
		Marker int `yaml:"marker" jsonschema:"omitempty"`
	}
	c18KindA struct{}
	c18KindB struct{}
)

func (*c18KindA) Category() supervisor.ObjectCategory { return supervisor.CategoryBusinessController }
func (*c18KindA) Kind() string                        { return "C18KindA" }
func (*c18KindA) DefaultSpec() interface{}            { return &c18Spec{} }
func (*c18KindA) Status() *supervisor.Status          { return &supervisor.Status{ObjectStatus: struct{}{}} }
func (*c18KindA) Close()                              {}
func (*c18KindA) Init(*supervisor.Spec)               {}
func (*c18KindA) Inherit(*supervisor.Spec, supervisor.Object) {
}
func (*c18KindB) Category() supervisor.ObjectCategory { return supervisor.CategoryBusinessController }
func (*c18KindB) Kind() string                        { return "C18KindB" }
func (*c18KindB) DefaultSpec() interface{}            { return &c18Spec{} }
func (*c18KindB) Status() *supervisor.Status          { return &supervisor.Status{ObjectStatus: struct{}{}} }
func (*c18KindB) Close()                              {}
func (*c18KindB) Init(*supervisor.Spec)               {}
func (*c18KindB) Inherit(*supervisor.Spec, supervisor.Object) {
}

func init() {
	logger.InitNop()
	supervisor.Register(&c18KindA{})
	supervisor.Register(&c18KindB{})
}

var c18Kinds = map[string]string{"K1": "C18KindA", "K2": "C18KindB"}
var c18KindsRev = map[string]string{"C18KindA": "K1", "C18KindB": "K2"}

// object names: "svc" is a proper string prefix of "svc-canary" and "sv" of both, i.e. the store keys
// /config/objects/<name> are nested prefixes of one another (the contract treats names as independent)
var c18Names = []string{"svc", "svc-canary", "sv"}

func c18Options(dir, name, role string, primaryPeerURLs []string) *option.Options {
	opt := option.New()
	opt.Name = name
	opt.ClusterName = "verif-cluster"
	opt.ClusterRole = role
	opt.ClusterRequestTimeout = "20s"
	opt.HomeDir = dir
	opt.AbsHomeDir = dir
	opt.DataDir, opt.AbsDataDir = dir+"/data", dir+"/data"
	opt.LogDir, opt.AbsLogDir = dir+"/log", dir+"/log"
	opt.MemberDir, opt.AbsMemberDir = dir+"/member", dir+"/member"
	ports, err := freeport.GetFreePorts(3)
	if err != nil {
		panic(err)
	}
	opt.APIAddr = fmt.Sprintf("localhost:%d", ports[2])
	if role == "primary" {
		opt.Cluster.ListenClientURLs = []string{fmt.Sprintf("http://localhost:%d", ports[0])}
		opt.Cluster.AdvertiseClientURLs = opt.Cluster.ListenClientURLs
		opt.Cluster.ListenPeerURLs = []string{fmt.Sprintf("http://localhost:%d", ports[1])}
		opt.Cluster.InitialAdvertisePeerURLs = opt.Cluster.ListenPeerURLs
		opt.Cluster.InitialCluster = map[string]string{name: opt.Cluster.InitialAdvertisePeerURLs[0]}
	} else {
		opt.Cluster.PrimaryListenPeerURLs = primaryPeerURLs
	}
	if err := env.InitServerDir(opt); err != nil {
		panic(err)
	}
	return opt
}

func c18NewCluster(opt *option.Options) (cluster.Cluster, error) {
	type res struct {
		c   cluster.Cluster
		err error
	}
	ch := make(chan res, 1)
	go func() {
		defer func() {
			if r := recover(); r != nil {
				ch <- res{nil, fmt.Errorf("panic: %v", r)}
			}
		}()
		c, err := cluster.New(opt)
		ch <- res{c, err}
	}()
	select {
	case r := <-ch:
		return r.c, r.err
	case <-time.After(90 * time.Second):
		return nil, fmt.Errorf("cluster.New did not become ready in 90s")
	}
}

// c18JitterCluster delays the store operations the admin API issues by a random time while enabled
// (a slow network): it widens the windows between the etcd operations of a handler, it never changes
// their outcome. The cluster mutex (Mutex) is passed through untouched.
type c18JitterCluster struct {
	cluster.Cluster
	maxMicros *int64
	mu        sync.Mutex
	rng       *rand.Rand
}

func (j *c18JitterCluster) delay() {
	m := atomic.LoadInt64(j.maxMicros)
	if m <= 0 {
		return
	}
	j.mu.Lock()
	d := j.rng.Int63n(m)
	j.mu.Unlock()
	time.Sleep(time.Duration(d) * time.Microsecond)
}

func (j *c18JitterCluster) Get(key string) (*string, error) { j.delay(); return j.Cluster.Get(key) }
func (j *c18JitterCluster) Put(key, value string) error     { j.delay(); return j.Cluster.Put(key, value) }
func (j *c18JitterCluster) Delete(key string) error         { j.delay(); return j.Cluster.Delete(key) }
func (j *c18JitterCluster) GetPrefix(prefix string) (map[string]string, error) {
	j.delay()
	return j.Cluster.GetPrefix(prefix)
}

type c18Env struct {
	jitter   int64 // max delay in microseconds, 0 = off (atomic)
	dir      string
	clusters []cluster.Cluster
	servers  []*Server
	handlers []http.Handler
}

// c18Mux wires a server's object API the way dynamicMux.reloadAPIs does, without the global API
// registry (a second Server in one process would replace the first one's handlers there).
func c18Mux(s *Server) http.Handler {
	r := chi.NewMux()
	r.Use(middleware.StripSlashes)
	r.Use(s.router.newAPILogger)
	r.Use(s.router.newConfigVersionAttacher)
	r.Use(s.router.newRecoverer)
	for _, e := range s.objectAPIEntries() {
		path := APIPrefix + e.Path
		switch e.Method {
		case "GET":
			r.Get(path, e.Handler)
		case "PUT":
			r.Put(path, e.Handler)
		case "POST":
			r.Post(path, e.Handler)
		case "DELETE":
			r.Delete(path, e.Handler)
		}
	}
	return r
}

func c18Setup(members int) (*c18Env, error) {
	dir, err := os.MkdirTemp("", "verif-c18api-")
	if err != nil {
		return nil, err
	}
	e := &c18Env{dir: dir}
	var cls cluster.Cluster
	var opt *option.Options
	for try := 0; try < 3; try++ {
		sub := fmt.Sprintf("%s/p%d", dir, try)
		os.MkdirAll(sub, 0o755)
		opt = c18Options(sub, "member-1", "primary", nil)
		cls, err = c18NewCluster(opt)
		if err == nil {
			break
		}
	}
	if err != nil {
		os.RemoveAll(dir)
		return nil, err
	}
	super := supervisor.NewDefaultMock()
	// member 1: the real constructor and the real dynamic router
	s1 := MustNewServer(opt, &c18JitterCluster{Cluster: cls, maxMicros: &e.jitter, rng: vx.Rand(1801)}, super, nil)
	e.clusters = append(e.clusters, cls)
	e.servers = append(e.servers, s1)
	e.handlers = append(e.handlers, s1.router)
	deadline := time.Now().Add(30 * time.Second)
	for {
		rec := httptest.NewRecorder()
		s1.router.ServeHTTP(rec, httptest.NewRequest("GET", APIPrefix+"/healthz", nil))
		if rec.Code == 200 {
			break
		}
		if time.Now().After(deadline) {
			e.Close()
			return nil, fmt.Errorf("api router of member 1 did not load its routes")
		}
		time.Sleep(20 * time.Millisecond)
	}
	// further members: secondary cluster members (clients of the same etcd) with their own Server
	for i := 1; i < members; i++ {
		sub := fmt.Sprintf("%s/s%d", dir, i)
		os.MkdirAll(sub, 0o755)
		o2 := c18Options(sub, fmt.Sprintf("member-%d", i+1), "secondary", opt.Cluster.InitialAdvertisePeerURLs)
		c2, err := c18NewCluster(o2)
		if err != nil {
			e.Close()
			return nil, err
		}
		s2 := &Server{opt: o2, cluster: &c18JitterCluster{Cluster: c2, maxMicros: &e.jitter, rng: vx.Rand(int64(1802 + i))}, super: super}
		s2.router = &dynamicMux{server: s2, done: make(chan struct{})}
		e.clusters = append(e.clusters, c2)
		e.servers = append(e.servers, s2)
		e.handlers = append(e.handlers, c18Mux(s2))
	}
	return e, nil
}

func (e *c18Env) Close() {
	done := make(chan struct{})
	go func() {
		if len(e.servers) > 0 {
			wg := &sync.WaitGroup{}
			wg.Add(1)
			e.servers[0].Close(wg)
		}
		for i := len(e.clusters) - 1; i >= 0; i-- {
			wg := &sync.WaitGroup{}
			wg.Add(1)
			e.clusters[i].Close(wg)
		}
		close(done)
	}()
	select {
	case <-done:
	case <-time.After(40 * time.Second):
	}
	os.RemoveAll(e.dir)
}

type c18Reply struct {
	code int
	st   string // "ok" | "conflict" | "badreq" | "other" | "error"
	ver  int    // X-Config-Version
	k    string // get: kind
	mk   int    // get: marker
	objs vx.M   // list: name -> {k, mk}
}

// a content accepted by a server (create / update answered 2xx)
type c18Content struct {
	scen       int
	name, kind string
	mk         int
}

type c18LastContent struct {
	mu sync.Mutex
	c  *c18Content
}

func (l *c18LastContent) Load() *c18Content   { l.mu.Lock(); defer l.mu.Unlock(); return l.c }
func (l *c18LastContent) Store(c *c18Content) { l.mu.Lock(); l.c = c; l.mu.Unlock() }

func c18None() vx.M { return vx.M{"k": "none", "mk": 0} }

func c18AllNone() vx.M {
	m := vx.M{}
	for _, n := range c18Names {
		m[n] = c18None()
	}
	return m
}

func c18Class(code int) string {
	switch {
	case code >= 200 && code < 300:
		return "ok"
	case code == 409:
		return "conflict"
	case code == 400:
		return "badreq"
	case code >= 500:
		return "error"
	}
	return "other"
}

// c18Do issues one request to a member's handler.
func c18Do(h http.Handler, op, name, kind string, mk int) c18Reply {
	var req *http.Request
	body := fmt.Sprintf("name: %s\nkind: %s\nmarker: %d\n", name, c18Kinds[kind], mk)
	switch op {
	case "create":
		req = httptest.NewRequest("POST", APIPrefix+"/objects", bytes.NewBufferString(body))
	case "update":
		req = httptest.NewRequest("PUT", APIPrefix+"/objects/"+name, bytes.NewBufferString(body))
	case "delete":
		req = httptest.NewRequest("DELETE", APIPrefix+"/objects/"+name, nil)
	case "get":
		req = httptest.NewRequest("GET", APIPrefix+"/objects/"+name, nil)
	case "list":
		req = httptest.NewRequest("GET", APIPrefix+"/objects", nil)
	default:
		panic("bad op " + op)
	}
	rec := httptest.NewRecorder()
	h.ServeHTTP(rec, req)
	r := c18Reply{code: rec.Code, st: c18Class(rec.Code), k: "none", objs: c18AllNone()}
	r.ver, _ = strconv.Atoi(rec.Header().Get(ConfigVersionKey))
	if r.st != "ok" {
		return r
	}
	switch op {
	case "get":
		var m struct {
			Kind   string `yaml:"kind"`
			Marker int    `yaml:"marker"`
		}
		if err := yaml.Unmarshal(rec.Body.Bytes(), &m); err != nil {
			r.st = "error"
			return r
		}
		r.k, r.mk = c18KindsRev[m.Kind], m.Marker
	case "list":
		var l []struct {
			Name   string `yaml:"name"`
			Kind   string `yaml:"kind"`
			Marker int    `yaml:"marker"`
		}
		if err := yaml.Unmarshal(rec.Body.Bytes(), &l); err != nil {
			r.st = "error"
			return r
		}
		for _, o := range l {
			r.objs[o.Name] = vx.M{"k": c18KindsRev[o.Kind], "mk": o.Marker}
		}
	}
	return r
}

// c18Wipe removes all objects directly in the store and returns the stored version.
func c18Wipe(e *c18Env) (int, error) {
	cls := e.clusters[0]
	if err := cls.DeletePrefix(cls.Layout().ConfigObjectPrefix()); err != nil {
		return 0, err
	}
	v, err := cls.Get(cls.Layout().ConfigVersion())
	if err != nil {
		return 0, err
	}
	if v == nil {
		return 0, nil
	}
	return strconv.Atoi(*v)
}

func c18Same(a, b vx.M) bool {
	for _, n := range c18Names {
		x, y := a[n].(vx.M), b[n].(vx.M)
		if vx.Str(x["k"]) != vx.Str(y["k"]) || vx.Int(x["mk"]) != vx.Int(y["mk"]) {
			return false
		}
	}
	return true
}

// TestVerifC18ApiReplay: every behaviour of AdminApi_Gen on a wiped store; after each request the
// reply, the stored objects (GET /objects) and the stored version are compared with the contract's.
func TestVerifC18ApiReplay(t *testing.T) {
	behs := vx.ReadBehaviours(t, "VERIF_IN")
	w := vx.NewWriter(t, "VERIF_OUT")
	defer w.Close()
	e, err := c18Setup(2)
	if err != nil {
		w.Raw(vx.M{"k": "setup-failed", "what": err.Error()})
		return
	}
	defer e.Close()
	rng := vx.Rand(1818)
	steps, mism, freeEnd := 0, 0, 0
	for bi, beh := range behs {
		base, err := c18Wipe(e)
		if err != nil {
			w.Raw(vx.M{"k": "setup-failed", "what": err.Error()})
			return
		}
		for si, st := range beh {
			if vx.Str(st["t"]) == "init" {
				continue
			}
			steps++
			member := rng.Intn(len(e.handlers))
			op, name, kind, mk := vx.Str(st["t"]), vx.Str(st["n"]), vx.Str(st["k"]), vx.Int(st["mk"])
			r := c18Do(e.handlers[member], op, name, kind, mk)
			bad := ""
			if r.st == "error" {
				w.Raw(vx.M{"k": "server-error", "beh": bi, "step": si, "code": r.code})
				break
			}
			want := vx.Str(st["st"])
			if vx.Bool(st["free"]) {
				if r.st == "ok" {
					freeEnd++ // the other branch the contract allows: this behaviour cannot be followed further
					break
				}
			} else if r.st != want {
				bad = fmt.Sprintf("%s %s/%s answered %d (%s), contract says %s", op, name, kind, r.code, r.st, want)
			}
			if bad == "" && want == "ok" {
				switch op {
				case "create", "update", "delete":
					if r.ver != base+vx.Int(st["rver"]) {
						bad = fmt.Sprintf("%s %s returned X-Config-Version %d, contract says %d (base %d)", op, name, r.ver, base+vx.Int(st["rver"]), base)
					}
				case "get":
					if r.k != vx.Str(st["rk"]) || r.mk != vx.Int(st["rmk"]) {
						bad = fmt.Sprintf("get %s returned %s/%d, contract says %s/%d", name, r.k, r.mk, vx.Str(st["rk"]), vx.Int(st["rmk"]))
					}
				case "list":
					if !c18Same(r.objs, st["rall"].(vx.M)) {
						bad = fmt.Sprintf("list returned %v, contract says %v", r.objs, st["rall"])
					}
				}
			}
			if bad == "" {
				// stored objects and version after the step, observed through the other member
				l := c18Do(e.handlers[(member+1)%len(e.handlers)], "list", "-", "none", 0)
				if l.st != "ok" {
					w.Raw(vx.M{"k": "server-error", "beh": bi, "step": si, "code": l.code})
					break
				}
				if !c18Same(l.objs, st["objs"].(vx.M)) {
					bad = fmt.Sprintf("after %s %s/%s (%s) the stored objects are %v, contract says %v", op, name, kind, r.st, l.objs, st["objs"])
				} else if l.ver != base+vx.Int(st["ver"]) {
					bad = fmt.Sprintf("after %s %s/%s (%s) the stored version is %d, contract says %d (base %d)", op, name, kind, r.st, l.ver, base+vx.Int(st["ver"]), base)
				}
			}
			if bad != "" {
				mism++
				w.Raw(vx.M{"k": "mismatch", "beh": bi, "step": si, "what": bad, "op": op, "st": want, "got": r.st, "behaviour": beh[:si+1]})
				break
			}
		}
	}
	w.Raw(vx.M{"k": "summary", "behaviours": len(behs), "steps": steps, "mismatches": mism, "free_branch_ends": freeEnd})
}

// TestVerifC18ApiConc: C concurrent clients, each bound to a member, issue a seeded mix of requests
// on three names; inv/ret events; at quiescence a `final` event with the stored objects and version.
func TestVerifC18ApiConc(t *testing.T) {
	w := vx.NewWriter(t, "VERIF_OUT")
	defer w.Close()
	nScen := vx.EnvInt("VERIF_N", 8)
	members := vx.EnvInt("VERIF_MEMBERS", 2)
	e, err := c18Setup(members)
	if err != nil {
		w.Emit(vx.M{"ev": "setup-failed", "what": err.Error()})
		return
	}
	defer e.Close()
	rng := vx.Rand(181)
	var mkCounter int32
	var last c18LastContent
	for sc := 0; sc < nScen; sc++ {
		base, err := c18Wipe(e)
		if err != nil {
			w.Emit(vx.M{"ev": "setup-failed", "what": err.Error()})
			return
		}
		C := 2 + rng.Intn(4)
		R := 3 + rng.Intn(4)
		nNames := 1 + rng.Intn(3) // fewer names = more conflicts
		hot := sc%3 == 2          // every third scenario: mutations only, one name, no pauses
		opsMix := []string{"create", "create", "create", "update", "update", "delete", "delete", "get", "list"}
		if hot {
			C, R, nNames = 5, 8, 1
			opsMix = []string{"create", "update", "delete", "delete"}
		}
		jit := int64(0)
		if hot || sc%3 == 1 {
			jit = int64(500 + rng.Intn(3000))
		}
		atomic.StoreInt64(&e.jitter, jit)
		w.Emit(vx.M{"ev": "reset", "ver": base, "scen": sc, "clients": C, "members": len(e.handlers), "names": nNames, "hot": hot, "jitter_us": int(jit)})
		var wg sync.WaitGroup
		for c := 0; c < C; c++ {
			wg.Add(1)
			go func(c int, seed int64) {
				defer wg.Done()
				lr := vx.Rand(seed)
				p := fmt.Sprintf("c%d", c)
				h := e.handlers[c%len(e.handlers)]
				// the content (name, kind, marker) this client or - through `last` - any client had accepted last: every now
				// and then it is sent again as it is (the same PUT twice, an update equal to the created spec, by the same
				// or by another client, to the same or to the other member): a mutation that leaves the stored content unchanged
				var mine *c18Content
				for r := 0; r < R; r++ {
					name := c18Names[lr.Intn(nNames)]
					kind := []string{"K1", "K1", "K2"}[lr.Intn(3)]
					op := opsMix[lr.Intn(len(opsMix))]
					mk := 0
					resent := false
					switch op {
					case "create", "update":
						mk = int(atomic.AddInt32(&mkCounter, 1))
					case "delete", "get":
						kind = "none"
					case "list":
						kind, name = "none", "-"
					}
					var again *c18Content
					switch lr.Intn(5) {
					case 0, 1:
						again = mine
					case 2:
						again = last.Load()
					}
					if again != nil && again.scen == sc {
						op, name, kind, mk, resent = "update", again.name, again.kind, again.mk, true
						if lr.Intn(6) == 0 {
							op = "create"
						}
					}
					w.Emit(vx.M{"ev": "inv", "p": p, "op": op, "n": name, "k": kind, "mk": mk, "member": c % len(e.handlers), "resent": resent})
					rep := c18Do(h, op, name, kind, mk)
					ver := 0
					if rep.st == "ok" && (op == "create" || op == "update" || op == "delete") {
						ver = rep.ver
					}
					mine = nil
					if rep.st == "ok" && (op == "create" || op == "update") {
						mine = &c18Content{scen: sc, name: name, kind: kind, mk: mk}
						last.Store(mine)
					}
					w.Emit(vx.M{"ev": "ret", "p": p, "op": op, "st": rep.st, "code": rep.code, "ver": ver, "k": rep.k, "mk": rep.mk, "objs": rep.objs, "resent": resent})
					if !hot && lr.Intn(3) == 0 {
						time.Sleep(time.Duration(lr.Intn(3)) * time.Millisecond)
					}
				}
			}(c, rng.Int63())
		}
		wg.Wait()
		atomic.StoreInt64(&e.jitter, 0)
		l := c18Do(e.handlers[sc%len(e.handlers)], "list", "-", "none", 0)
		w.Emit(vx.M{"ev": "final", "st": l.st, "code": l.code, "objs": l.objs, "ver": l.ver})
	}
}

package cluster

// Harness for C18, cluster mutex part (DESIGN 5/C18): goroutines of one or several members contend
// for one lock name on an embedded single-node etcd; every Lock / Unlock call is logged at
// invocation and at return with a global sequence number.  ClusterMutex_CTrace (TLC) searches a
// linearisation against the contract: a Lock can only be granted while nobody holds, i.e. the
// interval [return of Lock, invocation of Unlock] of two goroutines never overlap.
//
//   TestVerifC18Mutex  - scenarios "A" (one handle object per member, shared by its goroutines; in half
//                        of them one member's handle has a short time-out and the others hold long),
//                        "H" (hand-off storms: back-to-back Lock/Unlock by several goroutines per
//                        member with randomly delayed etcd requests), "B" (two handle objects of one
//                        member for the same name), "L" (lease re-grant: a member whose lease keep-alive
//                        is made to fail once while one of its goroutines is inside the critical
//                        section - cluster.keepAliveLease grants the member a new lease -, then some
//                        component of that member asks for a cluster mutex of another name; its
//                        goroutines obtain their handle with cluster.Mutex(name) before every Lock, the
//                        other members contend all the time), "T" (same-member time-outs: one member's
//                        handle has a short time-out, one of its goroutines holds the lock for longer
//                        than that while other goroutines of the SAME member call Lock, again and
//                        again - whether they wait it out or give up at the deadline -, sometimes with
//                        another member contending), "R" (registry: on one member some goroutines keep
//                        the handle they fetched once, the others call cluster.Mutex(name) afresh before
//                        every Lock, all locking / unlocking back to back so that there is a waiter on the
//                        handle at nearly every Unlock), "W" (long holds: one goroutine stays inside its
//                        critical section for k x the request time-out of its handle, k from below 1 to
//                        above 10 - the time-out being the member's configured cluster-request-timeout
//                        (a member started with 1 s, member-f with 2 s, the default 10 s in the thorough
//                        tier) or a short one set on the handle -, while a goroutine of the same member
//                        waits in Lock, one of another member waits in Lock with a long time-out and one of
//                        another member calls Lock again and again with a short one, until the holder has
//                        left), each followed by probes: at quiescence every handle must be lockable again.

import (
	"context"
	"fmt"
	"math/rand"
	"os"
	"sync"
	"sync/atomic"
	"testing"
	"time"

	"github.com/phayes/freeport"
	clientv3 "go.etcd.io/etcd/client/v3"

	"github.com/megaease/easegress/pkg/env"
	"github.com/megaease/easegress/pkg/logger"
	"github.com/megaease/easegress/pkg/option"
	vx "github.com/megaease/easegress/pkg/verifx"
)

func init() { logger.InitNop() }

// c18Options builds the options of a member by hand (option.Parse would parse the test binary's
// flags) with every directory under `dir`.
func c18Options(dir, name, role string, primaryPeerURLs []string) *option.Options {
	return c18OptionsT(dir, name, role, primaryPeerURLs, "10s")
}

func c18OptionsT(dir, name, role string, primaryPeerURLs []string, requestTimeout string) *option.Options {
	opt := option.New()
	opt.Name = name
	opt.ClusterName = "verif-cluster"
	opt.ClusterRole = role
	opt.ClusterRequestTimeout = requestTimeout
	opt.HomeDir = dir
	opt.AbsHomeDir = dir
	opt.DataDir, opt.AbsDataDir = dir+"/data", dir+"/data"
	opt.LogDir, opt.AbsLogDir = dir+"/log", dir+"/log"
	opt.MemberDir, opt.AbsMemberDir = dir+"/member", dir+"/member"
	if role == "primary" {
		ports, err := freeport.GetFreePorts(3)
		if err != nil {
			panic(err)
		}
		opt.Cluster.ListenClientURLs = []string{fmt.Sprintf("http://localhost:%d", ports[0])}
		opt.Cluster.AdvertiseClientURLs = opt.Cluster.ListenClientURLs
		opt.Cluster.ListenPeerURLs = []string{fmt.Sprintf("http://localhost:%d", ports[1])}
		opt.Cluster.InitialAdvertisePeerURLs = opt.Cluster.ListenPeerURLs
		opt.Cluster.InitialCluster = map[string]string{name: opt.Cluster.InitialAdvertisePeerURLs[0]}
		opt.APIAddr = fmt.Sprintf("localhost:%d", ports[2])
	} else {
		opt.Cluster.PrimaryListenPeerURLs = primaryPeerURLs
		opt.APIAddr = "localhost:0"
	}
	if err := env.InitServerDir(opt); err != nil {
		panic(err)
	}
	return opt
}

// c18New runs cluster.New under a deadline (New retries forever when etcd cannot start, e.g.
// because another process took the port in the meantime).
func c18New(opt *option.Options) (*cluster, error) {
	type res struct {
		c   Cluster
		err error
	}
	ch := make(chan res, 1)
	go func() {
		defer func() {
			if r := recover(); r != nil {
				ch <- res{nil, fmt.Errorf("panic: %v", r)}
			}
		}()
		c, err := New(opt)
		ch <- res{c, err}
	}()
	select {
	case r := <-ch:
		if r.err != nil {
			return nil, r.err
		}
		return r.c.(*cluster), nil
	case <-time.After(90 * time.Second):
		return nil, fmt.Errorf("cluster.New did not become ready in 90s")
	}
}

// c18JitterKV delays every KV request of a member's etcd client by a random time while enabled (a slow
// network): it widens the windows between the steps of Lock / Unlock, it never changes their outcome.
type c18JitterKV struct {
	clientv3.KV
	maxMicros int64 // 0 = off
	mu        sync.Mutex
	rng       *rand.Rand
}

func (k *c18JitterKV) delay() {
	m := atomic.LoadInt64(&k.maxMicros)
	if m <= 0 {
		return
	}
	k.mu.Lock()
	d := k.rng.Int63n(m)
	k.mu.Unlock()
	time.Sleep(time.Duration(d) * time.Microsecond)
}

func (k *c18JitterKV) Delete(ctx context.Context, key string, opts ...clientv3.OpOption) (*clientv3.DeleteResponse, error) {
	k.delay()
	return k.KV.Delete(ctx, key, opts...)
}

func (k *c18JitterKV) Get(ctx context.Context, key string, opts ...clientv3.OpOption) (*clientv3.GetResponse, error) {
	k.delay()
	return k.KV.Get(ctx, key, opts...)
}

type c18JitterTxn struct {
	clientv3.Txn
	k *c18JitterKV
}

func (t *c18JitterTxn) If(cs ...clientv3.Cmp) clientv3.Txn {
	return &c18JitterTxn{t.Txn.If(cs...), t.k}
}
func (t *c18JitterTxn) Then(ops ...clientv3.Op) clientv3.Txn {
	return &c18JitterTxn{t.Txn.Then(ops...), t.k}
}
func (t *c18JitterTxn) Else(ops ...clientv3.Op) clientv3.Txn {
	return &c18JitterTxn{t.Txn.Else(ops...), t.k}
}
func (t *c18JitterTxn) Commit() (*clientv3.TxnResponse, error) {
	t.k.delay()
	return t.Txn.Commit()
}

func (k *c18JitterKV) Txn(ctx context.Context) clientv3.Txn { return &c18JitterTxn{k.KV.Txn(ctx), k} }

// c18FaultyLease makes the next KeepAliveOnce calls of a member's etcd client fail while armed (a
// keep-alive request lost on the network); everything else is passed through.
type c18FaultyLease struct {
	clientv3.Lease
	failNext int32 // number of KeepAliveOnce calls still to fail (atomic)
	failed   int32 // calls failed so far (atomic)
}

func (l *c18FaultyLease) KeepAliveOnce(ctx context.Context, id clientv3.LeaseID) (*clientv3.LeaseKeepAliveResponse, error) {
	for {
		n := atomic.LoadInt32(&l.failNext)
		if n <= 0 {
			break
		}
		if atomic.CompareAndSwapInt32(&l.failNext, n, n-1) {
			atomic.AddInt32(&l.failed, 1)
			return nil, fmt.Errorf("verif: keep-alive request lost")
		}
	}
	return l.Lease.KeepAliveOnce(ctx, id)
}

type c18Env struct {
	dir     string
	members []*cluster // members[0] is the primary with the embedded etcd
	jitter  []*c18JitterKV
	// the member of the scenarios L: a secondary with a short request time-out (= keep-alive period)
	// whose keep-alive can be made to fail; not among `members`
	faulty      *cluster
	faultyLease *c18FaultyLease
	// the member of the scenarios W: a secondary configured with a cluster request time-out of 1 s; not among `members`
	slow *cluster
}

// installJitter wraps the KV of the member's etcd client (before its session is created).
func (e *c18Env) installJitter(c *cluster, seed int64) error {
	cl, err := c.getClient()
	if err != nil {
		return err
	}
	j := &c18JitterKV{KV: cl.KV, rng: vx.Rand(seed)}
	cl.KV = j
	e.jitter = append(e.jitter, j)
	return nil
}

func (e *c18Env) setJitter(maxMicros int64) {
	for _, j := range e.jitter {
		atomic.StoreInt64(&j.maxMicros, maxMicros)
	}
}

func c18Setup(nSecondary int) (*c18Env, error) {
	dir, err := os.MkdirTemp("", "verif-c18-")
	if err != nil {
		return nil, err
	}
	e := &c18Env{dir: dir}
	var c *cluster
	for try := 0; try < 3; try++ {
		sub := fmt.Sprintf("%s/p%d", dir, try)
		os.MkdirAll(sub, 0o755)
		c, err = c18New(c18Options(sub, "member-1", "primary", nil))
		if err == nil {
			break
		}
	}
	if err != nil {
		os.RemoveAll(dir)
		return nil, err
	}
	e.members = append(e.members, c)
	if err := e.installJitter(c, 181); err != nil {
		e.Close()
		return nil, err
	}
	for i := 0; i < nSecondary; i++ {
		sub := fmt.Sprintf("%s/s%d", dir, i)
		os.MkdirAll(sub, 0o755)
		s, err := c18New(c18Options(sub, fmt.Sprintf("member-%d", i+2), "secondary", c.opt.Cluster.InitialAdvertisePeerURLs))
		if err != nil {
			e.Close()
			return nil, err
		}
		e.members = append(e.members, s)
		if err := e.installJitter(s, int64(182+i)); err != nil {
			e.Close()
			return nil, err
		}
	}
	return e, nil
}

// addFaulty starts the member of the scenarios L.
func (e *c18Env) addFaulty() error {
	sub := e.dir + "/f"
	os.MkdirAll(sub, 0o755)
	f, err := c18New(c18OptionsT(sub, "member-f", "secondary", e.members[0].opt.Cluster.InitialAdvertisePeerURLs, "2s"))
	if err != nil {
		return err
	}
	e.faulty = f
	cl, err := f.getClient()
	if err != nil {
		return err
	}
	e.faultyLease = &c18FaultyLease{Lease: cl.Lease}
	cl.Lease = e.faultyLease
	return nil
}

// addSlow starts the member of the scenarios W (cluster-request-timeout: 1s).
func (e *c18Env) addSlow() error {
	sub := e.dir + "/w"
	os.MkdirAll(sub, 0o755)
	c, err := c18New(c18OptionsT(sub, "member-w", "secondary", e.members[0].opt.Cluster.InitialAdvertisePeerURLs, "1s"))
	if err != nil {
		return err
	}
	e.slow = c
	return nil
}

func (e *c18Env) Close() {
	done := make(chan struct{})
	go func() {
		if e.slow != nil {
			wg := &sync.WaitGroup{}
			wg.Add(1)
			e.slow.Close(wg)
		}
		if e.faulty != nil {
			wg := &sync.WaitGroup{}
			wg.Add(1)
			e.faulty.Close(wg)
		}
		for i := len(e.members) - 1; i >= 0; i-- {
			wg := &sync.WaitGroup{}
			wg.Add(1)
			e.members[i].Close(wg)
		}
		close(done)
	}()
	select {
	case <-done:
	case <-time.After(30 * time.Second):
	}
	os.RemoveAll(e.dir)
}

// one handle object as used by a scenario
type c18Handle struct {
	id     string
	member int
	m      Mutex
	// fresh != nil: the handle is obtained anew (cluster.Mutex(name)) before every Lock call
	fresh func() (Mutex, error)
}

func (h *c18Handle) get() (Mutex, error) {
	if h.fresh != nil {
		return h.fresh()
	}
	return h.m, nil
}

type c18Worker struct {
	p       string
	h       *c18Handle
	rounds  int
	holdMin time.Duration
	holdMax time.Duration
	noPause bool
	seed    int64
	// holdFn != nil: called inside the critical section before the hold time (returns true when it did something)
	holdFn func() bool
	// holds != nil: the i-th granted Lock call is followed by a critical section of holds[i]; the worker calls Lock (at
	// most `rounds` times) until all of them are done, then sets *done
	holds     []time.Duration
	timeoutMs int // the request time-out of the handle (logged with the hold)
	done      *int32
	// until != nil: after its `rounds` calls the worker goes on (at most maxRounds calls in all) until *until is set
	until     *int32
	maxRounds int
}

var c18T0 = time.Now()

func c18Ms() int { return int(time.Since(c18T0) / time.Millisecond) }

const (
	c18Idle = iota
	c18InLock
	c18Holding
	c18InUnlock
)

// c18Scenario runs the workers to completion, then probes every handle. Returns false when a
// call got stuck (the goroutine is abandoned; the caller must not reuse the lock name).
func c18Scenario(w *vx.Writer, cfg vx.M, handles []*c18Handle, workers []c18Worker, probeTimeout time.Duration) (ok bool, maxInside int32) {
	w.Emit(cfg)
	var inside, maxIn int32
	state := make([]int32, len(workers))
	var lastProgress atomic.Int64
	lastProgress.Store(time.Now().UnixNano())
	var wg sync.WaitGroup
	for i := range workers {
		wg.Add(1)
		go func(i int) {
			defer wg.Done()
			wk := workers[i]
			rng := vx.Rand(wk.seed)
			granted := 0
			if wk.done != nil {
				defer atomic.StoreInt32(wk.done, 1)
			}
			for r := 0; ; r++ {
				if wk.holds != nil {
					if granted >= len(wk.holds) || r >= wk.rounds {
						break
					}
				} else if r >= wk.rounds {
					if wk.until == nil || atomic.LoadInt32(wk.until) != 0 || r >= wk.maxRounds {
						break
					}
				}
				if d := rng.Intn(4); d > 0 && !wk.noPause {
					time.Sleep(time.Duration(rng.Intn(20*d)) * time.Millisecond)
				}
				hm, herr := wk.h.get()
				if herr != nil {
					w.Emit(vx.M{"ev": "harness-error", "what": "cluster.Mutex: " + herr.Error()})
					return
				}
				atomic.StoreInt32(&state[i], c18InLock)
				w.Emit(vx.M{"ev": "inv", "p": wk.p, "op": "lock", "h": wk.h.id, "m": wk.h.member, "probe": false, "t": c18Ms()})
				err := hm.Lock()
				if err == nil {
					n := atomic.AddInt32(&inside, 1)
					for {
						o := atomic.LoadInt32(&maxIn)
						if n <= o || atomic.CompareAndSwapInt32(&maxIn, o, n) {
							break
						}
					}
					atomic.StoreInt32(&state[i], c18Holding)
				}
				lastProgress.Store(time.Now().UnixNano())
				w.Emit(vx.M{"ev": "ret", "p": wk.p, "op": "lock", "ok": err == nil, "t": c18Ms()})
				if err != nil {
					atomic.StoreInt32(&state[i], c18Idle)
					continue
				}
				if wk.holdFn != nil && wk.holdFn() {
					lastProgress.Store(time.Now().UnixNano())
				}
				if wk.holds != nil {
					w.Emit(vx.M{"ev": "hold", "p": wk.p, "m": wk.h.member, "ms": int(wk.holds[granted] / time.Millisecond), "timeout_ms": wk.timeoutMs, "t": c18Ms()})
					time.Sleep(wk.holds[granted])
					granted++
				} else if wk.holdMax > 0 {
					time.Sleep(wk.holdMin + time.Duration(rng.Int63n(int64(wk.holdMax))))
				}
				atomic.AddInt32(&inside, -1)
				atomic.StoreInt32(&state[i], c18InUnlock)
				w.Emit(vx.M{"ev": "inv", "p": wk.p, "op": "unlock", "t": c18Ms()})
				uerr := hm.Unlock()
				lastProgress.Store(time.Now().UnixNano())
				w.Emit(vx.M{"ev": "ret", "p": wk.p, "op": "unlock", "ok": uerr == nil})
				atomic.StoreInt32(&state[i], c18Idle)
			}
		}(i)
	}
	done := make(chan struct{})
	go func() { wg.Wait(); close(done) }()
	stuckAfter := 45 * time.Second
wait:
	for {
		select {
		case <-done:
			break wait
		case <-time.After(200 * time.Millisecond):
			if time.Since(time.Unix(0, lastProgress.Load())) < stuckAfter {
				continue
			}
			// no Lock or Unlock returned for stuckAfter: who is blocked, and is anybody holding?
			holding := false
			for i := range workers {
				if s := atomic.LoadInt32(&state[i]); s == c18Holding || s == c18InUnlock {
					holding = true
				}
			}
			if holding {
				// cannot happen with bounded hold times unless Unlock hangs: harness trouble
				w.Emit(vx.M{"ev": "harness-error", "what": "a holder made no progress"})
				return false, atomic.LoadInt32(&maxIn)
			}
			for i := range workers {
				if atomic.LoadInt32(&state[i]) == c18InLock {
					w.Emit(vx.M{"ev": "stuck", "p": workers[i].p, "op": "lock", "after_s": int(stuckAfter / time.Second)})
				}
			}
			return false, atomic.LoadInt32(&maxIn)
		}
	}
	// probes: no worker holds or contends any more. Every handle must be lockable again with a generous
	// time-out. The probes run concurrently: should the etcd client have left a key behind (a deadline
	// that fires inside the acquire transaction - etcd's recipe, trusted, not easegress code), the
	// owning member's own probe takes that key over and deletes it, and the others get their turn.
	type probeState struct {
		p    string
		done int32
	}
	probes := make([]*probeState, len(handles))
	var pwg sync.WaitGroup
	for i, h := range handles {
		ps := &probeState{p: fmt.Sprintf("g%d", i)}
		probes[i] = ps
		hm, herr := h.get()
		if herr != nil {
			w.Emit(vx.M{"ev": "harness-error", "what": "cluster.Mutex: " + herr.Error()})
			return false, atomic.LoadInt32(&maxIn)
		}
		if mm, isM := hm.(*mutex); isM {
			mm.timeout = probeTimeout
		}
		pwg.Add(1)
		go func(h *c18Handle, hm Mutex, ps *probeState) {
			defer pwg.Done()
			w.Emit(vx.M{"ev": "inv", "p": ps.p, "op": "lock", "h": h.id, "m": h.member, "probe": true})
			err := hm.Lock()
			atomic.StoreInt32(&ps.done, 1)
			w.Emit(vx.M{"ev": "ret", "p": ps.p, "op": "lock", "ok": err == nil})
			if err != nil {
				return
			}
			w.Emit(vx.M{"ev": "inv", "p": ps.p, "op": "unlock"})
			uerr := hm.Unlock()
			w.Emit(vx.M{"ev": "ret", "p": ps.p, "op": "unlock", "ok": uerr == nil})
		}(h, hm, ps)
	}
	pdone := make(chan struct{})
	go func() { pwg.Wait(); close(pdone) }()
	limit := time.Duration(len(handles))*probeTimeout + 30*time.Second
	select {
	case <-pdone:
	case <-time.After(limit):
		for _, ps := range probes {
			if atomic.LoadInt32(&ps.done) == 0 {
				w.Emit(vx.M{"ev": "stuck", "p": ps.p, "op": "lock", "after_s": int(limit / time.Second)})
			}
		}
		return false, atomic.LoadInt32(&maxIn)
	}
	return true, atomic.LoadInt32(&maxIn)
}

func TestVerifC18Mutex(t *testing.T) {
	w := vx.NewWriter(t, "VERIF_OUT")
	defer w.Close()
	nA := vx.EnvInt("VERIF_NA", 6)
	nB := vx.EnvInt("VERIF_NB", 2)
	nSec := vx.EnvInt("VERIF_SECONDARIES", 1)
	ce, err := c18Setup(nSec)
	if err != nil {
		w.Emit(vx.M{"ev": "setup-failed", "what": err.Error()})
		return
	}
	defer ce.Close()
	rng := vx.Rand(18)
	probeTimeout := 20 * time.Second
	scen := 0
	mk := func(member int, name, id string, timeout time.Duration) *c18Handle {
		m, err := ce.members[member].Mutex(name)
		if err != nil {
			t.Fatalf("cluster.Mutex: %v", err)
		}
		if timeout > 0 {
			m.(*mutex).timeout = timeout
		}
		return &c18Handle{id: id, member: member, m: m}
	}
	shortTimeouts := 0
	// ---- A: one handle object per member and name
	for i := 0; i < nA; i++ {
		scen++
		name := fmt.Sprintf("/verif/lock-%d", scen)
		nm := len(ce.members)
		var handles []*c18Handle
		var workers []c18Worker
		short := i%2 == 0 // half of the scenarios: one member's handle has a short time-out
		for m := 0; m < nm; m++ {
			to := 5 * time.Second
			if short && m == nm-1 {
				to = time.Duration(120+rng.Intn(280)) * time.Millisecond
				shortTimeouts++
			}
			h := mk(m, name, fmt.Sprintf("h%d", m), to)
			handles = append(handles, h)
			g := 1 + rng.Intn(3)
			if m == 0 && g < 2 {
				g = 2
			}
			for k := 0; k < g; k++ {
				hold := time.Duration(1+rng.Intn(60)) * time.Millisecond
				if short && m != nm-1 {
					hold = time.Duration(200+rng.Intn(500)) * time.Millisecond // make the short one time out
				}
				wk := c18Worker{p: fmt.Sprintf("g%d", len(workers)), h: h, rounds: 2 + rng.Intn(3), holdMax: hold, seed: rng.Int63()}
				if short && m != nm-1 {
					wk.holdMin, wk.rounds = 450*time.Millisecond, 2 // longer than any short time-out
				}
				workers = append(workers, wk)
			}
		}
		ok, maxIn := c18Scenario(w, vx.M{"ev": "reset", "cfg": "A", "scen": scen, "members": nm, "handles": len(handles),
			"workers": len(workers), "short": short}, handles, workers, probeTimeout)
		w.Emit(vx.M{"ev": "end", "scen": scen, "max_inside": int(maxIn), "completed": ok})
		if !ok {
			// abandoned goroutines may still log: stop here
			w.Emit(vx.M{"ev": "summary", "scenarios": scen, "short_timeout_scenarios": shortTimeouts, "aborted": true})
			return
		}
	}
	// ---- H: hand-off storms. Several goroutines per member share the member's one handle and lock /
	// unlock back to back with short holds, every member contends, and the members' etcd requests are
	// delayed at random: every Unlock hands the lock to a local waiter or to another member.
	nH := vx.EnvInt("VERIF_NH", 3)
	for i := 0; i < nH; i++ {
		scen++
		name := fmt.Sprintf("/verif/lock-%d", scen)
		nm := len(ce.members)
		var handles []*c18Handle
		var workers []c18Worker
		for m := 0; m < nm; m++ {
			h := mk(m, name, fmt.Sprintf("h%d", m), 5*time.Second)
			handles = append(handles, h)
			g := 2 + rng.Intn(2)
			for k := 0; k < g; k++ {
				workers = append(workers, c18Worker{p: fmt.Sprintf("g%d", len(workers)), h: h, rounds: 10 + rng.Intn(6), noPause: true,
					holdMin: 4 * time.Millisecond, holdMax: 8 * time.Millisecond, seed: rng.Int63()})
			}
		}
		ce.setJitter(int64(1000 + rng.Intn(5000)))
		ok, maxIn := c18Scenario(w, vx.M{"ev": "reset", "cfg": "H", "scen": scen, "members": nm, "handles": len(handles),
			"workers": len(workers), "short": false}, handles, workers, probeTimeout)
		ce.setJitter(0)
		w.Emit(vx.M{"ev": "end", "scen": scen, "max_inside": int(maxIn), "completed": ok})
		if !ok {
			w.Emit(vx.M{"ev": "summary", "scenarios": scen, "short_timeout_scenarios": shortTimeouts, "aborted": true})
			return
		}
	}
	// ---- L: the keep-alive of member-f's lease fails once while one of its goroutines holds the lock: the
	// member is granted a new lease (cluster.keepAliveLease); then another component of the member uses a
	// cluster mutex of another name. member-f's goroutines ask for their handle before every Lock call.
	nL := vx.EnvInt("VERIF_NL", 2)
	regrants := 0
	if nL > 0 {
		if err := ce.addFaulty(); err != nil {
			w.Emit(vx.M{"ev": "setup-failed", "what": "member-f: " + err.Error()})
			return
		}
	}
	for i := 0; i < nL; i++ {
		scen++
		name := fmt.Sprintf("/verif/lock-%d", scen)
		f, fl := ce.faulty, ce.faultyLease
		// the member's mutex object for the name (cluster.Mutex returns it again as long as the member keeps
		// its session) gets a generous time-out
		if h0, err := f.Mutex(name); err != nil {
			t.Fatalf("cluster.Mutex: %v", err)
		} else {
			h0.(*mutex).timeout = 8 * time.Second
		}
		hf := &c18Handle{id: "hf", member: len(ce.members), fresh: func() (Mutex, error) { return f.Mutex(name) }}
		handles := []*c18Handle{hf}
		grace := time.Duration(500+rng.Intn(400)) * time.Millisecond
		var faultStarted int32
		var regranted int32
		fault := func() bool {
			if !atomic.CompareAndSwapInt32(&faultStarted, 0, 1) {
				return false
			}
			before, err := f.getLease()
			if err != nil {
				w.Emit(vx.M{"ev": "fault", "what": "missed", "why": err.Error()})
				return true
			}
			w.Emit(vx.M{"ev": "fault", "what": "keep-alive fails", "lease": fmt.Sprintf("%x", int64(before))})
			atomic.StoreInt32(&fl.failNext, 1)
			changed := false
			for dl := time.Now().Add(15 * time.Second); time.Now().Before(dl) && !changed; time.Sleep(20 * time.Millisecond) {
				if cur, err := f.getLease(); err == nil && cur != before {
					changed = true
				}
			}
			atomic.StoreInt32(&fl.failNext, 0)
			if !changed {
				w.Emit(vx.M{"ev": "fault", "what": "missed", "why": "the member's lease did not change within 15 s"})
				return true
			}
			om, err := f.Mutex(name + "-other")
			if err == nil {
				if err = om.Lock(); err == nil {
					err = om.Unlock()
				}
			}
			cur, _ := f.getLease()
			w.Emit(vx.M{"ev": "fault", "what": "re-granted", "lease": fmt.Sprintf("%x", int64(cur)), "other_mutex_ok": err == nil})
			atomic.StoreInt32(&regranted, 1)
			// the lock is still held: the contenders get time to show otherwise
			time.Sleep(grace)
			return true
		}
		var workers []c18Worker
		for k := 0; k < 2; k++ {
			workers = append(workers, c18Worker{p: fmt.Sprintf("g%d", len(workers)), h: hf, rounds: 2, holdMax: 30 * time.Millisecond,
				seed: rng.Int63(), holdFn: fault})
		}
		for m := range ce.members {
			h := mk(m, name, fmt.Sprintf("h%d", m), 8*time.Second)
			handles = append(handles, h)
			for k := 0; k < 1+rng.Intn(2); k++ {
				workers = append(workers, c18Worker{p: fmt.Sprintf("g%d", len(workers)), h: h, rounds: 3 + rng.Intn(2), holdMax: 40 * time.Millisecond,
					seed: rng.Int63()})
			}
		}
		ok, maxIn := c18Scenario(w, vx.M{"ev": "reset", "cfg": "L", "scen": scen, "members": len(ce.members) + 1, "handles": len(handles),
			"workers": len(workers), "short": false}, handles, workers, probeTimeout)
		if atomic.LoadInt32(&regranted) == 1 {
			regrants++
		}
		w.Emit(vx.M{"ev": "end", "scen": scen, "max_inside": int(maxIn), "completed": ok, "regranted": atomic.LoadInt32(&regranted) == 1})
		if !ok {
			w.Emit(vx.M{"ev": "summary", "scenarios": scen, "short_timeout_scenarios": shortTimeouts, "lease_regrants": regrants, "aborted": true})
			return
		}
	}
	// ---- T: same-member time-outs. The handle of member M has a short time-out; g0 of M holds the lock for
	// longer than that, the other goroutines of M keep calling Lock meanwhile (with and without pauses).
	nT := vx.EnvInt("VERIF_NT", 2)
	for i := 0; i < nT; i++ {
		scen++
		name := fmt.Sprintf("/verif/lock-%d", scen)
		nm := len(ce.members)
		M := i % nm
		to := time.Duration(300+rng.Intn(200)) * time.Millisecond
		shortTimeouts++
		hM := mk(M, name, fmt.Sprintf("h%d", M), to)
		handles := []*c18Handle{hM}
		workers := []c18Worker{{p: "g0", h: hM, rounds: 2, noPause: true, holdMin: to + 200*time.Millisecond, holdMax: 300 * time.Millisecond, seed: rng.Int63()}}
		for k := 0; k < 2+rng.Intn(2); k++ {
			workers = append(workers, c18Worker{p: fmt.Sprintf("g%d", len(workers)), h: hM, rounds: 4 + rng.Intn(3), noPause: k%2 == 0,
				holdMin: 2 * time.Millisecond, holdMax: 30 * time.Millisecond, seed: rng.Int63()})
		}
		if i%2 == 1 && nm > 1 {
			o := (M + 1) % nm
			ho := mk(o, name, fmt.Sprintf("h%d", o), 5*time.Second)
			handles = append(handles, ho)
			workers = append(workers, c18Worker{p: fmt.Sprintf("g%d", len(workers)), h: ho, rounds: 3, holdMax: 40 * time.Millisecond, seed: rng.Int63()})
		}
		ok, maxIn := c18Scenario(w, vx.M{"ev": "reset", "cfg": "T", "scen": scen, "members": nm, "handles": len(handles),
			"workers": len(workers), "short": true, "timeout_ms": int(to / time.Millisecond)}, handles, workers, probeTimeout)
		w.Emit(vx.M{"ev": "end", "scen": scen, "max_inside": int(maxIn), "completed": ok})
		if !ok {
			w.Emit(vx.M{"ev": "summary", "scenarios": scen, "short_timeout_scenarios": shortTimeouts, "lease_regrants": regrants, "aborted": true})
			return
		}
	}
	// ---- R: the member's registry of mutexes. Two goroutines of member M keep the handle they fetched once,
	// two call cluster.Mutex(name) before every Lock; back-to-back Lock / Unlock with delayed etcd requests.
	nR := vx.EnvInt("VERIF_NR", 2)
	for i := 0; i < nR; i++ {
		scen++
		name := fmt.Sprintf("/verif/lock-%d", scen)
		nm := len(ce.members)
		M := i % nm
		mem := ce.members[M]
		kept := mk(M, name, fmt.Sprintf("h%d", M), 5*time.Second)
		fresh := &c18Handle{id: fmt.Sprintf("h%df", M), member: M, fresh: func() (Mutex, error) { return mem.Mutex(name) }}
		handles := []*c18Handle{kept, fresh}
		var workers []c18Worker
		for k := 0; k < 4; k++ {
			h := kept
			if k%2 == 1 {
				h = fresh
			}
			workers = append(workers, c18Worker{p: fmt.Sprintf("g%d", len(workers)), h: h, rounds: 8 + rng.Intn(5), noPause: k < 3,
				holdMin: 3 * time.Millisecond, holdMax: 18 * time.Millisecond, seed: rng.Int63()})
		}
		if i%2 == 1 && nm > 1 {
			o := (M + 1) % nm
			ho := mk(o, name, fmt.Sprintf("h%d", o), 5*time.Second)
			handles = append(handles, ho)
			workers = append(workers, c18Worker{p: fmt.Sprintf("g%d", len(workers)), h: ho, rounds: 4, holdMax: 20 * time.Millisecond, seed: rng.Int63()})
		}
		ce.setJitter(int64(500 + rng.Intn(3000)))
		ok, maxIn := c18Scenario(w, vx.M{"ev": "reset", "cfg": "R", "scen": scen, "members": nm, "handles": len(handles),
			"workers": len(workers), "short": false}, handles, workers, probeTimeout)
		ce.setJitter(0)
		w.Emit(vx.M{"ev": "end", "scen": scen, "max_inside": int(maxIn), "completed": ok})
		if !ok {
			w.Emit(vx.M{"ev": "summary", "scenarios": scen, "short_timeout_scenarios": shortTimeouts, "lease_regrants": regrants, "aborted": true})
			return
		}
	}
	// ---- W: long holds. One goroutine stays inside its critical section for k x the request time-out of its handle;
	// a goroutine of the same member waits in Lock meanwhile, one of another member waits in Lock with a long time-out,
	// one of another member calls Lock with a short time-out again and again until the holder has left for good.
	nW := vx.EnvInt("VERIF_NW", 2)
	if nW > 0 {
		if err := ce.addSlow(); err != nil {
			w.Emit(vx.M{"ev": "setup-failed", "what": "member-w: " + err.Error()})
			return
		}
	}
	ms := func(f float64, unit time.Duration) time.Duration { return time.Duration(f * float64(unit)) }
	for i := 0; i < nW; i++ {
		nm := len(ce.members)
		// the holder's member, the handle's time-out (0 = as configured for the member) and the hold times
		var hc *cluster
		hid, hmem := "hw", nm+1
		var configured, override time.Duration
		var holds []time.Duration
		switch i {
		case 0: // configured 1 s: > 3 x, > 4 x
			hc, configured = ce.slow, time.Second
			holds = []time.Duration{ms(4.2+0.4*rng.Float64(), time.Second)}
		case 1: // 300 ms set on the handle of a regular member: > 10 x
			hc, hid, hmem, configured, override = ce.members[nm-1], fmt.Sprintf("h%d", nm-1), nm-1, 10*time.Second, 300*time.Millisecond
			holds = []time.Duration{ms(10.5+rng.Float64(), override)}
		case 2: // configured 1 s: > 1 x, > 2 x, > 6 x
			hc, configured = ce.slow, time.Second
			holds = []time.Duration{ms(1.2+0.6*rng.Float64(), time.Second), ms(2.2+0.6*rng.Float64(), time.Second), ms(6.2+0.6*rng.Float64(), time.Second)}
		case 3: // member-f, configured 2 s: > 3 x
			if ce.faulty == nil {
				continue
			}
			hc, hid, hmem, configured = ce.faulty, "hf", nm, 2*time.Second
			holds = []time.Duration{ms(3.2+0.3*rng.Float64(), 2*time.Second)}
		case 4: // the default 10 s of the primary: > 3 x
			hc, hid, hmem, configured = ce.members[0], "h0", 0, 10*time.Second
			holds = []time.Duration{ms(3.3+0.2*rng.Float64(), 10*time.Second)}
		case 5: // configured 1 s: > 10 x
			hc, configured = ce.slow, time.Second
			holds = []time.Duration{ms(10.2+0.6*rng.Float64(), time.Second)}
		default: // a short time-out set on the handle of a regular member, k = 0.5 .. 8
			to := time.Duration(200+rng.Intn(300)) * time.Millisecond
			hc, hid, hmem, configured, override = ce.members[i%nm], fmt.Sprintf("h%d", i%nm), i%nm, 10*time.Second, to
			holds = []time.Duration{ms(0.5+8*rng.Float64(), to), ms(3.1+2*rng.Float64(), to)}
		}
		scen++
		name := fmt.Sprintf("/verif/lock-%d", scen)
		hm, err := hc.Mutex(name)
		if err != nil {
			t.Fatalf("cluster.Mutex: %v", err)
		}
		eff := configured
		if override > 0 {
			hm.(*mutex).timeout = override
			eff = override
		}
		hh := &c18Handle{id: hid, member: hmem, m: hm}
		handles := []*c18Handle{hh}
		var done int32
		// the holder (it goes first: no pause; should its own Lock time out it tries again), a waiter of the same member
		workers := []c18Worker{
			{p: "g0", h: hh, rounds: len(holds) + 6, noPause: true, holds: holds, timeoutMs: int(eff / time.Millisecond), done: &done, seed: rng.Int63()},
			{p: "g1", h: hh, rounds: 2, holdMin: 2 * time.Millisecond, holdMax: 20 * time.Millisecond, seed: rng.Int63()},
		}
		// contenders of other members: one that waits long, one that gives up quickly and comes back
		var others []int
		for m := 0; m < nm; m++ {
			if m != hmem {
				others = append(others, m)
			}
		}
		var total time.Duration
		for _, h := range holds {
			total += h
		}
		for k := 0; k < 2; k++ {
			o := others[(i+k)%len(others)]
			if k == 1 && len(others) == 1 && ce.slow != nil && hc != ce.slow {
				// one regular member only: the quick contender is member-w, with its configured time-out
				hs, err := ce.slow.Mutex(name)
				if err != nil {
					t.Fatalf("cluster.Mutex: %v", err)
				}
				ho := &c18Handle{id: "hw", member: nm + 1, m: hs}
				handles = append(handles, ho)
				workers = append(workers, c18Worker{p: fmt.Sprintf("g%d", len(workers)), h: ho, rounds: 2, until: &done, maxRounds: 8 + int(total/time.Second)*2,
					holdMin: 2 * time.Millisecond, holdMax: 20 * time.Millisecond, seed: rng.Int63()})
				continue
			}
			hidO := fmt.Sprintf("h%d", o)
			var ho *c18Handle
			for _, x := range handles {
				if x.id == hidO {
					ho = x
				}
			}
			if k == 0 || ho == nil {
				to := total + 8*time.Second // waits in Lock until the holder leaves
				if k == 1 {
					to = time.Duration(250+rng.Intn(150)) * time.Millisecond
					if i == 4 {
						to = 0 // as configured (10 s)
					}
				}
				ho = mk(o, name, hidO, to)
				handles = append(handles, ho)
			}
			wk := c18Worker{p: fmt.Sprintf("g%d", len(workers)), h: ho, rounds: 2, holdMin: 2 * time.Millisecond, holdMax: 20 * time.Millisecond, seed: rng.Int63()}
			if k == 1 {
				wk.until, wk.maxRounds = &done, 8+int(total/(200*time.Millisecond))
			}
			workers = append(workers, wk)
		}
		ok, maxIn := c18Scenario(w, vx.M{"ev": "reset", "cfg": "W", "scen": scen, "members": nm + 1, "handles": len(handles),
			"workers": len(workers), "short": override > 0, "timeout_ms": int(eff / time.Millisecond), "configured": override == 0}, handles, workers, probeTimeout)
		w.Emit(vx.M{"ev": "end", "scen": scen, "max_inside": int(maxIn), "completed": ok})
		if !ok {
			w.Emit(vx.M{"ev": "summary", "scenarios": scen, "short_timeout_scenarios": shortTimeouts, "lease_regrants": regrants, "aborted": true})
			return
		}
	}
	// ---- B: two handle objects of member 0 for the same name (cluster.Mutex called twice)
	for i := 0; i < nB; i++ {
		scen++
		name := fmt.Sprintf("/verif/lock-%d", scen)
		h1a, h1b := mk(0, name, "h0a", 5*time.Second), mk(0, name, "h0b", 5*time.Second)
		handles := []*c18Handle{h1a, h1b}
		workers := []c18Worker{
			{p: "g0", h: h1a, rounds: 2, holdMax: 150 * time.Millisecond, seed: rng.Int63()},
			{p: "g1", h: h1b, rounds: 2, holdMax: 150 * time.Millisecond, seed: rng.Int63()},
		}
		if i%2 == 1 && len(ce.members) > 1 {
			h2 := mk(1, name, "h1", 5*time.Second)
			handles = append(handles, h2)
			workers = append(workers, c18Worker{p: "g2", h: h2, rounds: 2, holdMax: 100 * time.Millisecond, seed: rng.Int63()})
		}
		ok, maxIn := c18Scenario(w, vx.M{"ev": "reset", "cfg": "B", "scen": scen, "members": len(ce.members), "handles": len(handles),
			"workers": len(workers), "short": false}, handles, workers, probeTimeout)
		w.Emit(vx.M{"ev": "end", "scen": scen, "max_inside": int(maxIn), "completed": ok})
		if !ok {
			break
		}
	}
	w.Emit(vx.M{"ev": "summary", "scenarios": scen, "short_timeout_scenarios": shortTimeouts, "lease_regrants": regrants})
}

package cluster

// Harness for C19 (DESIGN 5/C19): real syncers on an embedded single-node etcd.
//
// A wave runs S scenarios in parallel, each on its own prefix: one writer goroutine (puts, same-value
// puts, deletes, delete-then-recreate, multi-key transactions, DeletePrefix, keys outside the
// prefix; bursts) and up to four consumers (Sync, SyncRaw, SyncPrefix, SyncRawPrefix; fast and
// slow readers).  In a faulty wave all writers meet at a barrier, the etcd server is stopped and
// started again (data dir kept).  Every other faulty wave restarts it first with the peer listener
// moved (the member's client cannot reach it), lets each writer do a burst through a fresh client,
// compacts the store and restarts normally: the syncers' resumed watches are then cancelled.  After the last
// write the harness waits until every consumer's view equals the content read back from the store
// (or a generous deadline passes) and logs the view as a `conv` claim.  Syncer_Trace (TLC) decides.
//
// Keys: k1 (the key the single-key consumers watch), k1x (a sibling whose name has k1 as a string
// prefix: under the prefix, outside a watch of k1), k2, k3.  The first scenario of every even wave is
// "big": before its consumers start, the prefix is filled with c19Fillers keys that sort between k2 and
// k3 and are never written again (k1 and k3 are then the first and the last key of a range read over
// far more keys than any sensible page size), its writer uses a value it never used before for every
// write (a content mixed from two store revisions is then no content the store ever had) and hammers
// transactions over k1 / k1x / k2 and k3 back to back while the consumers pull.  The fillers appear in
// contents as the pseudo-key "fill": "f1" = exactly the fillers with their values, "none" = no filler,
// anything else is written out ("bad:...") and matches no content of the store.
//
// Endings: the writer keeps the order in which the keys were last modified; a scenario's history ends with
// an operation chosen by that order - the deletion of the most recently modified key while older keys
// remain (after the put was delivered or right behind it), the deletion of the oldest key, a same-value
// put, a delete-then-recreate - or just with whatever the random burst did last.
//
// Outages that span several pulls while the content does not change: (1) every other plain-restart wave
// keeps the server down for more than three request time-outs (a pull against a stopped server fails
// when its request context expires), lets the last content be delivered before the stop and leaves the
// store alone for some pull intervals after the restart; (2) in every wave one scenario's syncer
// belongs to a member whose etcd requests can be made to fail ("lossy": a cluster value on its own etcd
// client whose KV fails every Get while the fault is on - a partition between that member and the
// server; the watch stream stays up): with a non-empty, delivered content every run loop of the
// scenario sees 3..6 pulls fail in a row (counted at the client) while the store is not written, then
// the requests work again and the store is left alone for some pull intervals; a second outage has
// writes (through the healthy member) going on meanwhile.

import (
	"context"
	"fmt"
	"math/rand"
	"os"
	"sync"
	"testing"
	"time"

	"github.com/phayes/freeport"
	"go.etcd.io/etcd/api/v3/mvccpb"
	clientv3 "go.etcd.io/etcd/client/v3"
	"go.etcd.io/etcd/server/v3/embed"

	"github.com/megaease/easegress/pkg/env"
	"github.com/megaease/easegress/pkg/logger"
	"github.com/megaease/easegress/pkg/option"
	vx "github.com/megaease/easegress/pkg/verifx"
)

func init() { logger.InitNop() }

const (
	c19PullInterval = 200 * time.Millisecond
	c19ConvDeadline = 40 * time.Second
)

var c19Keys = []string{"k1", "k1x", "k2", "k3"}

// keys of a content as logged (Keys of Syncer_Trace)
var c19ViewKeys = []string{"k1", "k1x", "k2", "k3", "fill"}

const (
	c19Fillers    = 1300
	c19FillerVal  = "f"
	c19FillerName = "k2f%05d" // sorts after k2, before k3
)

func c19Options(dir string) *option.Options {
	opt := option.New()
	opt.Name = "member-1"
	opt.ClusterName = "verif-cluster"
	opt.ClusterRole = "primary"
	opt.ClusterRequestTimeout = "4s"
	opt.HomeDir = dir
	opt.AbsHomeDir = dir
	opt.DataDir, opt.AbsDataDir = dir+"/data", dir+"/data"
	opt.LogDir, opt.AbsLogDir = dir+"/log", dir+"/log"
	opt.MemberDir, opt.AbsMemberDir = dir+"/member", dir+"/member"
	ports, err := freeport.GetFreePorts(3)
	if err != nil {
		panic(err)
	}
	opt.Cluster.ListenClientURLs = []string{fmt.Sprintf("http://localhost:%d", ports[0])}
	opt.Cluster.AdvertiseClientURLs = opt.Cluster.ListenClientURLs
	opt.Cluster.ListenPeerURLs = []string{fmt.Sprintf("http://localhost:%d", ports[1])}
	opt.Cluster.InitialAdvertisePeerURLs = opt.Cluster.ListenPeerURLs
	opt.Cluster.InitialCluster = map[string]string{opt.Name: opt.Cluster.InitialAdvertisePeerURLs[0]}
	opt.APIAddr = fmt.Sprintf("localhost:%d", ports[2])
	if err := env.InitServerDir(opt); err != nil {
		panic(err)
	}
	return opt
}

func c19New(opt *option.Options) (*cluster, error) {
	type res struct {
		c   Cluster
		err error
	}
	ch := make(chan res, 1)
	go func() {
		defer func() {
			if r := recover(); r != nil {
				ch <- res{nil, fmt.Errorf("panic: %v", r)}
			}
		}()
		c, err := New(opt)
		ch <- res{c, err}
	}()
	select {
	case r := <-ch:
		if r.err != nil {
			return nil, r.err
		}
		return r.c.(*cluster), nil
	case <-time.After(90 * time.Second):
		return nil, fmt.Errorf("cluster.New did not become ready in 90s")
	}
}

// c19Restart stops the embedded etcd server and starts it again on the same directories (what
// cluster.StartServer does, without the goroutine that re-registers the cluster name through the
// member's own client and panics when that client has not reconnected yet).
func c19Stop(c *cluster) { c.closeServer() }

func c19Start(c *cluster, altPeerURL string) error {
	c.serverMutex.Lock()
	defer c.serverMutex.Unlock()
	cfg, err := CreateStaticClusterEtcdConfig(c.opt)
	if err != nil {
		return err
	}
	if altPeerURL != "" {
		// the member's own client dials the peer URL (cluster.getClient uses opt.GetPeerURLs()): with
		// the peer listener moved, the server is up for a client of the client URL only
		u, err := option.ParseURLs([]string{altPeerURL})
		if err != nil {
			return err
		}
		cfg.LPUrls = u
	}
	server, err := embed.StartEtcd(cfg)
	if err != nil {
		return err
	}
	select {
	case <-server.Server.ReadyNotify():
	case <-time.After(60 * time.Second):
		closeEtcdServer(server)
		return fmt.Errorf("etcd did not become ready after the restart")
	}
	c.server = server
	return nil
}

// c19LossyKV fails every Get of a member's etcd client while `on` (the request is lost; the caller gets
// an error at once) and counts the failed requests per requested key.
type c19LossyKV struct {
	clientv3.KV
	mu     sync.Mutex
	on     bool
	failed map[string]int
}

func (k *c19LossyKV) Get(ctx context.Context, key string, opts ...clientv3.OpOption) (*clientv3.GetResponse, error) {
	k.mu.Lock()
	if k.on {
		k.failed[key]++
		k.mu.Unlock()
		return nil, fmt.Errorf("verif: request lost: %w", context.DeadlineExceeded)
	}
	k.mu.Unlock()
	return k.KV.Get(ctx, key, opts...)
}

func (k *c19LossyKV) set(on bool) {
	k.mu.Lock()
	k.on = on
	if on {
		k.failed = map[string]int{}
	}
	k.mu.Unlock()
}

func (k *c19LossyKV) count(key string) int {
	k.mu.Lock()
	defer k.mu.Unlock()
	return k.failed[key]
}

// c19LossyMember is a second member value on the same options with its own etcd client (no embedded
// server, no background goroutines): everything the syncer uses - getClient, GetRaw, GetRawPrefix, the
// watcher - is the real code.
func c19LossyMember(c *cluster) (*cluster, *c19LossyKV, error) {
	cli, err := clientv3.New(clientv3.Config{Endpoints: c.opt.GetPeerURLs(), DialTimeout: 10 * time.Second})
	if err != nil {
		return nil, nil, err
	}
	lk := &c19LossyKV{KV: cli.KV, failed: map[string]int{}}
	cli.KV = lk
	return &cluster{opt: c.opt, requestTimeout: c.requestTimeout, client: cli, done: make(chan struct{})}, lk, nil
}

// per-scenario event log with its own sequence numbers
type c19Log struct {
	mu sync.Mutex
	ev []vx.M
}

func (l *c19Log) Emit(m vx.M) {
	l.mu.Lock()
	defer l.mu.Unlock()
	m["seq"] = len(l.ev) + 1
	l.ev = append(l.ev, m)
}

type c19Consumer struct {
	id   string
	kind string // "key" | "prefix"
	api  string // Sync | SyncRaw | SyncPrefix | SyncRawPrefix
	slow time.Duration
	// a stalling consumer stops reading once for `stall` (much longer than the pull interval), before
	// its first read (stallAfter = 0) or after its stallAfter-th snapshot; -1 = never
	stallAfter int
	stall      time.Duration
	mu         sync.Mutex
	view       map[string]string
	n          int
}

func c19EmptyView() map[string]string {
	m := map[string]string{}
	for _, k := range c19ViewKeys {
		m[k] = "none"
	}
	return m
}

func c19ViewM(v map[string]string) vx.M {
	m := vx.M{}
	for _, k := range c19ViewKeys {
		m[k] = v[k]
	}
	return m
}

func c19IsKey(k string) bool {
	for _, x := range c19Keys {
		if x == k {
			return true
		}
	}
	return false
}

// c19View turns a delivered (or read back) map short key -> value into a content over c19ViewKeys.
func c19View(m map[string]string) map[string]string {
	v := c19EmptyView()
	fillers, bad := 0, ""
	for k, val := range m {
		switch {
		case c19IsKey(k):
			v[k] = val
		case len(k) == 8 && k[:3] == "k2f":
			fillers++
			if val != c19FillerVal && bad == "" {
				bad = "bad:value-of-" + k
			}
		default:
			if bad == "" {
				bad = "bad:unknown-key-" + k
			}
		}
	}
	switch {
	case bad != "":
		v["fill"] = bad
	case fillers == c19Fillers:
		v["fill"] = "f1"
	case fillers != 0:
		v["fill"] = fmt.Sprintf("bad:%d-of-%d-fillers", fillers, c19Fillers)
	}
	return v
}

type c19Scenario struct {
	id       int
	prefix   string
	log      *c19Log
	c        *cluster
	syncer   Syncer
	cons     []*c19Consumer
	rng      *rand.Rand
	stalling bool
	big      bool              // filled prefix, never-repeated values, hammering transactions
	nval     int               // big: values used so far
	content  map[string]string // what the writer believes (only used to choose interesting operations)
	failed   string
	modSeq   map[string]int // per present key of c19Keys: number of the write that last put it (modification order)
	nmod     int
	endKind  string      // how the history ends, see ending()
	sc       *cluster    // the member the syncer belongs to (c, or the lossy member)
	lossy    *c19LossyKV // != nil: the syncer's member can be cut off from the server
	outages  int         // lossy: outages with unchanged content during which every run loop saw >= 3 failed pulls
}

func (s *c19Scenario) key(k string) string { return s.prefix + k }

// recv records one snapshot of a consumer. `m` maps short key names to values. The view and the
// log are updated together under the consumer's lock (converge reads both under the same lock).
func (s *c19Scenario) recv(cn *c19Consumer, m map[string]string) {
	v := c19View(m)
	cn.mu.Lock()
	cn.view = v
	cn.n++
	s.log.Emit(vx.M{"ev": "snap", "c": cn.id, "val": c19ViewM(v)})
	cn.mu.Unlock()
}

func (s *c19Scenario) short(full string) string {
	if len(full) > len(s.prefix) && full[:len(s.prefix)] == s.prefix {
		return full[len(s.prefix):]
	}
	return "?" + full
}

func (s *c19Scenario) startConsumers() error {
	if s.sc == nil {
		s.sc = s.c
	}
	sy, err := s.sc.Syncer(c19PullInterval)
	if err != nil {
		return err
	}
	s.syncer = sy
	for _, cn := range s.cons {
		cn := cn
		cn.view = c19EmptyView()
		keyName := "-"
		if cn.kind == "key" {
			keyName = "k1"
		}
		s.log.Emit(vx.M{"ev": "start", "c": cn.id, "kind": cn.kind, "key": keyName, "api": cn.api, "slow_ms": int(cn.slow / time.Millisecond),
			"stall_after": cn.stallAfter, "stall_ms": int(cn.stall / time.Millisecond)})
		prng := vx.Rand(s.rng.Int63())
		got := 0
		pause := func() {
			got++
			if got == cn.stallAfter {
				time.Sleep(cn.stall)
			}
			if cn.slow > 0 {
				time.Sleep(time.Duration(prng.Intn(int(cn.slow))))
			}
		}
		before := func() {
			if cn.stallAfter == 0 {
				time.Sleep(cn.stall)
			}
		}
		switch cn.api {
		case "Sync":
			ch, err := sy.Sync(s.key("k1"))
			if err != nil {
				return err
			}
			go func() {
				before()
				for v := range ch {
					m := map[string]string{}
					if v != nil {
						m["k1"] = *v
					}
					s.recv(cn, m)
					pause()
				}
			}()
		case "SyncRaw":
			ch, err := sy.SyncRaw(s.key("k1"))
			if err != nil {
				return err
			}
			go func() {
				before()
				for kv := range ch {
					m := map[string]string{}
					if kv != nil {
						m[s.short(string(kv.Key))] = string(kv.Value)
					}
					s.recv(cn, m)
					pause()
				}
			}()
		case "SyncPrefix":
			ch, err := sy.SyncPrefix(s.prefix)
			if err != nil {
				return err
			}
			go func() {
				before()
				for kvs := range ch {
					m := map[string]string{}
					for k, v := range kvs {
						m[s.short(k)] = v
					}
					s.recv(cn, m)
					pause()
				}
			}()
		case "SyncRawPrefix":
			ch, err := sy.SyncRawPrefix(s.prefix)
			if err != nil {
				return err
			}
			go func() {
				before()
				for kvs := range ch {
					m := map[string]string{}
					for k, kv := range kvs {
						var x *mvccpb.KeyValue = kv
						m[s.short(k)] = string(x.Value)
					}
					s.recv(cn, m)
					pause()
				}
			}()
		}
	}
	return nil
}

func c19KeepSet() vx.M {
	set := vx.M{}
	for _, k := range c19ViewKeys {
		set[k] = "keep"
	}
	return set
}

// fill puts the fillers (chunks of 100 per transaction), logged as one write of the pseudo-key: no
// consumer exists yet, nobody can observe a partly filled prefix.
func (s *c19Scenario) fill() {
	set := c19KeepSet()
	set["fill"] = "f1"
	s.log.Emit(vx.M{"ev": "w.inv", "op": "fill", "set": set})
	var err error
	val := c19FillerVal
	for i := 0; i < c19Fillers && err == nil; i += 100 {
		kvs := map[string]*string{}
		for j := i; j < i+100 && j < c19Fillers; j++ {
			kvs[s.key(fmt.Sprintf(c19FillerName, j))] = &val
		}
		err = s.c.PutAndDelete(kvs)
	}
	s.content["fill"] = "f1"
	s.log.Emit(vx.M{"ev": "w.ret", "op": "fill", "ok": err == nil})
	if err != nil {
		s.failed = fmt.Sprintf("filling the prefix failed: %v", err)
	}
}

// one write through the cluster API (cli == nil) or through a fresh etcd client; hammer = a transaction
// that changes one of the first keys of the prefix together with its last key
func (s *c19Scenario) write(cli *clientv3.Client, hammer bool) {
	if s.failed != "" {
		return
	}
	set := c19KeepSet()
	val := s.newVal
	k := c19Keys[s.rng.Intn(len(c19Keys))]
	switch x := s.rng.Intn(10); {
	case x < 4:
		k = "k1" // the key the single-key consumers watch
	case x < 6:
		k = "k1x" // its sibling: the watched key is a string prefix of this one
	}
	var err error
	op := ""
	ctx, cancel := context.WithTimeout(context.Background(), 8*time.Second)
	defer cancel()
	x := s.rng.Intn(100)
	if hammer || (s.big && x >= 80 && x < 88) {
		x = 55 // big scenarios keep their fillers: no DeletePrefix
	}
	switch {
	case x < 35: // put
		v := val()
		if s.rng.Intn(4) == 0 && s.content[k] != "none" {
			v = s.content[k] // same-value put
		}
		op, set[k] = "put", v
		s.log.Emit(vx.M{"ev": "w.inv", "op": op, "set": set})
		if cli != nil {
			_, err = cli.Put(ctx, s.key(k), v)
		} else {
			err = s.c.Put(s.key(k), v)
		}
	case x < 55: // delete (also of an absent key)
		op, set[k] = "del", "none"
		s.log.Emit(vx.M{"ev": "w.inv", "op": op, "set": set})
		if cli != nil {
			_, err = cli.Delete(ctx, s.key(k))
		} else {
			err = s.c.Delete(s.key(k))
		}
	case x < 80: // transaction over two or three keys
		kvs := map[string]*string{}
		var chosen []string
		if hammer {
			chosen = []string{[]string{"k1", "k1", "k1x", "k2"}[s.rng.Intn(4)], "k3"}
			if s.rng.Intn(3) == 0 {
				chosen = append(chosen, "k2")
			}
		} else {
			n := 2 + s.rng.Intn(2)
			for _, i := range s.rng.Perm(len(c19Keys))[:n] {
				chosen = append(chosen, c19Keys[i])
			}
		}
		for _, kk := range chosen {
			if s.rng.Intn(3) == 0 && !(hammer && s.rng.Intn(2) == 0) {
				kvs[s.key(kk)] = nil
				set[kk] = "none"
			} else {
				v := val()
				kvs[s.key(kk)] = &v
				set[kk] = v
			}
		}
		op = "txn"
		s.log.Emit(vx.M{"ev": "w.inv", "op": op, "set": set})
		if cli != nil {
			var ops []clientv3.Op
			for kk, v := range kvs {
				if v == nil {
					ops = append(ops, clientv3.OpDelete(kk))
				} else {
					ops = append(ops, clientv3.OpPut(kk, *v))
				}
			}
			_, err = cli.Txn(ctx).Then(ops...).Commit()
		} else {
			err = s.c.PutAndDelete(kvs)
		}
	case x < 88: // delete the whole prefix
		op = "delprefix"
		for _, kk := range c19ViewKeys {
			set[kk] = "none"
		}
		s.log.Emit(vx.M{"ev": "w.inv", "op": op, "set": set})
		if cli != nil {
			_, err = cli.Delete(ctx, s.prefix, clientv3.WithPrefix())
		} else {
			err = s.c.DeletePrefix(s.prefix)
		}
	default: // a key outside the prefix (sibling whose name extends the prefix' parent)
		op = "outside"
		s.log.Emit(vx.M{"ev": "w.inv", "op": op, "set": set})
		out := s.prefix[:len(s.prefix)-1] + "x/k1"
		if cli != nil {
			_, err = cli.Put(ctx, out, val())
		} else {
			err = s.c.Put(out, val())
		}
	}
	s.wrote(set)
	s.log.Emit(vx.M{"ev": "w.ret", "op": op, "ok": err == nil})
	if err != nil {
		s.failed = fmt.Sprintf("write %s failed: %v", op, err)
	}
}

func (s *c19Scenario) newVal() string {
	if s.big {
		s.nval++
		return fmt.Sprintf("u%d", s.nval)
	}
	return []string{"v1", "v2", "v3"}[s.rng.Intn(3)]
}

// wrote updates what the writer believes: the content and the order of the keys' last modifications
func (s *c19Scenario) wrote(set vx.M) {
	s.nmod++
	for kk, v := range set {
		if v == "keep" {
			continue
		}
		s.content[kk] = v.(string)
		if !c19IsKey(kk) {
			continue
		}
		if v == "none" {
			delete(s.modSeq, kk)
		} else {
			s.modSeq[kk] = s.nmod
		}
	}
}

// single performs one put (v != nil) or delete of key k through the cluster API
func (s *c19Scenario) single(k string, v *string) {
	if s.failed != "" {
		return
	}
	set := c19KeepSet()
	var err error
	op := "put"
	if v == nil {
		op, set[k] = "del", "none"
		s.log.Emit(vx.M{"ev": "w.inv", "op": op, "set": set})
		err = s.c.Delete(s.key(k))
	} else {
		set[k] = *v
		s.log.Emit(vx.M{"ev": "w.inv", "op": op, "set": set})
		err = s.c.Put(s.key(k), *v)
	}
	s.wrote(set)
	s.log.Emit(vx.M{"ev": "w.ret", "op": op, "ok": err == nil})
	if err != nil {
		s.failed = fmt.Sprintf("write %s failed: %v", op, err)
	}
}

// present keys of c19Keys ordered by their last modification (oldest first)
func (s *c19Scenario) byAge() []string {
	var ks []string
	for _, k := range c19Keys {
		if _, ok := s.modSeq[k]; ok {
			ks = append(ks, k)
		}
	}
	for i := 1; i < len(ks); i++ {
		for j := i; j > 0 && s.modSeq[ks[j]] < s.modSeq[ks[j-1]]; j-- {
			ks[j], ks[j-1] = ks[j-1], ks[j]
		}
	}
	return ks
}

// settle gives the syncers time to pull and deliver the current content (or not: a short pause)
func (s *c19Scenario) settle(long bool) {
	if long {
		time.Sleep(2*c19PullInterval + time.Duration(s.rng.Intn(150))*time.Millisecond)
	} else {
		time.Sleep(time.Duration(s.rng.Intn(40)) * time.Millisecond)
	}
}

// ending performs the last operations of the scenario's history, chosen by the keys' modification order.
func (s *c19Scenario) ending() {
	if s.failed != "" {
		return
	}
	switch s.endKind {
	case "del-newest":
		// some key k becomes the most recently modified one while at least one older key remains; k is deleted
		k := c19Keys[s.rng.Intn(len(c19Keys))]
		others := 0
		for _, o := range s.byAge() {
			if o != k {
				others++
			}
		}
		if others == 0 {
			o := k
			for o == k {
				o = c19Keys[s.rng.Intn(len(c19Keys))]
			}
			v := s.newVal()
			s.single(o, &v)
		}
		v := s.newVal()
		s.single(k, &v)
		s.settle(s.rng.Intn(4) > 0)
		s.single(k, nil)
	case "del-oldest":
		if ks := s.byAge(); len(ks) >= 2 {
			s.settle(s.rng.Intn(2) == 0)
			s.single(ks[0], nil)
		}
	case "same-put":
		if ks := s.byAge(); len(ks) >= 1 {
			k := ks[s.rng.Intn(len(ks))]
			v := s.content[k]
			s.settle(s.rng.Intn(2) == 0)
			s.single(k, &v)
		}
	case "recreate":
		if ks := s.byAge(); len(ks) >= 1 {
			k := ks[s.rng.Intn(len(ks))]
			v := s.content[k]
			if s.big {
				v = s.newVal()
			}
			s.settle(s.rng.Intn(2) == 0)
			s.single(k, nil)
			s.settle(false)
			s.single(k, &v)
		}
	}
}

// lastWrites: a burst of n writes and the ending; on a lossy member every other time while the member is
// cut off from the server
func (s *c19Scenario) lastWrites(n int) {
	if s.lossy != nil && s.rng.Intn(2) == 0 {
		s.log.Emit(vx.M{"ev": "note", "what": "last writes while cut off"})
		s.outage(1+s.rng.Intn(3), false, func() {
			s.burst(n, nil)
			if s.endKind == "none" && n == 0 {
				s.write(nil, false)
			}
			s.ending()
		})
		return
	}
	s.burst(n, nil)
	s.ending()
}

// outage cuts the syncer's member off from the server until every run loop of the scenario has seen at
// least `need` pulls fail in a row, then heals it and leaves the store alone for some pull intervals.
// unchanged: the store is not written from well before the outage until well after it and the content
// is not empty; otherwise the writer goes on through the healthy member during the outage (`during`:
// a burst, or the ending of the history - the pulls triggered by the last watch events fail then, and
// only the periodic pull can deliver the final content).
func (s *c19Scenario) outage(need int, unchanged bool, during func()) {
	if s.failed != "" || s.lossy == nil {
		return
	}
	if unchanged {
		if len(s.byAge()) == 0 || (s.content["k1"] == "none" && s.rng.Intn(2) == 0) {
			v := s.newVal()
			s.single("k1", &v)
		}
		time.Sleep(3 * c19PullInterval) // the content is pulled and delivered
	}
	nk, np := 0, 0
	for _, cn := range s.cons {
		if cn.kind == "key" {
			nk++
		} else {
			np++
		}
	}
	s.log.Emit(vx.M{"ev": "part", "need": need, "unchanged": unchanged})
	t0 := time.Now()
	s.lossy.set(true)
	if !unchanged && during != nil {
		during()
	}
	enough := false
	for dl := time.Now().Add(20 * time.Second); time.Now().Before(dl); time.Sleep(c19PullInterval / 4) {
		if s.lossy.count(s.key("k1")) >= need*nk+nk && s.lossy.count(s.prefix) >= need*np+np &&
			time.Since(t0) >= time.Duration(need+1)*c19PullInterval {
			enough = true
			break
		}
	}
	fk, fp := s.lossy.count(s.key("k1")), s.lossy.count(s.prefix)
	s.lossy.set(false)
	s.log.Emit(vx.M{"ev": "heal", "failed_key_pulls": fk, "failed_prefix_pulls": fp, "key_loops": nk, "prefix_loops": np, "enough": enough,
		"ms": int(time.Since(t0) / time.Millisecond)})
	if unchanged {
		time.Sleep(4 * c19PullInterval) // pulls succeed again, the content is what was delivered last
		if enough && need >= 3 {
			s.outages++
		}
	}
}

// hammer: n transactions back to back, each changing one of the first keys and the last key of the prefix
func (s *c19Scenario) hammer(n int) {
	for i := 0; i < n; i++ {
		s.write(nil, s.rng.Intn(5) > 0)
	}
}

// steady: n writes a few milliseconds apart, so that (nearly) every one of them is pulled and sent
func (s *c19Scenario) steady(n int) {
	for i := 0; i < n; i++ {
		s.write(nil, false)
		time.Sleep(time.Duration(4+s.rng.Intn(10)) * time.Millisecond)
	}
}

func (s *c19Scenario) burst(n int, cli *clientv3.Client) {
	for i := 0; i < n; i++ {
		s.write(cli, false)
		if d := s.rng.Intn(4); d == 3 {
			time.Sleep(time.Duration(s.rng.Intn(30)) * time.Millisecond)
		} else if d == 2 {
			time.Sleep(time.Duration(s.rng.Intn(300)) * time.Millisecond) // around the pull interval
		}
	}
}

// converge waits until every consumer's view equals the content read back from the store and no
// consumer received anything between two polls (or a generous deadline passes), then logs the views
// as `conv` claims - with all consumers locked, so that the claims are about the logged snapshots.
func (s *c19Scenario) converge() {
	if s.failed != "" {
		return
	}
	deadline := time.Now().Add(c19ConvDeadline)
	lastN := -1
	for {
		kvs, err := s.c.GetPrefix(s.prefix)
		short := map[string]string{}
		for k, v := range kvs {
			short[s.short(k)] = v
		}
		cur := c19View(short)
		for _, cn := range s.cons {
			cn.mu.Lock()
		}
		all, total := err == nil, 0
		for _, cn := range s.cons {
			total += cn.n
			for _, k := range c19ViewKeys {
				want := cur[k]
				if cn.kind == "key" && k != "k1" {
					want = "none"
				}
				if cn.view[k] != want {
					all = false
				}
			}
		}
		stable := all && total == lastN
		lastN = total
		if stable || time.Now().After(deadline) {
			for _, cn := range s.cons {
				s.log.Emit(vx.M{"ev": "conv", "c": cn.id, "view": c19ViewM(cn.view), "snapshots": cn.n, "in_time": stable})
			}
			for _, cn := range s.cons {
				cn.mu.Unlock()
			}
			return
		}
		for _, cn := range s.cons {
			cn.mu.Unlock()
		}
		time.Sleep(c19PullInterval + 50*time.Millisecond)
	}
}

func TestVerifC19Syncer(t *testing.T) {
	w := vx.NewWriter(t, "VERIF_OUT")
	defer w.Close()
	nWaves := vx.EnvInt("VERIF_WAVES", 3)
	perWave := vx.EnvInt("VERIF_PER_WAVE", 4)
	dir, err := os.MkdirTemp("", "verif-c19-")
	if err != nil {
		t.Fatal(err)
	}
	defer os.RemoveAll(dir)
	var c *cluster
	for try := 0; try < 3; try++ {
		sub := fmt.Sprintf("%s/p%d", dir, try)
		os.MkdirAll(sub, 0o755)
		c, err = c19New(c19Options(sub))
		if err == nil {
			break
		}
	}
	if err != nil {
		w.Raw(vx.M{"ev": "setup-failed", "what": err.Error()})
		return
	}
	defer func() {
		done := make(chan struct{})
		go func() {
			wg := &sync.WaitGroup{}
			wg.Add(1)
			c.Close(wg)
			close(done)
		}()
		select {
		case <-done:
		case <-time.After(30 * time.Second):
		}
	}()
	rng := vx.Rand(19)
	scenID := 0
	apis := []struct{ api, kind string }{{"Sync", "key"}, {"SyncRaw", "key"}, {"SyncPrefix", "prefix"}, {"SyncRawPrefix", "prefix"}}
	for wave := 0; wave < nWaves; wave++ {
		tWave := time.Now()
		mark := func(what string) {
			w.Raw(vx.M{"ev": "timing", "wave": wave, "what": what, "ms": int(time.Since(tWave) / time.Millisecond)})
		}
		faulty := wave%2 == 1
		var scs []*c19Scenario
		for i := 0; i < perWave; i++ {
			scenID++
			lr := vx.Rand(rng.Int63())
			s := &c19Scenario{id: scenID, prefix: fmt.Sprintf("/verif/s%d/", scenID), log: &c19Log{}, c: c, rng: lr, content: c19EmptyView(),
				modSeq: map[string]int{}}
			nc := 2 + lr.Intn(3)
			perm := lr.Perm(4)
			for j := 0; j < nc; j++ {
				a := apis[perm[j]]
				slow := time.Duration(0)
				if lr.Intn(3) == 0 {
					slow = time.Duration(20+lr.Intn(120)) * time.Millisecond
				}
				s.cons = append(s.cons, &c19Consumer{id: fmt.Sprintf("s%d", j), kind: a.kind, api: a.api, slow: slow, stallAfter: -1})
			}
			// every fourth scenario: consumers that stop reading for seconds while the writer produces far
			// more snapshots than the channel buffers (10)
			stalling := i%4 == 1
			if stalling {
				for _, cn := range s.cons {
					if lr.Intn(3) > 0 {
						cn.stallAfter = lr.Intn(3)
						cn.stall = time.Duration(1500+lr.Intn(2000)) * time.Millisecond
					}
				}
				s.cons[0].stallAfter, s.cons[0].stall = lr.Intn(2), time.Duration(1500+lr.Intn(2000))*time.Millisecond
			}
			s.stalling = stalling
			s.big = i == 0 && wave%2 == 0
			if s.big && nc < 3 {
				// at least one prefix consumer
				s.cons[0].api, s.cons[0].kind = "SyncPrefix", "prefix"
				s.cons[1].api, s.cons[1].kind = "SyncRawPrefix", "prefix"
			}
			// how the history ends: every third scenario with the deletion of the most recently modified key
			if (i+wave)%3 == 0 {
				s.endKind = "del-newest"
			} else {
				s.endKind = []string{"none", "none", "none", "del-newest", "del-oldest", "same-put", "recreate"}[lr.Intn(7)]
			}
			// one scenario per wave: the syncer's member can be cut off from the server
			isLossy := i%4 == 2
			if isLossy {
				sc, lk, err := c19LossyMember(c)
				if err != nil {
					w.Raw(vx.M{"ev": "setup-failed", "what": "lossy member: " + err.Error()})
					return
				}
				s.sc, s.lossy = sc, lk
			}
			s.log.Emit(vx.M{"ev": "reset", "scen": scenID, "wave": wave, "faulty": faulty, "consumers": nc, "stalling": stalling, "big": s.big,
				"ending": s.endKind, "lossy": isLossy, "long_outage": faulty && wave%8 == 3})
			scs = append(scs, s)
		}
		// a plain restart whose outage spans more than three failed pulls, with the content left alone around it
		longOutage := faulty && wave%8 == 3
		plan := make([]struct{ pre, p1, post, p2 int }, len(scs))
		for i, s := range scs {
			plan[i].pre = []int{0, 0, 1, 3}[s.rng.Intn(4)]
			plan[i].p1 = s.rng.Intn(9)
			if faulty {
				plan[i].post = []int{0, 1, 2, 3}[s.rng.Intn(4)]
				plan[i].p2 = []int{0, 0, 2, 5}[s.rng.Intn(4)]
			}
		}
		par := func(f func(i int, s *c19Scenario)) {
			var wg sync.WaitGroup
			for i, s := range scs {
				wg.Add(1)
				go func(i int, s *c19Scenario) { defer wg.Done(); f(i, s) }(i, s)
			}
			wg.Wait()
		}
		// initial content, consumers, first phase (the last write may be immediately followed by the stop)
		par(func(i int, s *c19Scenario) {
			if s.big {
				s.fill()
			}
			s.burst(plan[i].pre, nil)
			if err := s.startConsumers(); err != nil {
				s.failed = "starting consumers: " + err.Error()
				return
			}
			if s.rng.Intn(2) == 0 {
				time.Sleep(time.Duration(s.rng.Intn(400)) * time.Millisecond)
			}
			switch {
			case s.big:
				s.hammer(100 + s.rng.Intn(60))
				s.burst(plan[i].p1, nil)
			case s.stalling:
				s.steady(30 + s.rng.Intn(20))
			default:
				s.burst(plan[i].p1, nil)
			}
			if s.lossy != nil {
				s.outage(3+s.rng.Intn(4), true, nil)
				if s.rng.Intn(2) == 0 {
					s.outage(1+s.rng.Intn(4), false, func() { s.burst(1+s.rng.Intn(3), nil) })
				}
			}
			if !faulty {
				s.lastWrites(0)
			} else if longOutage {
				if len(s.byAge()) == 0 && s.rng.Intn(4) > 0 {
					v := s.newVal()
					s.single(c19Keys[s.rng.Intn(len(c19Keys))], &v)
				}
			}
		})
		mark("phase1 done")
		if longOutage {
			time.Sleep(3 * c19PullInterval) // the last content is delivered before the server stops
		}
		if faulty {
			for _, s := range scs {
				s.log.Emit(vx.M{"ev": "stop"})
			}
			c19Stop(c)
			mark("stopped")
			if longOutage {
				// a pull against the stopped server fails when its request context (4 s) expires, or earlier
				time.Sleep(3*c.requestTimeout + 3*c19PullInterval + time.Duration(900+rng.Intn(1500))*time.Millisecond)
			} else {
				time.Sleep(time.Duration(300+rng.Intn(2500)) * time.Millisecond)
			}
			blind := wave%4 == 1
			if !blind {
				// plain restart
				if err := c19Start(c, ""); err != nil {
					w.Raw(vx.M{"ev": "setup-failed", "what": "restart: " + err.Error()})
					return
				}
				for _, s := range scs {
					s.log.Emit(vx.M{"ev": "up"})
				}
			} else {
				// restart out of the member's reach, write through a fresh client, compact, stop, restart
				// normally: the syncers' watches resume from a compacted revision and are cancelled
				ports, err := freeport.GetFreePorts(1)
				if err != nil {
					w.Raw(vx.M{"ev": "setup-failed", "what": "freeport: " + err.Error()})
					return
				}
				if err := c19Start(c, fmt.Sprintf("http://localhost:%d", ports[0])); err != nil {
					w.Raw(vx.M{"ev": "setup-failed", "what": "restart (moved peer listener): " + err.Error()})
					return
				}
				for _, s := range scs {
					s.log.Emit(vx.M{"ev": "up"})
				}
				cli, err := clientv3.New(clientv3.Config{Endpoints: c.opt.Cluster.ListenClientURLs, DialTimeout: 10 * time.Second})
				if err != nil {
					w.Raw(vx.M{"ev": "setup-failed", "what": "fresh client: " + err.Error()})
					return
				}
				par(func(i int, s *c19Scenario) { s.burst(plan[i].post, cli) })
				ctx, cancel := context.WithTimeout(context.Background(), 10*time.Second)
				if resp, err := cli.Get(ctx, "/verif/none"); err == nil {
					cli.Compact(ctx, resp.Header.Revision)
				}
				cancel()
				cli.Close()
				for _, s := range scs {
					s.log.Emit(vx.M{"ev": "stop"})
				}
				c19Stop(c)
				time.Sleep(time.Duration(200+rng.Intn(1500)) * time.Millisecond)
				if err := c19Start(c, ""); err != nil {
					w.Raw(vx.M{"ev": "setup-failed", "what": "second restart: " + err.Error()})
					return
				}
				for _, s := range scs {
					s.log.Emit(vx.M{"ev": "up"})
				}
			}
			mark("restarted")
			// wait for the member's own client before using the cluster API again
			ok := false
			for dl := time.Now().Add(60 * time.Second); time.Now().Before(dl); {
				if _, err := c.Get("/verif/none"); err == nil {
					ok = true
					break
				}
			}
			if !ok {
				w.Raw(vx.M{"ev": "setup-failed", "what": "the member's client did not reconnect within 60s"})
				return
			}
			mark("member client back")
			if longOutage {
				time.Sleep(5 * c19PullInterval) // the syncers pull the unchanged content
			}
			par(func(i int, s *c19Scenario) { s.lastWrites(plan[i].p2) })
			mark("phase2 done")
		}
		par(func(i int, s *c19Scenario) { s.converge() })
		mark("converged")
		for _, s := range scs {
			if s.syncer != nil {
				s.syncer.Close()
			}
		}
		time.Sleep(100 * time.Millisecond)
		for _, s := range scs {
			if s.lossy != nil {
				w.Raw(vx.M{"ev": "lossy-summary", "scen": s.id, "outages_unchanged_3plus": s.outages})
				s.sc.client.Close()
			}
		}
		for _, s := range scs {
			s.log.mu.Lock()
			if s.failed != "" {
				w.Raw(vx.M{"ev": "scenario-failed", "scen": s.id, "what": s.failed})
			} else {
				for _, e := range s.log.ev {
					w.Raw(e)
				}
			}
			s.log.mu.Unlock()
		}
	}
	w.Raw(vx.M{"ev": "summary", "scenarios": scenID})
}

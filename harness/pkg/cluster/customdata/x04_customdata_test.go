package customdata

// Harness for the growth item X04 (specs/CustomData.tla): TLC-generated operation sequences are
// replayed in lock-step on a real Store over a real (embedded etcd) cluster; after every operation the
// reply (ok / error) and the complete content (ListKinds, ListData per kind and over all kinds) are
// compared with the model's.

import (
	"fmt"
	"os"
	"sort"
	"sync"
	"testing"

	"github.com/megaease/easegress/pkg/cluster"
	"github.com/megaease/easegress/pkg/logger"
	vx "github.com/megaease/easegress/pkg/verifx"
)

func init() { logger.InitNop() }

func x04Item(m vx.M) Data {
	d := Data{"v": vx.Int(m["v"])}
	if n := vx.Str(m["name"]); n != "" {
		d["name"] = n
	}
	if k := vx.Str(m["key"]); k != "" {
		d["key"] = k
	}
	return d
}

func x04Canon(d Data) string {
	n, _ := d["name"].(string)
	k, _ := d["key"].(string)
	return fmt.Sprintf("name=%s,key=%s,v=%v", n, k, d["v"])
}

func TestVerifX04Replay(t *testing.T) {
	behs := vx.ReadBehaviours(t, "VERIF_IN")
	w := vx.NewWriter(t, "VERIF_OUT")
	defer w.Close()
	dir, err := os.MkdirTemp("", "x04-etcd-")
	if err != nil {
		t.Fatal(err)
	}
	defer os.RemoveAll(dir)
	cls := cluster.CreateClusterForTest(dir)
	defer func() {
		var wg sync.WaitGroup
		wg.Add(1)
		cls.CloseServer(&wg)
		wg.Wait()
	}()
	steps, mism := 0, 0
	for bi, beh := range behs {
		s := NewStore(cls, fmt.Sprintf("/x04/%d/kinds/", bi), fmt.Sprintf("/x04/%d/data/", bi))
		for si, st := range beh[1:] {
			steps++
			op := st["step"].(vx.M)
			var err error
			kind := vx.Str(op["kind"])
			switch vx.Str(op["a"]) {
			case "putkind":
				err = s.PutKind(&Kind{Name: kind, IDField: vx.Str(op["idField"])}, vx.Bool(op["update"]))
			case "delkind":
				err = s.DeleteKind(kind)
			case "putdata":
				_, err = s.PutData(kind, x04Item(op["item"].(vx.M)), vx.Bool(op["update"]))
			case "deldata":
				err = s.DeleteData(kind, vx.Str(op["id"]))
			case "batch":
				var del []string
				for _, x := range vx.List(op["del"]) {
					del = append(del, x.(string))
				}
				var upd []Data
				for _, x := range vx.List(op["upd"]) {
					upd = append(upd, x04Item(x.(vx.M)))
				}
				err = s.BatchUpdateData(kind, del, upd)
			}
			bad := ""
			if (err == nil) != vx.Bool(op["ok"]) {
				bad = fmt.Sprintf("%s: error %v, model says ok=%v", vx.Str(op["a"]), err, vx.Bool(op["ok"]))
			}
			// compare the complete content
			if bad == "" {
				var want, got []string
				for _, k := range vx.List(st["kinds"]) {
					km := k.(vx.M)
					want = append(want, "kind:"+vx.Str(km["name"])+"/"+vx.Str(km["idField"]))
				}
				for _, r := range vx.List(st["data"]) {
					rm := r.(vx.M)
					want = append(want, "data:"+vx.Str(rm["kind"])+"/"+vx.Str(rm["id"])+"="+x04Canon(x04Item(rm["item"].(vx.M))))
				}
				ks, e1 := s.ListKinds()
				if e1 != nil {
					bad = "ListKinds: " + e1.Error()
				}
				for _, k := range ks {
					got = append(got, "kind:"+k.Name+"/"+k.IDField)
				}
				all, e2 := s.ListData("")
				if e2 != nil {
					bad = "ListData: " + e2.Error()
				}
				perKind := 0
				for _, kn := range []string{"k1", "k2"} {
					ds, e3 := s.ListData(kn)
					if e3 != nil {
						bad = "ListData(kind): " + e3.Error()
					}
					perKind += len(ds)
					for _, d := range ds {
						id, _ := d["name"].(string)
						// the id is whichever field the item was stored under: find it through GetData
						found := ""
						for _, cand := range []string{id, fmt.Sprint(d["key"])} {
							if cand == "" || cand == "<nil>" {
								continue
							}
							if g, _ := s.GetData(kn, cand); g != nil && x04Canon(g) == x04Canon(d) {
								found = cand
								got = append(got, "data:"+kn+"/"+cand+"="+x04Canon(d))
							}
						}
						if found == "" {
							bad = "item listed but not retrievable by any of its ids: " + x04Canon(d)
						}
					}
				}
				if bad == "" && perKind != len(all) {
					bad = fmt.Sprintf("ListData(\"\") has %d items, the kinds together %d", len(all), perKind)
				}
				sort.Strings(want)
				sort.Strings(got)
				if bad == "" && fmt.Sprint(want) != fmt.Sprint(got) {
					bad = fmt.Sprintf("content after %s differs: real %v, model %v", vx.Str(op["a"]), got, want)
				}
			}
			if bad != "" {
				mism++
				w.Raw(vx.M{"k": "mismatch", "beh": bi, "step": si + 1, "what": bad, "op": vx.Str(op["a"]), "behaviour": beh[:si+2]})
				break
			}
		}
	}
	w.Raw(vx.M{"k": "summary", "behaviours": len(behs), "steps": steps, "mismatches": mism})
}

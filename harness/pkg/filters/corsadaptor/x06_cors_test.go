package corsadaptor

// Harness for the growth item X06 (a) (specs/CorsAdaptor.tla): every (configuration, request) case of the
// decision table that TLC enumerated is run on a real CORSAdaptor filter (built through filters.NewSpec,
// every second configuration through Inherit); the result string, the presence of a response, its status and
// its complete header set are compared with the decision exported by TLC; the request must be left as it was.

import (
	"fmt"
	"net/http"
	"sort"
	"strconv"
	"strings"
	"testing"

	"github.com/megaease/easegress/pkg/context"
	"github.com/megaease/easegress/pkg/filters"
	"github.com/megaease/easegress/pkg/logger"
	"github.com/megaease/easegress/pkg/protocols/httpprot"
	vx "github.com/megaease/easegress/pkg/verifx"
)

func init() { logger.InitNop() }

func x06Strs(v interface{}) []string {
	out := []string{}
	for _, x := range vx.List(v) {
		out = append(out, vx.Str(x))
	}
	return out
}

func x06NewFilter(cfg vx.M, prev filters.Filter) (filters.Filter, error) {
	raw := map[string]interface{}{"kind": Kind, "name": "cors"}
	if o := x06Strs(cfg["origins"]); len(o) > 0 {
		raw["allowedOrigins"] = o
	}
	if o := x06Strs(cfg["methods"]); len(o) > 0 {
		raw["allowedMethods"] = o
	}
	if o := x06Strs(cfg["headers"]); len(o) > 0 {
		raw["allowedHeaders"] = o
	}
	if o := x06Strs(cfg["exposed"]); len(o) > 0 {
		raw["exposedHeaders"] = o
	}
	if vx.Bool(cfg["cred"]) {
		raw["allowCredentials"] = true
	}
	if n := vx.Int(cfg["maxAge"]); n != 0 {
		raw["maxAge"] = n
	}
	if vx.Bool(cfg["support"]) {
		raw["supportCORSRequest"] = true
	}
	spec, err := filters.NewSpec(nil, "", raw)
	if err != nil {
		return nil, err
	}
	f := kind.CreateInstance(spec)
	if prev == nil {
		f.Init()
	} else {
		f.Inherit(prev)
		prev.Close()
	}
	return f, nil
}

func x06HeaderString(h http.Header) string {
	keys := []string{}
	for k := range h {
		keys = append(keys, k)
	}
	sort.Strings(keys)
	parts := []string{}
	for _, k := range keys {
		parts = append(parts, k+"="+strings.Join(h[k], "|"))
	}
	return strings.Join(parts, ";")
}

// x06Expected renders the model's decision in the same canonical form as x06Observed renders reality.
func x06Expected(exp vx.M) map[string]string {
	out := map[string]string{"res": vx.Str(exp["res"]), "hasResp": fmt.Sprint(vx.Bool(exp["hasResp"]))}
	if !vx.Bool(exp["hasResp"]) {
		return out
	}
	resp := exp["resp"].(vx.M)
	out["status"] = strconv.Itoa(vx.Int(resp["status"]))
	h := http.Header{}
	for _, v := range x06Strs(resp["vary"]) {
		h.Add("Vary", v)
	}
	eh := resp["h"].(vx.M)
	for _, p := range [][2]string{{"acao", "Access-Control-Allow-Origin"}, {"acam", "Access-Control-Allow-Methods"},
		{"acah", "Access-Control-Allow-Headers"}, {"aceh", "Access-Control-Expose-Headers"}} {
		if v := vx.Str(eh[p[0]]); v != "" {
			h.Set(p[1], v)
		}
	}
	if vx.Bool(eh["acac"]) {
		h.Set("Access-Control-Allow-Credentials", "true")
	}
	if n := vx.Int(eh["acma"]); n != 0 {
		h.Set("Access-Control-Max-Age", strconv.Itoa(n))
	}
	out["headers"] = x06HeaderString(h)
	return out
}

func TestVerifX06Cors(t *testing.T) {
	groups := vx.ReadNDJSON(t, "VERIF_IN")
	w := vx.NewWriter(t, "VERIF_OUT")
	defer w.Close()
	cases, mism, viaInherit := 0, 0, 0
	classes := map[string]int{}
	kinds := map[string]vx.M{}
	for gi, g := range groups {
		cfg := g["cfg"].(vx.M)
		f, err := x06NewFilter(cfg, nil)
		if err == nil && gi%2 == 1 {
			f, err = x06NewFilter(cfg, f)
			viaInherit++
		}
		if err != nil {
			w.Raw(vx.M{"k": "specerror", "cfg": cfg, "err": err.Error()})
			continue
		}
		for _, cv := range vx.List(g["cases"]) {
			c := cv.(vx.M)
			rq := c["req"].(vx.M)
			cases++
			classes[vx.Str(c["cls"])]++
			std, err := http.NewRequest(vx.Str(rq["method"]), "http://svc.example.com/api/x?y=1", nil)
			if err != nil {
				t.Fatal(err)
			}
			std.Header.Set("X-Keep", "1")
			std.Header.Set("Authorization", "Bearer t")
			for _, p := range [][2]string{{"origin", "Origin"}, {"acrm", "Access-Control-Request-Method"}, {"acrh", "Access-Control-Request-Headers"}} {
				if v := vx.Str(rq[p[0]]); v != "" {
					std.Header.Set(p[1], v)
				}
			}
			before := x06HeaderString(std.Header) + " " + std.Method + " " + std.URL.String()
			req, err := httpprot.NewRequest(std)
			if err != nil {
				t.Fatal(err)
			}
			ctx := context.New(nil)
			ctx.SetInputRequest(req)
			res := f.Handle(ctx)
			got := map[string]string{"res": res}
			resp := ctx.GetOutputResponse()
			got["hasResp"] = fmt.Sprint(resp != nil)
			if resp != nil {
				hr := resp.(*httpprot.Response)
				got["status"] = strconv.Itoa(hr.StatusCode())
				got["headers"] = x06HeaderString(hr.Std().Header)
			}
			after := x06HeaderString(req.Std().Header) + " " + req.Method() + " " + req.Std().URL.String()
			want := x06Expected(c["exp"].(vx.M))
			bad := ""
			for _, fld := range []string{"res", "hasResp", "status", "headers"} {
				if got[fld] != want[fld] {
					bad = fld
					break
				}
			}
			if bad == "" && before != after {
				bad = "request"
				got["request"], want["request"] = after, before
			}
			if bad != "" {
				mism++
				key := fmt.Sprint(c["cls"], "/", bad, "/", vx.Bool(cfg["support"]))
				if kinds[key] == nil {
					kinds[key] = vx.M{"k": "mismatch", "cfg": cfg, "req": rq, "cls": c["cls"], "field": bad, "got": got[bad], "want": want[bad], "count": 0}
				}
				kinds[key]["count"] = kinds[key]["count"].(int) + 1
			}
		}
		f.Close()
	}
	for _, m := range kinds {
		w.Raw(m)
	}
	w.Raw(vx.M{"k": "summary", "groups": len(groups), "cases": cases, "mismatches": mism, "classes": classes, "viaInherit": viaInherit})
}

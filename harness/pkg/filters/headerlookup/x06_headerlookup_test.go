package headerlookup

// Harness for the growth item X06 (b) (specs/HeaderLookup*.tla): TLC-generated schedules are executed on a real
// HeaderLookup filter over a real cluster (embedded etcd, real cluster.Syncer) and everything that happened is
// logged for TLC (specs/HeaderLookup_Trace.tla judges the log; nothing is judged here).
//
// The filter gets the real cluster behind a thin wrapper (it implements cluster.Cluster by embedding):
//   - Get counts the store reads of a request and, for a gated request, blocks AFTER the real Get returned
//     (= between the two critical sections of lookup(): store read and cache.Add) until the schedule says so;
//   - Syncer / SyncPrefix hand the filter an unbuffered channel; the snapshots that the real syncer sends are
//     queued in the harness, and a "deliver" step passes exactly one of them to the filter's watcher goroutine.
// Barriers instead of sleeps: after a store write the harness waits until the real syncer has sent the snapshot
// of the new content; after a delivery it waits until the watcher goroutine is parked in its select again
// (goroutine dump), i.e. has processed the snapshot.  A barrier that is not reached within a minute is recorded
// as a stall (the check is then inconclusive, never a violation).

import (
	"fmt"
	"net/http"
	"os"
	"reflect"
	"regexp"
	"runtime"
	"strconv"
	"strings"
	"sync"
	"testing"
	"time"

	"github.com/megaease/easegress/pkg/cluster"
	"github.com/megaease/easegress/pkg/context"
	"github.com/megaease/easegress/pkg/filters"
	"github.com/megaease/easegress/pkg/logger"
	"github.com/megaease/easegress/pkg/protocols/httpprot"
	"github.com/megaease/easegress/pkg/supervisor"
	vx "github.com/megaease/easegress/pkg/verifx"
)

func init() { logger.InitNop() }

const x06Patience = 60 * time.Second

type x06Gate struct {
	at      chan struct{}
	release chan struct{}
}

type x06Snap struct {
	kvs  map[string]string
	upto int
}

type x06World struct {
	mu      sync.Mutex
	reads   int
	gate    *x06Gate // consumed by the next Get
	relay   int      // identity of the current relay (a new generation of the filter makes a new one)
	queue   []x06Snap
	out     chan map[string]string
	states  []map[string]string // store content under the prefix after every store operation; states[0] = empty
	prefix  string              // absolute etcd prefix of this world's data, with the trailing slash
	weird   string
	syncers int
}

type x06Cluster struct {
	cluster.Cluster
	w *x06World
}

func (c *x06Cluster) Get(key string) (*string, error) {
	v, err := c.Cluster.Get(key)
	c.w.mu.Lock()
	c.w.reads++
	g := c.w.gate
	c.w.gate = nil
	c.w.mu.Unlock()
	if g != nil {
		close(g.at)
		<-g.release
	}
	return v, err
}

type x06Syncer struct {
	cluster.Syncer
	w *x06World
}

func (c *x06Cluster) Syncer(d time.Duration) (cluster.Syncer, error) {
	s, err := c.Cluster.Syncer(d)
	if err != nil {
		return nil, err
	}
	return &x06Syncer{Syncer: s, w: c.w}, nil
}

func (s *x06Syncer) SyncPrefix(prefix string) (<-chan map[string]string, error) {
	in, err := s.Syncer.SyncPrefix(prefix)
	if err != nil {
		return nil, err
	}
	w := s.w
	out := make(chan map[string]string)
	w.mu.Lock()
	w.relay++
	me := w.relay
	w.queue = nil
	w.out = out
	w.syncers++
	w.mu.Unlock()
	go func() {
		for kvs := range in {
			w.mu.Lock()
			if w.relay == me {
				// only this world's keys (a prefix without the trailing slash also covers nothing else here: the
				// names of the worlds have a fixed width)
				mine := map[string]string{}
				for k, v := range kvs {
					if strings.HasPrefix(k, w.prefix) {
						mine[k] = v
					} else {
						w.weird = "snapshot with a foreign key " + k
					}
				}
				upto := -1
				for i := len(w.states) - 1; i >= 0; i-- {
					if reflect.DeepEqual(w.states[i], mine) {
						upto = i
						break
					}
				}
				if upto < 0 {
					w.weird = fmt.Sprintf("snapshot %v is no content the store ever had", mine)
				}
				w.queue = append(w.queue, x06Snap{mine, upto})
			}
			w.mu.Unlock()
		}
	}()
	return out, nil
}

// x06Watchers counts the watcher goroutines of HeaderLookup filters and how many of them are parked in select.
func x06Watchers() (total, idle int) {
	buf := make([]byte, 1<<21)
	for {
		n := runtime.Stack(buf, true)
		if n < len(buf) {
			buf = buf[:n]
			break
		}
		buf = make([]byte, 2*len(buf))
	}
	for _, blk := range strings.Split(string(buf), "\n\n") {
		if !strings.Contains(blk, "(*HeaderLookup).watchChanges.func1(") {
			continue
		}
		total++
		if strings.Contains(blk[:strings.IndexByte(blk+"\n", '\n')], "[select") {
			idle++
		}
	}
	return
}

func x06Until(cond func() bool) bool {
	deadline := time.Now().Add(x06Patience)
	for i := 0; ; i++ {
		if cond() {
			return true
		}
		if time.Now().After(deadline) {
			return false
		}
		if i < 20 {
			runtime.Gosched()
		} else {
			time.Sleep(300 * time.Microsecond)
		}
	}
}

func (w *x06World) awaitSnapshot(want map[string]string) bool {
	return x06Until(func() bool {
		w.mu.Lock()
		defer w.mu.Unlock()
		return len(w.queue) > 0 && reflect.DeepEqual(w.queue[len(w.queue)-1].kvs, want)
	})
}

var x06ValRE = regexp.MustCompile(`^v(\d+)-(f\d)$`)

func x06Classify(vals []string) vx.M {
	switch {
	case len(vals) == 0:
		return vx.M{"t": "none", "n": 0, "f": ""}
	case len(vals) > 1:
		return vx.M{"t": "multi", "n": len(vals), "f": strings.Join(vals, "|")}
	case vals[0] == "old":
		return vx.M{"t": "old", "n": 0, "f": ""}
	}
	if m := x06ValRE.FindStringSubmatch(vals[0]); m != nil {
		n, _ := strconv.Atoi(m[1])
		return vx.M{"t": "val", "n": n, "f": m[2]}
	}
	return vx.M{"t": "other", "n": 0, "f": vals[0]}
}

type x06Result struct {
	h1, h2 vx.M
	other  bool
	read   bool
}

func x06Path(pc string) string {
	switch pc {
	case "none":
		return "/other/9"
	case "b":
		return "/api/" + pc + "/"
	}
	return "/api/" + pc + "/12"
}

func (w *x06World) request(hl *HeaderLookup, hv, pc string, pre bool) x06Result {
	std, _ := http.NewRequest(http.MethodGet, "http://svc.example.com"+x06Path(pc), nil)
	if hv != "" {
		std.Header.Set("X-Auth-User", hv)
	}
	if pre {
		std.Header.Set("X-H1", "old")
	}
	std.Header.Set("X-Keep", "1")
	before := std.Header.Clone()
	req, _ := httpprot.NewRequest(std)
	ctx := context.New(nil)
	ctx.SetInputRequest(req)
	w.mu.Lock()
	r0 := w.reads
	w.mu.Unlock()
	res := hl.Handle(ctx)
	w.mu.Lock()
	r1 := w.reads
	w.mu.Unlock()
	after := req.Std().Header
	out := x06Result{h1: x06Classify(after["X-H1"]), h2: x06Classify(after["X-H2"]), read: r1 > r0}
	out.other = res != "" || ctx.GetOutputResponse() != nil || req.Path() != x06Path(pc)
	for k := range after {
		if k != "X-H1" && k != "X-H2" && !reflect.DeepEqual(after[k], before[k]) {
			out.other = true
		}
	}
	for k := range before {
		if k != "X-H1" && !reflect.DeepEqual(after[k], before[k]) {
			out.other = true
		}
	}
	return out
}

func x06Item(n int, cls string) string {
	switch cls {
	case "full":
		return fmt.Sprintf("f1: v%d-f1\nf2: v%d-f2\nf3: v%d-f3\n", n, n, n)
	case "partial":
		return fmt.Sprintf("f2: v%d-f2\nf3: v%d-f3\n", n, n)
	}
	return fmt.Sprintf("- v%d-f1\n- v%d-f2\n", n, n)
}

func x06NewFilter(cls cluster.Cluster, etcdPrefix string, useRegex bool, prev *HeaderLookup) (*HeaderLookup, error) {
	raw := map[string]interface{}{"kind": Kind, "name": "hl", "headerKey": "x-auth-user", "etcdPrefix": etcdPrefix,
		"headerSetters": []interface{}{
			map[string]interface{}{"etcdKey": "f1", "headerKey": "X-H1"},
			map[string]interface{}{"etcdKey": "f2", "headerKey": "X-H2"},
			map[string]interface{}{"etcdKey": "f4", "headerKey": "X-H4"},
		}}
	if useRegex {
		raw["pathRegExp"] = "^/api/([a-z]+)/[0-9]*"
	}
	var m1, m2 sync.Map
	super := supervisor.NewMock(nil, cls, m1, m2, nil, nil, false, nil, nil)
	spec, err := filters.NewSpec(super, "", raw)
	if err != nil {
		return nil, err
	}
	hl := kind.CreateInstance(spec).(*HeaderLookup)
	if prev == nil {
		hl.Init()
	} else {
		hl.Inherit(prev)
		prev.Close()
	}
	return hl, nil
}

func TestVerifX06HeaderLookup(t *testing.T) {
	behs := vx.ReadBehaviours(t, "VERIF_IN")
	w := vx.NewWriter(t, "VERIF_OUT")
	defer w.Close()
	dir, err := os.MkdirTemp("", "x06-etcd-")
	if err != nil {
		t.Fatal(err)
	}
	defer os.RemoveAll(dir)
	real := cluster.CreateClusterForTest(dir)
	defer func() {
		var wg sync.WaitGroup
		wg.Add(1)
		real.CloseServer(&wg)
		wg.Wait()
	}()
	stalls := 0
	for bi, beh := range behs {
		cfg := beh[0]["cfg"].(vx.M)
		name := fmt.Sprintf("x06b%05d", bi)
		world := &x06World{prefix: "/custom-data/" + name + "/", states: []map[string]string{{}}}
		etcdPrefix := name + "/"
		switch vx.Str(cfg["pfx"]) {
		case "lead":
			etcdPrefix = "/" + name + "/"
		case "noslash":
			etcdPrefix = name
		}
		cls := &x06Cluster{Cluster: real, w: world}
		hl, err := x06NewFilter(cls, etcdPrefix, vx.Bool(cfg["regex"]), nil)
		if err != nil {
			t.Fatalf("spec rejected: %v", err)
		}
		stall := func(what string, si int) {
			stalls++
			w.Raw(vx.M{"k": "stall", "beh": bi, "step": si, "what": what})
		}
		ev := func(m vx.M, si int) {
			m["beh"], m["step"] = bi, si
			w.Raw(m)
		}
		ev(vx.M{"ev": "reset", "regex": vx.Bool(cfg["regex"]), "pfx": vx.Str(cfg["pfx"]), "tag": vx.Str(beh[0]["tag"])}, 0)
		if !x06Until(func() bool { tot, idle := x06Watchers(); return tot == 1 && idle == 1 }) {
			stall("the watcher goroutine of a new filter was not found parked in select", 0)
			hl.Close()
			continue
		}
		type inflight struct {
			gate *x06Gate
			done chan x06Result
		}
		pend := map[int]*inflight{}
		finish := func(id, si int) {
			p := pend[id]
			delete(pend, id)
			close(p.gate.release)
			r := <-p.done
			ev(vx.M{"ev": "done", "id": id, "h1": r.h1, "h2": r.h2, "other": r.other, "read": true}, si)
		}
		keyOf := func(k interface{}) string {
			kk := vx.List(k)
			s := vx.Str(kk[0])
			if sfx := vx.Str(kk[1]); sfx != "" {
				s += "-" + sfx
			}
			return world.prefix + s
		}
		write := func(st vx.M, si int) bool {
			n := vx.Int(st["n"])
			key := keyOf(st["k"])
			world.mu.Lock()
			cur := map[string]string{}
			for k, v := range world.states[len(world.states)-1] {
				cur[k] = v
			}
			var err error
			if vx.Str(st["a"]) == "put" {
				cur[key] = x06Item(n, vx.Str(st["cls"]))
			} else {
				delete(cur, key)
			}
			world.states = append(world.states, cur)
			world.mu.Unlock()
			if vx.Str(st["a"]) == "put" {
				err = real.Put(key, cur[key])
			} else {
				err = real.Delete(key)
			}
			if err != nil {
				stall("store operation failed: "+err.Error(), si)
				return false
			}
			ev(vx.M{"ev": vx.Str(st["a"]), "k": st["k"], "cls": vx.Str(st["cls"]), "n": n}, si)
			if !world.awaitSnapshot(cur) {
				stall("the syncer did not send the snapshot of the new content", si)
				return false
			}
			return true
		}
		ok := true
		for si := 1; si < len(beh) && ok; si++ {
			st := beh[si]
			switch vx.Str(st["a"]) {
			case "put", "del":
				ok = write(st, si)
			case "deliver":
				world.mu.Lock()
				if len(world.queue) == 0 {
					world.mu.Unlock()
					ev(vx.M{"ev": "nodeliver"}, si)
					continue
				}
				snap := world.queue[0]
				world.queue = world.queue[1:]
				out := world.out
				world.mu.Unlock()
				select {
				case out <- snap.kvs:
				case <-time.After(x06Patience):
					stall("the watcher did not take the snapshot", si)
					ok = false
					continue
				}
				if !x06Until(func() bool { tot, idle := x06Watchers(); return tot == 1 && idle == 1 }) {
					stall("the watcher did not return to its select after a snapshot", si)
					ok = false
					continue
				}
				ev(vx.M{"ev": "deliver", "upto": snap.upto}, si)
			case "req":
				ev(vx.M{"ev": "req", "id": 3, "hv": vx.Str(st["hv"]), "pc": vx.Str(st["pc"]), "pre": vx.Bool(st["pre"])}, si)
				r := world.request(hl, vx.Str(st["hv"]), vx.Str(st["pc"]), vx.Bool(st["pre"]))
				ev(vx.M{"ev": "done", "id": 3, "h1": r.h1, "h2": r.h2, "other": r.other, "read": r.read}, si)
			case "reqstart":
				id := vx.Int(st["id"])
				g := &x06Gate{at: make(chan struct{}), release: make(chan struct{})}
				p := &inflight{gate: g, done: make(chan x06Result, 1)}
				world.mu.Lock()
				world.gate = g
				world.mu.Unlock()
				ev(vx.M{"ev": "req", "id": id, "hv": vx.Str(st["hv"]), "pc": vx.Str(st["pc"]), "pre": vx.Bool(st["pre"])}, si)
				go func(hv, pc string, pre bool) { p.done <- world.request(hl, hv, pc, pre) }(vx.Str(st["hv"]), vx.Str(st["pc"]), vx.Bool(st["pre"]))
				select {
				case <-g.at:
					pend[id] = p
				case r := <-p.done: // no store read: served from the cache
					world.mu.Lock()
					world.gate = nil
					world.mu.Unlock()
					ev(vx.M{"ev": "done", "id": id, "h1": r.h1, "h2": r.h2, "other": r.other, "read": r.read}, si)
				case <-time.After(x06Patience):
					stall("a request neither read the store nor returned", si)
					ok = false
				}
			case "reqfill":
				if id := vx.Int(st["id"]); pend[id] != nil {
					finish(id, si)
				}
			case "reload":
				for id := range pend {
					finish(id, si)
				}
				nhl, err := x06NewFilter(cls, etcdPrefix, vx.Bool(cfg["regex"]), hl)
				if err != nil {
					t.Fatalf("spec rejected: %v", err)
				}
				hl = nhl
				if !x06Until(func() bool { tot, idle := x06Watchers(); return tot == 1 && idle == 1 }) {
					stall("after a reload there is not exactly one parked watcher goroutine", si)
					ok = false
					continue
				}
				ev(vx.M{"ev": "reload"}, si)
				world.mu.Lock()
				cur := world.states[len(world.states)-1]
				world.mu.Unlock()
				if len(cur) > 0 && !world.awaitSnapshot(cur) {
					stall("the new syncer did not send the initial snapshot", si)
					ok = false
				}
			}
		}
		for id := range pend {
			finish(id, len(beh))
		}
		hl.Close()
		if !x06Until(func() bool { tot, _ := x06Watchers(); return tot == 0 }) {
			stall("the watcher goroutine of a closed filter did not end", len(beh))
		}
		world.mu.Lock()
		if world.weird != "" {
			stall(world.weird, len(beh))
		}
		world.mu.Unlock()
		real.DeletePrefix(world.prefix)
	}
	w.Raw(vx.M{"k": "summary", "behaviours": len(behs), "stalls": stalls})
}

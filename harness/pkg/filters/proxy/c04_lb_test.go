package proxy

// Harness for C04 (DESIGN 5/C04): load balancing of the proxy's server pool.
//   TestVerifC04Replay - TLC-generated sequential behaviours (configuration, discovery reports,
//                        requests with keys) replayed through the real Proxy filter; the transport is
//                        the package variable fnSendRequest, stubbed to record the target server.
//   TestVerifC04Trace  - seeded random configurations (lists of up to 7 servers, weight vectors that
//                        validation accepts, discovery reports with mixed weights) and long request
//                        sequences, same observation.
//                        In both, pools may carry a retry policy (maxAttempts = cfg.att) and some requests
//                        are answered with failures by the transport: such a request runs in its own
//                        goroutine, every attempt that reaches the transport is recorded (`send`) and
//                        waits there for the driver, which goes on with other events (replacements,
//                        other requests) before it answers; a request that ends with 503 'no server'
//                        without (further) sending is recorded as `nosrv`.
//   TestVerifC04Conc   - G goroutines call ServerPool.LoadBalancer().ChooseServer concurrently with a
//                        watcher goroutine calling useService; inv/ret events for the linearisation
//                        search of LoadBalance_CTrace.
// The harness only records what the real code did; all judging is done by TLC against
// specs/LoadBalance.tla.

import (
	"fmt"
	"io"
	"net/http"
	"reflect"
	"runtime"
	"sort"
	"strings"
	"sync"
	"sync/atomic"
	"testing"
	"time"
	"unsafe"

	"github.com/megaease/easegress/pkg/context"
	"github.com/megaease/easegress/pkg/filters"
	"github.com/megaease/easegress/pkg/logger"
	"github.com/megaease/easegress/pkg/object/serviceregistry"
	"github.com/megaease/easegress/pkg/protocols/httpprot"
	"github.com/megaease/easegress/pkg/resilience"
	"github.com/megaease/easegress/pkg/tracing"
	vx "github.com/megaease/easegress/pkg/verifx"
	"gopkg.in/yaml.v2"
)

func init() { logger.InitNop() }

const c04Tag = "blue"

func c04URL(id string) string { return "http://" + id + ".c04.test:8080" }

func c04ID(host string) string {
	h := strings.TrimSuffix(host, ":8080")
	return strings.TrimSuffix(h, ".c04.test")
}

type c04Srv struct {
	ID string `json:"id"`
	W  int    `json:"w"`
}

type c04Inst struct {
	ID string `json:"id"`
	W  int    `json:"w"`
	T  bool   `json:"t"`
}

type c04Config struct {
	Policy string   `json:"policy"`
	Static []c04Srv `json:"static"`
	Disc   bool     `json:"disc"`
	Att    int      `json:"att"` // maxAttempts of the pool's retry policy; 1: no retry policy
}

func c04ConfigOf(m vx.M) c04Config {
	c := c04Config{Policy: vx.Str(m["policy"]), Disc: vx.Bool(m["disc"]), Static: []c04Srv{}, Att: 1}
	if a, ok := m["att"]; ok {
		c.Att = vx.Int(a)
	}
	for _, s := range vx.List(m["static"]) {
		sm := s.(vx.M)
		c.Static = append(c.Static, c04Srv{ID: vx.Str(sm["id"]), W: vx.Int(sm["w"])})
	}
	sort.Slice(c.Static, func(i, j int) bool { return c.Static[i].ID < c.Static[j].ID })
	return c
}

func c04InstsOf(v interface{}) []c04Inst {
	out := []c04Inst{}
	for _, s := range vx.List(v) {
		sm := s.(vx.M)
		out = append(out, c04Inst{ID: vx.Str(sm["id"]), W: vx.Int(sm["w"]), T: vx.Bool(sm["t"])})
	}
	return out
}

// c04NewProxy builds the Proxy filter from a YAML spec through filters.NewSpec (which runs the
// validation the property speaks of). It returns nil if validation rejects the configuration.
func c04NewProxy(c c04Config) (*Proxy, error) {
	pool := map[string]interface{}{}
	if c.Policy != "any" {
		lb := map[string]interface{}{"policy": c.Policy}
		if c.Policy == LoadBalancePolicyHeaderHash {
			lb["headerHashKey"] = "X-C04-Key"
		}
		pool["loadBalance"] = lb
	}
	servers := []interface{}{}
	for _, s := range c.Static {
		m := map[string]interface{}{"url": c04URL(s.ID)}
		if s.W != 0 {
			m["weight"] = s.W
		}
		servers = append(servers, m)
	}
	if len(servers) > 0 {
		pool["servers"] = servers
	}
	if c.Disc {
		// serviceRegistry is left empty: NewServerPool then starts from the static list and the
		// harness plays the watcher by calling useService, exactly what watchServers' goroutine does.
		pool["serviceName"] = "c04svc"
		pool["serverTags"] = []interface{}{c04Tag}
	}
	if c.Att > 1 {
		pool["retryPolicy"] = "c04retry"
		pool["failureCodes"] = []interface{}{500}
	}
	raw := map[string]interface{}{"name": "c04", "kind": Kind, "pools": []interface{}{pool}}
	// round trip through YAML so that the spec is exactly what a user would write
	text, err := yaml.Marshal(raw)
	if err != nil {
		return nil, err
	}
	raw2 := map[string]interface{}{}
	if err = yaml.Unmarshal(text, &raw2); err != nil {
		return nil, err
	}
	spec, err := filters.NewSpec(nil, "", raw2)
	if err != nil {
		return nil, err
	}
	p := kind.CreateInstance(spec).(*Proxy)
	p.Init()
	if c.Att > 1 {
		// the real retry policy, injected the way the pipeline does; the back-off is as short as it gets
		rp, err := resilience.NewPolicy(map[string]interface{}{"kind": "Retry", "name": "c04retry", "maxAttempts": c.Att,
			"waitDuration": "200us", "backOffPolicy": "random", "randomizationFactor": 0.0})
		if err != nil {
			p.Close()
			return nil, err
		}
		p.InjectResiliencePolicy(map[string]resilience.Policy{"c04retry": rp})
		if p.mainPool.retryWrapper == nil {
			p.Close()
			return nil, fmt.Errorf("c04: retry policy not injected")
		}
	}
	return p, nil
}

// c04Order reads the server slice of a balancer (the field named Servers, promoted from the embedded
// base or declared directly): URL and weight of every server, in the balancer's order. ok is false
// when the balancer keeps no such slice.
func c04Order(lb LoadBalancer) (out []string, ok bool) {
	v := reflect.ValueOf(lb)
	for v.IsValid() && (v.Kind() == reflect.Ptr || v.Kind() == reflect.Interface) {
		if v.IsNil() {
			return nil, false
		}
		v = v.Elem()
	}
	if !v.IsValid() || v.Kind() != reflect.Struct {
		return nil, false
	}
	f := v.FieldByName("Servers")
	if !f.IsValid() || f.Kind() != reflect.Slice {
		return nil, false
	}
	out = []string{}
	for i := 0; i < f.Len(); i++ {
		e := f.Index(i)
		if e.CanAddr() {
			e = reflect.NewAt(e.Type(), unsafe.Pointer(e.UnsafeAddr())).Elem()
		}
		srv, isSrv := e.Interface().(*Server)
		if !isSrv || srv == nil {
			return nil, false
		}
		out = append(out, fmt.Sprintf("%s w=%d", srv.URL, srv.Weight))
	}
	return out, true
}

// c04UseService delivers a discovery report (as the pool's watcher goroutine does) and observes
// whether the balancer built has the servers of the balancer it replaces, in the same order.
func c04UseService(sp *ServerPool, insts []c04Inst) (same bool) {
	before, ok1 := c04Order(sp.LoadBalancer())
	sp.useService(c04Instances(insts))
	after, ok2 := c04Order(sp.LoadBalancer())
	return ok1 && ok2 && reflect.DeepEqual(before, after)
}

func c04Instances(insts []c04Inst) map[string]*serviceregistry.ServiceInstanceSpec {
	m := map[string]*serviceregistry.ServiceInstanceSpec{}
	for _, in := range insts {
		tags := []string{"green"}
		if in.T {
			tags = []string{"canary", c04Tag}
		}
		spec := &serviceregistry.ServiceInstanceSpec{RegistryName: "c04reg", ServiceName: "c04svc", InstanceID: in.ID,
			Address: in.ID + ".c04.test", Port: 8080, Tags: tags, Weight: in.W}
		m[spec.Key()] = spec
	}
	return m
}

// c04Keys gives the abstract keys k0..k3 concrete values for one trace.
type c04Keys struct {
	ip  map[string]string
	hdr map[string]string
	how map[string]int
}

func c04NewKeys(rng interface{ Intn(int) int }) *c04Keys {
	k := &c04Keys{ip: map[string]string{}, hdr: map[string]string{}, how: map[string]int{}}
	usedIP, usedH := map[string]bool{}, map[string]bool{}
	for i := 0; i < 4; i++ {
		name := fmt.Sprintf("k%d", i)
		for {
			ip := fmt.Sprintf("%d.%d.%d.%d", 11+rng.Intn(100), rng.Intn(256), rng.Intn(256), 1+rng.Intn(254))
			if strings.HasPrefix(ip, "127.") || strings.HasPrefix(ip, "10.") || usedIP[ip] {
				continue
			}
			usedIP[ip] = true
			k.ip[name] = ip
			break
		}
		for {
			n := rng.Intn(12)
			b := make([]byte, n)
			for j := range b {
				b[j] = "abcdefghijklmnopqrstuvwxyz0123456789-_"[rng.Intn(38)]
			}
			if usedH[string(b)] {
				continue
			}
			usedH[string(b)] = true
			k.hdr[name] = string(b)
			break
		}
		k.how[name] = rng.Intn(3)
		// about one key in three is a client address that is no plain IP literal: realip hands an
		// X-Real-Ip header on unchecked (junk from an upstream proxy, a link-local address with a
		// zone, the "@" of a unix-socket peer); derived from the address, no further random draws
		if ip := k.ip[name]; len(ip)%3 == 0 {
			switch int(ip[len(ip)-1]) % 3 {
			case 0:
				k.ip[name] = "unknown-" + ip
			case 1:
				k.ip[name] = "fe80::" + strings.ReplaceAll(ip, ".", ":") + "%eth0"
			default:
				k.ip[name] = "@" + ip
			}
			k.how[name] = 1
		}
	}
	return k
}

func (k *c04Keys) request(key string) *httpprot.Request {
	stdr, _ := http.NewRequest(http.MethodGet, "http://c04.example.com/path?q=1", nil)
	ip := k.ip[key]
	switch k.how[key] {
	case 0:
		stdr.RemoteAddr = ip + ":40000"
	case 1:
		stdr.RemoteAddr = "192.168.0.9:40000"
		stdr.Header.Set("X-Real-Ip", ip)
	default:
		stdr.RemoteAddr = "192.168.0.9:40000"
		stdr.Header.Set("X-Forwarded-For", ip+", 10.1.1.1")
	}
	if v := k.hdr[key]; v != "" {
		stdr.Header.Set("X-C04-Key", v)
	}
	req, _ := httpprot.NewRequest(stdr)
	req.FetchPayload(0)
	return req
}

// c04Transport is installed in fnSendRequest; it records the target of the calls made on behalf of
// one request (the harness sends requests one at a time at pool level).
type c04Transport struct {
	mu    sync.Mutex
	hosts []string
}

func (tr *c04Transport) send(r *http.Request, _ *http.Client) (*http.Response, error) {
	if id := r.Header.Get("X-C04-Req"); id != "" {
		if v, ok := c04Flights.Load(id); ok {
			return v.(*c04Flight).attempt(r)
		}
	}
	tr.mu.Lock()
	tr.hosts = append(tr.hosts, r.URL.Host)
	tr.mu.Unlock()
	return &http.Response{StatusCode: 200, Header: http.Header{}, Body: io.NopCloser(strings.NewReader("c04"))}, nil
}

func (tr *c04Transport) take() []string {
	tr.mu.Lock()
	defer tr.mu.Unlock()
	h := tr.hosts
	tr.hosts = nil
	return h
}

// c04Handle sends one request through the Proxy filter and reduces what happened to the observation
// of the contract: id of the server the request was forwarded to, "nil" when it was failed for lack of
// a server (503, nothing sent), or a description of anything else.
func c04Handle(p *Proxy, tr *c04Transport, req *httpprot.Request) (obs string) {
	defer func() {
		if r := recover(); r != nil {
			tr.take()
			obs = "panic"
		}
	}()
	ctx := context.New(tracing.NoopSpan)
	ctx.SetRequest(context.DefaultNamespace, req)
	result := p.Handle(ctx)
	hosts := tr.take()
	status := 0
	if resp, ok := ctx.GetOutputResponse().(*httpprot.Response); ok && resp != nil {
		status = resp.StatusCode()
	}
	switch {
	case len(hosts) == 1 && result == "" && status == 200:
		return c04ID(hosts[0])
	case len(hosts) == 0 && status == http.StatusServiceUnavailable && result == resultInternalError:
		return "nil"
	}
	return fmt.Sprintf("unexpected:sent=%d,result=%s,status=%d", len(hosts), result, status)
}

// c04Flight is a request whose attempts are answered by the driver: it runs through Proxy.Handle in a
// goroutine of its own; every attempt that reaches the transport reports the target and then waits
// for the driver's answer ("ok", "neterr": the transport returns an error, "fcode": a response with one
// of the pool's failure codes).
type c04Flight struct {
	id      string
	p, k    string
	arrive  chan string
	answer  chan string
	fin     chan string
	sent    int
	waiting bool // an attempt is at the transport
}

var c04Flights sync.Map // id -> *c04Flight
var c04FlightSeq int64

func (f *c04Flight) attempt(r *http.Request) (*http.Response, error) {
	f.arrive <- r.URL.Host
	switch <-f.answer {
	case "neterr":
		return nil, fmt.Errorf("c04: scripted network error")
	case "fcode":
		return &http.Response{StatusCode: 500, Header: http.Header{}, Body: io.NopCloser(strings.NewReader("c04-failed"))}, nil
	}
	return &http.Response{StatusCode: 200, Header: http.Header{}, Body: io.NopCloser(strings.NewReader("c04"))}, nil
}

// c04Fly starts the request of caller pn with key k.
func c04Fly(p *Proxy, keys *c04Keys, pn, k string) *c04Flight {
	f := &c04Flight{id: fmt.Sprintf("f%d", atomic.AddInt64(&c04FlightSeq, 1)), p: pn, k: k,
		arrive: make(chan string), answer: make(chan string), fin: make(chan string, 1)}
	c04Flights.Store(f.id, f)
	req := keys.request(k)
	req.Std().Header.Set("X-C04-Req", f.id)
	go func() {
		obs := ""
		defer func() {
			if r := recover(); r != nil {
				obs = "panic"
			}
			f.fin <- obs
		}()
		ctx := context.New(tracing.NoopSpan)
		ctx.SetRequest(context.DefaultNamespace, req)
		result := p.Handle(ctx)
		status := 0
		if resp, ok := ctx.GetOutputResponse().(*httpprot.Response); ok && resp != nil {
			status = resp.StatusCode()
		}
		switch {
		case result == "" && status == 200:
			obs = "done:ok"
		case result == resultInternalError && status == http.StatusServiceUnavailable:
			obs = "nosrv" // doHandle's answer when the balancer gave it no server
		case result == resultServerError && status == http.StatusServiceUnavailable, result == resultFailureCode && status == 500:
			obs = "done:fail"
		default:
			obs = fmt.Sprintf("unexpected:result=%s,status=%d", result, status)
		}
	}()
	return f
}

// step answers the attempt that is at the transport (if any) and waits for what the request does next:
// another attempt reaches the transport, or Handle returns. It records that as one event; done is true
// when the request is over. Nothing here depends on time: the driver blocks until the real code moves
// (the guard only turns a hang into an observation).
func (f *c04Flight) step(w *vx.Writer, answer string) (done bool) {
	if f.waiting {
		f.answer <- answer
		f.waiting = false
	}
	select {
	case host := <-f.arrive:
		f.sent++
		f.waiting = true
		w.Emit(vx.M{"ev": "send", "p": f.p, "k": f.k, "r": c04ID(host), "i": f.sent, "after": answer})
		return false
	case obs := <-f.fin:
		c04Flights.Delete(f.id)
		switch {
		case obs == "nosrv":
			w.Emit(vx.M{"ev": "nosrv", "p": f.p, "k": f.k, "r": "nil", "i": f.sent, "after": answer})
		case strings.HasPrefix(obs, "done:") && f.sent > 0:
			w.Emit(vx.M{"ev": "done", "p": f.p, "o": strings.TrimPrefix(obs, "done:"), "i": f.sent, "after": answer})
		default:
			// a panic, or an answer that is neither a forwarding nor 503 'no server': no contract step
			w.Emit(vx.M{"ev": "send", "p": f.p, "k": f.k, "r": obs, "i": f.sent + 1, "after": answer})
		}
		return true
	case <-time.After(120 * time.Second):
		c04Flights.Delete(f.id)
		w.Emit(vx.M{"ev": "send", "p": f.p, "k": f.k, "r": "unexpected:hung", "i": f.sent + 1, "after": answer})
		return true
	}
}

// c04Land ends the requests still in flight (their pending attempts succeed).
func c04Land(w *vx.Writer, flights map[string]*c04Flight) {
	names := []string{}
	for pn := range flights {
		names = append(names, pn)
	}
	sort.Strings(names)
	for _, pn := range names {
		for i := 0; i < 64 && !flights[pn].step(w, "ok"); i++ {
		}
		delete(flights, pn)
	}
}

func c04FailKind(rng interface{ Intn(int) int }) string {
	if rng.Intn(2) == 0 {
		return "neterr"
	}
	return "fcode"
}

func c04Choose(sp *ServerPool, req *httpprot.Request) (obs string) {
	defer func() {
		if r := recover(); r != nil {
			obs = "panic"
		}
	}()
	svr := sp.LoadBalancer().ChooseServer(req)
	if svr == nil {
		return "nil"
	}
	return c04ID(strings.TrimPrefix(svr.URL, "http://"))
}

// c04Held is a request between the two steps of doHandle's `sp.LoadBalancer().ChooseServer(req)`:
// it has loaded the pool's balancer and will choose later.
type c04Held struct {
	lb  LoadBalancer
	req *httpprot.Request
}

func c04Hold(sp *ServerPool, req *httpprot.Request) *c04Held {
	return &c04Held{lb: sp.LoadBalancer(), req: req}
}

func (h *c04Held) choose() (obs string) {
	defer func() {
		if r := recover(); r != nil {
			obs = "panic"
		}
	}()
	svr := h.lb.ChooseServer(h.req)
	if svr == nil {
		return "nil"
	}
	return c04ID(strings.TrimPrefix(svr.URL, "http://"))
}

// c04CounterOf finds the selection counter of a balancer: the only integer (or sync/atomic integer)
// field of its struct, whatever its name and width. ok is false when the balancer keeps no such
// single counter (aging is then not applicable and not attempted).
func c04CounterOf(lb LoadBalancer) (f reflect.Value, ok bool) {
	v := reflect.ValueOf(lb)
	if v.Kind() != reflect.Ptr || v.Elem().Kind() != reflect.Struct {
		return f, false
	}
	v = v.Elem()
	isInt := func(k reflect.Kind) bool {
		switch k {
		case reflect.Int, reflect.Int32, reflect.Int64, reflect.Uint, reflect.Uint32, reflect.Uint64, reflect.Uintptr,
			reflect.Int8, reflect.Int16, reflect.Uint8, reflect.Uint16:
			return true
		}
		return false
	}
	var cands []reflect.Value
	for i := 0; i < v.NumField(); i++ {
		ft := v.Type().Field(i)
		if ft.Anonymous {
			continue
		}
		fv := v.Field(i)
		if isInt(fv.Kind()) {
			cands = append(cands, fv)
		} else if fv.Kind() == reflect.Struct && ft.Type.PkgPath() == "sync/atomic" {
			if in := fv.FieldByName("v"); in.IsValid() && isInt(in.Kind()) {
				cands = append(cands, in)
			}
		}
	}
	if len(cands) != 1 {
		return f, false
	}
	c := cands[0]
	return reflect.NewAt(c.Type(), unsafe.Pointer(c.UnsafeAddr())).Elem(), true
}

// c04Age puts a fresh round robin balancer into the state it has after k0 selections. It first makes
// m real selections and checks that they advanced the balancer's counter field by exactly m: the
// field then is a free-running count of the selections made (plus whatever it started from), and
// advancing it by the remaining k0 - m, in the field's own width and arithmetic (which is what k0 - m
// more increments do), gives the state after k0 selections (the m being the first of them). Returns
// why = "" when done, "empty" when the balancer has no server (nothing is counted), "nocounter" when
// the balancer keeps no such counter: it is then not aged, and the selections made on it meanwhile
// (probes) are ordinary selections that the caller records as such.
func c04Age(lb LoadBalancer, req *httpprot.Request, k0 uint64) (why string, probes []string) {
	defer func() {
		if r := recover(); r != nil {
			why, probes = "nocounter", append(probes, "panic")
		}
	}()
	f, ok := c04CounterOf(lb)
	if !ok {
		return "nocounter", nil
	}
	bits := uint(f.Type().Bits())
	signed := false
	switch f.Kind() {
	case reflect.Int, reflect.Int8, reflect.Int16, reflect.Int32, reflect.Int64:
		signed = true
	}
	get := func() uint64 {
		if signed {
			return uint64(f.Int()) << (64 - bits) >> (64 - bits)
		}
		return f.Uint()
	}
	v0 := get()
	// once around the list and a little further (up to the first server chosen again, and one more), so
	// that a counter kept modulo the number of servers is not mistaken for a free-running one
	seen, last := map[string]bool{}, false
	m := uint64(0)
	for m < 64 {
		svr := lb.ChooseServer(req)
		if svr == nil {
			if m == 0 {
				return "empty", append(probes, "nil")
			}
			return "nocounter", append(probes, "nil")
		}
		id := c04ID(strings.TrimPrefix(svr.URL, "http://"))
		probes = append(probes, id)
		m++
		if last {
			break
		}
		last = seen[id]
		seen[id] = true
	}
	if (get()-v0)<<(64-bits)>>(64-bits) != m || k0 < m {
		return "nocounter", probes
	}
	sum := (get() + k0 - m) << (64 - bits) >> (64 - bits)
	if signed {
		f.SetInt(int64(sum<<(64-bits)) >> (64 - bits))
	} else {
		f.SetUint(sum)
	}
	return "", nil
}

// c04NotAged records why a balancer was not aged and the selections the attempt made on it.
func c04NotAged(w *vx.Writer, why string, probes []string) {
	w.Emit(vx.M{"ev": "noage", "why": why})
	for _, r := range probes {
		w.Emit(vx.M{"ev": "ch", "k": "k0", "r": r})
	}
}

// c04K0 = 2^b - d
func c04K0(b, d int) uint64 { return uint64(1)<<uint(b) - uint64(d) }

var c04AgeBits = []int{8, 16, 31, 32, 33, 48, 62}

func c04Repeat(policy string) int {
	if policy == LoadBalancePolicyWeightedRandom || policy == LoadBalancePolicyRandom {
		return 12 // chance to see a forbidden pick
	}
	return 1
}

// TestVerifC04Replay replays TLC-generated behaviours of LoadBalance (GSeqSpec).
func TestVerifC04Replay(t *testing.T) {
	behs := vx.ReadBehaviours(t, "VERIF_IN")
	w := vx.NewWriter(t, "VERIF_OUT")
	defer w.Close()
	tr := &c04Transport{}
	fnSendRequest = tr.send
	rng := vx.Rand(4)
	for bi, beh := range behs {
		if len(beh) == 0 || vx.Str(beh[0]["a"]) != "init" {
			t.Fatalf("behaviour %d does not start with init", bi)
		}
		cfg := c04ConfigOf(beh[0]["cfg"].(vx.M))
		p, err := c04NewProxy(cfg)
		if err != nil {
			w.Emit(vx.M{"ev": "rejected", "cfg": cfg, "err": err.Error()})
			continue
		}
		keys := c04NewKeys(rng)
		w.Emit(vx.M{"ev": "reset", "cfg": cfg, "beh": bi})
		held := map[string]*c04Held{}
		flights := map[string]*c04Flight{}
		for _, st := range beh[1:] {
			switch vx.Str(st["a"]) {
			case "rep":
				insts := c04InstsOf(st["insts"])
				same := c04UseService(p.mainPool, insts)
				w.Emit(vx.M{"ev": "rep", "insts": insts, "same": same})
			case "hold":
				pn, k := vx.Str(st["p"]), vx.Str(st["k"])
				held[pn] = c04Hold(p.mainPool, keys.request(k))
				w.Emit(vx.M{"ev": "hold", "p": pn, "k": k})
			case "hpick":
				pn := vx.Str(st["p"])
				if h := held[pn]; h != nil {
					w.Emit(vx.M{"ev": "hpick", "p": pn, "r": h.choose()})
					delete(held, pn)
				}
			case "age":
				b, d := vx.Int(st["b"]), vx.Int(st["d"])
				if why, probes := c04Age(p.mainPool.LoadBalancer(), keys.request("k0"), c04K0(b, d)); why != "" {
					c04NotAged(w, why, probes)
					continue
				}
				w.Emit(vx.M{"ev": "age", "b": b, "d": d, "k0": fmt.Sprint(c04K0(b, d))})
				// the selections that follow those k0: past the power of two and once around the list
				for i := 0; i < d+10; i++ {
					w.Emit(vx.M{"ev": "ch", "k": "k0", "r": c04Handle(p, tr, keys.request("k0"))})
				}
			case "ch":
				k := vx.Str(st["k"])
				for i := 0; i < c04Repeat(cfg.Policy); i++ {
					w.Emit(vx.M{"ev": "ch", "k": k, "r": c04Handle(p, tr, keys.request(k))})
				}
			case "send", "nosrv":
				// an attempt of a request is due (the first one, or the next one after the attempt at the
				// backend is answered with a failure): what the real pool does with it is recorded
				pn := vx.Str(st["p"])
				f := flights[pn]
				if f == nil {
					if vx.Int(st["i"]) > 1 || (vx.Str(st["a"]) == "nosrv" && vx.Int(st["i"]) > 0) {
						continue // the real request is over already (recorded): nothing to answer
					}
					f = c04Fly(p, keys, pn, vx.Str(st["k"]))
					flights[pn] = f
				}
				answer := "neterr"
				if cfg.Att > 1 {
					answer = c04FailKind(rng)
				}
				if f.step(w, answer) {
					delete(flights, pn)
				}
			case "done":
				pn := vx.Str(st["p"])
				if f := flights[pn]; f != nil {
					answer := "ok"
					if vx.Str(st["o"]) == "fail" {
						answer = "neterr"
						if cfg.Att > 1 {
							answer = c04FailKind(rng)
						}
					}
					if f.step(w, answer) {
						delete(flights, pn)
					}
				}
			}
		}
		c04Land(w, flights)
		p.Close()
	}
}

func c04RandConfig(rng interface{ Intn(int) int }) c04Config {
	policies := []string{"roundRobin", "random", "weightedRandom", "ipHash", "headerHash", "any"}
	c := c04Config{Policy: policies[rng.Intn(len(policies))], Static: []c04Srv{}, Disc: rng.Intn(3) > 0, Att: 1}
	n := rng.Intn(8)
	if n == 0 && !c.Disc {
		n = 1 + rng.Intn(7)
	}
	weighted := rng.Intn(2) == 0 // validation: weights on all static servers or on none
	for i := 0; i < n; i++ {
		s := c04Srv{ID: fmt.Sprintf("s%d", i)}
		if weighted {
			s.W = 1 + rng.Intn(100)
		}
		c.Static = append(c.Static, s)
	}
	return c
}

func c04RandInsts(rng interface{ Intn(int) int }) []c04Inst {
	n := rng.Intn(7)
	mode := rng.Intn(4) // 0: no weights, 1: all weights, 2: mixed, 3: mixed
	tagMode := rng.Intn(5)
	out := []c04Inst{}
	for i := 0; i < n; i++ {
		in := c04Inst{ID: fmt.Sprintf("d%d", rng.Intn(9)), T: tagMode != 0 && (tagMode > 2 || rng.Intn(2) == 0)}
		dup := false
		for _, o := range out {
			dup = dup || o.ID == in.ID
		}
		if dup {
			continue
		}
		switch mode {
		case 1:
			in.W = 1 + rng.Intn(100)
		case 2, 3:
			if rng.Intn(2) == 0 {
				in.W = 1 + rng.Intn(100)
			}
		}
		out = append(out, in)
	}
	return out
}

// TestVerifC04Trace: seeded random pools and request sequences through the Proxy filter.
func TestVerifC04Trace(t *testing.T) {
	w := vx.NewWriter(t, "VERIF_OUT")
	defer w.Close()
	tr := &c04Transport{}
	fnSendRequest = tr.send
	rng := vx.Rand(404)
	nTraces := vx.EnvInt("VERIF_N", 40)
	nSteps := vx.EnvInt("VERIF_STEPS", 60)
	for ti := 0; ti < nTraces; ti++ {
		cfg := c04RandConfig(rng)
		// two pools of three carry a retry policy: 2..4 attempts, or one more than the pool has servers
		switch rng.Intn(6) {
		case 0, 1:
			cfg.Att = 2 + rng.Intn(3)
		case 2, 3:
			cfg.Att = len(cfg.Static) + 1 + rng.Intn(2)
		}
		p, err := c04NewProxy(cfg)
		if err != nil {
			w.Emit(vx.M{"ev": "rejected", "cfg": cfg, "err": err.Error()})
			continue
		}
		keys := c04NewKeys(rng)
		w.Emit(vx.M{"ev": "reset", "cfg": cfg})
		// requests whose attempts the transport answers with failures (up to 4 in flight: g4..g7): the
		// number of failing attempts of each is drawn when it starts - often all the pool's attempts
		flights := map[string]*c04Flight{}
		fails := map[string]int{}
		fly := func(k string) {
			pn := fmt.Sprintf("g%d", 4+rng.Intn(4))
			f := flights[pn]
			if f == nil {
				f = c04Fly(p, keys, pn, k)
				flights[pn] = f
				fails[pn] = rng.Intn(cfg.Att + 1)
				if rng.Intn(3) == 0 {
					fails[pn] = cfg.Att
				}
			}
			answer := "ok"
			if f.sent > 0 && fails[pn] >= f.sent {
				answer = "neterr"
				if cfg.Att > 1 {
					answer = c04FailKind(rng)
				}
			}
			if f.step(w, answer) {
				delete(flights, pn)
			}
		}
		// a round robin balancer that has served k0 = 2^b - d selections before (2 of 3 generations)
		age := func() {
			if cfg.Policy != "roundRobin" || rng.Intn(3) == 0 {
				return
			}
			b, d := c04AgeBits[rng.Intn(len(c04AgeBits))], 1+rng.Intn(20)
			if rng.Intn(4) == 0 {
				b, d = 1+rng.Intn(62), 1 // any power of two
			}
			if why, probes := c04Age(p.mainPool.LoadBalancer(), keys.request("k0"), c04K0(b, d)); why != "" {
				c04NotAged(w, why, probes)
				return
			}
			w.Emit(vx.M{"ev": "age", "b": b, "d": d, "k0": fmt.Sprint(c04K0(b, d))})
			for i := 0; i < d+16; i++ {
				w.Emit(vx.M{"ev": "ch", "k": "k0", "r": c04Handle(p, tr, keys.request("k0"))})
			}
		}
		age()
		held := map[string]*c04Held{}
		var lastInsts []c04Inst
		for s := 0; s < nSteps; s++ {
			if cfg.Disc && rng.Intn(10) == 0 {
				// a discovery report: new instances, or (one in three) the previous report over again, or
				// (one in six) a report without a qualifying instance: the pool falls back to its static list
				insts := c04RandInsts(rng)
				switch x := rng.Intn(6); {
				case x < 2 && lastInsts != nil:
					insts = lastInsts
				case x == 2:
					for i := range insts {
						insts[i].T = false
					}
				}
				lastInsts = insts
				same := c04UseService(p.mainPool, insts)
				w.Emit(vx.M{"ev": "rep", "insts": insts, "same": same})
				age()
				continue
			}
			k := fmt.Sprintf("k%d", rng.Intn(4))
			if rng.Intn(4) == 0 {
				fly(k)
				continue
			}
			// requests held between the load of the balancer and the choice (up to 4 at a time)
			if pn := fmt.Sprintf("g%d", rng.Intn(4)); rng.Intn(6) == 0 {
				if h := held[pn]; h != nil {
					w.Emit(vx.M{"ev": "hpick", "p": pn, "r": h.choose()})
					delete(held, pn)
				} else {
					held[pn] = c04Hold(p.mainPool, keys.request(k))
					w.Emit(vx.M{"ev": "hold", "p": pn, "k": k})
				}
				continue
			}
			w.Emit(vx.M{"ev": "ch", "k": k, "r": c04Handle(p, tr, keys.request(k))})
		}
		for g := 0; g < 4; g++ {
			if h := held[fmt.Sprintf("g%d", g)]; h != nil {
				w.Emit(vx.M{"ev": "hpick", "p": fmt.Sprintf("g%d", g), "r": h.choose()})
			}
		}
		c04Land(w, flights)
		p.Close()
	}
}

// c04Rec keeps the events of one concurrent trace in memory so that the result of a call can be
// copied into its inv event before the trace is written.
type c04Rec struct {
	mu  sync.Mutex
	evs []vx.M
}

func (r *c04Rec) add(m vx.M) vx.M {
	r.mu.Lock()
	r.evs = append(r.evs, m)
	r.mu.Unlock()
	return m
}

// TestVerifC04Conc: concurrent selectors and a concurrent watcher.
func TestVerifC04Conc(t *testing.T) {
	w := vx.NewWriter(t, "VERIF_OUT")
	defer w.Close()
	rng := vx.Rand(4040)
	nTraces := vx.EnvInt("VERIF_N", 30)
	for ti := 0; ti < nTraces; ti++ {
		cfg := c04RandConfig(rng)
		if ti%2 == 0 {
			cfg.Policy = "roundRobin" // the clause about concurrent selections
		}
		if len(cfg.Static) > 4 {
			cfg.Static = cfg.Static[:4]
		}
		p, err := c04NewProxy(cfg)
		if err != nil {
			w.Emit(vx.M{"ev": "rejected", "cfg": cfg, "err": err.Error()})
			continue
		}
		sp := p.mainPool
		keys := c04NewKeys(rng)
		rec := &c04Rec{}
		// the linearisation search costs about 2^G states per round: few traces with 8 goroutines
		G := []int{2, 3, 4, 4, 6, 8}[rng.Intn(6)]
		per := 2 + rng.Intn(5)
		if G >= 6 {
			per = 2 + rng.Intn(2)
			if cfg.Policy != "roundRobin" {
				G = 4 // the other policies keep no state between calls: nothing to gain from more callers
			}
		}
		reps := 0
		if cfg.Disc {
			reps = rng.Intn(4)
		}
		var reports [][]c04Inst
		for i := 0; i < reps; i++ {
			reports = append(reports, c04RandInsts(rng))
		}
		// Rounds: in every round each goroutine logs its inv, waits at a spinning barrier until all
		// participants of the round have done so, and only then calls ChooseServer: all calls of a
		// round overlap pairwise. The watcher takes part in the rounds for which a report is scheduled.
		repRound := map[int][]c04Inst{}
		for _, insts := range reports {
			repRound[rng.Intn(per)] = insts
		}
		arrived := make([]int64, per)
		repDone := make([]int32, per)
		need := make([]int64, per)
		for r := 0; r < per; r++ {
			need[r] = int64(G)
			if _, ok := repRound[r]; ok {
				need[r]++
			}
		}
		barrier := func(r int) {
			atomic.AddInt64(&arrived[r], 1)
			for atomic.LoadInt64(&arrived[r]) < need[r] {
				runtime.Gosched()
			}
		}
		start := make(chan struct{})
		var wg sync.WaitGroup
		for g := 0; g < G; g++ {
			wg.Add(1)
			seed := rng.Int63()
			go func(g int, seed int64) {
				defer wg.Done()
				lr := vx.Rand(seed)
				pn := fmt.Sprintf("g%d", g)
				<-start
				for i := 0; i < per; i++ {
					k := fmt.Sprintf("k%d", lr.Intn(3))
					req := keys.request(k)
					_, replacing := repRound[i]
					hold := replacing && lr.Intn(3) == 0
					inv := rec.add(vx.M{"ev": "inv", "p": pn, "k": k})
					var r string
					if hold {
						// the schedule load - replace - choose: the request loads the balancer, the watcher
						// replaces the list completely, only then the request chooses
						h := c04Hold(sp, req)
						barrier(i)
						for atomic.LoadInt32(&repDone[i]) == 0 {
							runtime.Gosched()
						}
						r = h.choose()
						inv["held"] = true
					} else {
						barrier(i)
						r = c04Choose(sp, req)
					}
					rec.add(vx.M{"ev": "ret", "p": pn, "r": r})
					inv["r"] = r // written to the file only after all goroutines have finished
				}
			}(g, seed)
		}
		wg.Add(1)
		go func() {
			defer wg.Done()
			<-start
			for r := 0; r < per; r++ {
				insts, ok := repRound[r]
				if !ok {
					continue
				}
				rec.add(vx.M{"ev": "rinv", "insts": insts})
				barrier(r)
				sp.useService(c04Instances(insts))
				atomic.StoreInt32(&repDone[r], 1)
				rec.add(vx.M{"ev": "rret"})
			}
		}()
		close(start)
		wg.Wait()
		w.Emit(vx.M{"ev": "reset", "cfg": cfg, "G": G})
		for _, e := range rec.evs {
			w.Emit(e)
		}
		p.Close()
	}
}

// TestVerifC04Stress: bursts of selections by 8 goroutines on one pool, tallied without logging
// each call (so that the calls really overlap), recorded as one `batch` event per burst; between
// bursts the list is replaced and a few single requests are sent.
func TestVerifC04Stress(t *testing.T) {
	w := vx.NewWriter(t, "VERIF_OUT")
	defer w.Close()
	tr := &c04Transport{}
	fnSendRequest = tr.send
	rng := vx.Rand(40404)
	nTraces := vx.EnvInt("VERIF_N", 30)
	perG := vx.EnvInt("VERIF_STEPS", 2000)
	for ti := 0; ti < nTraces; ti++ {
		cfg := c04RandConfig(rng)
		if ti%2 == 0 {
			cfg.Policy = "roundRobin"
		}
		p, err := c04NewProxy(cfg)
		if err != nil {
			w.Emit(vx.M{"ev": "rejected", "cfg": cfg, "err": err.Error()})
			continue
		}
		sp := p.mainPool
		keys := c04NewKeys(rng)
		w.Emit(vx.M{"ev": "reset", "cfg": cfg})
		bursts := 1 + rng.Intn(3)
		for b := 0; b < bursts; b++ {
			if b > 0 && cfg.Disc {
				insts := c04RandInsts(rng)
				same := c04UseService(sp, insts)
				w.Emit(vx.M{"ev": "rep", "insts": insts, "same": same})
			}
			// every other round robin burst runs on a balancer that has served 2^b - d selections before, so
			// that the burst crosses the power of two. (Which servers had had the extra selection is not
			// observable in a tally: the burst is then the last thing observed of its generation.)
			aged := false
			fresh, lastOfGen := b == 0 || cfg.Disc, cfg.Disc || b == bursts-1
			if cfg.Policy == "roundRobin" && fresh && lastOfGen && rng.Intn(2) == 0 {
				ab, ad := c04AgeBits[rng.Intn(len(c04AgeBits))], 1+rng.Intn(200)
				if why, probes := c04Age(sp.LoadBalancer(), keys.request("k0"), c04K0(ab, ad)); why != "" {
					c04NotAged(w, why, probes)
				} else {
					w.Emit(vx.M{"ev": "age", "b": ab, "d": ad, "k0": fmt.Sprint(c04K0(ab, ad))})
					aged = true
				}
			}
			const G = 8
			n := 1 + rng.Intn(perG)
			tallies := make([]map[[2]string]int, G)
			start := make(chan struct{})
			var wg sync.WaitGroup
			for g := 0; g < G; g++ {
				wg.Add(1)
				seed := rng.Int63()
				go func(g int, seed int64) {
					defer wg.Done()
					lr := vx.Rand(seed)
					reqs := map[string]*httpprot.Request{}
					for i := 0; i < 4; i++ {
						k := fmt.Sprintf("k%d", i)
						reqs[k] = keys.request(k)
					}
					tally := map[[2]string]int{}
					<-start
					for i := 0; i < n; i++ {
						k := fmt.Sprintf("k%d", lr.Intn(4))
						tally[[2]string{k, c04Choose(sp, reqs[k])}]++
					}
					tallies[g] = tally
				}(g, seed)
			}
			close(start)
			wg.Wait()
			total := map[[2]string]int{}
			for _, tl := range tallies {
				for k, c := range tl {
					total[k] += c
				}
			}
			picks := []vx.M{}
			for k, c := range total {
				picks = append(picks, vx.M{"k": k[0], "id": k[1], "c": c})
			}
			sort.Slice(picks, func(i, j int) bool {
				return picks[i]["k"].(string)+"/"+picks[i]["id"].(string) < picks[j]["k"].(string)+"/"+picks[j]["id"].(string)
			})
			w.Emit(vx.M{"ev": "batch", "picks": picks, "n": n * G})
			// the sequence must go on consistently after the burst
			for i := 0; i < 3 && !aged; i++ {
				k := fmt.Sprintf("k%d", rng.Intn(4))
				w.Emit(vx.M{"ev": "ch", "k": k, "r": c04Handle(p, tr, keys.request(k))})
			}
		}
		p.Close()
	}
}

package proxy

// Harness for the pool-level clause of C08: "the Proxy reports a short-circuited call as 503 with
// result shortCircuited without contacting any server" (and one recorded result per admitted request).
//   TestVerifC08Pool - sequences of client requests (buffered and streamed bodies) through a real Proxy
//                      whose pool carries a real CircuitBreakerPolicy and, in half of the traces, a real
//                      RetryPolicy; the transport (package variable fnSendRequest) is scripted per
//                      request. After every request the harness records what the client saw, how many
//                      calls reached the transport, and the breaker's own window total and state.
//                      Every third trace runs on a Proxy whose main pool and candidate pool name the same
//                      circuitBreakerPolicy, every third on two Proxy filters that were handed the same
//                      policy objects (as the filters of one pipeline are): requests go to either pool, one
//                      of which fails a lot; the breaker observed is the one of the pool that served.
// Judging is done by TLC (CircuitBreakerPool_Trace) against the breaker contract of C08, for the history
// of each pool on its own.

import (
	stdcontext "context"
	"fmt"
	"io"
	"net/http"
	"reflect"
	"strings"
	"sync"
	"testing"
	"time"
	"unsafe"

	"github.com/megaease/easegress/pkg/context"
	"github.com/megaease/easegress/pkg/filters"
	"github.com/megaease/easegress/pkg/logger"
	"github.com/megaease/easegress/pkg/protocols/httpprot"
	"github.com/megaease/easegress/pkg/resilience"
	"github.com/megaease/easegress/pkg/tracing"
	libcb "github.com/megaease/easegress/pkg/util/circuitbreaker"
	vx "github.com/megaease/easegress/pkg/verifx"
)

func init() { logger.InitNop() }

// one tick of the contract's clock is one second of real time in this harness
const c08Tick = time.Second

type c08Trace struct {
	mu     sync.Mutex
	script []string // what the transport does for the calls of the current request
	calls  int
}

var c08Traces sync.Map

func c08Send(req *http.Request, _ *http.Client) (*http.Response, error) {
	v, ok := c08Traces.Load(req.Header.Get("X-C08-Id"))
	if !ok {
		return nil, fmt.Errorf("c08: unknown trace")
	}
	tr := v.(*c08Trace)
	tr.mu.Lock()
	tr.calls++
	i := tr.calls
	k := tr.script[len(tr.script)-1]
	if i <= len(tr.script) {
		k = tr.script[i-1]
	}
	tr.mu.Unlock()
	if req.Body != nil {
		io.Copy(io.Discard, req.Body)
	}
	switch k {
	case "ok":
		return &http.Response{StatusCode: 200, Header: http.Header{}, ContentLength: 2, Body: io.NopCloser(strings.NewReader("ok"))}, nil
	case "fcode":
		return &http.Response{StatusCode: 503, Header: http.Header{}, ContentLength: 4, Body: io.NopCloser(strings.NewReader("busy"))}, nil
	case "panic":
		panic("c08: scripted transport panic")
	}
	return nil, fmt.Errorf("c08: scripted network error")
}

func c08Breaker(sp *ServerPool) *libcb.CircuitBreaker {
	v := reflect.ValueOf(sp.circuitBreakerWrapper)
	return v.FieldByName("CircuitBreaker").Interface().(*libcb.CircuitBreaker)
}

func c08Total(cb *libcb.CircuitBreaker) int {
	f := reflect.ValueOf(cb).Elem().FieldByName("window")
	w := reflect.NewAt(f.Type(), unsafe.Pointer(f.UnsafeAddr())).Elem().Interface().(libcb.Window)
	return int(w.Total())
}

var c08StateNames = map[libcb.State]string{libcb.StateClosed: "closed", libcb.StateOpen: "open", libcb.StateHalfOpen: "halfopen",
	libcb.StateDisabled: "disabled", libcb.StateForceOpen: "forceopen"}

// c08Set is what one trace runs on: one Proxy with one pool ("single"), one Proxy whose main pool and
// candidate pool name the same circuitBreakerPolicy ("cand"), or two Proxy filters of one pipeline whose
// pools name the same policy ("proxies": the pipeline hands every filter the same policy objects).
// pools[x] is the server pool that serves the requests of class x ("a", "b"), via[x] the filter they enter.
type c08Set struct {
	pools map[string]*ServerPool
	via   map[string]*Proxy
	all   []*Proxy
}

func (s *c08Set) Close() {
	for _, p := range s.all {
		p.Close()
	}
}

func c08NewSet(variant string, pol vx.M, retry bool, maxAttempts int) (*c08Set, error) {
	policies, err := c08Policies(pol, retry, maxAttempts)
	if err != nil {
		return nil, err
	}
	poolSpec := func(host string, cand bool) map[string]interface{} {
		pool := map[string]interface{}{
			"servers":              []interface{}{map[string]interface{}{"url": "http://" + host + ":8080"}},
			"failureCodes":         []interface{}{503},
			"circuitBreakerPolicy": "c08cb",
		}
		if retry {
			pool["retryPolicy"] = "c08retry"
		}
		if cand {
			pool["filter"] = map[string]interface{}{"headers": map[string]interface{}{"X-C08-Pool": map[string]interface{}{"exact": "b"}}}
		}
		return pool
	}
	build := func(name string, pools ...interface{}) (*Proxy, error) {
		raw := map[string]interface{}{"name": name, "kind": Kind, "pools": pools}
		spec, err := filters.NewSpec(nil, "", raw)
		if err != nil {
			return nil, err
		}
		p := kind.CreateInstance(spec).(*Proxy)
		p.Init()
		p.InjectResiliencePolicy(policies) // as Pipeline does for every filter that is a Resiliencer
		return p, nil
	}
	set := &c08Set{pools: map[string]*ServerPool{}, via: map[string]*Proxy{}}
	switch variant {
	case "cand":
		p, err := build("c08", poolSpec("c08a.test", false), poolSpec("c08b.test", true))
		if err != nil {
			return nil, err
		}
		if len(p.candidatePools) != 1 {
			return nil, fmt.Errorf("c08: expected one candidate pool, have %d", len(p.candidatePools))
		}
		set.all = []*Proxy{p}
		set.pools["a"], set.pools["b"] = p.mainPool, p.candidatePools[0]
		set.via["a"], set.via["b"] = p, p
	case "proxies":
		pa, err := build("c08a", poolSpec("c08a.test", false))
		if err != nil {
			return nil, err
		}
		pb, err := build("c08b", poolSpec("c08b.test", false))
		if err != nil {
			pa.Close()
			return nil, err
		}
		set.all = []*Proxy{pa, pb}
		set.pools["a"], set.pools["b"] = pa.mainPool, pb.mainPool
		set.via["a"], set.via["b"] = pa, pb
	default:
		p, err := build("c08", poolSpec("c08.test", false))
		if err != nil {
			return nil, err
		}
		set.all = []*Proxy{p}
		set.pools["a"] = p.mainPool
		set.via["a"] = p
	}
	return set, nil
}

func c08Policies(pol vx.M, retry bool, maxAttempts int) (map[string]resilience.Policy, error) {
	wait := "2h"
	if vx.Int(pol["waitOpen"]) < 1000 {
		wait = (time.Duration(vx.Int(pol["waitOpen"])) * c08Tick).String()
	}
	cbp, err := resilience.NewPolicy(map[string]interface{}{"kind": "CircuitBreaker", "name": "c08cb",
		"slidingWindowType": "COUNT_BASED", "failureRateThreshold": vx.Int(pol["failT"]), "slowCallRateThreshold": vx.Int(pol["slowT"]),
		"slidingWindowSize": vx.Int(pol["wsize"]), "minimumNumberOfCalls": vx.Int(pol["minCalls"]),
		"permittedNumberOfCallsInHalfOpenState": vx.Int(pol["permitted"]), "waitDurationInOpenState": wait})
	if err != nil {
		return nil, err
	}
	policies := map[string]resilience.Policy{"c08cb": cbp}
	if retry {
		rp, err := resilience.NewPolicy(map[string]interface{}{"kind": "Retry", "name": "c08retry", "maxAttempts": maxAttempts,
			"waitDuration": "1ms", "backOffPolicy": "random"})
		if err != nil {
			return nil, err
		}
		policies["c08retry"] = rp
	}
	return policies, nil
}

// c08Request sends one request and returns the observation.
func c08Request(set *c08Set, pool string, id string, tr *c08Trace, stream bool, script []string) vx.M {
	p := set.via[pool]
	tr.mu.Lock()
	tr.script = script
	tr.calls = 0
	tr.mu.Unlock()
	stdr, _ := http.NewRequestWithContext(stdcontext.Background(), http.MethodPost, "http://c08.example.com/x", strings.NewReader("c08-body"))
	stdr.Header.Set("X-C08-Id", id)
	stdr.Header.Set("X-C08-Pool", pool)
	req, _ := httpprot.NewRequest(stdr)
	if stream {
		req.FetchPayload(-1)
	} else {
		req.FetchPayload(0)
	}
	ctx := context.New(tracing.NoopSpan)
	ctx.SetRequest(context.DefaultNamespace, req)
	res, panicked := "", false
	func() {
		defer func() {
			if x := recover(); x != nil {
				panicked = true
			}
		}()
		res = p.Handle(ctx)
	}()
	st := 0
	if !panicked {
		if resp, ok := ctx.GetOutputResponse().(*httpprot.Response); ok && resp != nil {
			st = resp.StatusCode()
		}
	} else {
		res = "panic"
	}
	cb := c08Breaker(set.pools[pool]) // the breaker of the pool that served the request
	tr.mu.Lock()
	k := tr.calls
	tr.mu.Unlock()
	return vx.M{"ev": "req", "pool": pool, "res": res, "st": st, "k": k, "fail": res != "", "tot": c08Total(cb), "s": c08StateNames[cb.State()],
		"stream": req.IsStream(), "script": script}
}

func TestVerifC08Pool(t *testing.T) {
	w := vx.NewWriter(t, "VERIF_OUT")
	defer w.Close()
	fnSendRequest = c08Send
	rng := vx.Rand(88)
	nTraces := vx.EnvInt("VERIF_N", 40)
	nReq := vx.EnvInt("VERIF_STEPS", 30)
	out := make([][]vx.M, nTraces)
	var wg sync.WaitGroup
	for ti := 0; ti < nTraces; ti++ {
		pol := vx.M{"failT": []int{34, 50, 100}[rng.Intn(3)], "slowT": 100, "wt": "count", "wsize": 2 + rng.Intn(3),
			"minCalls": 1 + rng.Intn(3), "permitted": 1 + rng.Intn(2), "waitOpen": 7200, "maxWaitHO": 0}
		sleeps := 0
		if ti%4 == 0 {
			pol["waitOpen"] = 2
			sleeps = 1 + rng.Intn(2)
		}
		retry := ti%2 == 1 || rng.Intn(3) == 0
		maxAtt := 2 + rng.Intn(2)
		// every third trace: two pools of one Proxy, every third: two Proxies - naming the same policy
		variant := []string{"single", "cand", "proxies"}[ti%3]
		seed := rng.Int63()
		wg.Add(1)
		go func(ti int, seed int64) {
			defer wg.Done()
			lr := vx.Rand(seed)
			id := fmt.Sprintf("t%d", ti)
			evs := []vx.M{{"ev": "reset", "pol": pol, "retry": retry, "max": maxAtt, "variant": variant}}
			set, err := c08NewSet(variant, pol, retry, maxAtt)
			if err != nil {
				out[ti] = append(evs, vx.M{"ev": "rejected", "err": err.Error()})
				return
			}
			defer set.Close()
			tr := &c08Trace{}
			c08Traces.Store(id, tr)
			defer c08Traces.Delete(id)
			// how often the backend of a pool fails; with two pools the second one's backend is healthy in
			// half of the traces (its own calls nearly all succeed) while the first one's fails a lot
			failBias := map[string]int{"a": 30 + lr.Intn(60)}
			nr := nReq
			if len(set.pools) == 2 {
				failBias["a"] = 55 + lr.Intn(40)
				failBias["b"] = 30 + lr.Intn(60)
				if lr.Intn(2) == 0 {
					failBias["b"] = lr.Intn(8)
				}
				nr = nReq * 3 / 2
			}
			openedAt := map[string]time.Time{}
			tainted := ""
			for s := 0; s < nr; s++ {
				pool := "a"
				if len(set.pools) == 2 && lr.Intn(2) == 0 {
					pool = "b"
				}
				fb := failBias[pool]
				script := make([]string, maxAtt)
				for i := range script {
					switch x := lr.Intn(100); {
					case x < fb/2:
						script[i] = "neterr"
					case x < fb:
						script[i] = "fcode"
					case x < fb+3 && fb >= 10:
						script[i] = "panic"
					default:
						script[i] = "ok"
					}
				}
				e := c08Request(set, pool, id, tr, lr.Intn(2) == 0, script)
				evs = append(evs, e)
				switch e["s"] {
				case "open":
					if openedAt[pool].IsZero() {
						openedAt[pool] = time.Now()
					} else if vx.Int(pol["waitOpen"]) < 1000 && time.Since(openedAt[pool]) > c08Tick*3/2 {
						tainted = "requests after opening took more than the margin of the wait duration"
					}
				default:
					delete(openedAt, pool)
				}
				if e["s"] == "open" && sleeps > 0 && lr.Intn(2) == 0 {
					// let waitDurationInOpenState elapse (one-sided: we sleep longer than it); the time passes
					// for every pool
					sleeps--
					d := vx.Int(pol["waitOpen"])
					time.Sleep(time.Duration(d)*c08Tick + c08Tick/5)
					evs = append(evs, vx.M{"ev": "tick", "d": d})
					openedAt = map[string]time.Time{}
				}
			}
			if tainted != "" {
				evs[0]["tainted"] = tainted
			}
			out[ti] = evs
		}(ti, seed)
	}
	wg.Wait()
	for _, evs := range out {
		for _, e := range evs {
			w.Emit(e)
		}
	}
}

package proxy

// Harness for the pool-level clause of C08: "the Proxy reports a short-circuited call as 503 with
// result shortCircuited without contacting any server" (and one recorded result per admitted request).
//   TestVerifC08Pool - sequences of client requests (buffered and streamed bodies) through a real Proxy
//                      whose pool carries a real CircuitBreakerPolicy and, in half of the traces, a real
//                      RetryPolicy; the transport (package variable fnSendRequest) is scripted per
//                      request. After every request the harness records what the client saw, how many
//                      calls reached the transport, and the breaker's own window total and state.
// Judging is done by TLC (CircuitBreakerPool_Trace) against the breaker contract of C08.

import (
	stdcontext "context"
	"fmt"
	"io"
	"net/http"
	"reflect"
	"strings"
	"sync"
	"testing"
	"time"
	"unsafe"

	"github.com/megaease/easegress/pkg/context"
	"github.com/megaease/easegress/pkg/filters"
	"github.com/megaease/easegress/pkg/logger"
	"github.com/megaease/easegress/pkg/protocols/httpprot"
	"github.com/megaease/easegress/pkg/resilience"
	"github.com/megaease/easegress/pkg/tracing"
	libcb "github.com/megaease/easegress/pkg/util/circuitbreaker"
	vx "github.com/megaease/easegress/pkg/verifx"
)

func init() { logger.InitNop() }

// one tick of the contract's clock is one second of real time in this harness
const c08Tick = time.Second

type c08Trace struct {
	mu     sync.Mutex
	script []string // what the transport does for the calls of the current request
	calls  int
}

var c08Traces sync.Map

func c08Send(req *http.Request, _ *http.Client) (*http.Response, error) {
	v, ok := c08Traces.Load(req.Header.Get("X-C08-Id"))
	if !ok {
		return nil, fmt.Errorf("c08: unknown trace")
	}
	tr := v.(*c08Trace)
	tr.mu.Lock()
	tr.calls++
	i := tr.calls
	k := tr.script[len(tr.script)-1]
	if i <= len(tr.script) {
		k = tr.script[i-1]
	}
	tr.mu.Unlock()
	if req.Body != nil {
		io.Copy(io.Discard, req.Body)
	}
	switch k {
	case "ok":
		return &http.Response{StatusCode: 200, Header: http.Header{}, ContentLength: 2, Body: io.NopCloser(strings.NewReader("ok"))}, nil
	case "fcode":
		return &http.Response{StatusCode: 503, Header: http.Header{}, ContentLength: 4, Body: io.NopCloser(strings.NewReader("busy"))}, nil
	case "panic":
		panic("c08: scripted transport panic")
	}
	return nil, fmt.Errorf("c08: scripted network error")
}

func c08Breaker(sp *ServerPool) *libcb.CircuitBreaker {
	v := reflect.ValueOf(sp.circuitBreakerWrapper)
	return v.FieldByName("CircuitBreaker").Interface().(*libcb.CircuitBreaker)
}

func c08Total(cb *libcb.CircuitBreaker) int {
	f := reflect.ValueOf(cb).Elem().FieldByName("window")
	w := reflect.NewAt(f.Type(), unsafe.Pointer(f.UnsafeAddr())).Elem().Interface().(libcb.Window)
	return int(w.Total())
}

var c08StateNames = map[libcb.State]string{libcb.StateClosed: "closed", libcb.StateOpen: "open", libcb.StateHalfOpen: "halfopen",
	libcb.StateDisabled: "disabled", libcb.StateForceOpen: "forceopen"}

func c08NewProxy(pol vx.M, retry bool, maxAttempts int) (*Proxy, error) {
	pool := map[string]interface{}{
		"servers":              []interface{}{map[string]interface{}{"url": "http://c08.test:8080"}},
		"failureCodes":         []interface{}{503},
		"circuitBreakerPolicy": "c08cb",
	}
	wait := "2h"
	if vx.Int(pol["waitOpen"]) < 1000 {
		wait = (time.Duration(vx.Int(pol["waitOpen"])) * c08Tick).String()
	}
	cbp, err := resilience.NewPolicy(map[string]interface{}{"kind": "CircuitBreaker", "name": "c08cb",
		"slidingWindowType": "COUNT_BASED", "failureRateThreshold": vx.Int(pol["failT"]), "slowCallRateThreshold": vx.Int(pol["slowT"]),
		"slidingWindowSize": vx.Int(pol["wsize"]), "minimumNumberOfCalls": vx.Int(pol["minCalls"]),
		"permittedNumberOfCallsInHalfOpenState": vx.Int(pol["permitted"]), "waitDurationInOpenState": wait})
	if err != nil {
		return nil, err
	}
	policies := map[string]resilience.Policy{"c08cb": cbp}
	if retry {
		pool["retryPolicy"] = "c08retry"
		rp, err := resilience.NewPolicy(map[string]interface{}{"kind": "Retry", "name": "c08retry", "maxAttempts": maxAttempts,
			"waitDuration": "1ms", "backOffPolicy": "random"})
		if err != nil {
			return nil, err
		}
		policies["c08retry"] = rp
	}
	raw := map[string]interface{}{"name": "c08", "kind": Kind, "pools": []interface{}{pool}}
	spec, err := filters.NewSpec(nil, "", raw)
	if err != nil {
		return nil, err
	}
	p := kind.CreateInstance(spec).(*Proxy)
	p.Init()
	p.InjectResiliencePolicy(policies)
	return p, nil
}

// c08Request sends one request and returns the observation.
func c08Request(p *Proxy, id string, tr *c08Trace, stream bool, script []string) vx.M {
	tr.mu.Lock()
	tr.script = script
	tr.calls = 0
	tr.mu.Unlock()
	stdr, _ := http.NewRequestWithContext(stdcontext.Background(), http.MethodPost, "http://c08.example.com/x", strings.NewReader("c08-body"))
	stdr.Header.Set("X-C08-Id", id)
	req, _ := httpprot.NewRequest(stdr)
	if stream {
		req.FetchPayload(-1)
	} else {
		req.FetchPayload(0)
	}
	ctx := context.New(tracing.NoopSpan)
	ctx.SetRequest(context.DefaultNamespace, req)
	res, panicked := "", false
	func() {
		defer func() {
			if x := recover(); x != nil {
				panicked = true
			}
		}()
		res = p.Handle(ctx)
	}()
	st := 0
	if !panicked {
		if resp, ok := ctx.GetOutputResponse().(*httpprot.Response); ok && resp != nil {
			st = resp.StatusCode()
		}
	} else {
		res = "panic"
	}
	cb := c08Breaker(p.mainPool)
	tr.mu.Lock()
	k := tr.calls
	tr.mu.Unlock()
	return vx.M{"ev": "req", "res": res, "st": st, "k": k, "fail": res != "", "tot": c08Total(cb), "s": c08StateNames[cb.State()],
		"stream": req.IsStream(), "script": script}
}

func TestVerifC08Pool(t *testing.T) {
	w := vx.NewWriter(t, "VERIF_OUT")
	defer w.Close()
	fnSendRequest = c08Send
	rng := vx.Rand(88)
	nTraces := vx.EnvInt("VERIF_N", 40)
	nReq := vx.EnvInt("VERIF_STEPS", 30)
	out := make([][]vx.M, nTraces)
	var wg sync.WaitGroup
	for ti := 0; ti < nTraces; ti++ {
		pol := vx.M{"failT": []int{34, 50, 100}[rng.Intn(3)], "slowT": 100, "wt": "count", "wsize": 2 + rng.Intn(3),
			"minCalls": 1 + rng.Intn(3), "permitted": 1 + rng.Intn(2), "waitOpen": 7200, "maxWaitHO": 0}
		sleeps := 0
		if ti%4 == 0 {
			pol["waitOpen"] = 2
			sleeps = 1 + rng.Intn(2)
		}
		retry := ti%2 == 1 || rng.Intn(3) == 0
		maxAtt := 2 + rng.Intn(2)
		seed := rng.Int63()
		wg.Add(1)
		go func(ti int, seed int64) {
			defer wg.Done()
			lr := vx.Rand(seed)
			id := fmt.Sprintf("t%d", ti)
			evs := []vx.M{{"ev": "reset", "pol": pol, "retry": retry, "max": maxAtt}}
			p, err := c08NewProxy(pol, retry, maxAtt)
			if err != nil {
				out[ti] = append(evs, vx.M{"ev": "rejected", "err": err.Error()})
				return
			}
			defer p.Close()
			tr := &c08Trace{}
			c08Traces.Store(id, tr)
			defer c08Traces.Delete(id)
			failBias := 30 + lr.Intn(60)
			var openedAt time.Time
			tainted := ""
			for s := 0; s < nReq; s++ {
				script := make([]string, maxAtt)
				for i := range script {
					switch x := lr.Intn(100); {
					case x < failBias/2:
						script[i] = "neterr"
					case x < failBias:
						script[i] = "fcode"
					case x < failBias+3:
						script[i] = "panic"
					default:
						script[i] = "ok"
					}
				}
				e := c08Request(p, id, tr, lr.Intn(2) == 0, script)
				evs = append(evs, e)
				switch e["s"] {
				case "open":
					if openedAt.IsZero() {
						openedAt = time.Now()
					} else if vx.Int(pol["waitOpen"]) < 1000 && time.Since(openedAt) > c08Tick*3/2 {
						tainted = "requests after opening took more than the margin of the wait duration"
					}
				default:
					openedAt = time.Time{}
				}
				if e["s"] == "open" && sleeps > 0 && lr.Intn(2) == 0 {
					// let waitDurationInOpenState elapse (one-sided: we sleep longer than it)
					sleeps--
					d := vx.Int(pol["waitOpen"])
					time.Sleep(time.Duration(d)*c08Tick + c08Tick/5)
					evs = append(evs, vx.M{"ev": "tick", "d": d})
					openedAt = time.Time{}
				}
			}
			if tainted != "" {
				evs[0]["tainted"] = tainted
			}
			out[ti] = evs
		}(ti, seed)
	}
	wg.Wait()
	for _, evs := range out {
		for _, e := range evs {
			w.Emit(e)
		}
	}
}

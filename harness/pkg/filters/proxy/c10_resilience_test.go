package proxy

// Harness for C10 (DESIGN 5/C10): retry / time-out / circuit-breaker wrapping of ServerPool.handle.
//   TestVerifC10Vectors - runs TLC-generated scenarios (Resilience_Gen) on a real Proxy whose pool
//                         has the real RetryPolicy / CircuitBreakerPolicy injected through
//                         InjectResiliencePolicy; the transport (package variable fnSendRequest) is a
//                         script; every call reaching it, every return, the client's cancellation and
//                         the final result are recorded for validation by Resilience_Trace.
// The harness judges nothing. Real time appears in two places, both one-sided: the gap between two
// calls is measured from the previous call's return to the next call's entry (never shorter than the
// wait the retry loop made), and a scenario whose timing could not be kept (cancellation delivered
// late, a deadline that expired around a fast call) is marked tainted and not validated.

import (
	stdcontext "context"
	"fmt"
	"io"
	"net/http"
	"reflect"
	"strconv"
	"strings"
	"sync"
	"testing"
	"time"
	"unsafe"

	"github.com/megaease/easegress/pkg/context"
	"github.com/megaease/easegress/pkg/filters"
	"github.com/megaease/easegress/pkg/logger"
	"github.com/megaease/easegress/pkg/protocols/httpprot"
	"github.com/megaease/easegress/pkg/resilience"
	"github.com/megaease/easegress/pkg/tracing"
	libcb "github.com/megaease/easegress/pkg/util/circuitbreaker"
	vx "github.com/megaease/easegress/pkg/verifx"
)

func init() { logger.InitNop() }

type c10Scenario struct {
	Retry   bool     `json:"retry"`
	Max     int      `json:"max"`
	Stream  bool     `json:"stream"`
	CB      string   `json:"cb"`
	Tmo     bool     `json:"tmo"`
	Script  []string `json:"script"`
	CancelB int      `json:"cancelB"`
	Base    int      `json:"base"` // microseconds (in the recorded trace)
	F       int      `json:"f"`
	Exp     bool     `json:"exp"`
	Cdl     string   `json:"cdl"` // deadline of the client's own context: none | later | earlier
}

func c10ScenarioOf(m vx.M) c10Scenario {
	s := c10Scenario{Retry: vx.Bool(m["retry"]), Max: vx.Int(m["max"]), Stream: vx.Bool(m["stream"]), CB: vx.Str(m["cb"]),
		Tmo: vx.Bool(m["tmo"]), CancelB: vx.Int(m["cancelB"]), F: vx.Int(m["f"]), Exp: vx.Bool(m["exp"]), Cdl: vx.Str(m["cdl"])}
	for _, k := range vx.List(m["script"]) {
		s.Script = append(s.Script, k.(string))
	}
	return s
}

func (s c10Scenario) kind(i int) string {
	if i <= len(s.Script) {
		return s.Script[i-1]
	}
	return s.Script[len(s.Script)-1]
}

func (s c10Scenario) hangs() bool {
	for _, k := range s.Script {
		if k == "hang" {
			return true
		}
	}
	return false
}

const c10Body = "c10-request-body-0123456789"

// c10Run is the state of one scenario while it runs.
type c10Run struct {
	mu        sync.Mutex
	sc        c10Scenario
	evs       []vx.M
	calls     int
	lastExit  time.Time
	cancel    stdcontext.CancelFunc
	tainted   string
	minWait   time.Duration // lower bound of the first back-off (for the cancellation timing)
	hangGuard time.Duration
	bodies    []string
	wg        sync.WaitGroup
}

func (r *c10Run) emit(m vx.M) {
	r.evs = append(r.evs, m)
}

func (r *c10Run) taint(why string) {
	if r.tainted == "" {
		r.tainted = why
	}
}

var c10Runs sync.Map // id -> *c10Run

func c10Send(req *http.Request, _ *http.Client) (*http.Response, error) {
	v, ok := c10Runs.Load(req.Header.Get("X-C10-Id"))
	if !ok {
		return nil, fmt.Errorf("c10: unknown run")
	}
	r := v.(*c10Run)
	entry := time.Now()
	r.mu.Lock()
	r.calls++
	i := r.calls
	w := 0
	if i > 1 {
		w = int((entry.Sub(r.lastExit) + time.Microsecond - 1) / time.Microsecond)
	}
	r.emit(vx.M{"ev": "att", "i": i, "w": w})
	k := r.sc.kind(i)
	r.mu.Unlock()

	body := ""
	if req.Body != nil {
		b, _ := io.ReadAll(req.Body)
		body = string(b)
	}

	var resp *http.Response
	var err error
	mk := func(code int) *http.Response {
		b := fmt.Sprintf("attempt-%d", i)
		return &http.Response{StatusCode: code, Header: http.Header{"X-C10-Attempt": []string{strconv.Itoa(i)}},
			ContentLength: int64(len(b)), Body: io.NopCloser(strings.NewReader(b))}
	}
	switch k {
	case "ok":
		resp = mk(200)
	case "okc":
		resp = mk(404)
	case "fcode":
		resp = mk(500)
	case "neterr":
		err = fmt.Errorf("c10: scripted network error")
	case "hang":
		select {
		case <-req.Context().Done():
			err = req.Context().Err()
		case <-time.After(r.hangGuard):
			// nobody ended the call: the pool did not apply its time-out
			k = "hung"
			err = fmt.Errorf("c10: gave up waiting for the time-out")
		}
	case "cdl":
		// the client's own deadline (earlier than the pool time-out) expires during this call
		if req.Context().Err() != nil {
			r.mu.Lock()
			r.taint("client deadline expired before the call it was meant for")
			r.mu.Unlock()
		}
		select {
		case <-req.Context().Done():
			err = req.Context().Err()
		case <-time.After(r.hangGuard):
			k = "hung"
			err = fmt.Errorf("c10: gave up waiting for the client's deadline")
		}
	case "cancel":
		r.mu.Lock()
		r.cancel()
		r.mu.Unlock()
		err = req.Context().Err()
		if err == nil {
			err = stdcontext.Canceled
		}
	}

	r.mu.Lock()
	r.bodies = append(r.bodies, body)
	if k != "hang" && k != "cancel" && k != "cdl" && req.Context().Err() != nil {
		// a deadline or cancellation overtook a call that was meant to be quick: timing not kept
		r.taint("context ended around a quick call")
	}
	r.lastExit = time.Now()
	r.emit(vx.M{"ev": "ret", "i": i, "k": k})
	if r.sc.CancelB == i {
		exit := r.lastExit
		r.wg.Add(1)
		go func() {
			defer r.wg.Done()
			time.Sleep(r.minWait / 8)
			r.mu.Lock()
			defer r.mu.Unlock()
			r.cancel()
			if time.Since(exit) > r.minWait/2 {
				r.taint("cancellation delivered late")
			}
			r.emit(vx.M{"ev": "cancel"})
		}()
	}
	r.mu.Unlock()
	return resp, err
}

func c10Dur(d time.Duration) string { return d.String() }

// c10NewProxy builds a Proxy with one pool and the policies of the scenario.
func c10NewProxy(sc c10Scenario, base, hangTimeout time.Duration) (*Proxy, error) {
	pool := map[string]interface{}{
		"servers":      []interface{}{map[string]interface{}{"url": "http://c10.test:8080"}},
		"failureCodes": []interface{}{500, 502},
	}
	if sc.Tmo {
		if sc.hangs() {
			pool["timeout"] = c10Dur(hangTimeout)
		} else {
			pool["timeout"] = "30s"
		}
	}
	policies := map[string]resilience.Policy{}
	if sc.Retry {
		pool["retryPolicy"] = "c10retry"
		bo := "random"
		if sc.Exp {
			bo = "exponential"
		}
		p, err := resilience.NewPolicy(map[string]interface{}{"kind": "Retry", "name": "c10retry", "maxAttempts": sc.Max,
			"waitDuration": c10Dur(base), "backOffPolicy": bo, "randomizationFactor": float64(sc.F) / 100})
		if err != nil {
			return nil, err
		}
		policies["c10retry"] = p
	}
	if sc.CB != "none" {
		pool["circuitBreakerPolicy"] = "c10cb"
		p, err := resilience.NewPolicy(map[string]interface{}{"kind": "CircuitBreaker", "name": "c10cb",
			"slidingWindowType": "COUNT_BASED", "failureRateThreshold": 50, "slidingWindowSize": 10,
			"minimumNumberOfCalls": 4, "permittedNumberOfCallsInHalfOpenState": 1, "waitDurationInOpenState": "1h"})
		if err != nil {
			return nil, err
		}
		policies["c10cb"] = p
	}
	raw := map[string]interface{}{"name": "c10", "kind": Kind, "pools": []interface{}{pool}}
	spec, err := filters.NewSpec(nil, "", raw)
	if err != nil {
		return nil, err
	}
	p := kind.CreateInstance(spec).(*Proxy)
	p.Init()
	p.InjectResiliencePolicy(policies)
	return p, nil
}

// c10Breaker digs the real circuit breaker out of the pool's wrapper (an unexported struct of
// package resilience that embeds *circuitbreaker.CircuitBreaker).
func c10Breaker(sp *ServerPool) *libcb.CircuitBreaker {
	if sp.circuitBreakerWrapper == nil {
		return nil
	}
	v := reflect.ValueOf(sp.circuitBreakerWrapper)
	return v.FieldByName("CircuitBreaker").Interface().(*libcb.CircuitBreaker)
}

// c10Total reads the breaker's own count of recorded results (window.Total()).
func c10Total(cb *libcb.CircuitBreaker) int {
	if cb == nil {
		return 0
	}
	f := reflect.ValueOf(cb).Elem().FieldByName("window")
	w := reflect.NewAt(f.Type(), unsafe.Pointer(f.UnsafeAddr())).Elem().Interface().(libcb.Window)
	return int(w.Total())
}

func c10RunScenario(id string, sc c10Scenario, slow int) *c10Run {
	base := time.Duration(20*slow) * time.Millisecond
	if sc.CancelB > 0 {
		// the cancellation must land well inside the back-off even on a busy machine
		base = time.Duration(120*slow) * time.Millisecond
	}
	hangTimeout := time.Duration(120*slow) * time.Millisecond
	sc.Base = int(base / time.Microsecond)
	r := &c10Run{sc: sc, hangGuard: time.Duration(4*slow) * time.Second}
	r.minWait = base * time.Duration(100-sc.F) / 100
	r.emit(vx.M{"ev": "reset", "sc": sc, "id": id})
	p, err := c10NewProxy(sc, base, hangTimeout)
	if err != nil {
		r.emit(vx.M{"ev": "rejected", "err": err.Error()})
		return r
	}
	defer p.Close()
	sp := p.mainPool
	cb := c10Breaker(sp)
	if sc.CB == "open" {
		// open the breaker the way failing calls do: 4 admitted calls recorded as failures
		for i := 0; i < 4; i++ {
			ok, sid := cb.AcquirePermission()
			if ok {
				cb.RecordResult(sid, true, 0)
			}
		}
		if cb.State() != libcb.StateOpen {
			r.emit(vx.M{"ev": "rejected", "err": "could not open the breaker"})
			return r
		}
	}
	before := c10Total(cb)

	cctx, cancel := stdcontext.WithCancel(stdcontext.Background())
	defer cancel()
	r.cancel = cancel
	// the client's request may carry a deadline of its own (server-side request deadline, outer time
	// limiter): far later than the pool time-out, or earlier (it expires in the call scripted "cdl")
	switch sc.Cdl {
	case "later":
		var c2 stdcontext.CancelFunc
		cctx, c2 = stdcontext.WithDeadline(cctx, time.Now().Add(time.Hour))
		defer c2()
	case "earlier":
		var c2 stdcontext.CancelFunc
		cctx, c2 = stdcontext.WithDeadline(cctx, time.Now().Add(time.Duration(600*slow)*time.Millisecond))
		defer c2()
	}
	stdr, _ := http.NewRequestWithContext(cctx, http.MethodPost, "http://c10.example.com/p", strings.NewReader(c10Body))
	stdr.Header.Set("X-C10-Id", id)
	req, _ := httpprot.NewRequest(stdr)
	if sc.Stream {
		req.FetchPayload(-1)
	} else {
		req.FetchPayload(0)
	}
	if req.IsStream() != sc.Stream {
		r.emit(vx.M{"ev": "rejected", "err": "request stream flag"})
		return r
	}
	c10Runs.Store(id, r)
	defer c10Runs.Delete(id)

	ctx := context.New(tracing.NoopSpan)
	ctx.SetRequest(context.DefaultNamespace, req)
	type outcome struct {
		result   string
		panicked interface{}
	}
	done := make(chan outcome, 1)
	go func() {
		var o outcome
		defer func() {
			if x := recover(); x != nil {
				o.panicked = x
			}
			done <- o
		}()
		o.result = p.Handle(ctx)
	}()
	var o outcome
	select {
	case o = <-done:
	case <-time.After(time.Duration(60*slow) * time.Second):
		r.mu.Lock()
		r.emit(vx.M{"ev": "fin", "res": "hung", "st": 0, "b": "none", "recs": 0})
		r.mu.Unlock()
		return r
	}
	r.wg.Wait()
	r.mu.Lock()
	defer r.mu.Unlock()
	fin := vx.M{"ev": "fin", "res": o.result, "st": 0, "b": "none", "recs": c10Total(cb) - before, "calls": r.calls}
	if o.panicked != nil {
		fin["res"] = fmt.Sprintf("panic: %v", o.panicked)
	} else if resp, ok := ctx.GetOutputResponse().(*httpprot.Response); ok && resp != nil {
		fin["st"] = resp.StatusCode()
		body := ""
		if !resp.IsStream() {
			body = string(resp.RawPayload())
		} else {
			b, _ := io.ReadAll(resp.GetPayload())
			body = string(b)
		}
		switch {
		case body == "":
			fin["b"] = "none"
		case body == fmt.Sprintf("attempt-%d", r.calls):
			fin["b"] = "last"
		default:
			fin["b"] = "other:" + body
		}
	}
	// what the transport saw of the request body, per call (a stream can be read only once)
	sent := []string{}
	for _, b := range r.bodies {
		switch b {
		case c10Body:
			sent = append(sent, "full")
		case "":
			sent = append(sent, "empty")
		default:
			sent = append(sent, "partial")
		}
	}
	fin["sent"] = sent
	if r.tainted != "" {
		fin["tainted"] = r.tainted
	}
	r.emit(fin)
	return r
}

// TestVerifC10Vectors runs the scenarios of VERIF_IN (one JSON object per line: {"sc": ...}).
func TestVerifC10Vectors(t *testing.T) {
	in := vx.ReadNDJSON(t, "VERIF_IN")
	w := vx.NewWriter(t, "VERIF_OUT")
	defer w.Close()
	fnSendRequest = c10Send
	slow := vx.EnvInt("VERIF_SLOW", 1)
	par := vx.EnvInt("VERIF_PAR", 8)
	runs := make([]*c10Run, len(in))
	sem := make(chan struct{}, par)
	var wg sync.WaitGroup
	for i, rec := range in {
		wg.Add(1)
		sem <- struct{}{}
		go func(i int, sc c10Scenario) {
			defer wg.Done()
			defer func() { <-sem }()
			runs[i] = c10RunScenario(fmt.Sprintf("v%d", i), sc, slow)
		}(i, c10ScenarioOf(rec["sc"].(vx.M)))
	}
	wg.Wait()
	for _, r := range runs {
		for _, e := range r.evs {
			w.Emit(e)
		}
	}
}

package proxy

// Harness for C11 (specs/HotUpdate.tla), filter level, kind Proxy.
//   TestVerifC11PxProbe   observes how Inherit treats the state of the previous generation (the server
//                         pools): "move" / "share" / "fresh", and what Close does to Handle ("stop":
//                         background work ends, Handle still serves; "kill": Handle fails).
//   TestVerifC11PxReplay  replays TLC-generated schedules (HotUpdate_Gen, Kinds = <<"px">>,
//                         Atomic = "coarse") on bare filter instances against a local backend.

import (
	"fmt"
	"net/http"
	"net/http/httptest"
	"runtime/debug"
	"strings"
	"sync"
	"testing"
	"time"

	"github.com/megaease/easegress/pkg/context"
	"github.com/megaease/easegress/pkg/filters"
	"github.com/megaease/easegress/pkg/logger"
	"github.com/megaease/easegress/pkg/protocols/httpprot"
	"github.com/megaease/easegress/pkg/tracing"
	vx "github.com/megaease/easegress/pkg/verifx"
	"gopkg.in/yaml.v2"
)

func init() { logger.InitNop() }

type c11PxGate struct {
	arrived chan struct{}
	release chan struct{}
	done    chan [2]string // panic text, site
}

var c11PxGates sync.Map // request id -> *c11PxGate

var c11PxBackendOnce sync.Once
var c11PxBackend *httptest.Server

func c11PxGetBackend() *httptest.Server {
	c11PxBackendOnce.Do(func() {
		c11PxBackend = httptest.NewServer(http.HandlerFunc(func(w http.ResponseWriter, r *http.Request) {
			// schedule replay: the call is in flight until the controller lets the backend answer
			if v, ok := c11PxGates.Load(r.Header.Get("X-C11-Req")); ok {
				g := v.(*c11PxGate)
				g.arrived <- struct{}{}
				<-g.release
			}
			w.WriteHeader(200)
			w.Write([]byte("ok"))
		}))
	})
	return c11PxBackend
}

// version ver of the filter spec: the pool is the same, an option differs.
func c11PxNew(pipe string, ver int) *Proxy {
	y := fmt.Sprintf(`
name: px
kind: Proxy
maxIdleConns: %d
pools:
- servers:
  - url: %s
`, 100+ver, c11PxGetBackend().URL)
	raw := map[string]interface{}{}
	if err := yaml.Unmarshal([]byte(y), &raw); err != nil {
		panic(err)
	}
	spec, err := filters.NewSpec(nil, pipe, raw)
	if err != nil {
		panic(err)
	}
	return kind.CreateInstance(spec).(*Proxy)
}

func c11PxSite(stack string) string {
	for _, ln := range strings.Split(stack, "\n") {
		ln = strings.TrimSpace(ln)
		if !strings.HasPrefix(ln, "github.com/megaease/easegress/pkg/") || strings.Contains(ln, "c11") || strings.Contains(ln, "verifx") {
			continue
		}
		ln = strings.TrimPrefix(ln, "github.com/megaease/easegress/pkg/")
		if i := strings.LastIndex(ln, "("); i > 0 {
			ln = ln[:i]
		}
		return ln
	}
	return "?"
}

// c11PxHandle runs one request through the filter instance; returns "" or the panic.
func c11PxHandle(f *Proxy) (result string, panicV string, site string) { return c11PxHandleID(f, "") }

func c11PxHandleID(f *Proxy, id string) (result string, panicV string, site string) {
	defer func() {
		if e := recover(); e != nil {
			panicV = fmt.Sprint(e)
			site = c11PxSite(string(debug.Stack()))
		}
	}()
	stdr := httptest.NewRequest(http.MethodGet, "http://c11.test/x", http.NoBody)
	if id != "" {
		stdr.Header.Set("X-C11-Req", id)
	}
	req, _ := httpprot.NewRequest(stdr)
	req.FetchPayload(0)
	ctx := context.New(tracing.NoopSpan)
	ctx.SetRequest(context.DefaultNamespace, req)
	result = f.Handle(ctx)
	if resp, _ := ctx.GetResponse(context.DefaultNamespace).(*httpprot.Response); resp == nil || resp.StatusCode() != 200 {
		panicV = fmt.Sprintf("no 200 response from the backend (result %q)", result)
		site = "proxy.Handle"
	}
	return
}

func TestVerifC11PxProbe(t *testing.T) {
	out := vx.NewWriter(t, "VERIF_OUT")
	defer out.Close()
	old := c11PxNew("p", 1)
	old.Init()
	cell0 := old.mainPool
	nw := c11PxNew("p", 2)
	nw.Inherit(old)
	inherit := "unknown"
	switch {
	case cell0 == nil:
	case old.mainPool == nil && nw.mainPool == cell0:
		inherit = "move"
	case old.mainPool == cell0 && nw.mainPool == cell0:
		inherit = "share"
	case old.mainPool == cell0 && nw.mainPool != nil:
		inherit = "fresh"
	}
	x := c11PxNew("p", 1)
	x.Init()
	pool := x.mainPool
	x.Close()
	cls := "none"
	select {
	case <-pool.done:
		cls = "stop"
	default:
	}
	if _, p, _ := c11PxHandle(x); p != "" {
		cls = "kill"
	}
	out.Raw(vx.M{"k": "probe", "kind": "Proxy", "inherit": inherit, "close": cls})
}

func TestVerifC11PxReplay(t *testing.T) {
	behs := vx.ReadBehaviours(t, "VERIF_IN")
	out := vx.NewWriter(t, "VERIF_OUT")
	defer out.Close()
	steps, mism := 0, 0
	for bi, beh := range behs {
		cur := map[string]*Proxy{}
		for _, p := range []string{"pa", "pb"} {
			cur[p] = c11PxNew(p, 1)
			cur[p].Init()
		}
		held := map[string]*Proxy{}
		tgs := map[string]string{}
		failed := map[string]bool{}
		gates := map[string]*c11PxGate{}
		var next, removed *Proxy
		pend := 0
		for si, st := range beh {
			steps++
			bad := ""
			r, p := vx.Str(st["r"]), vx.Str(st["p"])
			switch vx.Str(st["a"]) {
			case "start":
				tgs[r] = vx.Str(st["tg"])
				failed[r] = false
			case "get":
				h, ok := cur[tgs[r]]
				if ok != vx.Bool(st["found"]) {
					bad = fmt.Sprintf("harness map out of step with the model for %s", tgs[r])
				}
				held[r] = h
			case "enter":
				// Handle starts and stays in flight at the backend
				id := fmt.Sprintf("b%d-%s-%d", bi, r, si)
				g := &c11PxGate{arrived: make(chan struct{}, 1), release: make(chan struct{}, 1), done: make(chan [2]string, 1)}
				c11PxGates.Store(id, g)
				gates[r] = g
				h := held[r]
				go func() {
					_, pv, site := c11PxHandleID(h, id)
					g.done <- [2]string{pv, site}
				}()
				select {
				case <-g.arrived:
					if !vx.Bool(st["ok"]) {
						// the model says the call may fail before reaching the backend; it did not: let it finish
						g.release <- struct{}{}
						res := <-g.done
						failed[r] = res[0] != ""
						gates[r] = nil
					}
				case res := <-g.done:
					gates[r] = nil
					failed[r] = res[0] != ""
					if res[0] != "" {
						out.Raw(vx.M{"k": "fail", "b": bi, "step": si, "r": r, "site": res[1], "panic": res[0], "at": st, "behaviour": beh[:si+1]})
					}
					if vx.Bool(st["ok"]) {
						bad = fmt.Sprintf("panic: Handle on the held generation (version %d) ended before reaching the backend: %s (%s)", vx.Int(st["ver"]), res[0], res[1])
					}
				case <-time.After(60 * time.Second):
					bad = "harness: stuck waiting for the backend"
				}
			case "exit":
				g := gates[r]
				if g == nil {
					break
				}
				g.release <- struct{}{}
				select {
				case res := <-g.done:
					failed[r] = res[0] != ""
					if res[0] != "" {
						out.Raw(vx.M{"k": "fail", "b": bi, "step": si, "r": r, "site": res[1], "panic": res[0], "at": st, "behaviour": beh[:si+1]})
						if vx.Bool(st["ok"]) {
							bad = fmt.Sprintf("panic: the in-flight call of the held generation (version %d) failed: %s (%s)", vx.Int(st["ver"]), res[0], res[1])
						}
					}
				case <-time.After(60 * time.Second):
					bad = "harness: stuck waiting for Handle to return"
				}
				gates[r] = nil
			case "done":
				if vx.Str(st["st"]) != "fail" && failed[r] {
					bad = fmt.Sprintf("status: request failed, model says %s", vx.Str(st["st"]))
				}
			case "pipBegin", "createInit":
				pend = vx.Int(st["ver"])
				if vx.Str(st["a"]) == "createInit" {
					next = c11PxNew(p, pend)
					next.Init()
				}
			case "pipInherit":
				next = c11PxNew(p, pend)
				next.Inherit(cur[p])
				cur[p].Close() // Pipeline.Inherit closes the previous generation right after
			case "pipStore", "createStore":
				cur[p] = next
			case "deleteRemove":
				removed = cur[p]
				delete(cur, p)
			case "deleteClose":
				removed.Close()
			case "pipClose", "init", "same", "ctl":
			default:
				bad = "harness: unknown step " + vx.Str(st["a"])
			}
			if bad != "" {
				mism++
				for _, g := range gates {
					if g != nil {
						g.release <- struct{}{}
					}
				}
				out.Raw(vx.M{"k": "mismatch", "b": bi, "step": si, "a": vx.Str(st["a"]), "at": st, "what": bad, "behaviour": beh[:si+1]})
				gates = map[string]*c11PxGate{}
				break
			}
		}
		for _, g := range gates { // calls still in flight when the schedule ends
			if g != nil {
				g.release <- struct{}{}
			}
		}
	}
	out.Raw(vx.M{"k": "summary", "behaviours": len(behs), "steps": steps, "mismatches": mism})
}

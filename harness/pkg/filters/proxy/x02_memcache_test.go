package proxy

// Harness for the growth item X02 (DESIGN 9.3): TLC-generated request sequences are replayed on a real
// Proxy filter with a memoryCache in front of a real loopback backend; after every request the harness
// compares (served from cache?, status, identity of the body) with the model's prediction.

import (
	"fmt"
	"io"
	"net/http"
	"net/http/httptest"
	"strconv"
	"strings"
	"sync"
	"sync/atomic"
	"testing"
	"time"

	"github.com/megaease/easegress/pkg/context"
	"github.com/megaease/easegress/pkg/filters"
	"github.com/megaease/easegress/pkg/logger"
	"github.com/megaease/easegress/pkg/protocols/httpprot"
	"github.com/megaease/easegress/pkg/resilience"
	"github.com/megaease/easegress/pkg/tracing"
	vx "github.com/megaease/easegress/pkg/verifx"
	"gopkg.in/yaml.v2"
)

func init() { logger.InitNop() }

const x02Expire = 1500 * time.Millisecond

func x02Proxy(t *testing.T, backend string) *Proxy {
	y := fmt.Sprintf(`
name: proxy
kind: Proxy
pools:
- servers:
  - url: %s
  memoryCache:
    expiration: %s
    maxEntryBytes: 5
    codes: [200, 404]
    methods: [GET]
`, backend, x02Expire)
	raw := map[string]interface{}{}
	if err := yaml.Unmarshal([]byte(y), &raw); err != nil {
		t.Fatal(err)
	}
	spec, err := filters.NewSpec(nil, "", raw)
	if err != nil {
		t.Fatalf("x02: %v", err)
	}
	p := kind.CreateInstance(spec).(*Proxy)
	p.Init()
	p.InjectResiliencePolicy(map[string]resilience.Policy{})
	return p
}

func TestVerifX02Replay(t *testing.T) {
	behs := vx.ReadBehaviours(t, "VERIF_IN")
	w := vx.NewWriter(t, "VERIF_OUT")
	defer w.Close()

	var contacts sync.Map // behaviour id -> *int64
	backend := httptest.NewServer(http.HandlerFunc(func(rw http.ResponseWriter, r *http.Request) {
		if c, ok := contacts.Load(r.Header.Get("X-Beh")); ok {
			atomic.AddInt64(c.(*int64), 1)
		}
		f := strings.Split(r.Header.Get("X-Script"), ",") // code,size,cc,id
		code, _ := strconv.Atoi(f[0])
		size, _ := strconv.Atoi(f[1])
		if f[2] != "none" {
			rw.Header().Set("Cache-Control", f[2])
		}
		rw.Header().Set("X-Body-Id", f[3])
		rw.WriteHeader(code)
		io.WriteString(rw, strings.Repeat("x", size))
	}))
	defer backend.Close()

	var wg sync.WaitGroup
	sem := make(chan struct{}, 48)
	var steps, mism, skipped int64
	for bi := range behs {
		wg.Add(1)
		sem <- struct{}{}
		go func(bi int) {
			defer wg.Done()
			defer func() { <-sem }()
			beh := behs[bi]
			p := x02Proxy(t, backend.URL)
			defer p.Close()
			bid := fmt.Sprintf("b%d", bi)
			var cnt int64
			contacts.Store(bid, &cnt)
			id := 1
			stored := map[string]time.Time{} // path+method -> time of the last contact that may have stored
			for si, st := range beh[1:] {
				atomic.AddInt64(&steps, 1)
				if vx.Str(st["a"]) == "tick" {
					time.Sleep(x02Expire + 200*time.Millisecond)
					continue
				}
				rq := st["req"].(vx.M)
				rs := st["resp"].(vx.M)
				url := "http://svc.example" + vx.Str(rq["path"])
				if q := vx.Str(rq["q"]); q != "" {
					url += "?" + q
				}
				stdr, _ := http.NewRequest(vx.Str(rq["m"]), url, nil)
				if cc := vx.Str(rq["cc"]); cc != "none" {
					stdr.Header.Set("Cache-Control", cc)
				}
				stdr.Header.Set("X-Beh", bid)
				stdr.Header.Set("X-Script", fmt.Sprintf("%d,%d,%s,%d", vx.Int(rs["code"]), vx.Int(rs["size"]), vx.Str(rs["cc"]), id))
				req, _ := httpprot.NewRequest(stdr)
				req.FetchPayload(1 << 20)
				ctx := context.New(tracing.NoopSpan)
				ctx.SetRequest(context.DefaultNamespace, req)
				key := vx.Str(rq["path"]) + vx.Str(rq["m"])
				before := atomic.LoadInt64(&cnt)
				t0 := time.Now()
				result := p.Handle(ctx)
				contacted := atomic.LoadInt64(&cnt) > before
				resp, _ := ctx.GetOutputResponse().(*httpprot.Response)
				gotCode, gotID := 0, 0
				if resp != nil {
					gotCode = resp.StatusCode()
					gotID, _ = strconv.Atoi(resp.HTTPHeader().Get("X-Body-Id"))
				}
				expHit := vx.Bool(st["hit"])
				if expHit && !contacted && false {
					_ = t0
				}
				if expHit && contacted {
					// a predicted hit that missed: only meaningful when we are comfortably inside the expiration
					if at, ok := stored[key]; !ok || time.Since(at) > x02Expire*2/3 {
						atomic.AddInt64(&skipped, 1)
						return
					}
				}
				bad := ""
				switch {
				case result != "":
					bad = "proxy result " + result
				case expHit != !contacted:
					bad = fmt.Sprintf("served from cache=%v, model says %v", !contacted, expHit)
				case gotCode != vx.Int(st["code"]):
					bad = fmt.Sprintf("status %d, model says %d", gotCode, vx.Int(st["code"]))
				case gotID != vx.Int(st["id"]):
					bad = fmt.Sprintf("body of backend response #%d, model says #%d", gotID, vx.Int(st["id"]))
				}
				if contacted {
					id++
					stored[key] = t0
				}
				if bad != "" {
					atomic.AddInt64(&mism, 1)
					w.Raw(vx.M{"k": "mismatch", "beh": bi, "step": si + 1, "what": bad, "behaviour": beh[:si+2],
						"sameQuery": vx.Str(st["from"].(vx.M)["q"]) == vx.Str(rq["q"])})
					return
				}
				if expHit {
					w.Raw(vx.M{"k": "hit", "sameQuery": vx.Str(st["from"].(vx.M)["q"]) == vx.Str(rq["q"]), "beh": bi, "step": si + 1,
						"req": rq, "from": st["from"]})
				}
			}
		}(bi)
	}
	wg.Wait()
	w.Raw(vx.M{"k": "summary", "behaviours": len(behs), "steps": steps, "mismatches": mism, "skipped": skipped})
}

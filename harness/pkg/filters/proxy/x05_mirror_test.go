package proxy

// Harness for the extension check X05 (a) - the Proxy filter's mirror pool (specs/MirrorPool*.tla).
//
// TestVerifX05MirrorReplay: TLC-generated behaviours (one client request; a total order of the steps of the pipeline
// goroutine P and of the mirror goroutine M) are replayed in lock-step on a real Proxy.  The two backends are played by
// the package's own transport hook (fnSendRequest): every call parks at a gate, the harness opens the gates in the order
// of the behaviour and compares, after every step, what the backends received, what the client got and whether a mirror
// goroutine exists with the model's prediction.  Negatives are decided at barriers (goroutine dumps), never by waiting.
//
// TestVerifX05MirrorTV: many concurrent requests through real Proxies with a real http.Client and real loopback
// backends (ok / error status / slow / never answering / broken body / connection refused); the event log is validated
// by TLC against specs/MirrorPool_Trace.tla.

import (
	stdcontext "context"
	"errors"
	"fmt"
	"io"
	"net"
	"net/http"
	"net/http/httptest"
	"regexp"
	"runtime"
	"strconv"
	"strings"
	"sync"
	"sync/atomic"
	"syscall"
	"testing"
	"time"

	"github.com/megaease/easegress/pkg/context"
	"github.com/megaease/easegress/pkg/filters"
	"github.com/megaease/easegress/pkg/logger"
	"github.com/megaease/easegress/pkg/protocols/httpprot"
	"github.com/megaease/easegress/pkg/resilience"
	"github.com/megaease/easegress/pkg/tracing"
	vx "github.com/megaease/easegress/pkg/verifx"
	"gopkg.in/yaml.v2"
)

func init() { logger.InitNop() }

const x05Placeholder = "cannot send a stream body to mirror"

// ---------------------------------------------------------------- concrete requests for the abstract classes

func x05BodyText(class string, id int) string {
	switch class {
	case "small":
		return fmt.Sprintf("small-body-%d", id)
	case "big":
		return fmt.Sprintf("big-%d-", id) + strings.Repeat("0123456789abcdef", 20000)
	case "stream":
		return fmt.Sprintf("stream-%d-", id) + strings.Repeat("s", 70000)
	}
	return ""
}

func x05BodyClass(data string, id int) string {
	switch {
	case data == "":
		return "empty"
	case data == x05Placeholder:
		return "placeholder"
	}
	for _, c := range []string{"small", "big", "stream"} {
		if data == x05BodyText(c, id) {
			return c
		}
	}
	return "damaged"
}

// x05NewRequest builds the httpprot request of class r (fields m, p, xm, hop, body) for request number id.
func x05NewRequest(cctx stdcontext.Context, r vx.M, id int) *httpprot.Request {
	class := vx.Str(r["body"])
	var body io.Reader
	if class != "empty" {
		body = strings.NewReader(x05BodyText(class, id))
	}
	stdr, err := http.NewRequestWithContext(cctx, vx.Str(r["m"]), "http://client.x05.test"+vx.Str(r["p"])+"?q=1", body)
	if err != nil {
		panic(err)
	}
	if xm := vx.Str(r["xm"]); xm != "none" {
		stdr.Header.Set("X-Mirror", xm)
	}
	stdr.Header.Set("X-Tag", fmt.Sprintf("t-%d", id))
	stdr.Header.Set("X-Id", strconv.Itoa(id))
	if vx.Bool(r["hop"]) {
		stdr.Header.Set("Connection", "X-Hop")
		stdr.Header.Set("X-Hop", "1")
		stdr.Header.Set("Keep-Alive", "timeout=5")
	}
	req, _ := httpprot.NewRequest(stdr)
	if class == "stream" {
		req.FetchPayload(-1)
	} else if err := req.FetchPayload(1 << 22); err != nil {
		panic(err)
	}
	return req
}

// x05View classifies what a backend received, in the vocabulary of MirrorPoolDefs.View.
func x05View(method, path string, h http.Header, body string, id int) vx.M {
	xm := h.Get("X-Mirror")
	if xm == "" {
		xm = "none"
	}
	return vx.M{"m": method, "p": path, "xm": xm, "hopSeen": h.Get("X-Hop") != "" || h.Get("Keep-Alive") != "",
		"tag": h.Get("X-Tag") == fmt.Sprintf("t-%d", id), "body": x05BodyClass(body, id)}
}

func x05ViewKey(v vx.M) string {
	if v == nil {
		return "none"
	}
	return fmt.Sprintf("%v %v xm=%v hop=%v tag=%v body=%v", v["m"], v["p"], v["xm"], v["hopSeen"], v["tag"], v["body"])
}

// x05RespClass classifies the client's response in the vocabulary of MirrorPoolDefs.MainOutcome.
func x05RespClass(resp *httpprot.Response, id int) vx.M {
	if resp == nil {
		return vx.M{"status": 0, "from": "-", "echo": "-"}
	}
	body, _ := io.ReadAll(resp.GetPayload())
	from, echo := "bad", "damaged"
	h := resp.HTTPHeader()
	switch {
	case h.Get("X-From") == "main" && h.Get("X-Resp-Tag") == fmt.Sprintf("r-%d", id):
		from = "main"
		if strings.HasPrefix(string(body), "echo:") {
			echo = x05BodyClass(string(body)[5:], id)
		}
	case h.Get("X-From") == "" && len(body) == 0:
		from, echo = "proxy", "-"
	}
	return vx.M{"status": resp.StatusCode(), "from": from, "echo": echo}
}

func x05RespKey(v vx.M) string {
	return fmt.Sprintf("%v from=%v echo=%v", vx.Int(v["status"]), v["from"], v["echo"])
}

func x05Proxy(t testing.TB, filter, mainURL, mirrorURL string) *Proxy {
	urls := ""
	if filter == "hdrUrl" {
		urls = `
    urls:
    - methods: [POST]
      url:
        prefix: /m`
	}
	y := fmt.Sprintf(`
name: x05proxy
kind: Proxy
pools:
- servers:
  - url: %s
mirrorPool:
  filter:
    headers:
      X-Mirror:
        exact: "yes"%s
  servers:
  - url: %s
`, mainURL, urls, mirrorURL)
	raw := map[string]interface{}{}
	if err := yaml.Unmarshal([]byte(y), &raw); err != nil {
		t.Fatal(err)
	}
	spec, err := filters.NewSpec(nil, "", raw)
	if err != nil {
		t.Fatalf("x05: %v", err)
	}
	p := kind.CreateInstance(spec).(*Proxy)
	p.Init()
	p.InjectResiliencePolicy(map[string]resilience.Policy{})
	return p
}

// ---------------------------------------------------------------- goroutine barriers

func x05Dump() string {
	buf := make([]byte, 1<<18)
	for {
		n := runtime.Stack(buf, true)
		if n < len(buf) {
			return string(buf[:n])
		}
		buf = make([]byte, 2*len(buf))
	}
}

func x05Gid() int64 {
	var buf [64]byte
	n := runtime.Stack(buf[:], false)
	f := strings.Fields(string(buf[:n]))
	id, _ := strconv.ParseInt(f[1], 10, 64)
	return id
}

var x05CreatedRe = regexp.MustCompile(`created by github\.com/megaease/easegress/pkg/filters/proxy\.([^\n]*)`)

// x05ProductGoroutines returns the dump blocks of the goroutines that were started by the proxy package's own code
// (not by this harness): with static servers these are exactly the mirror goroutines.
func x05ProductGoroutines(dump string) []string {
	var out []string
	for _, blk := range strings.Split(dump, "\n\n") {
		m := x05CreatedRe.FindStringSubmatch(blk)
		if m == nil || strings.Contains(m[1], "x05") || strings.Contains(m[1], "TestVerif") {
			continue
		}
		out = append(out, blk)
	}
	return out
}

// x05BlockOf returns the dump block of goroutine gid ("" if it is gone).
func x05BlockOf(dump string, gid int64) string {
	pfx := fmt.Sprintf("goroutine %d [", gid)
	for _, blk := range strings.Split(dump, "\n\n") {
		if strings.HasPrefix(blk, pfx) {
			return blk
		}
	}
	return ""
}

var x05WaitStates = []string{"semacquire", "chan receive", "chan send", "select", "sync.", "IO wait", "sleep"}

// x05ParkedInProduct: goroutine block is in a wait state and not inside one of the harness' gates.
func x05ParkedInProduct(blk string) bool {
	if blk == "" {
		return false
	}
	head := blk
	if i := strings.IndexByte(blk, '\n'); i >= 0 {
		head = blk[:i]
	}
	waiting := false
	for _, s := range x05WaitStates {
		if strings.Contains(head, s) {
			waiting = true
		}
	}
	return waiting && !strings.Contains(blk, ").x05send(")
}

// x05Await polls pred at scheduling points; no verdict depends on the deadline (it only turns a wedged run into an
// inconclusive one).
func x05Await(pred func() bool) bool {
	deadline := time.Now().Add(120 * time.Second)
	for i := 0; ; i++ {
		if pred() {
			return true
		}
		runtime.Gosched()
		if i > 50 {
			time.Sleep(200 * time.Microsecond)
		}
		if i%1000 == 999 && time.Now().After(deadline) {
			return false
		}
	}
}

// ---------------------------------------------------------------- the gated transport

type x05Scn struct {
	mu       sync.Mutex
	id       int
	late     bool
	mainB    string
	mirB     string
	gate     map[string]chan struct{} // who -> opened when the send is released
	reply    map[string]chan struct{} // who -> opened when the answer is released
	teardown chan struct{}
	arrived  map[string]int    // who -> number of calls that reached the transport
	arrGid   map[string]int64  // who -> goroutine of the last arrival
	recv     map[string][]vx.M // who -> views of the requests the backend received
	outcome  map[string][]string
}

func x05NewScn(id int, late bool, mainB, mirB string) *x05Scn {
	return &x05Scn{id: id, late: late, mainB: mainB, mirB: mirB,
		gate:     map[string]chan struct{}{"main": make(chan struct{}), "mirror": make(chan struct{})},
		reply:    map[string]chan struct{}{"main": make(chan struct{}), "mirror": make(chan struct{})},
		teardown: make(chan struct{}), arrived: map[string]int{}, arrGid: map[string]int64{}, recv: map[string][]vx.M{},
		outcome: map[string][]string{}}
}

func (s *x05Scn) get(f func()) {
	s.mu.Lock()
	defer s.mu.Unlock()
	f()
}

func (s *x05Scn) note(who, what string) {
	s.mu.Lock()
	s.outcome[who] = append(s.outcome[who], what)
	s.mu.Unlock()
}

type x05BrokenBody struct{ n int }

func (b *x05BrokenBody) Read(p []byte) (int, error) {
	if b.n > 0 {
		return 0, io.ErrUnexpectedEOF
	}
	b.n++
	return copy(p, "half a bo"), nil
}
func (b *x05BrokenBody) Close() error { return nil }

func x05StdResp(r *http.Request, code int, hdr map[string]string, body string) *http.Response {
	resp := &http.Response{StatusCode: code, Status: fmt.Sprintf("%d x", code), Proto: "HTTP/1.1", ProtoMajor: 1, ProtoMinor: 1,
		Header: http.Header{}, Body: io.NopCloser(strings.NewReader(body)), ContentLength: int64(len(body)), Request: r}
	for k, v := range hdr {
		resp.Header.Set(k, v)
	}
	return resp
}

// x05send plays the two backends.  Its name carries "x05" so that a goroutine parked here is recognisable in a dump.
func (s *x05Scn) x05send(r *http.Request) (*http.Response, error) {
	who := "mirror"
	if strings.HasPrefix(r.URL.Host, "main") {
		who = "main"
	}
	gid := x05Gid()
	s.mu.Lock()
	s.arrived[who]++
	s.arrGid[who] = gid
	s.mu.Unlock()
	gated := !(s.late && who == "main")
	if gated {
		select {
		case <-s.gate[who]:
		case <-s.teardown:
			return nil, errors.New("x05 teardown")
		}
	}
	if err := r.Context().Err(); err != nil {
		s.note(who, "aborted")
		return nil, err
	}
	beh := s.mirB
	if who == "main" {
		beh = s.mainB
	}
	if beh == "refused" {
		s.note(who, "refused")
		return nil, &net.OpError{Op: "dial", Net: "tcp", Err: errors.New("connection refused")}
	}
	var data []byte
	if r.Body != nil {
		data, _ = io.ReadAll(r.Body)
		r.Body.Close()
	}
	v := x05View(r.Method, r.URL.Path, r.Header, string(data), s.id)
	s.mu.Lock()
	s.recv[who] = append(s.recv[who], v)
	s.mu.Unlock()
	if gated && !(who == "mirror" && beh == "never") {
		select {
		case <-s.reply[who]:
		case <-r.Context().Done():
			s.note(who, "cancelled")
			return nil, r.Context().Err()
		case <-s.teardown:
			return nil, errors.New("x05 teardown")
		}
	}
	if who == "main" {
		code := 200
		if beh == "e500" {
			code = 500
		}
		s.note(who, "answered")
		return x05StdResp(r, code, map[string]string{"X-From": "main", "X-Resp-Tag": fmt.Sprintf("r-%d", s.id)}, "echo:"+string(data)), nil
	}
	switch beh {
	case "never":
		select {
		case <-r.Context().Done():
			s.note(who, "cancelled")
			return nil, r.Context().Err()
		case <-s.teardown:
			return nil, errors.New("x05 teardown")
		}
	case "e500":
		s.note(who, "answered")
		return x05StdResp(r, 500, map[string]string{"X-From": "mirror"}, "mirror failed"), nil
	case "broken":
		s.note(who, "answered")
		resp := x05StdResp(r, 200, map[string]string{"X-From": "mirror"}, "")
		resp.Body, resp.ContentLength = &x05BrokenBody{}, 100
		return resp, nil
	}
	s.note(who, "answered")
	return x05StdResp(r, 200, map[string]string{"X-From": "mirror", "X-Resp-Tag": "mirror"}, "mirror says hello"), nil
}

var x05Cur atomic.Value // *x05Scn

func x05Open(ch chan struct{}) {
	select {
	case <-ch:
	default:
		close(ch)
	}
}

// ---------------------------------------------------------------- lock-step replay

func x05Index(beh []vx.M, a string) int {
	for i, st := range beh {
		if vx.Str(st["a"]) == a {
			return i
		}
	}
	return -1
}

func TestVerifX05MirrorReplay(t *testing.T) {
	behs := vx.ReadBehaviours(t, "VERIF_IN")
	w := vx.NewWriter(t, "VERIF_OUT")
	defer w.Close()
	// one processor: a goroutine runs until it blocks, which makes "the mirror goroutine gets to run only after the
	// pipeline has moved on" a schedule the harness can produce (main pool answering without blocking)
	defer runtime.GOMAXPROCS(runtime.GOMAXPROCS(1))
	saved := fnSendRequest
	defer func() { fnSendRequest = saved }()
	fnSendRequest = func(r *http.Request, client *http.Client) (*http.Response, error) {
		return x05Cur.Load().(*x05Scn).x05send(r)
	}
	proxies := map[string]*Proxy{}
	for _, f := range []string{"hdr", "hdrUrl"} {
		proxies[f] = x05Proxy(t, f, "http://main.x05.test", "http://mirror.x05.test")
		defer proxies[f].Close()
	}
	if n := len(x05ProductGoroutines(x05Dump())); n != 0 {
		t.Fatalf("x05: %d product goroutines before the first request", n)
	}

	steps, mism, stuck, lateRuns, lateSeen := 0, 0, 0, 0, 0
	classes := map[string]int{}
	for bi, beh := range behs {
		if stuck >= 2 {
			break // something is wedged for good: do not spend the deadline once per behaviour
		}
		id := bi + 1
		orig, cfg := beh[0]["orig"].(vx.M), beh[0]["cfg"].(vx.M)
		iCap, iMove := x05Index(beh, "mcapture"), x05Index(beh, "moveon")
		late := iCap >= 0 && iMove >= 0 && iCap > iMove
		scn := x05NewScn(id, late, vx.Str(cfg["mainB"]), vx.Str(cfg["mirB"]))
		x05Cur.Store(scn)
		p := proxies[vx.Str(cfg["filter"])]
		cctx, cancel := stdcontext.WithCancel(stdcontext.Background())
		req := x05NewRequest(cctx, orig, id)
		ctx := context.New(tracing.NoopSpan)
		ctx.SetRequest(context.DefaultNamespace, req)
		next := vx.Str(cfg["next"])
		if next == "otherNs" {
			r2 := x05NewRequest(cctx, vx.M{"m": "PUT", "p": "/other", "xm": "yes", "hop": false, "body": "small"}, id)
			ctx.SetRequest("B", r2)
		}
		moveOn := func() {
			if next != "end" {
				ctx.UseNamespace("B")
			}
		}
		var pGid, returned int64
		var result string
		runP := func() {
			atomic.StoreInt64(&pGid, x05Gid())
			res := p.Handle(ctx)
			if late {
				moveOn() // what Pipeline.Handle does next, on the same goroutine, without a scheduling point in between
			}
			result = res
			atomic.StoreInt64(&returned, 1)
		}
		mirrorAlive := func() int { return len(x05ProductGoroutines(x05Dump())) }
		// the response a later reader of the Context (next filter, the server writing the reply) finds
		currentResp := func() *httpprot.Response {
			r, _ := ctx.GetResponse(context.DefaultNamespace).(*httpprot.Response)
			return r
		}
		bad := ""
		fail := func(kind, format string, a ...interface{}) {
			if bad == "" {
				bad = kind + ": " + fmt.Sprintf(format, a...)
			}
		}
		await := func(what string, pred func() bool) bool {
			if x05Await(pred) {
				return true
			}
			stuck++
			fail("stuck", "barrier %q not reached", what)
			return false
		}
		// awaitReturn: Handle returns, or it is parked inside the product code while the mirror call is pending
		awaitReturn := func() bool {
			parked := 0
			isSync := false
			ok := x05Await(func() bool {
				if atomic.LoadInt64(&returned) == 1 {
					return true
				}
				var mirGid int64
				scn.get(func() { mirGid = scn.arrGid["mirror"] })
				if mirGid != 0 && mirGid == atomic.LoadInt64(&pGid) {
					isSync = true
					return true
				}
				if x05ParkedInProduct(x05BlockOf(x05Dump(), atomic.LoadInt64(&pGid))) {
					parked++
					time.Sleep(time.Millisecond)
				} else {
					parked = 0
				}
				return parked >= 40
			})
			if !ok {
				stuck++
				fail("stuck", "Proxy.Handle neither returns nor parks")
				return false
			}
			if isSync {
				fail("sync", "the mirror call is made on the request's own goroutine (not fire-and-forget)")
				return false
			}
			if ok && atomic.LoadInt64(&returned) == 0 {
				fail("blocked", "Proxy.Handle does not return while the mirror call is pending (main pool has answered)")
				x05Open(scn.reply["mirror"])
				x05Open(scn.gate["mirror"])
				cancel()
				x05Open(scn.teardown)
				x05Await(func() bool { return atomic.LoadInt64(&returned) == 1 })
				return false
			}
			return ok
		}
		compare := func(a string, obs vx.M) {
			var mainGot, mirGot []vx.M
			var nArrMir int
			var mirGid int64
			scn.get(func() {
				mainGot, mirGot = scn.recv["main"], scn.recv["mirror"]
				nArrMir, mirGid = scn.arrived["mirror"], scn.arrGid["mirror"]
			})
			if nArrMir > 0 && mirGid == atomic.LoadInt64(&pGid) {
				fail("sync", "the mirror call is made on the request's own goroutine (not fire-and-forget)")
				return
			}
			wantMain := x05ViewKey(nil)
			if m := obs["mainGot"].(vx.M); vx.Str(m["m"]) != "-" {
				wantMain = x05ViewKey(m)
			}
			gotMain := x05ViewKey(nil)
			if len(mainGot) == 1 {
				gotMain = x05ViewKey(mainGot[0])
			} else if len(mainGot) > 1 {
				gotMain = fmt.Sprintf("%d requests", len(mainGot))
			}
			if wantMain != gotMain {
				fail("main-request", "after %s the main backend has received [%s], model [%s]", a, gotMain, wantMain)
			}
			var wantMir, gotMir []string
			for _, m := range vx.List(obs["mirGot"]) {
				wantMir = append(wantMir, x05ViewKey(m.(vx.M)))
			}
			for _, m := range mirGot {
				gotMir = append(gotMir, x05ViewKey(m))
			}
			if fmt.Sprint(wantMir) != fmt.Sprint(gotMir) {
				fail("mirror-request", "after %s the mirror backend has received %v, model %v", a, gotMir, wantMir)
			}
			if wr := obs["resp"].(vx.M); vx.Int(wr["status"]) != 0 {
				if atomic.LoadInt64(&returned) == 0 {
					fail("client", "after %s Handle has not returned, the model has a reply", a)
				} else if g := x05RespKey(x05RespClass(currentResp(), id)); g != x05RespKey(wr) || result != vx.Str(obs["result"]) {
					fail("client", "after %s the client has [%s] result %q, model [%s] result %q", a, g, result, x05RespKey(wr), vx.Str(obs["result"]))
				}
			}
		}

		if late {
			lateRuns++
		}
		for _, st := range beh[1:] {
			if bad != "" {
				break
			}
			steps++
			a := vx.Str(st["a"])
			obs := st["obs"].(vx.M)
			if late && (a == "mainsend" || a == "mainreply" || a == "moveon") {
				continue // done in one piece by the request's goroutine; compared after "moveon" below
			}
			switch a {
			case "match":
				go runP()
				if late {
					if !awaitReturn() {
						break
					}
					// compare against the model's state after its "moveon" step
					obs = beh[iMove]["obs"].(vx.M)
					a = "match..moveon"
				} else {
					if !await("main call reached the transport", func() bool {
						m, mirGid := 0, int64(0)
						scn.get(func() { m, mirGid = scn.arrived["main"], scn.arrGid["mirror"] })
						// the request's own goroutine parked at the mirror gate will never reach the main call
						return m > 0 || (mirGid != 0 && mirGid == atomic.LoadInt64(&pGid))
					}) {
						break
					}
					if m := 0; true {
						scn.get(func() { m = scn.arrived["main"] })
						if m == 0 {
							fail("sync", "the mirror call is made on the request's own goroutine (not fire-and-forget)")
							break
						}
					}
					// the `go` statement precedes the main call: a mirror goroutine exists now, or never will
					spawned := false
					await("mirror goroutine settled", func() bool {
						n := 0
						scn.get(func() { n = scn.arrived["mirror"] })
						if n > 0 {
							spawned = true
							return true
						}
						if mirrorAlive() != 0 {
							return false
						}
						// no goroutine of the proxy package's making exists; with one processor every runnable goroutine
						// (whoever started it) gets its turn during these yields before "no mirror call" is concluded
						for i := 0; i < 50; i++ {
							runtime.Gosched()
						}
						scn.get(func() { n = scn.arrived["mirror"] })
						spawned = n > 0
						return true
					})
					if spawned != vx.Bool(obs["spawned"]) {
						fail("spawn", "mirror goroutine spawned=%v, model %v", spawned, vx.Bool(obs["spawned"]))
					}
				}
			case "mcapture":
				await("mirror call reached the transport", func() bool {
					n := 0
					scn.get(func() { n = scn.arrived["mirror"] })
					return n > 0 || mirrorAlive() == 0
				})
				n := 0
				scn.get(func() { n = scn.arrived["mirror"] })
				if n == 0 {
					fail("spawn", "no mirror call although the request matches the mirror filter")
				}
			case "mainsend":
				x05Open(scn.gate["main"])
				await("main backend has the request", func() bool {
					n := 0
					scn.get(func() { n = len(scn.recv["main"]) + len(scn.outcome["main"]) })
					return n > 0
				})
			case "mainreply":
				x05Open(scn.reply["main"])
				awaitReturn()
			case "msend":
				x05Open(scn.gate["mirror"])
				await("mirror backend has the request", func() bool {
					n := 0
					scn.get(func() { n = len(scn.recv["mirror"]) + len(scn.outcome["mirror"]) })
					return n > 0 || mirrorAlive() == 0
				})
			case "mreply":
				x05Open(scn.reply["mirror"])
				await("mirror goroutine ended", func() bool { return mirrorAlive() == 0 })
			case "mcancel":
				// the request's context has ended: a mirror goroutine still parked at the backend is a leak
				parked := 0
				await("mirror goroutine ended or leaked", func() bool {
					if mirrorAlive() == 0 {
						return true
					}
					parked++
					time.Sleep(time.Millisecond)
					return parked >= 60
				})
				if mirrorAlive() != 0 {
					fail("leak", "the mirror goroutine outlives the client's request (mirror backend %s)", scn.mirB)
				}
			case "moveon":
				moveOn()
			case "finish":
				cancel()
				ctx.Finish()
			}
			if bad == "" {
				compare(a, obs)
			}
		}
		if bad == "" {
			// end of the behaviour: the model is quiescent with the mirror goroutine gone
			if !x05Await(func() bool { return mirrorAlive() == 0 }) {
				fail("leak", "a mirror goroutine is alive at the end of the behaviour")
			}
			n := 0
			scn.get(func() { n = scn.arrived["mirror"] })
			if n > 0 && !vx.Bool(beh[len(beh)-1]["obs"].(vx.M)["spawned"]) {
				fail("spawn", "%d mirror call(s) for a request the mirror filter does not match", n)
			}
		}
		// observed class of the run (vacuity accounting on the python side)
		var mirOut, mirRecv = "", 0
		scn.get(func() { mirOut = strings.Join(scn.outcome["mirror"], ","); mirRecv = len(scn.recv["mirror"]) })
		classes[fmt.Sprintf("mir=%s/%s/recv%d", scn.mirB, mirOut, mirRecv)]++
		classes[fmt.Sprintf("main=%s", scn.mainB)]++
		classes[fmt.Sprintf("late=%v/recv%d", late, mirRecv)]++
		classes[fmt.Sprintf("body=%v/recv%d", orig["body"], mirRecv)]++
		if late && mirRecv > 0 {
			lateSeen++
		}
		// teardown
		cancel()
		x05Open(scn.teardown)
		x05Await(func() bool { return mirrorAlive() == 0 && (atomic.LoadInt64(&pGid) == 0 || atomic.LoadInt64(&returned) == 1) })
		if bad != "" {
			mism++
			kind := bad[:strings.Index(bad, ":")]
			w.Raw(vx.M{"k": "mismatch", "beh": bi, "kind": kind, "late": late, "what": bad, "orig": orig, "cfg": cfg, "behaviour": beh})
		}
	}
	w.Raw(vx.M{"k": "summary", "behaviours": len(behs), "steps": steps, "mismatches": mism, "stuck": stuck, "late": lateRuns,
		"lateDelivered": lateSeen, "classes": classes})
}

// ---------------------------------------------------------------- trace validation over the real network

// x05DeadAddr reserves a loopback TCP port by binding a socket that never listens: connecting to it is refused, and no
// other process on this (busy) machine can start a server on it meanwhile.
func x05DeadAddr(t testing.TB) (string, func()) {
	fd, err := syscall.Socket(syscall.AF_INET, syscall.SOCK_STREAM, 0)
	if err != nil {
		t.Fatalf("x05: socket: %v", err)
	}
	if err = syscall.Bind(fd, &syscall.SockaddrInet4{Port: 0, Addr: [4]byte{127, 0, 0, 1}}); err != nil {
		t.Fatalf("x05: bind: %v", err)
	}
	sa, err := syscall.Getsockname(fd)
	if err != nil {
		t.Fatalf("x05: getsockname: %v", err)
	}
	port := sa.(*syscall.SockaddrInet4).Port
	// make sure the reading "refused" is right before relying on it
	if c, err := net.DialTimeout("tcp", fmt.Sprintf("127.0.0.1:%d", port), 5*time.Second); err == nil {
		c.Close()
		t.Fatalf("x05: reserved port %d accepts connections", port)
	}
	return fmt.Sprintf("http://127.0.0.1:%d", port), func() { syscall.Close(fd) }
}

type x05TVReq struct {
	id     int
	orig   vx.M
	cfg    vx.M
	cancel stdcontext.CancelFunc
}

func TestVerifX05MirrorTV(t *testing.T) {
	w := vx.NewWriter(t, "VERIF_OUT")
	defer w.Close()
	rnd := vx.Rand(505)
	nReq := 160
	if vx.Thorough() {
		nReq = 1200
	}
	release := make(chan struct{})
	var held, nResp int64
	mainSrv := httptest.NewServer(http.HandlerFunc(func(rw http.ResponseWriter, r *http.Request) {
		id, _ := strconv.Atoi(r.Header.Get("X-Id"))
		data, _ := io.ReadAll(r.Body)
		w.Emit(vx.M{"ev": "mainrecv", "id": id, "got": x05View(r.Method, r.URL.Path, r.Header, string(data), id)})
		rw.Header().Set("X-From", "main")
		rw.Header().Set("X-Resp-Tag", fmt.Sprintf("r-%d", id))
		if r.Header.Get("X-Main-Beh") == "e500" {
			rw.WriteHeader(500)
		}
		io.WriteString(rw, "echo:"+string(data))
	}))
	defer mainSrv.Close()
	mirSrv := httptest.NewServer(http.HandlerFunc(func(rw http.ResponseWriter, r *http.Request) {
		id, _ := strconv.Atoi(r.Header.Get("X-Id"))
		data, _ := io.ReadAll(r.Body)
		beh := r.Header.Get("X-Mir-Beh")
		if beh == "slow" || beh == "never" {
			atomic.AddInt64(&held, 1)
			defer atomic.AddInt64(&held, -1)
		}
		w.Emit(vx.M{"ev": "mirrecv", "id": id, "got": x05View(r.Method, r.URL.Path, r.Header, string(data), id)})
		switch beh {
		case "e500":
			rw.WriteHeader(500)
			io.WriteString(rw, "mirror failed")
		case "slow":
			select {
			case <-release:
			case <-r.Context().Done():
			}
			io.WriteString(rw, "late hello")
		case "never":
			select {
			case <-r.Context().Done():
			case <-time.After(10 * time.Minute):
			}
		case "broken":
			if hj, ok := rw.(http.Hijacker); ok {
				conn, buf, err := hj.Hijack()
				if err == nil {
					buf.WriteString("HTTP/1.1 200 OK\r\nContent-Length: 100\r\nX-From: mirror\r\n\r\nhalf a bo")
					buf.Flush()
					conn.Close()
				}
			}
		default:
			rw.Header().Set("X-From", "mirror")
			io.WriteString(rw, "mirror says hello")
		}
	}))
	defer mirSrv.Close()
	// a port nobody listens on - and nobody else can take while the test runs: bound, never listening (connect is refused)
	dead, freeDead := x05DeadAddr(t)
	defer freeDead()

	type pk struct{ filter, main, mir string }
	proxies := map[pk]*Proxy{}
	for _, f := range []string{"hdr", "hdrUrl"} {
		for _, m := range []string{"live", "dead"} {
			for _, mi := range []string{"live", "dead"} {
				mu, miu := mainSrv.URL, mirSrv.URL
				if m == "dead" {
					mu = dead
				}
				if mi == "dead" {
					miu = dead
				}
				p := x05Proxy(t, f, mu, miu)
				proxies[pk{f, m, mi}] = p
				defer p.Close()
			}
		}
	}
	w.Emit(vx.M{"ev": "reset"})
	methods, paths, xms := []string{"GET", "POST"}, []string{"/m/a", "/x"}, []string{"yes", "yes", "yes", "no", "none"}
	bodies := []string{"empty", "small", "big", "stream"}
	mainBs := []string{"ok", "ok", "ok", "e500", "refused"}
	mirBs := []string{"ok", "e500", "slow", "never", "broken", "refused"}
	reqs := make([]*x05TVReq, nReq)
	for i := range reqs {
		reqs[i] = &x05TVReq{id: i + 1,
			orig: vx.M{"m": methods[rnd.Intn(2)], "p": paths[rnd.Intn(2)], "xm": xms[rnd.Intn(len(xms))], "hop": rnd.Intn(3) == 0, "body": bodies[rnd.Intn(4)]},
			cfg:  vx.M{"filter": []string{"hdr", "hdrUrl"}[rnd.Intn(2)], "mainB": mainBs[rnd.Intn(len(mainBs))], "mirB": mirBs[rnd.Intn(len(mirBs))]}}
	}
	var wg sync.WaitGroup
	sem := make(chan struct{}, 24)
	for _, rq := range reqs {
		wg.Add(1)
		sem <- struct{}{}
		go func(rq *x05TVReq) {
			defer wg.Done()
			defer func() { <-sem }()
			cctx, cancel := stdcontext.WithCancel(stdcontext.Background())
			rq.cancel = cancel
			req := x05NewRequest(cctx, rq.orig, rq.id)
			req.HTTPHeader().Set("X-Mir-Beh", vx.Str(rq.cfg["mirB"]))
			req.HTTPHeader().Set("X-Main-Beh", vx.Str(rq.cfg["mainB"]))
			key := pk{vx.Str(rq.cfg["filter"]), "live", "live"}
			if vx.Str(rq.cfg["mainB"]) == "refused" {
				key.main = "dead"
			}
			if vx.Str(rq.cfg["mirB"]) == "refused" {
				key.mir = "dead"
			}
			ctx := context.New(tracing.NoopSpan)
			ctx.SetRequest(context.DefaultNamespace, req)
			w.Emit(vx.M{"ev": "req", "id": rq.id, "orig": rq.orig, "cfg": rq.cfg})
			result := proxies[key].Handle(ctx)
			resp, _ := ctx.GetOutputResponse().(*httpprot.Response)
			w.Emit(vx.M{"ev": "resp", "id": rq.id, "resp": x05RespClass(resp, rq.id), "result": result})
			atomic.AddInt64(&nResp, 1)
		}(rq)
	}
	// all Handle calls return (a watchdog without progress for a long time only turns a wedged run into an inconclusive one)
	allDone := make(chan struct{})
	go func() { wg.Wait(); close(allDone) }()
	lastN, lastT := int64(-1), time.Now()
	for wedged := false; !wedged; {
		select {
		case <-allDone:
			wedged = true
		case <-time.After(500 * time.Millisecond):
			if n := atomic.LoadInt64(&nResp); n != lastN {
				lastN, lastT = n, time.Now()
			} else if time.Since(lastT) > 90*time.Second {
				w.Emit(vx.M{"ev": "stuck", "what": "Handle calls do not return", "returned": n, "of": nReq})
				for _, rq := range reqs {
					if rq.cancel != nil {
						rq.cancel()
					}
				}
				close(release)
				<-allDone
				return
			}
		}
	}
	// barrier: every mirror goroutine that is still alive is parked in a backend that holds its answer
	quiet := x05Await(func() bool {
		time.Sleep(2 * time.Millisecond)
		h := atomic.LoadInt64(&held)
		return int64(len(x05ProductGoroutines(x05Dump()))) == h && atomic.LoadInt64(&held) == h
	})
	if !quiet {
		w.Emit(vx.M{"ev": "stuck", "alive": len(x05ProductGoroutines(x05Dump())), "held": atomic.LoadInt64(&held)})
		return
	}
	w.Emit(vx.M{"ev": "quiesce", "held": atomic.LoadInt64(&held)})
	// the requests end: contexts are cancelled (and the slow backends answer at last)
	for _, rq := range reqs {
		rq.cancel()
	}
	close(release)
	parked := 0
	x05Await(func() bool {
		if len(x05ProductGoroutines(x05Dump())) == 0 {
			return true
		}
		parked++
		time.Sleep(5 * time.Millisecond)
		return parked >= 12000
	})
	w.Emit(vx.M{"ev": "end", "alive": len(x05ProductGoroutines(x05Dump()))})
}

package proxy

// Harness for the extension check X05 (b) and (c): the Mock and the Fallback filter as decision tables
// (specs/MockFilter.tla, specs/FallbackFilter.tla).  The filters are used through their public interface only (kind
// registry, Init, Handle), which is why this file can live in the proxy package together with the mirror-pool harness.
//
// TestVerifX05MockReplay: TLC-generated behaviours (rule list, then requests) are replayed on real Mock objects; after
// every Handle the result, the presence of a response, its code / headers / body (which rule fired) and the one-sided
// timing of the delay are compared with the model.  Cancelled requests go to a twin Mock whose delays are one hour:
// Handle must return all the same (decided at a barrier: the goroutine is parked in the delay or it is not).
// TestVerifX05FallbackReplay: same for Fallback over the three kinds of input (no response, buffered, streamed).

import (
	stdcontext "context"
	"fmt"
	"io"
	"net/http"
	"strconv"
	"strings"
	"sync/atomic"
	"testing"
	"time"

	"github.com/megaease/easegress/pkg/context"
	"github.com/megaease/easegress/pkg/filters"
	_ "github.com/megaease/easegress/pkg/filters/fallback"
	_ "github.com/megaease/easegress/pkg/filters/mock"
	"github.com/megaease/easegress/pkg/protocols/httpprot"
	"github.com/megaease/easegress/pkg/tracing"
	vx "github.com/megaease/easegress/pkg/verifx"
)

const x05MockDelay = 20 * time.Millisecond

func x05Filter(raw map[string]interface{}) (filters.Filter, error) {
	spec, err := filters.NewSpec(nil, "", raw)
	if err != nil {
		return nil, err
	}
	f := filters.GetKind(raw["kind"].(string)).CreateInstance(spec)
	f.Init()
	return f, nil
}

var x05Regex = map[string]string{"RV": "^v.$", "R2": "2$"}

func x05StringMatch(m vx.M) map[string]interface{} {
	out := map[string]interface{}{}
	if s := vx.Chars(m["exact"]); s != "" {
		out["exact"] = s
	}
	if s := vx.Chars(m["prefix"]); s != "" {
		out["prefix"] = s
	}
	if s := vx.Str(m["regex"]); s != "" {
		out["regex"] = x05Regex[s]
	}
	if vx.Bool(m["empty"]) {
		out["empty"] = true
	}
	return out
}

func x05MockBody(kind string, idx int) string {
	if kind == "" {
		return ""
	}
	return fmt.Sprintf("mock-body-%d", idx)
}

func x05MockSpec(rules []interface{}, delay string) map[string]interface{} {
	var rs []interface{}
	for i, r := range rules {
		rm := r.(vx.M)
		match := map[string]interface{}{"matchAllHeaders": vx.Bool(rm["all"])}
		if s := vx.Chars(rm["path"]); s != "" {
			match["path"] = s
		}
		if s := vx.Chars(rm["prefix"]); s != "" {
			match["pathPrefix"] = s
		}
		hs := map[string]interface{}{}
		if xa := rm["xa"].(vx.M); vx.Bool(xa["on"]) {
			hs["X-A"] = x05StringMatch(xa)
		}
		if xb := rm["xb"].(vx.M); vx.Bool(xb["on"]) {
			hs["X-B"] = x05StringMatch(xb)
		}
		if len(hs) > 0 {
			match["headers"] = hs
		}
		o := rm["out"].(vx.M)
		hdr := map[string]interface{}{"X-Rule": strconv.Itoa(i + 1)}
		if vx.Bool(o["hdr"]) {
			hdr["X-Mock"] = "m"
		}
		rule := map[string]interface{}{"match": match, "code": vx.Int(o["code"]), "headers": hdr, "body": x05MockBody(vx.Str(o["body"]), i+1)}
		if vx.Int(o["delay"]) > 0 {
			rule["delay"] = delay
		}
		rs = append(rs, rule)
	}
	return map[string]interface{}{"name": "x05mock", "kind": "Mock", "rules": rs}
}

func TestVerifX05MockReplay(t *testing.T) {
	behs := vx.ReadBehaviours(t, "VERIF_IN_MOCK")
	w := vx.NewWriter(t, "VERIF_OUT_MOCK")
	defer w.Close()
	handles, mism, fired, none, waited, cancelledDelay := 0, 0, 0, 0, 0, 0
	for bi, beh := range behs {
		var short, long filters.Filter
		for si, st := range beh[1:] {
			a := vx.Str(st["a"])
			if a == "seal" {
				var err1, err2 error
				short, err1 = x05Filter(x05MockSpec(vx.List(st["rules"]), x05MockDelay.String()))
				long, err2 = x05Filter(x05MockSpec(vx.List(st["rules"]), "1h"))
				if err1 != nil || err2 != nil {
					w.Raw(vx.M{"k": "error", "what": fmt.Sprintf("Mock spec rejected: %v %v", err1, err2), "rules": st["rules"]})
					short = nil
				}
				continue
			}
			if a != "handle" || short == nil {
				continue
			}
			handles++
			q := st["req"].(vx.M)
			cancelled := vx.Bool(q["cancelled"])
			cctx, cancel := stdcontext.WithCancel(stdcontext.Background())
			if cancelled {
				cancel()
			}
			stdr, _ := http.NewRequestWithContext(cctx, "GET", "http://client.x05.test"+vx.Chars(q["p"]), nil)
			for _, v := range vx.List(q["xa"]) {
				stdr.Header.Add("X-A", vx.Chars(v))
			}
			for _, v := range vx.List(q["xb"]) {
				stdr.Header.Add("X-B", vx.Chars(v))
			}
			req, _ := httpprot.NewRequest(stdr)
			req.FetchPayload(1 << 20)
			ctx := context.New(tracing.NoopSpan)
			ctx.SetRequest(context.DefaultNamespace, req)
			f := short
			if cancelled {
				f = long
			}
			var done, gid int64
			var result string
			t0 := time.Now()
			var elapsed time.Duration
			go func() {
				atomic.StoreInt64(&gid, x05Gid())
				result = f.Handle(ctx)
				elapsed = time.Since(t0)
				atomic.StoreInt64(&done, 1)
			}()
			parked := 0
			x05Await(func() bool {
				if atomic.LoadInt64(&done) == 1 {
					return true
				}
				if !cancelled {
					return false
				}
				// a cancelled request: is the goroutine parked inside the Mock filter?
				blk := x05BlockOf(x05Dump(), atomic.LoadInt64(&gid))
				if strings.Contains(blk, "filters/mock.") && x05ParkedInProduct(blk) {
					parked++
					time.Sleep(time.Millisecond)
				} else {
					parked = 0
				}
				return parked >= 60
			})
			bad := ""
			if atomic.LoadInt64(&done) == 0 {
				bad = "delay: Handle of a cancelled request is parked in the rule's delay (1h)"
			} else {
				resp, _ := ctx.GetOutputResponse().(*httpprot.Response)
				wantRule := vx.Int(st["rule"])
				gotRule, gotCode, gotHdr, gotBody := 0, 0, false, ""
				if resp != nil {
					gotRule, _ = strconv.Atoi(resp.HTTPHeader().Get("X-Rule"))
					gotCode = resp.StatusCode()
					gotHdr = resp.HTTPHeader().Get("X-Mock") == "m"
					b, _ := io.ReadAll(resp.GetPayload())
					gotBody = string(b)
				}
				switch {
				case result != vx.Str(st["result"]) || (resp != nil) != vx.Bool(st["respSet"]) || gotRule != wantRule:
					bad = fmt.Sprintf("rule: result %q response=%v rule %d, model result %q response=%v rule %d", result, resp != nil, gotRule,
						vx.Str(st["result"]), vx.Bool(st["respSet"]), wantRule)
				case wantRule > 0 && (gotCode != vx.Int(st["code"]) || gotHdr != vx.Bool(st["hdr"]) || gotBody != x05MockBody(vx.Str(st["body"]), wantRule)):
					bad = fmt.Sprintf("answer: code %d X-Mock=%v body %q, model code %d X-Mock=%v body %q", gotCode, gotHdr, gotBody,
						vx.Int(st["code"]), vx.Bool(st["hdr"]), x05MockBody(vx.Str(st["body"]), wantRule))
				case vx.Bool(st["waits"]) && elapsed < x05MockDelay:
					bad = fmt.Sprintf("delay: Handle returned after %v, the rule's delay is %v", elapsed, x05MockDelay)
				}
				if wantRule > 0 {
					fired++
				} else {
					none++
				}
				if vx.Bool(st["waits"]) {
					waited++
				}
				if cancelled && wantRule > 0 && !vx.Bool(st["waits"]) && gotRule == wantRule {
					cancelledDelay++
				}
			}
			cancel()
			if bad != "" {
				mism++
				w.Raw(vx.M{"k": "mismatch", "beh": bi, "step": si + 1, "kind": bad[:strings.Index(bad, ":")], "what": bad, "handle": st,
					"rules": beh[x05Index(beh, "seal")]["rules"]})
				if atomic.LoadInt64(&done) == 0 {
					break // the goroutine stays parked; the objects of this behaviour are abandoned
				}
			}
		}
	}
	w.Raw(vx.M{"k": "summary", "behaviours": len(behs), "handles": handles, "mismatches": mism, "fired": fired, "none": none,
		"waited": waited, "cancelled": cancelledDelay})
}

// ---------------------------------------------------------------- Fallback

type x05Closer struct {
	io.Reader
	closed int64
}

func (c *x05Closer) Close() error { atomic.AddInt64(&c.closed, 1); return nil }

func x05FallbackBody(kind string) string { return kind }

func TestVerifX05FallbackReplay(t *testing.T) {
	behs := vx.ReadBehaviours(t, "VERIF_IN_FB")
	w := vx.NewWriter(t, "VERIF_OUT_FB")
	defer w.Close()
	handles, mism := 0, 0
	seen := map[string]int{}
	for bi, beh := range behs {
		var f filters.Filter
		for si, st := range beh[1:] {
			switch vx.Str(st["a"]) {
			case "configure":
				c := st["cfg"].(vx.M)
				hdrs := map[string]interface{}{}
				for _, h := range vx.List(c["hdrs"]) {
					if h.(string) == "X-Over" {
						hdrs["X-Over"] = "new"
					} else {
						hdrs["X-New"] = "n"
					}
				}
				raw := map[string]interface{}{"name": "x05fallback", "kind": "Fallback", "mockCode": vx.Int(c["code"]), "mockBody": x05FallbackBody(vx.Str(c["body"]))}
				if len(hdrs) > 0 {
					raw["mockHeaders"] = hdrs
				}
				var err error
				if f, err = x05Filter(raw); err != nil {
					w.Raw(vx.M{"k": "error", "what": "Fallback spec rejected: " + err.Error(), "cfg": c})
					f = nil
				}
			case "handle":
				if f == nil {
					continue
				}
				handles++
				inp := vx.Str(st["inp"])
				seen[inp]++
				ctx := context.New(tracing.NoopSpan)
				var resp *httpprot.Response
				var closer *x05Closer
				if inp != "none" {
					closer = &x05Closer{Reader: strings.NewReader("origbod")}
					stdResp := &http.Response{StatusCode: 502, Header: http.Header{}, Body: closer, ContentLength: 7}
					stdResp.Header.Set("X-Orig", "1")
					stdResp.Header.Set("X-Over", "old")
					stdResp.Header.Set("Content-Length", "7")
					resp, _ = httpprot.NewResponse(stdResp)
					if inp == "stream" {
						resp.FetchPayload(-1)
					} else {
						resp.FetchPayload(1 << 20)
					}
					ctx.SetInputResponse(resp)
				}
				result := f.Handle(ctx)
				bad := ""
				if result != vx.Str(st["result"]) {
					bad = fmt.Sprintf("result: %q, model %q", result, vx.Str(st["result"]))
				} else if inp == "none" {
					if ctx.GetOutputResponse() != nil {
						bad = "result: a response appeared although there was none"
					}
				} else {
					out, _ := ctx.GetOutputResponse().(*httpprot.Response)
					if out == nil {
						bad = "result: the response disappeared"
					} else {
						b, _ := io.ReadAll(out.GetPayload())
						want := st["hdr"].(vx.M)
						for _, h := range []string{"X-Orig", "X-Over", "X-New", "Content-Length"} {
							g := out.HTTPHeader().Get(h)
							if g == "" {
								g = "-"
							}
							if g != vx.Str(want[h]) && bad == "" {
								bad = fmt.Sprintf("header: %s is %q, model %q", h, g, vx.Str(want[h]))
							}
						}
						if out.StatusCode() != vx.Int(st["code"]) {
							bad = fmt.Sprintf("status: %d, model %d", out.StatusCode(), vx.Int(st["code"]))
						} else if string(b) != x05FallbackBody(vx.Str(st["body"])) {
							bad = fmt.Sprintf("body: %q, model %q", string(b), x05FallbackBody(vx.Str(st["body"])))
						} else if bad == "" && vx.Bool(st["closed"]) && atomic.LoadInt64(&closer.closed) == 0 {
							bad = "stream: the replaced streamed body was not closed"
						}
					}
				}
				if bad != "" {
					mism++
					w.Raw(vx.M{"k": "mismatch", "beh": bi, "step": si + 1, "kind": bad[:strings.Index(bad, ":")], "what": bad, "handle": st, "cfg": beh[1]["cfg"]})
				}
			}
		}
	}
	w.Raw(vx.M{"k": "summary", "behaviours": len(behs), "handles": handles, "mismatches": mism, "seen": seen})
}

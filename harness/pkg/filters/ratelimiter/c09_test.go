package ratelimiter

// Harness for C09, filter level (DESIGN 5/C09).
//   TestVerifC09FilterReplay  - replays behaviours of RateLimiterFilter_Gen (requests and reloads) on
//                               real filter generations built through filters.NewSpec / Init / Inherit
//   TestVerifC09FilterRelease - real time, one-sided: when does Handle let the admitted requests go
// The limiter's clock cannot be replaced from this package. The replay therefore uses a refresh
// period of one hour (everything happens at the beginning of the first cycle) and requests whose
// context is already cancelled, so that Handle returns at once where it would wait.

import (
	stdctx "context"
	"fmt"
	"net/http"
	"sync"
	"testing"
	"time"

	"github.com/megaease/easegress/pkg/context"
	"github.com/megaease/easegress/pkg/filters"
	"github.com/megaease/easegress/pkg/logger"
	"github.com/megaease/easegress/pkg/protocols/httpprot"
	vx "github.com/megaease/easegress/pkg/verifx"
)

func init() { logger.InitNop() }

// c09RawSpec turns a spec record of RateLimiterFilter_Gen into the raw (YAML-shaped) filter spec.
// Policy fields the model marks as omitted (L = 0, tmo = -1, per = "d") are left out, so that the
// filter's defaults apply (50, 100ms, 10ms); an explicit period is 1h, an explicit timeout is
// tmo half-periods.
func c09RawSpec(s vx.M) map[string]interface{} {
	var pols []interface{}
	for _, p := range vx.List(s["pols"]) {
		pm := p.(vx.M)
		pol := map[string]interface{}{"name": vx.Str(pm["name"])}
		period := 10 * time.Millisecond
		if vx.Str(pm["per"]) != "d" {
			period = time.Hour
			pol["limitRefreshPeriod"] = "1h"
		}
		if tmo := vx.Int(pm["tmo"]); tmo >= 0 {
			pol["timeoutDuration"] = (time.Duration(tmo) * period / 2).String()
		}
		if l := vx.Int(pm["L"]); l > 0 {
			pol["limitForPeriod"] = l
		}
		pols = append(pols, pol)
	}
	var urls []interface{}
	for _, u := range vx.List(s["urls"]) {
		um := u.(vx.M)
		url := map[string]interface{}{}
		if e := vx.Chars(um["exact"]); e != "" {
			url["exact"] = e
		}
		if p := vx.Chars(um["prefix"]); p != "" {
			url["prefix"] = p
		}
		// the tokens of the model's regular expression, concatenated, are the expression
		if re := vx.Chars(um["regex"]); re != "" {
			url["regex"] = re
		}
		if b, _ := um["empty"].(bool); b {
			url["empty"] = true
		}
		rule := map[string]interface{}{"url": url}
		var ms []interface{}
		for _, m := range vx.List(um["ms"]) {
			ms = append(ms, vx.Str(m))
		}
		if len(ms) > 0 {
			rule["methods"] = ms
		}
		if r := vx.Str(um["ref"]); r != "" {
			rule["policyRef"] = r
		}
		urls = append(urls, rule)
	}
	return map[string]interface{}{
		"kind": Kind, "name": "c09rl", "policies": pols, "defaultPolicyRef": vx.Str(s["def"]), "urls": urls,
	}
}

func c09HasDefaultPeriod(s vx.M) bool {
	for _, p := range vx.List(s["pols"]) {
		if vx.Str(p.(vx.M)["per"]) == "d" {
			return true
		}
	}
	return false
}

func c09NewGeneration(raw map[string]interface{}, prev filters.Filter) (filters.Filter, error) {
	spec, err := filters.NewSpec(nil, "c09pipeline", raw)
	if err != nil {
		return nil, err
	}
	return c09Instantiate(spec, prev), nil
}

func c09Instantiate(spec filters.Spec, prev filters.Filter) filters.Filter {
	f := kind.CreateInstance(spec)
	if prev == nil {
		f.Init()
	} else {
		f.Inherit(prev)
	}
	return f
}

// c09Handle sends one request through the filter; returns result and status code (0 = no response set).
func c09Handle(f filters.Filter, method, path string, cancelled bool) (res string, code int, err error) {
	defer func() {
		if r := recover(); r != nil {
			err = fmt.Errorf("panic: %v", r)
		}
	}()
	rc := stdctx.Background()
	if cancelled {
		c, cancel := stdctx.WithCancel(rc)
		cancel()
		rc = c
	}
	std, e := http.NewRequestWithContext(rc, method, "http://c09.example"+path, nil)
	if e != nil {
		return "", 0, e
	}
	req, e := httpprot.NewRequest(std)
	if e != nil {
		return "", 0, e
	}
	ctx := context.New(nil)
	ctx.SetInputRequest(req)
	res = f.Handle(ctx)
	if resp := ctx.GetOutputResponse(); resp != nil {
		code = resp.(*httpprot.Response).StatusCode()
	}
	return res, code, nil
}

// c09RunBehaviour replays one behaviour on fresh filter generations. The specs are parsed and
// validated (filters.NewSpec) beforehand; the returned duration covers everything from just before
// the first Init to the last step, i.e. it bounds the age of every limiter involved.
func c09RunBehaviour(beh []vx.M) (bad string, step int, hit int, elapsed time.Duration, err error) {
	specs := make([]filters.Spec, len(beh))
	for i, st := range beh {
		if a := vx.Str(st["a"]); a == "init" || a == "reload" {
			sp, e := filters.NewSpec(nil, "c09pipeline", c09RawSpec(st["spec"].(vx.M)))
			if e != nil {
				return "", i, 0, 0, fmt.Errorf("spec of the model rejected by filters.NewSpec: %v", e)
			}
			specs[i] = sp
		}
	}
	t0 := time.Now()
	f := c09Instantiate(specs[0], nil)
	for si, st := range beh[1:] {
		switch vx.Str(st["a"]) {
		case "reload":
			f = c09Instantiate(specs[si+1], f) // the old generation is not used any more (its use after Inherit is C11's business)
		case "req":
			k, adm := vx.Int(st["k"]), 0
			m, path := vx.Str(st["m"]), vx.Chars(st["path"])
			for j := 0; j < k && bad == ""; j++ {
				res, code, e := c09Handle(f, m, path, true)
				switch {
				case e != nil:
					bad = "Handle failed: " + e.Error()
				case res == "" && code == 0:
					adm++
				case res == resultRateLimited && code == 429:
				default:
					bad = fmt.Sprintf("Handle answered (%q, status %d): neither admitted nor (rateLimited, 429)", res, code)
				}
			}
			if bad == "" && adm != vx.Int(st["adm"]) {
				bad = fmt.Sprintf("%d of %d requests admitted, specification says %d", adm, k, vx.Int(st["adm"]))
			}
		}
		if bad != "" {
			return bad, si + 1, vx.Int(st["hit"]), time.Since(t0), nil
		}
	}
	return "", 0, 0, time.Since(t0), nil
}

func TestVerifC09FilterReplay(t *testing.T) {
	behs := vx.ReadBehaviours(t, "VERIF_IN")
	w := vx.NewWriter(t, "VERIF_OUT")
	defer w.Close()
	t0 := time.Now()
	steps, mism, fast, slow := 0, 0, 0, 0
	for bi, beh := range behs {
		if len(beh) == 0 || vx.Str(beh[0]["a"]) != "init" {
			t.Fatalf("behaviour %d does not start with init", bi)
		}
		// policies that leave the refresh period to its default (10ms) are only predictable while
		// every limiter is younger than that: measure, and repeat the behaviour if it was too slow
		needFast := false
		for _, st := range beh {
			if sp, ok := st["spec"].(vx.M); ok && c09HasDefaultPeriod(sp) {
				needFast = true
			}
		}
		steps += len(beh) - 1
		tries := 1
		if needFast {
			tries = 60
			fast++
		}
		done := false
		for a := 0; a < tries && !done; a++ {
			bad, step, hit, el, err := c09RunBehaviour(beh)
			if err != nil {
				w.Raw(vx.M{"k": "error", "b": bi, "what": err.Error()})
				done = true
				break
			}
			if needFast && el >= 8*time.Millisecond {
				continue
			}
			done = true
			if bad != "" {
				mism++
				w.Raw(vx.M{"k": "mismatch", "b": bi, "step": step, "what": bad, "hit": hit, "fast": needFast,
					"elapsed_us": int(el / time.Microsecond), "behaviour": beh[:step+1]})
			}
		}
		if !done {
			slow++
			w.Raw(vx.M{"k": "slow", "b": bi})
		}
	}
	w.Raw(vx.M{"k": "summary", "behaviours": len(behs), "steps": steps, "mismatches": mism, "fast": fast, "slow": slow,
		"elapsed_ms": int(time.Since(t0) / time.Millisecond)})
}

// TestVerifC09FilterRelease: K requests are fired at once at a filter with a short period; every
// goroutine notes its own clock before calling Handle and after Handle returned. The limiter was
// created between s0 and s1, so the request was released somewhere in [t0 - s1, t1 - s0] after the
// limiter's start: slowness only widens the interval. RateLimiterRel_Trace looks for an assignment
// of releases to refresh cycles with at most L per cycle.
func TestVerifC09FilterRelease(t *testing.T) {
	w := vx.NewWriter(t, "VERIF_OUT")
	defer w.Close()
	rng := vx.Rand(99)
	nTraces := vx.EnvInt("VERIF_N", 3)
	for ti := 0; ti < nTraces; ti++ {
		L := 1 + rng.Intn(2)
		P := time.Duration(150+50*rng.Intn(3)) * time.Millisecond
		H := 1 + rng.Intn(2)
		T := time.Duration(H)*P + P/2
		K := L*(H+1) + 2
		raw := map[string]interface{}{
			"kind": Kind, "name": "c09rel", "defaultPolicyRef": "p",
			"policies": []interface{}{map[string]interface{}{"name": "p", "timeoutDuration": T.String(),
				"limitRefreshPeriod": P.String(), "limitForPeriod": L}},
			"urls": []interface{}{map[string]interface{}{"url": map[string]interface{}{"prefix": "/"}}},
		}
		s0 := time.Now()
		f, err := c09NewGeneration(raw, nil)
		s1 := time.Now()
		if err != nil {
			w.Raw(vx.M{"ev": "error", "what": err.Error()})
			return
		}
		us := func(d time.Duration) int {
			if d < 0 {
				return 0
			}
			return int(d / time.Microsecond)
		}
		w.Emit(vx.M{"ev": "reset", "pol": vx.M{"L": L, "P": us(P), "T": us(T)}})
		var wg sync.WaitGroup
		for k := 0; k < K; k++ {
			wg.Add(1)
			go func() {
				defer wg.Done()
				t0 := time.Now()
				res, code, err := c09Handle(f, "GET", "/x", false)
				t1 := time.Now()
				if err != nil {
					w.Emit(vx.M{"ev": "error", "what": err.Error()})
					return
				}
				if res == "" {
					w.Emit(vx.M{"ev": "rel", "tlo": us(t0.Sub(s1)), "thi": us(t1.Sub(s0))})
				} else {
					w.Emit(vx.M{"ev": "rej", "res": res, "code": code})
				}
			}()
		}
		wg.Wait()
	}
}

package ratelimiter

// Harness for C09, filter level (DESIGN 5/C09).
//   TestVerifC09FilterReplay  - replays behaviours of RateLimiterFilter_Gen (requests and reloads) on
//                               real filter generations built through filters.NewSpec / Init / Inherit
//   TestVerifC09FilterRelease - real time, one-sided: when does Handle let the admitted requests go
// The limiter's clock cannot be replaced from this package. The replay therefore uses a refresh
// period of one hour (everything happens at the beginning of the first cycle) and requests whose
// context is already cancelled, so that Handle returns at once where it would wait.

import (
	stdctx "context"
	"fmt"
	"net/http"
	"sync"
	"testing"
	"time"

	"github.com/megaease/easegress/pkg/context"
	"github.com/megaease/easegress/pkg/filters"
	"github.com/megaease/easegress/pkg/logger"
	"github.com/megaease/easegress/pkg/protocols/httpprot"
	vx "github.com/megaease/easegress/pkg/verifx"
)

func init() { logger.InitNop() }

// c09RawSpec turns a spec record of RateLimiterFilter_Gen into the raw (YAML-shaped) filter spec.
// Policy: period 60m, timeout th*30m.
func c09RawSpec(s vx.M, period time.Duration) map[string]interface{} {
	var pols []interface{}
	for _, p := range vx.List(s["pols"]) {
		pm := p.(vx.M)
		pols = append(pols, map[string]interface{}{
			"name":               vx.Str(pm["name"]),
			"timeoutDuration":    (time.Duration(vx.Int(pm["th"])) * period / 2).String(),
			"limitRefreshPeriod": period.String(),
			"limitForPeriod":     vx.Int(pm["L"]),
		})
	}
	var urls []interface{}
	for _, u := range vx.List(s["urls"]) {
		um := u.(vx.M)
		url := map[string]interface{}{}
		if e := vx.Chars(um["exact"]); e != "" {
			url["exact"] = e
		}
		if p := vx.Chars(um["prefix"]); p != "" {
			url["prefix"] = p
		}
		rule := map[string]interface{}{"url": url}
		var ms []interface{}
		for _, m := range vx.List(um["ms"]) {
			ms = append(ms, vx.Str(m))
		}
		if len(ms) > 0 {
			rule["methods"] = ms
		}
		if r := vx.Str(um["ref"]); r != "" {
			rule["policyRef"] = r
		}
		urls = append(urls, rule)
	}
	return map[string]interface{}{
		"kind": Kind, "name": "c09rl", "policies": pols, "defaultPolicyRef": vx.Str(s["def"]), "urls": urls,
	}
}

func c09NewGeneration(raw map[string]interface{}, prev filters.Filter) (filters.Filter, error) {
	spec, err := filters.NewSpec(nil, "c09pipeline", raw)
	if err != nil {
		return nil, err
	}
	f := kind.CreateInstance(spec)
	if prev == nil {
		f.Init()
	} else {
		f.Inherit(prev)
	}
	return f, nil
}

// c09Handle sends one request through the filter; returns result and status code (0 = no response set).
func c09Handle(f filters.Filter, method, path string, cancelled bool) (res string, code int, err error) {
	defer func() {
		if r := recover(); r != nil {
			err = fmt.Errorf("panic: %v", r)
		}
	}()
	rc := stdctx.Background()
	if cancelled {
		c, cancel := stdctx.WithCancel(rc)
		cancel()
		rc = c
	}
	std, e := http.NewRequestWithContext(rc, method, "http://c09.example"+path, nil)
	if e != nil {
		return "", 0, e
	}
	req, e := httpprot.NewRequest(std)
	if e != nil {
		return "", 0, e
	}
	ctx := context.New(nil)
	ctx.SetInputRequest(req)
	res = f.Handle(ctx)
	if resp := ctx.GetOutputResponse(); resp != nil {
		code = resp.(*httpprot.Response).StatusCode()
	}
	return res, code, nil
}

func TestVerifC09FilterReplay(t *testing.T) {
	behs := vx.ReadBehaviours(t, "VERIF_IN")
	w := vx.NewWriter(t, "VERIF_OUT")
	defer w.Close()
	t0 := time.Now()
	steps, mism := 0, 0
	for bi, beh := range behs {
		if len(beh) == 0 || vx.Str(beh[0]["a"]) != "init" {
			t.Fatalf("behaviour %d does not start with init", bi)
		}
		f, err := c09NewGeneration(c09RawSpec(beh[0]["spec"].(vx.M), time.Hour), nil)
		if err != nil {
			w.Raw(vx.M{"k": "error", "b": bi, "what": "spec of the model rejected by filters.NewSpec: " + err.Error()})
			continue
		}
		for si, st := range beh[1:] {
			steps++
			bad := ""
			switch vx.Str(st["a"]) {
			case "reload":
				nf, err := c09NewGeneration(c09RawSpec(st["spec"].(vx.M), time.Hour), f)
				if err != nil {
					w.Raw(vx.M{"k": "error", "b": bi, "what": "reload: " + err.Error()})
					bad = "-"
					break
				}
				f = nf // the old generation is not used any more (its use after Inherit is C11's business)
			case "req":
				res, code, err := c09Handle(f, vx.Str(st["m"]), vx.Chars(st["path"]), true)
				if err != nil {
					bad = "Handle failed: " + err.Error()
				} else if res != vx.Str(st["res"]) {
					bad = fmt.Sprintf("result %q, specification says %q", res, vx.Str(st["res"]))
				} else if code != vx.Int(st["code"]) {
					bad = fmt.Sprintf("status code %d, specification says %d", code, vx.Int(st["code"]))
				}
			}
			if bad == "-" {
				break
			}
			if bad != "" {
				mism++
				w.Raw(vx.M{"k": "mismatch", "b": bi, "step": si + 1, "what": bad, "hit": vx.Int(st["hit"]), "behaviour": beh[:si+2]})
				break
			}
		}
	}
	w.Raw(vx.M{"k": "summary", "behaviours": len(behs), "steps": steps, "mismatches": mism,
		"elapsed_ms": int(time.Since(t0) / time.Millisecond)})
}

// TestVerifC09FilterRelease: K requests are fired at once at a filter with a short period; every
// goroutine notes its own clock before calling Handle and after Handle returned. The limiter was
// created between s0 and s1, so the request was released somewhere in [t0 - s1, t1 - s0] after the
// limiter's start: slowness only widens the interval. RateLimiterRel_Trace looks for an assignment
// of releases to refresh cycles with at most L per cycle.
func TestVerifC09FilterRelease(t *testing.T) {
	w := vx.NewWriter(t, "VERIF_OUT")
	defer w.Close()
	rng := vx.Rand(99)
	nTraces := vx.EnvInt("VERIF_N", 3)
	for ti := 0; ti < nTraces; ti++ {
		L := 1 + rng.Intn(2)
		P := time.Duration(150+50*rng.Intn(3)) * time.Millisecond
		H := 1 + rng.Intn(2)
		T := time.Duration(H)*P + P/2
		K := L*(H+1) + 2
		raw := map[string]interface{}{
			"kind": Kind, "name": "c09rel", "defaultPolicyRef": "p",
			"policies": []interface{}{map[string]interface{}{"name": "p", "timeoutDuration": T.String(),
				"limitRefreshPeriod": P.String(), "limitForPeriod": L}},
			"urls": []interface{}{map[string]interface{}{"url": map[string]interface{}{"prefix": "/"}}},
		}
		s0 := time.Now()
		f, err := c09NewGeneration(raw, nil)
		s1 := time.Now()
		if err != nil {
			w.Raw(vx.M{"ev": "error", "what": err.Error()})
			return
		}
		us := func(d time.Duration) int {
			if d < 0 {
				return 0
			}
			return int(d / time.Microsecond)
		}
		w.Emit(vx.M{"ev": "reset", "pol": vx.M{"L": L, "P": us(P), "T": us(T)}})
		var wg sync.WaitGroup
		for k := 0; k < K; k++ {
			wg.Add(1)
			go func() {
				defer wg.Done()
				t0 := time.Now()
				res, code, err := c09Handle(f, "GET", "/x", false)
				t1 := time.Now()
				if err != nil {
					w.Emit(vx.M{"ev": "error", "what": err.Error()})
					return
				}
				if res == "" {
					w.Emit(vx.M{"ev": "rel", "tlo": us(t0.Sub(s1)), "thi": us(t1.Sub(s0))})
				} else {
					w.Emit(vx.M{"ev": "rej", "res": res, "code": code})
				}
			}()
		}
		wg.Wait()
	}
}

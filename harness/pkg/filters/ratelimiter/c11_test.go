package ratelimiter

// Harness for C11 (specs/HotUpdate.tla), filter level, kind RateLimiter.
//   TestVerifC11RlProbe   observes how Inherit treats the state cell of the previous generation
//                         (the per-URL limiter): "move" / "share" / "fresh", and what Close does to
//                         Handle: the parameters of the implementation-shaped layer of the model.
//   TestVerifC11RlReplay  replays TLC-generated schedules (HotUpdate_Gen, Kinds = <<"rl">>,
//                         Atomic = "coarse") on bare filter instances: the harness holds the
//                         name -> instance map itself; a request is `h := cur[p]` then `h.Handle(ctx)`;
//                         an update is `new.Inherit(old); old.Close()` then `cur[p] = new`.

import (
	"fmt"
	"net/http"
	"net/http/httptest"
	"runtime/debug"
	"strings"
	"testing"

	"github.com/megaease/easegress/pkg/context"
	"github.com/megaease/easegress/pkg/filters"
	"github.com/megaease/easegress/pkg/logger"
	"github.com/megaease/easegress/pkg/protocols/httpprot"
	"github.com/megaease/easegress/pkg/tracing"
	vx "github.com/megaease/easegress/pkg/verifx"
	"gopkg.in/yaml.v2"
)

func init() { logger.InitNop() }

// version ver of the filter spec: the URL rule and its policy never change (only an unused policy
// does), so that Inherit takes the limiter over.
func c11RlNew(pipe string, ver int) *RateLimiter {
	y := fmt.Sprintf(`
name: rl
kind: RateLimiter
policies:
- name: pol
  timeoutDuration: 100ms
  limitRefreshPeriod: 10ms
  limitForPeriod: 1000000
- name: unused
  limitForPeriod: %d
defaultPolicyRef: pol
urls:
- url:
    prefix: /
  policyRef: pol
`, 10+ver)
	raw := map[string]interface{}{}
	if err := yaml.Unmarshal([]byte(y), &raw); err != nil {
		panic(err)
	}
	spec, err := filters.NewSpec(nil, pipe, raw)
	if err != nil {
		panic(err)
	}
	return kind.CreateInstance(spec).(*RateLimiter)
}

func c11RlSite(stack string) string {
	for _, ln := range strings.Split(stack, "\n") {
		ln = strings.TrimSpace(ln)
		if !strings.HasPrefix(ln, "github.com/megaease/easegress/pkg/") || strings.Contains(ln, "c11") || strings.Contains(ln, "verifx") {
			continue
		}
		ln = strings.TrimPrefix(ln, "github.com/megaease/easegress/pkg/")
		if i := strings.LastIndex(ln, "("); i > 0 {
			ln = ln[:i]
		}
		return ln
	}
	return "?"
}

// c11RlHandle runs one request through the filter instance; returns "" or the panic.
func c11RlHandle(f *RateLimiter) (result string, panicV string, site string) {
	defer func() {
		if e := recover(); e != nil {
			panicV = fmt.Sprint(e)
			site = c11RlSite(string(debug.Stack()))
		}
	}()
	stdr := httptest.NewRequest(http.MethodGet, "http://c11.test/x", http.NoBody)
	req, _ := httpprot.NewRequest(stdr)
	req.FetchPayload(0)
	ctx := context.New(tracing.NoopSpan)
	ctx.SetRequest(context.DefaultNamespace, req)
	result = f.Handle(ctx)
	return
}

func TestVerifC11RlProbe(t *testing.T) {
	out := vx.NewWriter(t, "VERIF_OUT")
	defer out.Close()
	old := c11RlNew("p", 1)
	old.Init()
	cell0 := old.spec.URLs[0].rl
	nw := c11RlNew("p", 2)
	nw.Inherit(old)
	inherit := "unknown"
	switch {
	case cell0 == nil:
	case old.spec.URLs[0].rl == nil && nw.spec.URLs[0].rl == cell0:
		inherit = "move"
	case old.spec.URLs[0].rl == cell0 && nw.spec.URLs[0].rl == cell0:
		inherit = "share"
	case old.spec.URLs[0].rl == cell0 && nw.spec.URLs[0].rl != nil:
		inherit = "fresh"
	}
	x := c11RlNew("p", 1)
	x.Init()
	x.Close()
	cls := "none"
	if _, p, _ := c11RlHandle(x); p != "" {
		cls = "kill"
	}
	out.Raw(vx.M{"k": "probe", "kind": "RateLimiter", "inherit": inherit, "close": cls})
}

func TestVerifC11RlReplay(t *testing.T) {
	behs := vx.ReadBehaviours(t, "VERIF_IN")
	out := vx.NewWriter(t, "VERIF_OUT")
	defer out.Close()
	steps, mism := 0, 0
	for bi, beh := range behs {
		cur := map[string]*RateLimiter{}
		for _, p := range []string{"pa", "pb"} {
			cur[p] = c11RlNew(p, 1)
			cur[p].Init()
		}
		held := map[string]*RateLimiter{}
		tgs := map[string]string{}
		failed := map[string]bool{}
		var next, removed *RateLimiter
		pend := 0
		for si, st := range beh {
			steps++
			bad := ""
			r, p := vx.Str(st["r"]), vx.Str(st["p"])
			switch vx.Str(st["a"]) {
			case "start":
				tgs[r] = vx.Str(st["tg"])
				failed[r] = false
			case "get":
				h, ok := cur[tgs[r]]
				if ok != vx.Bool(st["found"]) {
					bad = fmt.Sprintf("harness map out of step with the model for %s", tgs[r])
				}
				held[r] = h
			case "run":
				_, pv, site := c11RlHandle(held[r])
				failed[r] = pv != ""
				if pv != "" {
					out.Raw(vx.M{"k": "fail", "b": bi, "step": si, "r": r, "site": site, "panic": pv, "at": st, "behaviour": beh[:si+1]})
				}
				if vx.Bool(st["ok"]) && pv != "" {
					bad = fmt.Sprintf("panic: Handle on the held generation (version %d): panic in %s: %s", vx.Int(st["ver"]), site, pv)
				}
			case "done":
				if vx.Str(st["st"]) != "fail" && failed[r] {
					bad = fmt.Sprintf("status: request failed, model says %s", vx.Str(st["st"]))
				}
			case "pipBegin", "createInit":
				pend = vx.Int(st["ver"])
				if vx.Str(st["a"]) == "createInit" {
					next = c11RlNew(p, pend)
					next.Init()
				}
			case "pipInherit":
				next = c11RlNew(p, pend)
				next.Inherit(cur[p])
				cur[p].Close() // Pipeline.Inherit closes the previous generation right after
			case "pipStore", "createStore":
				cur[p] = next
			case "deleteRemove":
				removed = cur[p]
				delete(cur, p)
			case "deleteClose":
				removed.Close()
			case "pipClose", "init", "same", "ctl":
			default:
				bad = "harness: unknown step " + vx.Str(st["a"])
			}
			if bad != "" {
				mism++
				out.Raw(vx.M{"k": "mismatch", "b": bi, "step": si, "a": vx.Str(st["a"]), "at": st, "what": bad, "behaviour": beh[:si+1]})
				break
			}
		}
	}
	out.Raw(vx.M{"k": "summary", "behaviours": len(behs), "steps": steps, "mismatches": mism})
}

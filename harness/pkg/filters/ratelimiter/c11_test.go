package ratelimiter

// Harness for C11 (specs/HotUpdate.tla), filter level, kind RateLimiter.
//   TestVerifC11RlProbe   observes how Inherit treats the state cell of the previous generation
//                         (the per-URL limiter): "move" / "share" / "fresh", and what Close does to
//                         Handle: the parameters of the implementation-shaped layer of the model.
//   TestVerifC11RlReplay  replays TLC-generated schedules (HotUpdate_Gen, Kinds = <<"rl">>,
//                         Atomic = "coarse") on bare filter instances: the harness holds the
//                         name -> instance map itself; a request is `h := cur[p]` then `h.Handle(ctx)`;
//                         an update is `new.Inherit(old); old.Close()` then `cur[p] = new`.
//                         Requests of class "x" (POST) fall under a URL rule that every generation
//                         limits to one permit per hour: whether the call is limited is compared
//                         with the model (the limiter is the state cell the generations share).
//                         Requests of class "d" (PUT) fall under a URL rule whose limit is the one of
//                         the filter's default policy, version dv of which is tight (1 permit per
//                         hour, odd dv) or loose (never limits, even dv); an update of kind "dflt"
//                         switches it - by changing defaultPolicyRef between two policies that both
//                         specs define identically, by changing the rule's policyRef, or by changing
//                         the content of the default policy (one realisation per schedule).

import (
	"fmt"
	"net/http"
	"net/http/httptest"
	"runtime/debug"
	"strings"
	"testing"

	"github.com/megaease/easegress/pkg/context"
	"github.com/megaease/easegress/pkg/filters"
	"github.com/megaease/easegress/pkg/logger"
	"github.com/megaease/easegress/pkg/protocols/httpprot"
	"github.com/megaease/easegress/pkg/tracing"
	librl "github.com/megaease/easegress/pkg/util/ratelimiter"
	vx "github.com/megaease/easegress/pkg/verifx"
	"gopkg.in/yaml.v2"
)

func init() { logger.InitNop() }

const (
	c11RlTight = "timeoutDuration: 1ms\n  limitRefreshPeriod: 1h\n  limitForPeriod: 1\n"
	c11RlLoose = "timeoutDuration: 100ms\n  limitRefreshPeriod: 10ms\n  limitForPeriod: 1000000\n"
)

// version ver of the filter spec: the URL rules for POST and for everything else and their policies
// never change (only an unused policy does), so that Inherit takes their limiters over.  POST requests
// (class "x") are limited to one permit per hour - nothing is refreshed while a schedule is replayed.
// PUT requests (class "d") fall under the default policy, version dv: tight (1 permit per hour) for odd
// dv, loose for even dv; `how` is the way the spec expresses the switch:
//   0  defaultPolicyRef names dA / dB, both defined (identically) in every version; the rule has no policyRef
//   1  the rule's policyRef names dA / dB
//   2  the rule has no policyRef, defaultPolicyRef is always dflt, the content of policy dflt changes
// Everything else (GET) is never limited.
func c11RlNew(pipe string, ver int) *RateLimiter { return c11RlNewD(pipe, ver, 1, 0) }

func c11RlNewD(pipe string, ver, dv, how int) *RateLimiter {
	name, content := "dA", c11RlTight
	if dv%2 == 0 {
		name, content = "dB", c11RlLoose
	}
	dref, pref := name, ""
	switch how {
	case 1:
		dref, pref = "pol", "  policyRef: "+name+"\n"
	case 2:
		dref = "dflt"
	}
	y := fmt.Sprintf(`
name: rl
kind: RateLimiter
policies:
- name: pol
  timeoutDuration: 100ms
  limitRefreshPeriod: 10ms
  limitForPeriod: 1000000
- name: tight
  timeoutDuration: 1ms
  limitRefreshPeriod: 1h
  limitForPeriod: 1
- name: dA
  %s- name: dB
  %s- name: dflt
  %s- name: unused
  limitForPeriod: %d
defaultPolicyRef: %s
urls:
- methods: [POST]
  url:
    prefix: /
  policyRef: tight
- methods: [PUT]
  url:
    prefix: /
%s- url:
    prefix: /
  policyRef: pol
`, c11RlTight, c11RlLoose, content, 10+ver, dref, pref)
	raw := map[string]interface{}{}
	if err := yaml.Unmarshal([]byte(y), &raw); err != nil {
		panic(err)
	}
	spec, err := filters.NewSpec(nil, pipe, raw)
	if err != nil {
		panic(err)
	}
	return kind.CreateInstance(spec).(*RateLimiter)
}

var c11RlHow = []string{"defaultPolicyRef", "the rule's policyRef", "the content of the default policy"}

func c11RlSite(stack string) string {
	for _, ln := range strings.Split(stack, "\n") {
		ln = strings.TrimSpace(ln)
		if !strings.HasPrefix(ln, "github.com/megaease/easegress/pkg/") || strings.Contains(ln, "c11") || strings.Contains(ln, "verifx") {
			continue
		}
		ln = strings.TrimPrefix(ln, "github.com/megaease/easegress/pkg/")
		if i := strings.LastIndex(ln, "("); i > 0 {
			ln = ln[:i]
		}
		return ln
	}
	return "?"
}

// c11RlHandle runs one request through the filter instance; returns "" or the panic.
func c11RlHandle(f *RateLimiter) (result string, panicV string, site string) {
	return c11RlHandleM(f, http.MethodGet)
}

func c11RlHandleM(f *RateLimiter, method string) (result string, panicV string, site string) {
	defer func() {
		if e := recover(); e != nil {
			panicV = fmt.Sprint(e)
			site = c11RlSite(string(debug.Stack()))
		}
	}()
	stdr := httptest.NewRequest(method, "http://c11.test/x", http.NoBody)
	req, _ := httpprot.NewRequest(stdr)
	req.FetchPayload(0)
	ctx := context.New(tracing.NoopSpan)
	ctx.SetRequest(context.DefaultNamespace, req)
	result = f.Handle(ctx)
	return
}

func TestVerifC11RlProbe(t *testing.T) {
	out := vx.NewWriter(t, "VERIF_OUT")
	defer out.Close()
	old := c11RlNew("p", 1)
	old.Init()
	cells0 := []*librl.RateLimiter{}
	for _, u := range old.spec.URLs {
		cells0 = append(cells0, u.rl)
	}
	nw := c11RlNew("p", 2)
	nw.Inherit(old)
	inherit := ""
	for i := range old.spec.URLs { // both URL rules must be treated alike
		cell0 := cells0[i]
		m := "unknown"
		switch {
		case cell0 == nil:
		case old.spec.URLs[i].rl == nil && nw.spec.URLs[i].rl == cell0:
			m = "move"
		case old.spec.URLs[i].rl == cell0 && nw.spec.URLs[i].rl == cell0:
			m = "share"
		case old.spec.URLs[i].rl == cell0 && nw.spec.URLs[i].rl != nil:
			m = "fresh"
		}
		if inherit != "" && inherit != m {
			m = "unknown"
		}
		inherit = m
	}
	x := c11RlNew("p", 1)
	x.Init()
	x.Close()
	cls := "none"
	if _, p, _ := c11RlHandle(x); p != "" {
		cls = "kill"
	}
	out.Raw(vx.M{"k": "probe", "kind": "RateLimiter", "inherit": inherit, "close": cls})
}

func TestVerifC11RlReplay(t *testing.T) {
	behs := vx.ReadBehaviours(t, "VERIF_IN")
	out := vx.NewWriter(t, "VERIF_OUT")
	defer out.Close()
	steps, mism, unjudged, judgedD := 0, 0, 0, 0
	// baseline: on a first generation the second POST is limited, a GET never is - otherwise the harness cannot judge
	base := c11RlNew("base", 1)
	base.Init()
	r1, _, _ := c11RlHandleM(base, http.MethodPost)
	r2, _, _ := c11RlHandleM(base, http.MethodPost)
	r3, _, _ := c11RlHandleM(base, http.MethodGet)
	if r1 != "" || r2 != resultRateLimited || r3 != "" {
		out.Raw(vx.M{"k": "mismatch", "b": -1, "step": 0, "a": "baseline", "at": vx.M{}, "behaviour": []vx.M{},
			"what": fmt.Sprintf("harness: baseline: POST, POST, GET on a fresh filter (POST limited to 1 per hour) answered %q, %q, %q", r1, r2, r3)})
		behs = nil
	}
	// ... and so is the second PUT under a tight default policy, no PUT under a loose one, however the spec says it
	for how := 0; how < 3 && behs != nil; how++ {
		a, b := c11RlNewD("base", 1, 1, how), c11RlNewD("base", 1, 2, how)
		a.Init()
		b.Init()
		a1, _, _ := c11RlHandleM(a, http.MethodPut)
		a2, _, _ := c11RlHandleM(a, http.MethodPut)
		b1, _, _ := c11RlHandleM(b, http.MethodPut)
		b2, _, _ := c11RlHandleM(b, http.MethodPut)
		b3, _, _ := c11RlHandleM(b, http.MethodPut)
		if a1 != "" || a2 != resultRateLimited || b1 != "" || b2 != "" || b3 != "" {
			out.Raw(vx.M{"k": "mismatch", "b": -1, "step": 0, "a": "baseline", "at": vx.M{}, "behaviour": []vx.M{},
				"what": fmt.Sprintf("harness: baseline (%s): PUT, PUT under a tight default policy answered %q, %q; PUT x 3 under a loose one %q, %q, %q",
					c11RlHow[how], a1, a2, b1, b2, b3)})
			behs = nil
		}
	}
	for bi, beh := range behs {
		how := bi % 3 // the way this schedule's specs express a switch of the default policy
		cur := map[string]*RateLimiter{}
		for _, p := range []string{"pa", "pb"} {
			cur[p] = c11RlNewD(p, 1, 1, how)
			cur[p].Init()
		}
		held := map[string]*RateLimiter{}
		tgs := map[string]string{}
		cls := map[string]string{}
		failed := map[string]bool{}
		var next, removed *RateLimiter
		pend, pendD := 0, 1
		for si, st := range beh {
			steps++
			bad := ""
			r, p := vx.Str(st["r"]), vx.Str(st["p"])
			switch vx.Str(st["a"]) {
			case "start":
				tgs[r] = vx.Str(st["tg"])
				cls[r] = vx.Str(st["cl"])
				failed[r] = false
			case "get":
				h, ok := cur[tgs[r]]
				if ok != vx.Bool(st["found"]) {
					bad = fmt.Sprintf("harness map out of step with the model for %s", tgs[r])
				}
				held[r] = h
			case "run":
				method := http.MethodGet
				if cls[r] == "x" {
					method = http.MethodPost
				} else if cls[r] == "d" {
					method = http.MethodPut
				}
				res, pv, site := c11RlHandleM(held[r], method)
				failed[r] = pv != ""
				if pv != "" {
					out.Raw(vx.M{"k": "fail", "b": bi, "step": si, "r": r, "site": site, "panic": pv, "at": st, "behaviour": beh[:si+1]})
				}
				if vx.Bool(st["ok"]) && pv != "" {
					bad = fmt.Sprintf("panic: Handle on the held generation (version %d): panic in %s: %s", vx.Int(st["ver"]), site, pv)
				} else if pv == "" && cls[r] == "d" {
					// the limit of the default policy of the held generation: is the call limited as the model says?
					limited, want := res == resultRateLimited, vx.Str(st["res"]) == "limited"
					pol := "loose: never limits"
					if vx.Bool(st["tight"]) {
						pol = "tight: 1 permit per hour"
					}
					switch {
					case limited == want:
						judgedD++
					case vx.Bool(st["closed"]):
						bad = "unjudged"
					case want:
						bad = fmt.Sprintf("configured: a request beyond the limit of the default policy (version %d, %s) passed generation %d of the filter, "+
							"which is not closed; model says it is limited (default policy switched by: %s)", vx.Int(st["dv"]), pol, vx.Int(st["ver"]), c11RlHow[how])
					case !vx.Bool(st["tight"]):
						bad = fmt.Sprintf("configured: generation %d of the filter, whose default policy (version %d, %s) does not limit the URL, "+
							"limited a request: the limiter of a previous generation's policy is still in force (default policy switched by: %s)",
							vx.Int(st["ver"]), vx.Int(st["dv"]), pol, c11RlHow[how])
					default:
						bad = fmt.Sprintf("harness: generation %d limited a request for which the model still has a permit", vx.Int(st["ver"]))
					}
				} else if pv == "" && cls[r] == "x" {
					// the limit every generation configures for this URL: is the call limited as the model says?
					limited, want := res == resultRateLimited, vx.Str(st["res"]) == "limited"
					switch {
					case limited == want:
					case vx.Bool(st["closed"]):
						// the request holds a generation that has been closed: what its limiter does by now is not
						// stated by C11; the real limiter and the model's may be out of step from here on
						bad = "unjudged"
					case want:
						bad = fmt.Sprintf("configured: a request beyond the limit of its URL rule (1 permit per hour) passed generation %d of the filter, "+
							"which is not closed; model says it is limited", vx.Int(st["ver"]))
					default:
						bad = fmt.Sprintf("harness: generation %d limited a request for which the model still has a permit", vx.Int(st["ver"]))
					}
				} else if pv == "" && res != "" {
					bad = fmt.Sprintf("status: an ordinary request was answered %q by generation %d", res, vx.Int(st["ver"]))
				}
			case "done":
				if vx.Str(st["st"]) != "fail" && failed[r] {
					bad = fmt.Sprintf("status: request failed, model says %s", vx.Str(st["st"]))
				}
			case "pipBegin", "createInit":
				pend, pendD = vx.Int(st["fv"]), vx.Int(st["dv"]) // the filter's own spec: version fv of the pipeline's filters section
				if vx.Str(st["a"]) == "createInit" {
					next = c11RlNewD(p, pend, pendD, how)
					next.Init()
				}
			case "pipInherit":
				next = c11RlNewD(p, pend, pendD, how)
				next.Inherit(cur[p])
				cur[p].Close() // Pipeline.Inherit closes the previous generation right after
			case "pipStore", "createStore":
				cur[p] = next
			case "deleteRemove":
				removed = cur[p]
				delete(cur, p)
			case "deleteClose":
				removed.Close()
			case "pipClose", "init", "same", "ctl":
			default:
				bad = "harness: unknown step " + vx.Str(st["a"])
			}
			if bad == "unjudged" {
				unjudged++
				break
			}
			if bad != "" {
				mism++
				out.Raw(vx.M{"k": "mismatch", "b": bi, "step": si, "a": vx.Str(st["a"]), "at": st, "what": bad, "behaviour": beh[:si+1]})
				break
			}
		}
	}
	out.Raw(vx.M{"k": "summary", "behaviours": len(behs), "steps": steps, "mismatches": mism, "unjudged": unjudged, "judged_d": judgedD})
}

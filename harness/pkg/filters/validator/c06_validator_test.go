package validator

// Harness for C06 (DESIGN 5/C06).  TestVerifC06Replay reads behaviours of the contract
// specs/Validator.tla ([init cfg] [present req | adv d | sync users | edit users | settle | reconf cfg mat users]*), builds for
// every behaviour K real Validator filters with seeded secrets / access keys / users, concretises every presented
// abstract request K times (independent HMAC JWT issuer; the repository's signer as the client
// library, the mutation applied AFTER signing; htpasswd file / etcd entries written by the harness),
// sends each request through the wire format and through httpprot.NewRequest + FetchPayload exactly
// as the HTTP server's mux does, calls Validator.Handle and logs what it observed.  `adv` moves the
// JWT clock (jwt.TimeFunc); `sync` delivers a snapshot of the credential table through the channel
// the validator's etcd watcher reads (users removed, passwords changed, empty table); `edit` rewrites the
// user file of a FILE mode validator (in place, by appending, in chunks - any number of edits in a row, as
// fast as the harness can write); `settle` grants the validator's file watcher the bounded time of the
// contract: it returns as soon as a probe user that the last edit wrote at the END of the file is admitted
// by the validator's BasicAuthValidator (the file as last written has been loaded), or after c06SettleMax
// (then the whole prefix of the behaviour is run again in a fresh world with twice the time, so that a
// stalled machine cannot be mistaken for a lost edit); `reconf` is a hot
// update: a new filter instance is created from the new spec (other JWT secret / algorithm, other access
// keys, other users, methods added or dropped - or the same spec) with kind.CreateInstance and
// Inherit(running instance), the running one is closed, as pipeline.reload does.  No verdict
// is taken here: the cases are compared with the contract's prediction by props/c06.py and
// validated as a trace by TLC (specs/Validator_Trace.tla).

import (
	"bufio"
	"bytes"
	"crypto/hmac"
	"crypto/sha1"
	"crypto/sha256"
	"crypto/sha512"
	"encoding/base64"
	"encoding/hex"
	"encoding/json"
	"fmt"
	"hash"
	"hash/fnv"
	"io"
	"math/rand"
	"net/http"
	"net/url"
	"os"
	"path/filepath"
	"sort"
	"strings"
	"sync"
	"testing"
	"time"

	"github.com/golang-jwt/jwt"
	"golang.org/x/crypto/bcrypt"
	yaml "gopkg.in/yaml.v2"

	"github.com/megaease/easegress/pkg/cluster"
	"github.com/megaease/easegress/pkg/cluster/clustertest"
	"github.com/megaease/easegress/pkg/context"
	"github.com/megaease/easegress/pkg/filters"
	"github.com/megaease/easegress/pkg/logger"
	"github.com/megaease/easegress/pkg/protocols/httpprot"
	"github.com/megaease/easegress/pkg/supervisor"
	"github.com/megaease/easegress/pkg/util/readers"
	"github.com/megaease/easegress/pkg/util/signer"
	vx "github.com/megaease/easegress/pkg/verifx"
)

func init() { logger.InitNop() }

const (
	c06IgnoredHdr = "X-Ignored-Hdr"
	c06SignedHdr  = "X-Signed-Hdr"
	c06Tick       = 100 // seconds per tick of the contract's clock

	// FILE mode: how long the user file must have been left alone before only its current content counts.
	// (The unchanged code reloads on every fsnotify event: a few milliseconds.)
	c06SettleMax     = 10 * time.Second
	c06SettleRecheck = 20 * time.Second // in the fresh world of the re-check
	c06StuckMax      = 3                // after so many settles that did not converge (re-check included) FILE edits are not waited for any more
)

var c06Stuck int // settles that did not converge, re-check included (user file edited in place only)

// Worlds whose user file is also REPLACED (new file written next to it and renamed over it: sed -i, editors,
// configuration management).  c06ReplStuck: settles that did not converge after an edit that FOLLOWED a replace
// (counted apart: a tree that loses its file watch with the replaced inode must not stop the in-place worlds);
// after c06ReplStuckMax of them no file is replaced any more (each costs the full bounded time twice).
var c06ReplStuck int

const c06ReplStuckMax = 1

var c06T0 = time.Date(2031, 5, 6, 7, 8, 9, 0, time.UTC) // virtual time of tick 0 (JWT clock only)

func c06Hash(parts ...interface{}) int64 {
	b, _ := json.Marshal(parts)
	h := fnv.New64a()
	h.Write(b)
	return int64(h.Sum64() >> 1)
}

func c06M(v interface{}) vx.M {
	if v == nil {
		return vx.M{}
	}
	return v.(map[string]interface{})
}

// ---------------------------------------------------------------------------------- random data

var c06Letters = []rune("abcdefghijklmnopqrstuvwxyzABCDEFGHIJKLMNOPQRSTUVWXYZ0123456789")
var c06NameRunes = []rune("abcdefghijklmnopqrstuvwxyz0123456789._-@éüñЖ用户")
var c06PwRunes = []rune("abcdefghijklmnopqrstuvwxyzABCXYZ0123456789 !#%&()*+,-./;<=>?@[]^_{|}~$éüßЖ密码")

func c06Str(r *rand.Rand, alphabet []rune, min, max int) string {
	n := min + r.Intn(max-min+1)
	out := make([]rune, n)
	for i := range out {
		out[i] = alphabet[r.Intn(len(alphabet))]
	}
	return string(out)
}

// a password without ':' and without blanks at its ends; first char not one that a hash scheme uses
func c06Password(r *rand.Rand) string {
	for {
		s := strings.TrimSpace(c06Str(r, c06PwRunes, 1, 12))
		if s == "" || s[0] == '$' || s[0] == '{' {
			continue
		}
		return s
	}
}

func c06ColonPassword(r *rand.Rand) string {
	for {
		parts := 2 + r.Intn(2)
		ps := make([]string, parts)
		for i := range ps {
			if r.Intn(5) > 0 {
				ps[i] = strings.TrimSpace(c06Str(r, c06PwRunes, 1, 6))
			}
		}
		s := strings.Join(ps, ":")
		if strings.TrimSpace(s) != s || s == ":" || s[0] == '$' || s[0] == '{' {
			continue
		}
		return s
	}
}

// white space (strings.TrimSpace / unicode.IsSpace sense), ASCII and Unicode: a character of a password like any other
var c06Spaces = []string{" ", "\t", "\n", "\r", "\r\n", "\u00a0", "\u0085", "\u3000", "  ", "\v", "\f", "\u2003", "\u2028", " \t", "\u00a0 "}

// white space that can end a user name in an htpasswd file / a custom-data entry (no line breaks)
var c06NameSpaces = []string{" ", "\t", "\u00a0", "\u3000", "  "}

var c06Cutset = strings.Join(c06Spaces, "")

func c06Space(r *rand.Rand) string { return c06Spaces[r.Intn(len(c06Spaces))] }

// c06Pad adds white space before and/or after s: after (1/2), before (1/4), both (1/4)
func c06Pad(r *rand.Rand, s string) string {
	switch r.Intn(4) {
	case 0:
		return c06Space(r) + s
	case 1:
		return c06Space(r) + s + c06Space(r)
	}
	return s + c06Space(r)
}

// a password that begins and/or ends with white space
func c06BlankPassword(r *rand.Rand) string { return c06Pad(r, c06Password(r)) }

// c06HashPassword: the htpasswd entry of a password; hashedOnly: never the plain scheme (go-htpasswd trims the
// lines it reads, so a plain entry cannot express white space at the end of a password)
func c06HashPassword(r *rand.Rand, pw string, hashedOnly ...bool) string {
	n := 3
	if len(hashedOnly) > 0 && hashedOnly[0] {
		n = 2
	}
	switch r.Intn(n) {
	case 0:
		h, err := bcrypt.GenerateFromPassword([]byte(pw), bcrypt.MinCost)
		if err != nil {
			panic(err)
		}
		return string(h)
	case 1:
		s := sha1.Sum([]byte(pw))
		return "{SHA}" + base64.StdEncoding.EncodeToString(s[:])
	}
	return pw // plain
}

// ---------------------------------------------------------------------------------- the world

type c06User struct {
	name string
	pw   [2]string // password versions v1, v2
	line [2]string // the htpasswd / etcd entry of each version
}

func (u c06User) pass(ver string) string {
	if ver == "v2" {
		return u.pw[1]
	}
	return u.pw[0]
}

type c06World struct {
	cfg0       vx.M // configuration of the first generation: the identity of the world (seeds its data)
	cfg        vx.M // configuration of the running generation
	mat        vx.M // credential material of its spec: {jsec: k0|k1, aks: {id0, id1: v1|v2|gone}}
	gen        int  // number of hot updates so far
	builds     int  // number of specs built so far
	history    []string
	hdrName    string
	hdrVals    []string
	k0, k1     []byte
	cookieName string
	ids        [2]string
	secrets    [2][2]string // [access key][secret version v1, v2]
	wrongSec   string
	unknownID  string
	uPlain     c06User
	uColon     c06User
	uBlank     c06User // password begins and/or ends with white space; the name may end with white space
	unknownU   string
	dir        string
	otherLine  string
	users      map[string]string      // the abstract user table as last delivered
	stores     map[string]map[string]string // ETCD mode: what the cluster store holds under each prefix
	prefix     string                 // ETCD mode: the prefix of the running generation's spec
	userFile   string                 // FILE mode: the user file of the running generation's spec
	fileLines  []string               // FILE mode: the entries the user file holds (without probe users)
	edits      int                    // FILE mode: number of edits of the user file so far (all generations)
	burst      int                    // FILE mode: edits since the source was last settled
	maxBurst   int                    // FILE mode: edits in a row before the last settle
	probe      [2]string              // FILE mode: name and password of the probe user written by the last edit ("": none pending)
	replaceOK  bool                   // FILE mode: this world's user file may also be replaced (rename) instead of written in place
	replaces   int                    // FILE mode: number of times the running generation's user file was replaced
	afterRepl  bool                   // FILE mode: the running generation's user file was edited (any way) after it had been replaced
	editNotes  []string
	syncCh     chan map[string]string // ETCD mode: the channel the running generation's watcher reads
	super      *supervisor.Supervisor
	v          filters.Filter
	now        int
	buildErr   string
}

func c06NewWorld(cfg vx.M, rep int) *c06World {
	r := vx.Rand(c06Hash("world", cfg, rep))
	w := &c06World{cfg0: cfg}

	// headers
	w.hdrName = "X-Valid-" + strings.Title(strings.ToLower(c06Str(r, c06Letters[:26], 3, 6)))
	w.hdrVals = []string{c06Str(r, c06Letters, 1, 8), "v " + c06Str(r, c06Letters, 1, 5)}

	// jwt: two secrets
	w.k0 = make([]byte, 1+r.Intn(64))
	r.Read(w.k0)
	w.k1 = make([]byte, 1+r.Intn(64))
	r.Read(w.k1)
	if bytes.Equal(w.k0, w.k1) {
		w.k1 = append(w.k1, 1)
	}
	w.cookieName = "auth" + c06Str(r, c06Letters[:26], 0, 4)

	// signature: two access keys with two secrets each, a secret and an id that are never configured
	w.ids = [2]string{"AK" + c06Str(r, c06Letters, 4, 12), "ak" + c06Str(r, c06Letters, 4, 12)}
	for i := range w.secrets {
		w.secrets[i] = [2]string{c06Str(r, c06PwRunes, 8, 32), c06Str(r, c06PwRunes, 8, 32)}
	}
	for i := range w.secrets {
		if w.secrets[i][1] == w.secrets[i][0] {
			w.secrets[i][1] += "2"
		}
	}
	s0 := w.secrets[0][0]
	w.wrongSec = []string{s0 + "x", s0[:len(s0)-1], strings.ToUpper(s0) + "_", c06Str(r, c06PwRunes, 8, 32)}[r.Intn(4)]
	for w.wrongSec == w.secrets[0][1] || w.wrongSec == w.secrets[1][0] || w.wrongSec == w.secrets[1][1] {
		w.wrongSec += "w"
	}
	w.unknownID = "NK" + c06Str(r, c06Letters, 4, 12)

	// basic auth: two users with two passwords each
	w.uPlain = c06User{name: c06Str(r, c06NameRunes, 1, 10), pw: [2]string{c06Password(r), c06Password(r)}}
	for {
		w.uColon = c06User{name: c06Str(r, c06NameRunes, 1, 10), pw: [2]string{c06ColonPassword(r), c06ColonPassword(r)}}
		if w.uColon.name != w.uPlain.name {
			break
		}
	}
	for _, u := range []*c06User{&w.uPlain, &w.uColon} {
		if u.pw[1] == u.pw[0] {
			u.pw[1] += "2"
		}
	}
	for {
		w.unknownU = c06Str(r, c06NameRunes, 1, 10)
		if w.unknownU != w.uPlain.name && w.unknownU != w.uColon.name {
			break
		}
	}
	for _, u := range []*c06User{&w.uPlain, &w.uColon} { // htpasswd: no '#' comment lines
		if strings.HasPrefix(u.name, "#") {
			u.name = "u" + u.name
		}
	}
	for _, u := range []*c06User{&w.uPlain, &w.uColon} {
		for i := range u.pw {
			u.line[i] = u.name + ":" + c06HashPassword(r, u.pw[i])
		}
	}
	w.otherLine = "someoneelse:" + c06HashPassword(r, "pw"+c06Str(r, c06Letters, 3, 6))
	w.users = map[string]string{}

	// ... and a third one whose passwords begin and/or end with white space (hashed entries: the library trims the
	// lines it reads) and whose name - in half of the worlds - ends with white space
	for {
		n := c06Str(r, c06NameRunes, 1, 10)
		if n == w.uPlain.name || n == w.uColon.name || n == w.unknownU || "u"+n == w.uPlain.name || "u"+n == w.uColon.name {
			continue
		}
		if strings.HasPrefix(n, "#") {
			n = "u" + n
		}
		if r.Intn(2) == 0 {
			n += c06NameSpaces[r.Intn(len(c06NameSpaces))]
		}
		w.uBlank = c06User{name: n, pw: [2]string{c06BlankPassword(r), c06BlankPassword(r)}}
		break
	}
	if w.uBlank.pw[1] == w.uBlank.pw[0] {
		w.uBlank.pw[1] = "2" + w.uBlank.pw[1]
	}
	for i := range w.uBlank.pw {
		w.uBlank.line[i] = w.uBlank.name + ":" + c06HashPassword(r, w.uBlank.pw[i], true)
	}

	w.build(cfg, vx.M{"jsec": "k0", "aks": map[string]interface{}{"id0": "v1", "id1": "v1"}},
		vx.M{"uPlain": "v1", "uColon": "v1", "uBlank": "v1"}, r)
	return w
}

// the htpasswd / etcd entries of a user table (plus somebody else's, unless `bare`)
func (w *c06World) lines(table vx.M, bare bool) []string {
	var lines []string
	for _, u := range []struct {
		key string
		u   c06User
	}{{"uPlain", w.uPlain}, {"uColon", w.uColon}, {"uBlank", w.uBlank}} {
		switch vx.Str(table[u.key]) {
		case "v1":
			lines = append(lines, u.u.line[0])
		case "v2":
			lines = append(lines, u.u.line[1])
		}
	}
	if !bare {
		lines = append(lines, w.otherLine)
	}
	return lines
}

// build creates a filter instance from the spec described by (cfg, mat, users).  The first one is
// initialised with Init; every later one with Inherit(running instance), after which the running
// instance is closed and replaced (pipeline.reload / Pipeline.Inherit).
func (w *c06World) build(cfg, mat, users vx.M, r *rand.Rand) {
	raw := map[string]interface{}{"kind": "Validator", "name": "c06"}
	if h := vx.Str(cfg["hdr"]); h != "off" {
		rule := map[string]interface{}{}
		if h == "values" || h == "both" {
			rule["values"] = w.hdrVals
		}
		if h == "regexp" || h == "both" {
			rule["regexp"] = "^ok-[0-9]+$"
		}
		raw["headers"] = map[string]interface{}{w.hdrName: rule}
	}
	if j := c06M(cfg["jwt"]); vx.Bool(j["on"]) {
		secret := w.k0
		if vx.Str(mat["jsec"]) == "k1" {
			secret = w.k1
		}
		js := map[string]interface{}{"algorithm": vx.Str(j["alg"]), "secret": hex.EncodeToString(secret)}
		if vx.Bool(j["cookie"]) {
			js["cookieName"] = w.cookieName
		}
		raw["jwt"] = js
	}
	if s := c06M(cfg["sig"]); vx.Bool(s["on"]) {
		keys := map[string]string{}
		for i, id := range []string{"id0", "id1"} {
			switch vx.Str(c06M(mat["aks"])[id]) {
			case "v1":
				keys[w.ids[i]] = w.secrets[i][0]
			case "v2":
				keys[w.ids[i]] = w.secrets[i][1]
			}
		}
		ss := map[string]interface{}{
			"accessKeys":     keys,
			"excludeBody":    vx.Bool(s["excl"]),
			"ignoredHeaders": []string{c06IgnoredHdr},
		}
		if vx.Bool(s["ttl"]) {
			ss["ttl"] = "10m"
		}
		raw["signature"] = ss
	}
	mode := vx.Str(cfg["basic"])
	switch mode {
	case "file", "nomode":
		if w.dir == "" {
			dir, err := os.MkdirTemp("", "verif-c06-")
			if err != nil {
				panic(err)
			}
			w.dir = dir
		}
		// a spec with other users names another user file; the same users: the same file (the unchanged spec)
		p := w.userFile
		if p == "" || !w.sameUsers(users) {
			w.builds++
			p = filepath.Join(w.dir, fmt.Sprintf("htpasswd-%d", w.builds))
			ls := w.lines(users, false)
			if err := os.WriteFile(p, []byte(strings.Join(ls, "\n")+"\n"), 0o600); err != nil {
				panic(err)
			}
			defer func() {
				if w.buildErr == "" {
					w.fileLines = ls
				}
			}()
		}
		defer func() {
			if w.buildErr == "" {
				// the new generation has read its file when it was created: nothing is pending
				w.userFile, w.probe, w.burst = p, [2]string{}, 0
				w.replaces, w.afterRepl = 0, false // ... and it watches the file that is there now
			}
		}()
		if mode == "file" {
			raw["basicAuth"] = map[string]interface{}{"mode": "FILE", "userFile": p}
		} else {
			raw["basicAuth"] = map[string]interface{}{"userFile": p} // `mode` forgotten
		}
	case "etcd":
		if w.super == nil {
			cls := clustertest.NewMockedCluster()
			syncer := clustertest.NewMockedSyncer()
			cls.MockedSyncer = func(time.Duration) (cluster.Syncer, error) { return syncer, nil }
			// every generation's watcher gets its own channel; snapshots go to the running generation
			syncer.MockedSyncPrefix = func(string) (<-chan map[string]string, error) {
				ch := make(chan map[string]string)
				w.syncCh = ch
				return ch, nil
			}
			cls.MockedGetPrefix = func(p string) (map[string]string, error) {
				return w.stores[strings.TrimPrefix(p, "/custom-data/")], nil
			}
			var mm sync.Map
			w.super = supervisor.NewMock(nil, cls, mm, mm, nil, nil, false, nil, nil)
			w.stores = map[string]map[string]string{}
		}
		// a spec with other users names another prefix of the store; the same users: the same prefix
		pfx := w.prefix
		if pfx == "" || !w.sameUsers(users) {
			w.builds++
			pfx = fmt.Sprintf("credentials-%d/", w.builds)
			ls := w.lines(users, false)
			if len(ls) == 1 && r.Intn(2) == 0 { // none of our users: the store may just as well be empty
				ls = nil
			}
			w.stores[pfx] = c06Kvs(ls)
		}
		defer func() {
			if w.buildErr == "" {
				w.prefix = pfx
			}
		}()
		raw["basicAuth"] = map[string]interface{}{"mode": "ETCD", "etcdPrefix": pfx}
	}

	spec, err := filters.NewSpec(w.super, "", raw)
	if err != nil {
		w.buildErr = err.Error()
		return
	}
	nv := kind.CreateInstance(spec)
	if w.v == nil {
		nv.Init()
	} else {
		nv.Inherit(w.v)
		w.closeFilter()
		w.gen++
	}
	w.v = nv
	w.cfg, w.mat = cfg, mat
	if mode != "file" {
		w.userFile = ""
	}
	if mode != "etcd" {
		w.prefix = ""
	} else if kvs := w.stores[raw["basicAuth"].(map[string]interface{})["etcdPrefix"].(string)]; len(kvs) > 0 {
		// cluster.Syncer delivers what the store holds when a watch starts (syncer.run: pullCompareSend)
		if err := w.deliver(kvs); err != nil {
			w.buildErr = err.Error()
		}
	}
	for _, k := range c06KnownUsers {
		w.users[k] = vx.Str(users[k])
	}
}

var c06KnownUsers = []string{"uPlain", "uColon", "uBlank"}

func (w *c06World) sameUsers(users vx.M) bool {
	for _, k := range c06KnownUsers {
		if vx.Str(users[k]) != w.users[k] {
			return false
		}
	}
	return true
}

func (w *c06World) closeFilter() {
	defer func() { recover() }()
	w.v.Close()
}

// the cluster store's view of a list of "user:hash" lines (custom data entries as documented)
func c06Kvs(lines []string) map[string]string {
	kvs := map[string]string{}
	for i, ln := range lines {
		kv := strings.SplitN(ln, ":", 2)
		ent := map[string]string{"password": kv[1]}
		if i%2 == 0 {
			ent["username"] = kv[0]
			ent["key"] = fmt.Sprintf("k%d", i)
		} else {
			ent["key"] = kv[0]
		}
		b, _ := yaml.Marshal(ent)
		kvs[fmt.Sprintf("/custom-data/credentials/%d", i)] = string(b)
	}
	return kvs
}

// sync delivers a snapshot of the credential table through the channel the validator's etcd watcher
// reads (as cluster.Syncer.SyncPrefix would). The channel is unbuffered and the watcher applies a
// snapshot before it receives again, so when the SECOND send of the same snapshot has been taken
// the first one has been applied.
func (w *c06World) sync(table vx.M, r *rand.Rand) error {
	lines := w.lines(table, true)
	for _, k := range c06KnownUsers {
		w.users[k] = vx.Str(table[k])
	}
	if len(lines) > 0 && r.Intn(2) == 0 { // all users deleted: the snapshot is the empty map
		lines = append(lines, w.otherLine)
	}
	r.Shuffle(len(lines), func(i, j int) { lines[i], lines[j] = lines[j], lines[i] })
	w.stores[w.prefix] = c06Kvs(lines)
	return w.deliver(w.stores[w.prefix])
}

// deliver sends a snapshot to the running generation's watcher, twice (see sync)
func (w *c06World) deliver(kvs map[string]string) error {
	for i := 0; i < 2; i++ {
		select {
		case w.syncCh <- kvs:
		case <-time.After(30 * time.Second):
			return fmt.Errorf("the validator's etcd watcher does not take snapshots")
		}
	}
	return nil
}

// edit rewrites the user file of the running generation so that it holds `table` (plus somebody else's entry and,
// as the LAST line, a fresh probe user).  How: one truncating write (os.WriteFile); appended to the file when
// nothing is removed; truncated and written entry by entry in several chunks.  These keep the inode, as htpasswd(1)
// does; every write ends at a line boundary and the file stays far below one page.  In the worlds with replaceOK
// (a few behaviour instances) half of the edits REPLACE the file instead: the new content is written to a temporary
// file in the same directory which is renamed over the user file (sed -i, editors, configuration management).
func (w *c06World) edit(table vx.M, r *rand.Rand) error {
	if w.userFile == "" {
		return fmt.Errorf("edit of the user file of a configuration without FILE mode")
	}
	lines := w.lines(table, false)
	r.Shuffle(len(lines), func(i, j int) { lines[i], lines[j] = lines[j], lines[i] })
	w.edits++
	probe := [2]string{fmt.Sprintf("c06probe-%d-%s", w.edits, c06Str(r, c06Letters, 4, 8)), "pp" + c06Str(r, c06Letters, 6, 10)}
	probeLine := probe[0] + ":" + probe[1]
	have := map[string]bool{}
	for _, l := range lines {
		have[l] = true
	}
	superset := true
	for _, l := range w.fileLines {
		superset = superset && have[l]
	}
	style := r.Intn(3)
	if style == 1 && !superset {
		style = 2 * r.Intn(2)
	}
	if w.replaceOK && c06ReplStuck < c06ReplStuckMax && r.Intn(2) == 0 {
		style = 3
	}
	if w.replaces > 0 {
		w.afterRepl = true
	}
	var err error
	switch style {
	case 3: // new file, renamed over the user file
		tmp := fmt.Sprintf("%s.new-%d", w.userFile, w.edits)
		if err = os.WriteFile(tmp, []byte(strings.Join(append(append([]string{}, lines...), probeLine), "\n")+"\n"), 0o600); err == nil {
			err = os.Rename(tmp, w.userFile)
		}
		w.replaces++
		w.editNotes = append(w.editNotes, "replace")
	case 0: // truncate + one write
		err = os.WriteFile(w.userFile, []byte(strings.Join(append(append([]string{}, lines...), probeLine), "\n")+"\n"), 0o600)
		w.editNotes = append(w.editNotes, "rewrite")
	case 1: // nothing removed: append the new entries
		old := map[string]bool{}
		for _, l := range w.fileLines {
			old[l] = true
		}
		var add []string
		for _, l := range lines {
			if !old[l] {
				add = append(add, l)
			}
		}
		var f *os.File
		if f, err = os.OpenFile(w.userFile, os.O_WRONLY|os.O_APPEND, 0o600); err == nil {
			_, err = f.WriteString(strings.Join(append(add, probeLine), "\n") + "\n")
			f.Close()
		}
		w.editNotes = append(w.editNotes, "append")
	default: // truncate, then the entries in several writes
		var f *os.File
		if f, err = os.OpenFile(w.userFile, os.O_WRONLY|os.O_TRUNC, 0o600); err == nil {
			all := append(append([]string{}, lines...), probeLine)
			for i := 0; i < len(all) && err == nil; {
				k := 1 + r.Intn(len(all)-i)
				_, err = f.WriteString(strings.Join(all[i:i+k], "\n") + "\n")
				i += k
				if r.Intn(2) == 0 {
					time.Sleep(time.Duration(r.Intn(3000)) * time.Microsecond)
				}
			}
			f.Close()
		}
		w.editNotes = append(w.editNotes, "chunks")
	}
	if err != nil {
		return err
	}
	w.fileLines, w.probe = lines, probe
	w.burst++
	for _, k := range c06KnownUsers {
		w.users[k] = vx.Str(table[k])
	}
	return nil
}

// probeOK: do the credentials of the probe user pass the running generation's Basic validator?
func (w *c06World) probeOK() bool {
	v, ok := w.v.(*Validator)
	if !ok || v.basicAuth == nil {
		return false
	}
	stdr, _ := http.NewRequest(http.MethodGet, "http://probe.example/", nil)
	stdr.Header.Set("Authorization", "Basic "+base64.StdEncoding.EncodeToString([]byte(w.probe[0]+":"+w.probe[1])))
	req, err := httpprot.NewRequest(stdr)
	if err != nil {
		return false
	}
	req.FetchPayload(0)
	defer func() { recover() }()
	return v.basicAuth.Validate(req) == nil
}

// settle waits until the file as last written is in effect (the probe user of the last edit is admitted), at most
// `max`.  Nothing pending (no edit since the generation was built or since the last settle that converged): no wait.
func (w *c06World) settle(max time.Duration) (bool, time.Duration) {
	start := time.Now()
	w.maxBurst, w.burst = w.burst, 0
	if w.probe[0] == "" {
		return true, 0
	}
	for {
		if w.probeOK() {
			w.probe = [2]string{}
			return true, time.Since(start)
		}
		if time.Since(start) > max {
			return false, time.Since(start)
		}
		time.Sleep(2 * time.Millisecond)
	}
}

// apply executes a step that changes the world (everything but present).  It returns "" or why the behaviour
// cannot be continued.
func (w *c06World) apply(cfg vx.M, rep, si int, st vx.M, max time.Duration) (stop string, conv bool, took time.Duration) {
	conv = true
	switch vx.Str(st["a"]) {
	case "adv":
		w.now += vx.Int(st["d"])
	case "sync":
		if w.syncCh == nil || vx.Str(w.cfg["basic"]) != "etcd" {
			return fmt.Sprintf("sync step in a behaviour of a configuration without etcd: %v", w.cfg), true, 0
		}
		if err := w.sync(c06M(st["users"]), vx.Rand(c06Hash("sync", cfg, rep, si))); err != nil {
			return err.Error(), true, 0
		}
	case "edit":
		if err := w.edit(c06M(st["users"]), vx.Rand(c06Hash("edit", cfg, rep, si))); err != nil {
			return err.Error(), true, 0
		}
	case "settle":
		conv, took = w.settle(max)
	case "reconf":
		w.buildErr = ""
		w.build(c06M(st["cfg"]), c06M(st["mat"]), c06M(st["users"]), vx.Rand(c06Hash("reconf", cfg, rep, si)))
		if w.buildErr != "" {
			return "builderr", true, 0
		}
		hb, _ := json.Marshal(vx.M{"cfg": st["cfg"], "mat": st["mat"], "users": st["users"], "afterStep": si})
		w.history = append(w.history, string(hb))
	}
	return
}

func c06NoTok() vx.M {
	return vx.M{"p": false, "key": "-", "alg": "-", "halg": "-", "nbf": -1, "exp": -1, "iat": "absent", "mut": "none"}
}

func c06NoSg() vx.M {
	mut := vx.M{}
	for _, p := range []string{"method", "path", "pathenc", "query", "sheader", "iheader", "body", "sig"} {
		mut[p] = false
	}
	return vx.M{"p": false, "carrier": "-", "key": "-", "age": "-", "pexp": "-", "cexcl": false, "body": false, "mut": mut}
}

// c06Recheck: a settle did not converge.  The state-changing steps of the behaviour up to and including that settle
// are run again on a fresh world, the last settle with twice the time.
func c06Recheck(cfg vx.M, rep, now0 int, replaceOK bool, steps []vx.M) (*c06World, bool, time.Duration) {
	w := c06NewWorld(cfg, rep)
	if w.v == nil || w.buildErr != "" {
		w.close()
		return nil, false, 0
	}
	w.now, w.replaceOK = now0, replaceOK
	conv, took := true, time.Duration(0)
	for si, st := range steps {
		if vx.Str(st["a"]) == "present" {
			continue
		}
		max := c06SettleMax
		if si == len(steps)-1 {
			max = c06SettleRecheck
		}
		var stop string
		if stop, conv, took = w.apply(cfg, rep, si, st, max); stop != "" {
			w.close()
			return nil, false, 0
		}
	}
	return w, conv, took
}

func (w *c06World) close() {
	if w.v != nil {
		w.closeFilter()
	}
	if w.dir != "" {
		os.RemoveAll(w.dir)
	}
}

// ---------------------------------------------------------------------------------- JWT issuer

func c06B64(b []byte) string { return base64.RawURLEncoding.EncodeToString(b) }

func c06IssueJWT(r *rand.Rand, w *c06World, t vx.M, sub string) string {
	halg := vx.Str(t["halg"])
	if halg == "none" {
		halg = []string{"none", "none", "None", "NONE"}[r.Intn(4)]
	}
	hdr := map[string]interface{}{"alg": halg, "typ": "JWT"}
	claims := map[string]interface{}{"sub": sub}
	switch vx.Str(t["iat"]) {
	case "past":
		claims["iat"] = c06T0.Unix() - 1000
	case "future": // later than any value the virtual clock takes
		claims["iat"] = c06T0.Unix() + 1000000
	}
	if v := vx.Int(t["nbf"]); v >= 0 {
		claims["nbf"] = c06T0.Unix() + int64(v)*c06Tick
	}
	if v := vx.Int(t["exp"]); v >= 0 {
		claims["exp"] = c06T0.Unix() + int64(v)*c06Tick
	}
	hb, _ := json.Marshal(hdr)
	cb, _ := json.Marshal(claims)
	key := w.k0
	if vx.Str(t["key"]) == "k1" {
		key = w.k1
	}
	mac := func(input string) []byte {
		var h func() hash.Hash
		switch vx.Str(t["alg"]) {
		case "HS256":
			h = sha256.New
		case "HS384":
			h = sha512.New384
		case "HS512":
			h = sha512.New
		default:
			return nil // "none": unsigned
		}
		m := hmac.New(h, key)
		m.Write([]byte(input))
		return m.Sum(nil)
	}
	input := c06B64(hb) + "." + c06B64(cb)
	sig := c06B64(mac(input))
	switch vx.Str(t["mut"]) {
	case "payload": // change a claim, keep the signature
		if r.Intn(2) == 0 {
			claims["sub"] = sub + "x"
		} else {
			claims["admin"] = true
		}
		cb, _ = json.Marshal(claims)
		input = c06B64(hb) + "." + c06B64(cb)
	case "sig": // change one signature character (never the last one: its low bits are padding)
		if sig == "" {
			sig = "AAAA"
		} else {
			i := r.Intn(len(sig) - 1)
			c := byte('A')
			if sig[i] == 'A' {
				c = 'B'
			}
			sig = sig[:i] + string(c) + sig[i+1:]
		}
	}
	return input + "." + sig
}

// ---------------------------------------------------------------------------------- requests

var c06Segs = []string{"a", "b1", "api", "v1", "a b", "ü", "用户", "x+y", "x~y", "x.y", "a%2Fb", "a,b", "a=b", "(x)", "*", "it's", "100%", "q?", "h#"}
var c06QKeys = []string{"a", "b", "k k", "ü", "x-y", "Z"}
var c06QVals = []string{"1", "", "v v", "ü", "a+b", "a&b=c", "2", "/p/q"}
var c06Hosts = []string{"example.com", "api.example.com:8080", "127.0.0.1:10080", "[::1]:8443", "localhost"}

type c06Case struct {
	req              *http.Request
	body             []byte
	note             []string
	swapCur, swapAlt string // a path segment with a reserved character and its other spelling
}

// a reserved character percent-encoded / literal: different paths (RFC 3986 2.2)
var c06Swaps = [][2]string{{"sw-reports%2F2024", "sw-reports/2024"}, {"sw%2Bb", "sw+b"}, {"sw%2Cy", "sw,y"}, {"sw%3Dv", "sw=v"},
	{"sw%28x%29", "sw(x)"}, {"sw%3Bb", "sw;b"}, {"sw%3Ab", "sw:b"}, {"sw%40b", "sw@b"}, {"sw%26b", "sw&b"}, {"sw%27s", "sw's"},
	{"sw%21b", "sw!b"}, {"sw%24b", "sw$b"}, {"sw%2Ab", "sw*b"}}

func (c *c06Case) setBody(b []byte) {
	c.body = b
	if len(b) == 0 {
		c.req.Body = http.NoBody
		c.req.ContentLength = 0
		return
	}
	c.req.Body = io.NopCloser(bytes.NewReader(b))
	c.req.ContentLength = int64(len(b))
}

func c06BaseRequest(r *rand.Rand, hasBody int) *c06Case {
	methods := []string{"GET", "POST", "PUT", "DELETE", "PATCH", "OPTIONS"}
	method := methods[r.Intn(len(methods))]
	var body []byte
	withBody := hasBody == 1 || (hasBody < 0 && r.Intn(2) == 0)
	if withBody {
		method = []string{"POST", "PUT", "PATCH", "DELETE", "GET"}[r.Intn(5)]
		sizes := []int{1, 2, 17, 300, 1000, 4096, 20000, 65536}
		n := sizes[r.Intn(len(sizes))]
		if n > 4096 && r.Intn(3) > 0 {
			n = 1 + r.Intn(200)
		}
		body = make([]byte, n)
		r.Read(body)
	}
	path := ""
	sw := c06Swaps[r.Intn(len(c06Swaps))]
	form := r.Intn(2)
	nseg := 1 + r.Intn(3)
	swAt := r.Intn(nseg + 1)
	for i := 0; i <= nseg; i++ {
		if i == swAt {
			path += "/" + sw[form]
		}
		if i == nseg {
			break
		}
		s := c06Segs[r.Intn(len(c06Segs))]
		if s == "a%2Fb" {
			path += "/" + s
		} else {
			path += "/" + url.PathEscape(s)
		}
	}
	if r.Intn(4) == 0 {
		path += "/"
	}
	var qs []string
	for i, n := 0, r.Intn(4); i < n; i++ {
		k := c06QKeys[r.Intn(len(c06QKeys))]
		for j, m := 0, 1+r.Intn(2); j < m; j++ {
			v := c06QVals[r.Intn(len(c06QVals))]
			e := url.QueryEscape(k) + "=" + url.QueryEscape(v)
			if r.Intn(2) == 0 {
				e = strings.Replace(e, "+", "%20", -1)
			}
			qs = append(qs, e)
		}
	}
	r.Shuffle(len(qs), func(i, j int) { qs[i], qs[j] = qs[j], qs[i] })
	u := "http://" + c06Hosts[r.Intn(len(c06Hosts))] + path
	if len(qs) > 0 {
		u += "?" + strings.Join(qs, "&")
	}
	req, err := http.NewRequest(method, u, nil)
	if err != nil {
		panic(fmt.Sprintf("c06: bad url %q: %v", u, err))
	}
	c := &c06Case{req: req, swapCur: sw[form], swapAlt: sw[1-form]}
	c.setBody(body)
	req.Header.Add(c06SignedHdr, c06Str(r, c06Letters, 1, 10))
	if r.Intn(3) == 0 {
		req.Header.Add(c06SignedHdr, "second  "+c06Str(r, c06Letters, 1, 4))
	}
	for i, n := 0, r.Intn(3); i < n; i++ {
		req.Header.Add(fmt.Sprintf("X-Other-%d", r.Intn(3)), c06Str(r, c06Letters, 0, 6)+[]string{"", " x", "  y  z"}[r.Intn(3)])
	}
	if withBody {
		req.Header.Set("Content-Type", []string{"application/json", "text/plain; charset=utf-8", "application/octet-stream"}[r.Intn(3)])
	}
	req.Header.Set(c06IgnoredHdr, c06Str(r, c06Letters, 1, 8))
	if r.Intn(2) == 0 {
		req.Header.Set("User-Agent", "verif/"+c06Str(r, c06Letters, 1, 4))
	}
	return c
}

func c06Different(r *rand.Rand, cur string, pool []string) string {
	for {
		if s := pool[r.Intn(len(pool))]; s != cur {
			return s
		}
	}
}

// mutate one part of an already signed request
func (c *c06Case) mutate(r *rand.Rand, part string, w *c06World, carrier string) {
	req := c.req
	switch part {
	case "method":
		req.Method = c06Different(r, req.Method, []string{"GET", "POST", "PUT", "DELETE", "PATCH", "HEAD"})
		c.note = append(c.note, "method->"+req.Method)
	case "path":
		p := req.URL.EscapedPath()
		switch r.Intn(4) {
		case 0:
			p += "/zz"
		case 1:
			p += "z"
		case 2:
			p = "/q" + p
		default:
			p = strings.TrimSuffix(p, "/")
			if i := strings.LastIndexByte(p, '/'); i >= 0 {
				p = p[:i] // drop the last segment
			}
			if p == "" {
				p = "/"
			}
			if p == strings.TrimSuffix(req.URL.EscapedPath(), "/") || p == req.URL.EscapedPath() {
				p += "/zz"
			}
		}
		nu, err := url.Parse("http://" + req.URL.Host + p)
		if err != nil {
			panic(err)
		}
		nu.RawQuery = req.URL.RawQuery
		req.URL = nu
		c.note = append(c.note, "path->"+p)
	case "pathenc": // the same path with one reserved character spelled the other way
		p := req.URL.EscapedPath()
		if strings.Contains(p, c.swapCur) {
			p = strings.Replace(p, c.swapCur, c.swapAlt, 1)
		} else { // a preceding "path" mutation dropped the segment: any other change of the path will do
			p = strings.TrimSuffix(p, "/") + "/" + c.swapAlt
		}
		nu, err := url.Parse("http://" + req.URL.Host + p)
		if err != nil {
			panic(err)
		}
		if nu.EscapedPath() != p {
			panic(fmt.Sprintf("c06: spelling %q not preserved (%q)", p, nu.EscapedPath()))
		}
		nu.RawQuery = req.URL.RawQuery
		req.URL = nu
		c.note = append(c.note, "pathenc->"+p)
	case "query":
		// only the caller's parameters; the signature's own X-Me-* parameters belong to part "sig"
		var own, sigp []string
		for _, e := range strings.Split(req.URL.RawQuery, "&") {
			if e == "" {
				continue
			}
			if strings.HasPrefix(e, "X-Me-") {
				sigp = append(sigp, e)
			} else {
				own = append(own, e)
			}
		}
		switch v := r.Intn(3); {
		case v == 0 || len(own) == 0:
			own = append(own, "zz="+c06Str(r, c06Letters, 0, 3))
		case v == 1:
			i := r.Intn(len(own))
			own[i] += "x" // key (no '=') or value gets longer
		default:
			i := r.Intn(len(own))
			own = append(own[:i], own[i+1:]...)
		}
		req.URL.RawQuery = strings.Join(append(own, sigp...), "&")
		c.note = append(c.note, "query->"+req.URL.RawQuery)
	case "sheader":
		v := r.Intn(5)
		if v == 4 && carrier != "header" {
			v = r.Intn(4)
		}
		switch v {
		case 0:
			req.Header[c06SignedHdr][0] += "X"
		case 1:
			req.Header.Del(c06SignedHdr)
		case 2:
			req.Header.Add(c06SignedHdr, "extra")
		case 3:
			req.Host = c06Different(r, req.URL.Host, append([]string{"evil.example.org"}, c06Hosts...))
		case 4: // the date header, one second later (same day unless at midnight; rejected either way)
			d := req.Header.Get("X-Me-Date")
			if tm, err := time.Parse("20060102T150405Z", d); err == nil {
				req.Header.Set("X-Me-Date", tm.Add(time.Second).Format("20060102T150405Z"))
			} else {
				req.Header[c06SignedHdr][0] += "X"
			}
		}
		c.note = append(c.note, fmt.Sprintf("sheader variant %d", v))
	case "iheader":
		switch r.Intn(3) {
		case 0:
			req.Header.Set(c06IgnoredHdr, "changed-"+c06Str(r, c06Letters, 1, 4))
		case 1:
			req.Header.Del(c06IgnoredHdr)
		default:
			req.Header.Set("User-Agent", "other/"+c06Str(r, c06Letters, 1, 4))
		}
		c.note = append(c.note, "iheader")
	case "body":
		b := append([]byte{}, c.body...)
		if len(b) == 0 {
			b = make([]byte, 1+r.Intn(100))
			r.Read(b)
		} else {
			switch r.Intn(4) {
			case 0:
				b[r.Intn(len(b))] ^= 0x01
			case 1:
				b = append(b, byte(r.Intn(256)))
			case 2:
				b = b[:len(b)-1]
			default:
				b = nil
			}
		}
		c.note = append(c.note, fmt.Sprintf("body %d->%d bytes", len(c.body), len(b)))
		c.setBody(b)
	case "sig":
		flip := func(s string) string { // change one hex digit of a signature
			if s == "" {
				return "0"
			}
			i := r.Intn(len(s))
			d := byte('0')
			if s[i] == '0' {
				d = '1'
			}
			return s[:i] + string(d) + s[i+1:]
		}
		if carrier == "header" {
			a := req.Header.Get("Authorization")
			switch r.Intn(3) {
			case 0:
				i := strings.Index(a, "Signature=") + len("Signature=")
				a = a[:i] + flip(a[i:])
			case 1: // claim the other known key
				if strings.Contains(a, "Credential="+w.ids[0]+"/") {
					a = strings.Replace(a, "Credential="+w.ids[0]+"/", "Credential="+w.ids[1]+"/", 1)
				} else if strings.Contains(a, "Credential="+w.ids[1]+"/") {
					a = strings.Replace(a, "Credential="+w.ids[1]+"/", "Credential="+w.ids[0]+"/", 1)
				} else {
					i := strings.Index(a, "Signature=") + len("Signature=")
					a = a[:i] + flip(a[i:])
				}
			default: // one more scope
				a = strings.Replace(a, "/megaease_request,", "/extra/megaease_request,", 1)
			}
			req.Header.Set("Authorization", a)
		} else {
			q := req.URL.Query()
			if r.Intn(2) == 0 {
				q.Set("X-Me-Signature", flip(q.Get("X-Me-Signature")))
			} else {
				q.Set("X-Me-Credential", strings.Replace(q.Get("X-Me-Credential"), "/megaease_request", "/extra/megaease_request", 1))
			}
			req.URL.RawQuery = strings.Replace(q.Encode(), "+", "%20", -1)
		}
		c.note = append(c.note, "sig text")
	default:
		panic("c06: unknown part " + part)
	}
}

// family of a request: what all its single mutants share (they are concretised from the same base)
func c06Family(req vx.M) interface{} {
	b, _ := json.Marshal(req)
	var cp map[string]interface{}
	json.Unmarshal(b, &cp)
	for _, k := range []string{"tok", "ck"} {
		t := c06M(cp[k])
		t["mut"], t["alg"], t["halg"] = "none", "*", "*"
	}
	s := c06M(cp["sg"])
	s["mut"] = nil
	c06M(cp["bs"])["pw"] = "*"
	cp["hv"] = len(vx.List(cp["hv"]))
	return cp
}

// concretise builds the wire-level request for an abstract request record
func c06Concretise(w *c06World, areq vx.M, rep int) *c06Case {
	// (seeded by the FIRST generation's configuration: the same abstract request presented again after a hot update is
	// the same concrete request - the same token string, the same Basic credentials - signed anew where time matters)
	rb := vx.Rand(c06Hash("base", w.cfg0, c06Family(areq), rep)) // base data: shared by all single mutants
	rm := vx.Rand(c06Hash("mut", w.cfg0, areq, rep))             // choice of the mutation variant
	sg := c06M(areq["sg"])
	hasBody := -1
	if vx.Bool(sg["p"]) {
		hasBody = 0
		if vx.Bool(sg["body"]) {
			hasBody = 1
		}
	}
	c := c06BaseRequest(rb, hasBody)
	req := c.req
	sub := c06Str(rb, c06Letters, 1, 8)
	otherCookie := rb.Intn(3)
	wrongPwSeed := rb.Int63()
	signOff := time.Duration(rb.Intn(60)) * time.Second
	farOff := 30*time.Minute + time.Duration(rb.Intn(36000))*time.Second
	var scopes []string
	for i, n := 0, rb.Intn(4); i < n; i++ {
		scopes = append(scopes, []string{"us-east-1", "s3", "svc_1", "eu.west"}[rb.Intn(4)])
	}

	// ruled header
	rh := vx.Rand(c06Hash("hv", w.cfg0, c06Family(areq), rep))
	for _, cl := range vx.List(areq["hv"]) {
		var v string
		switch cl.(string) {
		case "inValues":
			v = w.hdrVals[rh.Intn(len(w.hdrVals))]
		case "matchRe":
			v = fmt.Sprintf("ok-%d", rh.Intn(100000))
		default:
			v = []string{"no-" + c06Str(rh, c06Letters, 0, 5), w.hdrVals[0] + "x", "ok-", "", "xok-1", "ok-12a"}[rh.Intn(6)]
		}
		req.Header.Add(w.hdrName, v)
	}

	// cookie token
	if otherCookie == 1 {
		req.AddCookie(&http.Cookie{Name: "sid", Value: c06Str(rb, c06Letters, 4, 8)})
	}
	if ck := c06M(areq["ck"]); vx.Bool(ck["p"]) {
		req.AddCookie(&http.Cookie{Name: w.cookieName, Value: c06IssueJWT(rm, w, ck, sub)})
	}
	if otherCookie == 2 {
		req.AddCookie(&http.Cookie{Name: "zid", Value: c06Str(rb, c06Letters, 4, 8)})
	}

	// Authorization
	switch vx.Str(areq["auth"]) {
	case "bearer":
		req.Header.Set("Authorization", "Bearer "+c06IssueJWT(rm, w, c06M(areq["tok"]), sub))
	case "other":
		req.Header.Set("Authorization", []string{"Digest username=\"x\"", "Token abcdef", "Negotiate YIIabc="}[rm.Intn(3)])
	case "basic":
		bs := c06M(areq["bs"])
		var uu c06User
		switch vx.Str(bs["user"]) {
		case "uPlain":
			uu = w.uPlain
		case "uColon":
			uu = w.uColon
		case "uBlank":
			uu = w.uBlank
		default:
			uu = c06User{name: w.unknownU, pw: w.uPlain.pw}
		}
		u := struct{ name, pw string }{uu.name, uu.pass(vx.Str(bs["ver"]))}
		pw := u.pw
		creds := ""
		switch vx.Str(bs["pw"]) {
		case "right":
		case "wrong":
			rw := rand.New(rand.NewSource(wrongPwSeed))
			if vx.Str(bs["user"]) == "unknown" {
				if rm.Intn(2) == 0 {
					pw = c06Password(rw)
				}
			} else {
				rs := []rune(u.pw)
				switch rm.Intn(4) {
				case 0:
					pw = u.pw + "x"
				case 1:
					pw = string(rs[:len(rs)-1])
				case 2:
					pw = w.uPlain.pw[0]
					if u.name == w.uPlain.name {
						pw = w.uColon.pw[0]
					}
				default:
					pw = c06Password(rw)
				}
				if pw == u.pw {
					pw = u.pw + "y"
				}
			}
		case "rightColonX":
			pw = u.pw + ":" + c06Str(rm, c06PwRunes, 0, 5)
		case "prefix":
			pw = u.pw[:strings.IndexByte(u.pw, ':')]
		case "empty":
			pw = ""
		case "padded": // white space before and/or after the right password: another password
			pw = c06Pad(rm, u.pw)
			c.note = append(c.note, fmt.Sprintf("password %q presented as %q", u.pw, pw))
		case "userPadded": // white space before and/or after the user name: not the name of a configured user
			name := c06Pad(rm, u.name)
			for name == w.uPlain.name || name == w.uColon.name || name == w.uBlank.name {
				name += " "
			}
			c.note = append(c.note, fmt.Sprintf("user name %q presented as %q", u.name, name))
			creds = name + ":" + pw
		case "trimmed": // (some of) the white space at the ends of the configured password / user name left out
			switch k := rm.Intn(4); {
			case k == 0 && strings.TrimLeft(u.pw, c06Cutset) != u.pw:
				pw = strings.TrimLeft(u.pw, c06Cutset)
			case k == 1 && strings.TrimRight(u.pw, c06Cutset) != u.pw:
				pw = strings.TrimRight(u.pw, c06Cutset)
			default:
				pw = strings.TrimSpace(u.pw)
			}
			name := u.name
			if k := rm.Intn(3); k == 0 {
				name = strings.TrimSpace(u.name)
			} else if k == 1 && strings.TrimSpace(u.name) != u.name { // only the name differs
				name, pw = strings.TrimSpace(u.name), u.pw
			}
			if name == u.name && pw == u.pw {
				panic("c06: trimmed credentials of a user without white space")
			}
			c.note = append(c.note, fmt.Sprintf("credentials %q presented as %q", u.name+":"+u.pw, name+":"+pw))
			creds = name + ":" + pw
		case "nocolon":
			creds = u.name
			if rm.Intn(2) == 0 {
				creds = u.name + u.pw
			}
			creds = strings.Replace(creds, ":", "", -1)
		}
		if creds == "" {
			creds = u.name + ":" + pw
		}
		enc := base64.StdEncoding.EncodeToString([]byte(creds))
		if !vx.Bool(bs["b64"]) {
			i := rm.Intn(len(enc))
			enc = enc[:i] + []string{"!", "*", "\\"}[rm.Intn(3)] + enc[i:]
		}
		req.Header.Set("Authorization", "Basic "+enc)
	}

	// API signature: the repository's signer as the client library, then the mutation
	if vx.Bool(sg["p"]) {
		var id, secret string
		switch vx.Str(sg["key"]) {
		case "id0":
			id, secret = w.ids[0], w.secrets[0][0]
		case "id1":
			id, secret = w.ids[1], w.secrets[1][0]
		case "id0v2": // the second secret of the id: configured only after a hot update re-keyed it
			id, secret = w.ids[0], w.secrets[0][1]
		case "id1v2":
			id, secret = w.ids[1], w.secrets[1][1]
		case "id0wrongsecret":
			id, secret = w.ids[0], w.wrongSec
		case "noid": // the empty access key id, signed with the empty secret: anybody can make this one
			id, secret = "", ""
		case "noidsecret": // the empty access key id with a configured secret
			id, secret = "", w.secrets[rb.Intn(2)][0]
		case "id0nosecret": // a configured id, signed with the empty secret
			id, secret = w.ids[0], ""
		case "unknown":
			id, secret = w.unknownID, w.secrets[rb.Intn(2)][0]
		default:
			panic("c06: unknown access key class " + vx.Str(sg["key"]))
		}
		carrier := vx.Str(sg["carrier"])
		now := time.Now()
		var at time.Time
		expire := 48 * time.Hour
		switch vx.Str(sg["age"]) {
		case "fresh":
			at = now.Add(-signOff)
		case "tooOld":
			at = now.Add(-farOff)
		default:
			at = now.Add(farOff)
		}
		if vx.Str(sg["pexp"]) == "expired" {
			if vx.Str(sg["age"]) == "fresh" {
				at = now.Add(-2*time.Minute - signOff)
			}
			expire = time.Duration(1+rb.Intn(60)) * time.Second
		}
		cl := signer.New().SetCredential(id, secret).IgnoreHeader(c06IgnoredHdr).ExcludeBody(vx.Bool(sg["cexcl"]))
		sctx := cl.NewContext(at, scopes...)
		var err error
		if carrier == "header" {
			err = sctx.Sign(req)
		} else {
			err = sctx.Presign(req, expire)
		}
		if err != nil {
			panic(err)
		}
		if len(c.body) > 0 && !vx.Bool(sg["cexcl"]) {
			c.setBody(c.body) // the signer has consumed and replaced the reader: start from a fresh one
		}
		mut := c06M(sg["mut"])
		parts := make([]string, 0, len(mut))
		for p, on := range mut {
			if vx.Bool(on) {
				parts = append(parts, p)
			}
		}
		sort.Strings(parts)
		for _, p := range parts {
			c.mutate(rm, p, w, carrier)
		}
	}
	return c
}

// ---------------------------------------------------------------------------------- the server side

type c06Obs struct {
	acc    bool
	status int
	intact bool
	tag    string
	panicV string
	result string
}

// through the wire and through the mux's steps (mux.go serveHTTP): ByteCountReader around the body,
// httpprot.NewRequest, context.SetRequest, FetchPayload, then the filter
func c06Serve(w *c06World, c *c06Case, chunked bool) (obs c06Obs, wire string) {
	if chunked && len(c.body) > 0 {
		c.req.ContentLength = -1
	}
	var buf bytes.Buffer
	if err := c.req.Write(&buf); err != nil {
		panic(fmt.Sprintf("c06: cannot serialise request: %v", err))
	}
	head := buf.Bytes()
	if i := bytes.Index(head, []byte("\r\n\r\n")); i >= 0 {
		head = head[:i]
	}
	wire = string(head)
	stdr, err := http.ReadRequest(bufio.NewReader(&buf))
	if err != nil {
		panic(fmt.Sprintf("c06: server cannot parse the request: %v\n%s", err, wire))
	}
	stdr.RemoteAddr = "192.0.2.7:34567"
	body := readers.NewByteCountReader(stdr.Body)
	stdr.Body = body
	ctx := context.New(nil)
	req, _ := httpprot.NewRequest(stdr)
	ctx.SetRequest(context.DefaultNamespace, req)
	if err := req.FetchPayload(0); err != nil {
		panic(fmt.Sprintf("c06: FetchPayload: %v", err))
	}
	jwt.TimeFunc = func() time.Time { return c06T0.Add(time.Duration(w.now*c06Tick) * time.Second) }
	defer func() { jwt.TimeFunc = time.Now }()
	func() {
		defer func() {
			if r := recover(); r != nil {
				obs.panicV = fmt.Sprint(r)
			}
		}()
		obs.result = w.v.Handle(ctx)
	}()
	obs.acc = obs.panicV == "" && obs.result == ""
	if resp := ctx.GetOutputResponse(); resp != nil {
		if hr, ok := resp.(*httpprot.Response); ok {
			obs.status = hr.StatusCode()
		}
	}
	if obs.panicV != "" {
		obs.status = -2
	} else if obs.result != "" && obs.result != resultInvalid {
		obs.status = -3
	}
	obs.tag = ctx.Tags()
	got, _ := io.ReadAll(req.GetPayload())
	obs.intact = !req.IsStream() && bytes.Equal(req.RawPayload(), c.body) && bytes.Equal(got, c.body)
	return
}

// ---------------------------------------------------------------------------------- the test

func TestVerifC06Replay(t *testing.T) {
	behs := vx.ReadBehaviours(t, "VERIF_IN")
	out := vx.NewWriter(t, "VERIF_OUT")     // cases with everything needed to understand them
	trace := vx.NewWriter(t, "VERIF_TRACE") // events for TLC trace validation
	defer out.Close()
	defer trace.Close()
	reps := vx.EnvInt("VERIF_REPS", 3)
	line, cases := 0, 0
	emit := func(ev vx.M) int {
		line++
		trace.Raw(ev)
		return line
	}
	present := func(w *c06World, bi, si, rep int, areq vx.M, st vx.M) {
		c := c06Concretise(w, areq, rep)
		chunked := vx.Rand(c06Hash("chunk", w.cfg0, c06Family(areq), rep)).Intn(4) == 0
		obs, wire := c06Serve(w, c, chunked)
		res := vx.M{"acc": obs.acc, "status": obs.status, "intact": obs.intact}
		ln := emit(vx.M{"ev": "present", "req": areq, "res": res})
		sum := sha256.Sum256(c.body)
		out.Raw(vx.M{"k": "case", "line": ln, "beh": bi, "step": si + 1, "rep": rep, "cfg": w.cfg, "mat": w.mat, "gen": w.gen,
			"history": w.history, "edits": w.edits, "settled": w.burst == 0, "burst": w.burst, "lastBurst": w.maxBurst, "how": w.editNotes,
			"replaces": w.replaces, "afterReplace": w.afterRepl, "now": w.now, "users": map[string]string{"uPlain": w.users["uPlain"], "uColon": w.users["uColon"], "uBlank": w.users["uBlank"]},
			"req": areq, "exp": st["exp"], "v": st["v"], "impl": st["impl"], "res": res, "tag": obs.tag, "panic": obs.panicV,
			"result": obs.result, "wire": wire, "bodyLen": len(c.body), "bodySha": hex.EncodeToString(sum[:6]),
			"chunked": chunked && len(c.body) > 0, "mutations": c.note})
		cases++
	}
	for bi, beh := range behs {
		if len(beh) == 0 || vx.Str(beh[0]["a"]) != "init" {
			t.Fatalf("behaviour %d does not start with init", bi)
		}
		cfg := c06M(beh[0]["cfg"])
		for rep := 0; rep < reps; rep++ {
			w := c06NewWorld(cfg, rep)
			if w.v == nil || w.buildErr != "" {
				out.Raw(vx.M{"k": "builderr", "cfg": cfg, "err": w.buildErr})
				w.close()
				continue
			}
			w.now = vx.Int(beh[0]["now"])
			// one in six instances of a behaviour that edits the user file: the file is also replaced
			w.replaceOK = vx.Rand(c06Hash("replace", cfg, rep, bi)).Intn(6) == 0
			emit(vx.M{"ev": "reset", "cfg": cfg, "now": w.now})
		steps:
			for si, st := range beh[1:] {
				switch a := vx.Str(st["a"]); a {
				case "adv", "sync", "edit", "settle", "reconf":
					if (a == "edit" || a == "settle") && c06Stuck >= c06StuckMax {
						out.Raw(vx.M{"k": "skipped", "beh": bi, "rep": rep, "step": si + 1, "why": "FILE edits do not converge"})
						break steps
					}
					stop, conv, took := w.apply(cfg, rep, si, st, c06SettleMax)
					if stop == "builderr" {
						out.Raw(vx.M{"k": "builderr", "cfg": st["cfg"], "err": w.buildErr, "gen": w.gen + 1})
						break steps
					} else if stop != "" {
						t.Fatalf("c06: %s", stop)
					}
					switch a {
					case "adv":
						emit(vx.M{"ev": "adv", "d": vx.Int(st["d"])})
					case "sync":
						emit(vx.M{"ev": "sync", "users": st["users"]})
					case "edit":
						emit(vx.M{"ev": "edit", "users": st["users"]})
					case "reconf":
						emit(vx.M{"ev": "reconf", "cfg": st["cfg"], "mat": st["mat"], "users": st["users"]})
					case "settle":
						recheck := ""
						if !conv {
							recheck = "failed"
							if w2, conv2, took2 := c06Recheck(cfg, rep, vx.Int(beh[0]["now"]), w.replaceOK, beh[1:si+2]); w2 != nil {
								w.close()
								w = w2
								if conv2 {
									conv, recheck = true, "converged"
								}
								took = took2
							}
							if !conv && w.afterRepl {
								c06ReplStuck++
							} else if !conv {
								c06Stuck++
							}
						}
						ln := emit(vx.M{"ev": "settle", "conv": conv, "ms": took.Milliseconds()})
						out.Raw(vx.M{"k": "settle", "line": ln, "beh": bi, "rep": rep, "step": si + 1, "conv": conv, "us": took.Microseconds(),
							"recheck": recheck, "burst": w.maxBurst, "how": w.editNotes, "replaces": w.replaces, "afterReplace": w.afterRepl})
						if !conv {
							// the file has not been touched for the bounded time and its last line is still not in effect: which
							// table is?  The right credentials of every user in both versions are presented (no prediction
							// attached: TLC judges them in the trace validation)
							hv := []interface{}{}
							if vx.Str(w.cfg["hdr"]) != "off" {
								hv = append(hv, map[string]interface{}{"values": "inValues", "regexp": "matchRe", "both": "inValues"}[vx.Str(w.cfg["hdr"])])
							}
							for _, u := range c06KnownUsers {
								for _, ver := range []string{"v1", "v2"} {
									present(w, bi, si, rep, vx.M{"hv": hv, "auth": "basic", "tok": c06NoTok(), "ck": c06NoTok(), "sg": c06NoSg(),
										"bs": vx.M{"p": true, "user": u, "ver": ver, "pw": "right", "b64": true}}, vx.M{})
								}
							}
							if w.afterRepl { // this generation will not see its user file again: every further settle would take the full time
								out.Raw(vx.M{"k": "skipped", "beh": bi, "rep": rep, "step": si + 1, "why": "edits after the user file was replaced do not converge"})
								break steps
							}
						}
					}
				case "present":
					present(w, bi, si, rep, c06M(st["req"]), st)
				default:
					t.Fatalf("unknown step %v", st["a"])
				}
			}
			w.close()
		}
	}
	out.Raw(vx.M{"k": "summary", "cases": cases, "lines": line, "behaviours": len(behs), "reps": reps})
}

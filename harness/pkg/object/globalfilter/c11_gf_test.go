package globalfilter

// Harness for C11 (specs/HotUpdateGF.tla): hot update of a GlobalFilter while requests are in flight.
// TestVerifC11GfReplay replays TLC-generated schedules (HotUpdateGF_Gen) on real GlobalFilter objects,
// each built from a spec rendered to YAML and validated by supervisor.NewSpec; the harness owns the
// registry pointer (what Supervisor.GetBusinessController(name).Instance() hands out to the mux):
//   load      h := cur
//   enter     go h.Handle(ctx, main)     the request runs up to the first marker filter and stops there
//   run/main  the marker the request is stopped at lets it go on to the next one (or to the end)
//   done      the request has returned: the markers it passed and the headers the real filters of the
//             before/after pipelines set are compared with what the model says the held generation runs
//   gfBegin ; gfReload ; gfReload      new(GlobalFilter).Inherit(spec', cur)   (one call)
//   gfStore   cur = new
// Version v of the before (after) section is a pipeline [marker "b<v>", RequestAdaptor setting
// X-C11-Before: v<v>] ("a<v>", X-C11-After); a spec version 0 has no such section.  The main pipeline is
// a real Pipeline with marker "m".

import (
	"fmt"
	"net/http"
	"net/http/httptest"
	"runtime/debug"
	"strings"
	"sync"
	"testing"
	"time"

	"github.com/megaease/easegress/pkg/context"
	"github.com/megaease/easegress/pkg/filters"
	_ "github.com/megaease/easegress/pkg/filters/requestadaptor"
	"github.com/megaease/easegress/pkg/logger"
	"github.com/megaease/easegress/pkg/object/pipeline"
	"github.com/megaease/easegress/pkg/protocols/httpprot"
	"github.com/megaease/easegress/pkg/supervisor"
	"github.com/megaease/easegress/pkg/tracing"
	vx "github.com/megaease/easegress/pkg/verifx"
)

const c11GfKey = "c11gf"

type c11GfSpec struct {
	filters.BaseSpec `yaml:",inline"`
	Tag              string `yaml:"tag"`
}

type c11GfMark struct{ spec *c11GfSpec }

var c11GfKind = &filters.Kind{
	Name:        "C11GfMark",
	Description: "records its tag and stops the request until the harness lets it go on",
	Results:     []string{},
	DefaultSpec: func() filters.Spec { return &c11GfSpec{} },
}

func init() {
	logger.InitNop()
	c11GfKind.CreateInstance = func(spec filters.Spec) filters.Filter { return &c11GfMark{spec: spec.(*c11GfSpec)} }
	filters.Register(c11GfKind)
}

func (f *c11GfMark) Name() string                { return f.spec.Name() }
func (f *c11GfMark) Kind() *filters.Kind         { return c11GfKind }
func (f *c11GfMark) Spec() filters.Spec          { return f.spec }
func (f *c11GfMark) Init()                       {}
func (f *c11GfMark) Inherit(prev filters.Filter) {}
func (f *c11GfMark) Close()                      {}
func (f *c11GfMark) Status() interface{}         { return nil }
func (f *c11GfMark) Handle(ctx *context.Context) string {
	if g, ok := ctx.GetData(c11GfKey).(*c11GfGate); ok && g != nil {
		g.at(f.spec.Tag)
	}
	return ""
}

// c11GfGate: one per request.
type c11GfGate struct {
	mu      sync.Mutex
	trace   []string
	open    bool
	arrive  chan string
	release chan struct{}
}

func (g *c11GfGate) at(tag string) {
	g.mu.Lock()
	g.trace = append(g.trace, tag)
	open := g.open
	g.mu.Unlock()
	if open {
		return
	}
	g.arrive <- tag
	<-g.release
}

type c11GfRes struct{ panicV, site, before, after string }

type c11GfReq struct {
	gate     *c11GfGate
	done     chan c11GfRes
	pos      string // marker the request is stopped at; "" before it started / after it returned
	finished bool
	res      c11GfRes
}

func c11GfSite(stack string) string {
	for _, ln := range strings.Split(stack, "\n") {
		ln = strings.TrimSpace(ln)
		if !strings.HasPrefix(ln, "github.com/megaease/easegress/pkg/") || strings.Contains(ln, "c11") || strings.Contains(ln, "verifx") {
			continue
		}
		ln = strings.TrimPrefix(ln, "github.com/megaease/easegress/pkg/")
		if i := strings.LastIndex(ln, "("); i > 0 {
			ln = ln[:i]
		}
		return ln
	}
	return "?"
}

func c11GfStart(h *GlobalFilter, main *pipeline.Pipeline, gated bool) *c11GfReq {
	rq := &c11GfReq{gate: &c11GfGate{open: !gated, arrive: make(chan string), release: make(chan struct{})}, done: make(chan c11GfRes, 1)}
	go func() {
		var r c11GfRes
		stdr := httptest.NewRequest(http.MethodGet, "http://c11.test/x", http.NoBody)
		defer func() {
			if e := recover(); e != nil {
				r.panicV = fmt.Sprint(e)
				r.site = c11GfSite(string(debug.Stack()))
			}
			r.before, r.after = stdr.Header.Get("X-C11-Before"), stdr.Header.Get("X-C11-After")
			rq.done <- r
		}()
		req, _ := httpprot.NewRequest(stdr)
		req.FetchPayload(0)
		ctx := context.New(tracing.NoopSpan)
		ctx.SetRequest(context.DefaultNamespace, req)
		ctx.SetData(c11GfKey, rq.gate)
		h.Handle(ctx, main)
	}()
	return rq
}

// wait: until the request stops at the next marker or returns; false if neither happens
func (rq *c11GfReq) wait() bool {
	select {
	case tag := <-rq.gate.arrive:
		rq.pos = tag
	case r := <-rq.done:
		rq.pos, rq.finished, rq.res = "", true, r
	case <-time.After(30 * time.Second):
		return false
	}
	return true
}

func (rq *c11GfReq) step() bool {
	rq.gate.release <- struct{}{}
	return rq.wait()
}

// finish: the request runs to its end without stopping
func (rq *c11GfReq) finish() {
	if rq == nil || rq.finished {
		return
	}
	rq.gate.mu.Lock()
	rq.gate.open = true
	rq.gate.mu.Unlock()
	if rq.pos != "" {
		select {
		case rq.gate.release <- struct{}{}:
		case <-time.After(5 * time.Second):
		}
	}
	select {
	case r := <-rq.done:
		rq.finished, rq.res, rq.pos = true, r, ""
	case <-time.After(30 * time.Second):
	}
}

func (rq *c11GfReq) passed() string {
	rq.gate.mu.Lock()
	defer rq.gate.mu.Unlock()
	return strings.Join(rq.gate.trace, ",")
}

func c11GfSide(section, letter, header string, v int) string {
	if v == 0 {
		return ""
	}
	return fmt.Sprintf("%s:\n  flow:\n  - filter: mark\n  - filter: adapt\n  filters:\n  - {name: mark, kind: C11GfMark, tag: %s%d}\n"+
		"  - {name: adapt, kind: RequestAdaptor, header: {set: {%s: v%d}}}\n", section, letter, v, header, v)
}

func c11GfSpecOf(bv, av int) (*supervisor.Spec, error) {
	return supervisor.NewSpec("name: c11gf\nkind: GlobalFilter\n" + c11GfSide("beforePipeline", "b", "X-C11-Before", bv) +
		c11GfSide("afterPipeline", "a", "X-C11-After", av))
}

// c11GfBuild: Init (prev == nil) or Inherit of a generation built from versions bv / av; returns the panic, if any
func c11GfBuild(bv, av int, prev *GlobalFilter) (g *GlobalFilter, err error) {
	defer func() {
		if e := recover(); e != nil {
			g, err = nil, fmt.Errorf("%v at %s", e, c11GfSite(string(debug.Stack())))
		}
	}()
	spec, err := c11GfSpecOf(bv, av)
	if err != nil {
		return nil, err
	}
	g = &GlobalFilter{}
	if prev == nil {
		g.Init(spec)
	} else {
		g.Inherit(spec, prev)
	}
	return g, nil
}

func c11GfWant(bv, av int) (trace, before, after string) {
	tr := []string{}
	if bv != 0 {
		tr, before = append(tr, fmt.Sprintf("b%d", bv)), fmt.Sprintf("v%d", bv)
	}
	tr = append(tr, "m")
	if av != 0 {
		tr, after = append(tr, fmt.Sprintf("a%d", av)), fmt.Sprintf("v%d", av)
	}
	return strings.Join(tr, ","), before, after
}

func c11GfTag(side string, v int) string {
	if v == 0 {
		return ""
	}
	return fmt.Sprintf("%s%d", side, v)
}

func TestVerifC11GfReplay(t *testing.T) {
	behs := vx.ReadBehaviours(t, "VERIF_IN")
	out := vx.NewWriter(t, "VERIF_OUT")
	defer out.Close()
	mspec, err := supervisor.NewSpec("name: c11main\nkind: Pipeline\nflow:\n- filter: mark\nfilters:\n- {name: mark, kind: C11GfMark, tag: m}\n")
	if err != nil {
		t.Fatalf("main pipeline spec: %v", err)
	}
	main := &pipeline.Pipeline{}
	main.Init(mspec, nil)
	harnessBad := func(what string) {
		out.Raw(vx.M{"k": "mismatch", "b": -1, "step": 0, "a": "baseline", "at": vx.M{}, "behaviour": []vx.M{}, "what": "harness: " + what})
		behs = nil
	}
	// baseline: generations that no update has touched run what their spec says - otherwise the harness cannot judge
	for _, c := range [][2]int{{1, 1}, {0, 0}, {2, 0}, {0, 3}} {
		g, err := c11GfBuild(c[0], c[1], nil)
		if err != nil {
			harnessBad(fmt.Sprintf("baseline: Init of a GlobalFilter (before v%d, after v%d) failed: %v", c[0], c[1], err))
			break
		}
		rq := c11GfStart(g, main, false)
		rq.finish()
		wt, wb, wa := c11GfWant(c[0], c[1])
		if !rq.finished || rq.res.panicV != "" || rq.passed() != wt || rq.res.before != wb || rq.res.after != wa {
			harnessBad(fmt.Sprintf("baseline: a request through a fresh GlobalFilter (before v%d, after v%d) passed %q (headers %q, %q; panic %q), expected %q",
				c[0], c[1], rq.passed(), rq.res.before, rq.res.after, rq.res.panicV, wt))
			break
		}
	}
	steps, judged, dropped := 0, 0, 0
	for bi, beh := range behs {
		cur, err := c11GfBuild(1, 1, nil)
		if err != nil {
			harnessBad("Init failed: " + err.Error())
			break
		}
		gens := map[*GlobalFilter]int{cur: 1}
		ngen := 1
		var next *GlobalFilter
		pendB, pendA, reloads := 0, 0, 0
		held := map[string]*GlobalFilter{}
		reqs := map[string]*c11GfReq{}
		for si, st := range beh {
			steps++
			bad := ""
			r := vx.Str(st["r"])
			rq := reqs[r]
			expectAt := func(tag string) {
				if rq == nil || rq.finished || rq.pos != tag {
					pos := "nowhere (it has returned)"
					if rq != nil && !rq.finished {
						pos = "stopped at marker " + rq.pos
					}
					sofar := ""
					if rq != nil {
						sofar = rq.passed()
					}
					bad = fmt.Sprintf("visibility: the request holds generation %d of the GlobalFilter and should be at marker %s, it is %s (passed so far: %s)",
						gens[held[r]], tag, pos, sofar)
				}
			}
			switch vx.Str(st["a"]) {
			case "init", "start":
			case "load":
				held[r] = cur
				if gens[cur] != vx.Int(st["g"]) {
					bad = "harness: registry out of step with the model"
				}
			case "enter":
				rq = c11GfStart(held[r], main, true)
				reqs[r] = rq
				if !rq.wait() {
					bad = "harness: request stuck before its first marker"
					break
				}
				first := c11GfTag("b", vx.Int(st["b"]))
				if first == "" {
					first = "m"
				}
				if rq.finished && rq.res.panicV != "" {
					bad = "panic: " + rq.res.panicV
				} else {
					expectAt(first)
				}
			case "run":
				expectAt(c11GfTag(vx.Str(st["side"]), vx.Int(st["ver"])))
				if bad == "" && !rq.step() {
					bad = "harness: request stuck"
				}
			case "main":
				expectAt("m")
				if bad == "" && !rq.step() {
					bad = "harness: request stuck"
				}
			case "done":
				wt, wb, wa := c11GfWant(vx.Int(st["bs"]), vx.Int(st["as"]))
				switch {
				case rq == nil:
					bad = "harness: done without a request"
				case !rq.finished:
					bad = fmt.Sprintf("visibility: the request holds generation %d of the GlobalFilter (pipelines: %s) and should have returned, it is stopped at marker %s",
						gens[held[r]], wt, rq.pos)
				case rq.res.panicV != "":
					out.Raw(vx.M{"k": "fail", "b": bi, "step": si, "r": r, "site": rq.res.site, "panic": rq.res.panicV, "at": st, "behaviour": beh[:si+1]})
					bad = fmt.Sprintf("panic: a request that holds generation %d of the GlobalFilter: panic in %s: %s", gens[held[r]], rq.res.site, rq.res.panicV)
				case rq.passed() != wt:
					bad = fmt.Sprintf("visibility: a request that holds generation %d of the GlobalFilter passed %s, the spec of that generation defines %s",
						gens[held[r]], rq.passed(), wt)
				case rq.res.before != wb || rq.res.after != wa:
					bad = fmt.Sprintf("mixed: a request that holds generation %d of the GlobalFilter passed %s but the filters it ran set X-C11-Before %q, X-C11-After %q",
						gens[held[r]], wt, rq.res.before, rq.res.after)
				default:
					judged++
					if gens[held[r]] > 1 && (wb == "" || wa == "") {
						dropped++
					}
				}
				delete(reqs, r)
			case "gfBegin":
				pendB, pendA, reloads = vx.Int(st["bv"]), vx.Int(st["av"]), 0
			case "gfReload":
				if reloads++; reloads == 2 {
					if next, err = c11GfBuild(pendB, pendA, cur); err != nil {
						bad = "status: Inherit of the GlobalFilter failed: " + err.Error()
					}
				}
			case "gfStore":
				ngen++
				if ngen != vx.Int(st["g"]) {
					bad = "harness: generation count out of step with the model"
				}
				cur = next
				gens[cur] = ngen
			default:
				bad = "harness: unknown step " + vx.Str(st["a"])
			}
			if bad != "" {
				out.Raw(vx.M{"k": "mismatch", "b": bi, "step": si, "a": vx.Str(st["a"]), "at": st, "what": bad, "behaviour": beh[:si+1]})
				break
			}
		}
		for _, rq := range reqs {
			rq.finish()
		}
	}
	out.Raw(vx.M{"k": "summary", "behaviours": len(behs), "steps": steps, "judged": judged, "dropped": dropped})
}

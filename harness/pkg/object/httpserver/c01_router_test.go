package httpserver

// Harness for C01 (DESIGN 5/C01): HTTP routing with the route cache off.
//   TestVerifC01Replay - replays TLC-generated behaviours (configuration + requests with the
//                        contract's predicted outcome; "unmap" / "map" / "remap" steps delete,
//                        create or replace a backend behind the MuxMapper between two requests)
//                        on a real mux, cacheSize 0 (MBT)
//   TestVerifC01Trace  - seeded random configurations and requests from the richer grammar of
//                        routergen_test.go, observations recorded for TLC trace validation (TV)

import (
	"testing"

	vx "github.com/megaease/easegress/pkg/verifx"
)

func TestVerifC01Replay(t *testing.T) {
	behs := vx.ReadBehaviours(t, "VERIF_IN")
	w := vx.NewWriter(t, "VERIF_OUT")
	defer w.Close()
	steps, mism, rejected, unmaps := 0, 0, 0, 0
	for bi, beh := range behs {
		if len(beh) == 0 || vx.Str(beh[0]["a"]) != "cfg" {
			t.Fatalf("behaviour %d does not start with cfg", bi)
		}
		cfg := beh[0]["cfg"].(vx.M)
		mx, err := rhNewMux(cfg, 0, false)
		if err != nil {
			rejected++
			w.Raw(vx.M{"k": "rejected", "b": bi, "err": err.Error()})
			continue
		}
		gone := []interface{}{}
		for si, st := range beh[1:] {
			if mx.rhMapStep(st) { // HttpRouter!Unmap / Map / Remap: the table changes, the server is not reloaded
				if vx.Str(st["a"]) == "unmap" {
					gone = append(gone, vx.Str(st["be"]))
				}
				unmaps++
			}
			if vx.Str(st["a"]) != "req" {
				continue
			}
			steps++
			q := st["q"].(vx.M)
			exp := st["exp"].(vx.M)
			got := rhServe(mx, q)
			if !rhSame(got, exp) {
				mism++
				w.Raw(vx.M{"k": "mismatch", "b": bi, "step": si + 1, "cfg": cfg, "q": q, "exp": exp, "got": got,
					"own": st["own"], "spec": mx.spec, "gone": gone,
					"what": "cache-less mux: " + rhShow(got) + ", contract: " + rhShow(exp)})
			}
		}
		mx.m.close()
	}
	w.Raw(vx.M{"k": "summary", "behaviours": len(behs), "steps": steps, "mismatches": mism, "rejected": rejected, "unmaps": unmaps})
}

func TestVerifC01Trace(t *testing.T) {
	w := vx.NewWriter(t, "VERIF_OUT")
	defer w.Close()
	ncfg := vx.EnvInt("VERIF_N", 100)
	nreq := vx.EnvInt("VERIF_REQS", 20)
	r := vx.Rand(101)
	o := rgOpts{maxRules: 4, maxPaths: 4}
	client := vx.M{"fam": 4, "bits": rgBits(rgAddrNear(r, 4), 32), "txt": "203.0.113.9"}
	client["bits"] = []interface{}{1, 1, 0, 0, 1, 0, 1, 1, 0, 0, 0, 0, 0, 0, 0, 0, 0, 1, 1, 1, 0, 0, 0, 1, 0, 0, 0, 0, 1, 0, 0, 1}
	done, rejected := 0, 0
	for done < ncfg && rejected < 10*ncfg+100 {
		cfg := rgCfg(r, o)
		mx, err := rhNewMux(cfg, 0, false)
		if err != nil {
			rejected++
			w.Raw(vx.M{"ev": "rejected", "err": err.Error()})
			continue
		}
		done++
		w.Raw(vx.M{"ev": "cfg", "cfg": cfg})
		paths := rgReqPaths(r, cfg)
		for i := 0; i < nreq; i++ {
			q := rgReq(r, o, cfg, paths, []vx.M{client})
			got := rhServe(mx, q)
			w.Raw(vx.M{"ev": "req", "q": q, "ou": got, "oc": got, "zu": got, "zc": got, "cul": []interface{}{}})
		}
		mx.m.close()
	}
}

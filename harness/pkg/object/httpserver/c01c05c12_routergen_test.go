package httpserver

// Seeded generator of abstract router configurations and requests for the trace-validation halves
// of C01, C05 and C12: richer than the TLC universes (longer paths, up to 4 rules x 4 entries,
// several header matchers, ports, an IPv6 host, real IPv4/IPv6 addresses and CIDRs) but inside the
// grammar of specs/HttpRouter.tla (regular expressions of the family of specs/Strings.tla).
// Shared by the c01_, c05_ and c12_ harnesses; identifiers start with rg.

import (
	"fmt"
	"math/rand"
	"net/netip"
	"strings"

	vx "github.com/megaease/easegress/pkg/verifx"
)

type rgOpts struct {
	filters  bool // IP filters at the three levels, several client addresses
	fewKeys  bool // requests drawn from a small pool (so that the route cache is hit)
	maxRules int
	maxPaths int
}

var rgSegs = []string{"a", "b", "ab", "c", "a.b"}

// segments of decoded paths in which an escape sequence is left (a client sends "%2541" for
// "%41"): '%' is an ordinary character for matching and rewriting, nothing may decode it again
var rgPctSegs = []string{"%41", "a%2Fb", "%2e%2e", "50%", "%62"}
var rgHostNames = []string{"h", "g", "h.g", "www.h", "::1"}

// rgMethods: methods a configuration can list (first three are used in configurations) ...
var rgMethods = []string{"GET", "POST", "PUT", "DELETE"}

// ... and request methods no configuration can list (WebDAV, cache control, lower case: method
// tokens are case-sensitive)
var rgOddMethods = []string{"PROPFIND", "PURGE", "get", "Post", "M-SEARCH"}

func rgReqMethod(r *rand.Rand) string {
	if r.Intn(5) == 0 {
		return rgPick(r, rgOddMethods)
	}
	return rgPick(r, rgMethods)
}

var rgHdrVals = []string{"1", "2", "12", "21"}
var rgHdrKeys = []string{"X-A", "X-B"}

// separators of lists in header values
var rgHdrSeps = []string{",", ";", "|", ", "}

// rgHdrPartners: two requests like q whose values of the two headers differ only in where a
// separator sits: (v+sep, "") and (v, sep) for the headers in one order, ("", sep+v) and (sep, v)
// in the other - any folding of the values into one string around that separator reads the same
// for the two of a pair, the router sees different values.
func rgHdrPartners(r *rand.Rand, q vx.M) []vx.M {
	v := rgPick(r, rgHdrVals[:3])
	sep := rgPick(r, rgHdrSeps[:3])
	k1, k2 := rgHdrKeys[0], rgHdrKeys[1]
	if r.Intn(2) == 0 {
		k1, k2 = k2, k1
	}
	mk := func(a, b string) vx.M {
		c := vx.M{}
		for k, x := range q {
			c[k] = x
		}
		c["hdr"] = vx.M{k1: rhChars(a), k2: rhChars(b)}
		return c
	}
	if r.Intn(2) == 0 {
		return []vx.M{mk(v+sep, ""), mk(v, sep)}
	}
	return []vx.M{mk("", sep+v), mk(sep, v)}
}

func rgPick(r *rand.Rand, xs []string) string { return xs[r.Intn(len(xs))] }

func rgPath(r *rand.Rand) string {
	n := 1 + r.Intn(3)
	s := ""
	for i := 0; i < n; i++ {
		if r.Intn(8) == 0 {
			s += "/" + rgPick(r, rgPctSegs)
		} else {
			s += "/" + rgPick(r, rgSegs)
		}
	}
	if r.Intn(6) == 0 {
		s += "/"
	}
	return s
}

func rgNoRE() vx.M {
	return vx.M{"on": false, "anchS": false, "lit": []interface{}{}, "tail": false, "anchE": false}
}

func rgRE(r *rand.Rand, lit string) vx.M {
	return vx.M{"on": true, "anchS": r.Intn(2) == 0, "lit": rhChars(lit), "tail": r.Intn(3) == 0, "anchE": r.Intn(3) == 0}
}

func rgNoFilter() vx.M {
	return vx.M{"on": false, "allow": []interface{}{}, "block": []interface{}{}, "dflt": false}
}

// ---- addresses: real ones, with their bits computed by net/netip (independent of cidranger) ----

func rgBits(a netip.Addr, n int) []interface{} {
	b := a.AsSlice()
	out := make([]interface{}, 0, n)
	for i := 0; i < n; i++ {
		out = append(out, int((b[i/8]>>(7-uint(i%8)))&1))
	}
	return out
}

// a handful of public "home" networks the clients and the filter entries are drawn from, so that
// membership is neither always true nor always false
var rgHomes4 = []string{"203.0.113.0", "203.0.112.0", "198.51.100.128", "8.8.0.0", "100.64.3.0"}
var rgHomes6 = []string{"2001:db8::", "2001:db8:0:1::", "2001:db9::", "2400:cb00::"}

func rgAddrNear(r *rand.Rand, fam int) netip.Addr {
	var a netip.Addr
	if fam == 4 {
		a = netip.MustParseAddr(rgPick(r, rgHomes4))
	} else {
		a = netip.MustParseAddr(rgPick(r, rgHomes6))
	}
	b := a.AsSlice()
	// flip a few low bits, sometimes a high one
	for k := 0; k < 1+r.Intn(3); k++ {
		p := len(b)*8 - 1 - r.Intn(10)
		if r.Intn(8) == 0 {
			p = r.Intn(len(b) * 8)
		}
		b[p/8] ^= 1 << (7 - uint(p%8))
	}
	a, _ = netip.AddrFromSlice(b)
	return a
}

func rgAddr(r *rand.Rand) vx.M {
	fam := 4
	if r.Intn(3) == 0 {
		fam = 6
	}
	a := rgAddrNear(r, fam)
	return vx.M{"fam": fam, "bits": rgBits(a, a.BitLen()), "txt": a.String()}
}

// a filter entry: a bare address or a CIDR of any prefix length (host bits may be set: ParseCIDR masks)
func rgNet(r *rand.Rand) vx.M {
	fam := 4
	if r.Intn(3) == 0 {
		fam = 6
	}
	a := rgAddrNear(r, fam)
	full := a.BitLen()
	if r.Intn(3) == 0 {
		return vx.M{"fam": fam, "bits": rgBits(a, full), "txt": a.String()}
	}
	plen := full - r.Intn(12)
	switch r.Intn(6) {
	case 0:
		plen = r.Intn(full + 1)
	case 1:
		plen = full
	}
	if plen < 0 {
		plen = 0
	}
	return vx.M{"fam": fam, "bits": rgBits(a, plen), "txt": fmt.Sprintf("%s/%d", a.String(), plen)}
}

// rgNeighbour: the net of the same size right after (or before) n in address order (the prefix read
// as a number, plus or minus one): the other half of n's supernet, or the adjacent half of the next
// supernet. ok = false at the ends of the address space.
func rgNeighbour(r *rand.Rand, n vx.M) (vx.M, bool) {
	fam := vx.Int(n["fam"])
	full := 32
	if fam == 6 {
		full = 128
	}
	src := vx.List(n["bits"])
	plen := len(src)
	bits := make([]int, plen)
	for i, x := range src {
		bits[i] = vx.Int(x)
	}
	up := r.Intn(2) == 0
	i := plen - 1
	for ; i >= 0; i-- {
		if (bits[i] == 0) == up {
			bits[i] ^= 1
			break
		}
		bits[i] ^= 1
	}
	if i < 0 {
		return nil, false
	}
	b := make([]byte, full/8)
	for i, x := range bits {
		if x != 0 {
			b[i/8] |= 1 << (7 - uint(i%8))
		}
	}
	a, _ := netip.AddrFromSlice(b)
	if a.Is4In6() {
		return nil, false
	}
	txt := fmt.Sprintf("%s/%d", a.String(), plen)
	if plen == full && !strings.Contains(vx.Str(n["txt"]), "/") {
		txt = a.String()
	}
	return vx.M{"fam": fam, "bits": rgBits(a, plen), "txt": txt}, true
}

func rgFilter(r *rand.Rand, p int) vx.M {
	if r.Intn(100) >= p {
		return rgNoFilter()
	}
	al, bl := []interface{}{}, []interface{}{}
	seen := map[string]bool{}
	add := func(dst *[]interface{}, n int) {
		for i := 0; i < n; i++ {
			x := rgNet(r)
			if seen[vx.Str(x["txt"])+fmt.Sprint(dst == &al)] { // uniqueItems per list
				continue
			}
			seen[vx.Str(x["txt"])+fmt.Sprint(dst == &al)] = true
			*dst = append(*dst, x)
		}
	}
	add(&al, r.Intn(3))
	add(&bl, r.Intn(3))
	if len(al) > 0 && len(bl) > 0 && r.Intn(4) == 0 { // the same entry on both lists
		bl = append(bl, al[0])
	}
	return vx.M{"on": true, "allow": al, "block": bl, "dflt": r.Intn(3) == 0}
}

// ---- configuration ------------------------------------------------------------------------------

func rgEntry(r *rand.Rand, o rgOpts, i, j int, mapper *[]interface{}) vx.M {
	e := vx.M{"path": []interface{}{}, "prefix": []interface{}{}, "re": rgNoRE(), "methods": []interface{}{},
		"headers": []interface{}{}, "matchAll": r.Intn(2) == 0, "rewrite": []interface{}{}, "ipf": rgNoFilter()}
	kinds := 0
	if r.Intn(100) < 40 {
		e["path"] = rhChars(rgPath(r))
		kinds++
	}
	if r.Intn(100) < 40 {
		p := rgPath(r)
		cut := 1 + r.Intn(len(p))
		e["prefix"] = rhChars(p[:cut])
		kinds++
	}
	if r.Intn(100) < 30 || (kinds == 0 && r.Intn(100) < 85) {
		p := rgPath(r)
		a := r.Intn(len(p))
		b := a + 1 + r.Intn(len(p)-a)
		e["re"] = rgRE(r, p[a:b])
		kinds++
	}
	if r.Intn(3) == 0 {
		ms := []interface{}{}
		for _, m := range rgMethods[:3] {
			if r.Intn(2) == 0 {
				ms = append(ms, rhChars(m))
			}
		}
		e["methods"] = ms
	}
	nh := 0
	switch x := r.Intn(10); {
	case x < 6:
		nh = 0
	case x < 8:
		nh = 1
	default:
		nh = 2
	}
	hs := []interface{}{}
	for k := 0; k < nh; k++ {
		h := vx.M{"key": rgHdrKeys[(k+r.Intn(2))%2], "values": []interface{}{}, "re": rgNoRE()}
		vals := []interface{}{}
		for _, v := range rgHdrVals[:3] {
			if r.Intn(3) == 0 {
				vals = append(vals, rhChars(v))
			}
		}
		// conditions that the empty string satisfies - and with it a request that does not carry the
		// header at all: "" among the values, a regexp with nothing between its anchors (^$, ^(.*)$, $)
		if r.Intn(5) == 0 {
			vals = append(vals, rhChars(""))
		}
		h["values"] = vals
		if len(vals) == 0 || r.Intn(3) == 0 {
			re := rgRE(r, rgPick(r, []string{"1", "2", "12", ""}))
			if vx.Chars(re["lit"]) == "" && !vx.Bool(re["anchS"]) && !vx.Bool(re["tail"]) && !vx.Bool(re["anchE"]) {
				re["anchS"], re["anchE"] = true, true // (an expression with nothing in it cannot be written down)
			}
			h["re"] = re
		}
		hs = append(hs, h)
	}
	e["headers"] = hs
	if kinds > 0 && r.Intn(100) < 40 {
		e["rewrite"] = rhChars(rgPick(r, []string{"/x", "/y/", "/x/$1", "$1", "/$1/z", "/n$1", "/", "/x%20y", "/%41/$1"}))
	}
	if o.filters {
		e["ipf"] = rgFilter(r, 25)
	}
	name := fmt.Sprintf("b%d_%d", i, j)
	e["backend"] = name
	if r.Intn(20) != 0 {
		*mapper = append(*mapper, name)
	}
	return e
}

func rgCfg(r *rand.Rand, o rgOpts) vx.M {
	mapper := []interface{}{}
	rules := []interface{}{}
	nr := r.Intn(o.maxRules + 1)
	var prev []vx.M // the entries generated so far (all rules)
	// tenants: every rule is for a host of its own and (mostly) has a filter of its own
	tenants := o.filters && r.Intn(4) == 0
	if tenants && nr < 2 {
		nr = 2
	}
	hostAt := r.Intn(len(rgHostNames))
	for i := 1; i <= nr; i++ {
		rule := vx.M{"host": []interface{}{}, "hostRE": rgNoRE(), "ipf": rgNoFilter()}
		kind := r.Intn(6)
		if tenants {
			kind = 6
			rule["host"] = rhChars(rgHostNames[(hostAt+i)%len(rgHostNames)])
		}
		switch kind { // half of the rules have no host condition
		case 0:
			rule["host"] = rhChars(rgPick(r, rgHostNames))
		case 1:
			rule["hostRE"] = rgRE(r, rgPick(r, []string{"h", "g", ".g", "www", "::"}))
		case 2:
			rule["host"] = rhChars(rgPick(r, rgHostNames))
			rule["hostRE"] = rgRE(r, rgPick(r, []string{"h", "g"}))
		}
		np := r.Intn(o.maxPaths + 1)
		if o.filters {
			rule["ipf"] = rgFilter(r, 40)
			if tenants {
				rule["ipf"] = rgFilter(r, 85)
			}
			// a rule that is mostly a gate: a filter for its hosts and few entries of its own, so
			// that requests pass it on the way to a later rule
			if vx.Bool(rule["ipf"].(vx.M)["on"]) && r.Intn(2) == 0 {
				np = r.Intn(2)
			}
		}
		paths := []interface{}{}
		for j := 1; j <= np; j++ {
			e := rgEntry(r, o, i, j, &mapper)
			// a sibling of an earlier entry: the same URL condition, so that the two differ in
			// methods, headers, rewrite or filter only (a restricted entry ahead of a general one,
			// or behind it)
			if len(prev) > 0 && r.Intn(3) == 0 {
				p := prev[r.Intn(len(prev))]
				for _, k := range []string{"path", "prefix", "re"} {
					e[k] = p[k]
				}
				if vx.Chars(e["path"]) == "" && vx.Chars(e["prefix"]) == "" && !vx.Bool(e["re"].(vx.M)["on"]) {
					e["rewrite"] = []interface{}{} // rewriteTarget needs a path condition
				}
			}
			prev = append(prev, e)
			paths = append(paths, e)
		}
		rule["paths"] = paths
		rules = append(rules, rule)
	}
	cfg := vx.M{"ipf": rgNoFilter(), "rules": rules, "mapper": mapper}
	if o.filters {
		cfg["ipf"] = rgFilter(r, 30)
	}
	return cfg
}

// ---- requests -----------------------------------------------------------------------------------

// paths that have a chance to match: the configured ones, extended or shortened, and random ones
func rgReqPaths(r *rand.Rand, cfg vx.M) []string {
	out := []string{}
	for _, rv := range vx.List(cfg["rules"]) {
		for _, ev := range vx.List(rv.(vx.M)["paths"]) {
			e := ev.(vx.M)
			for _, k := range []string{"path", "prefix"} {
				if s := vx.Chars(e[k]); s != "" {
					out = append(out, s, s+"/"+rgPick(r, rgSegs), s+rgPick(r, rgSegs))
				}
			}
			if re := e["re"].(vx.M); vx.Bool(re["on"]) {
				l := vx.Chars(re["lit"])
				out = append(out, "/"+l, l+"/"+rgPick(r, rgSegs), "/"+rgPick(r, rgSegs)+l, "/"+l+l)
			}
		}
	}
	for i := 0; i < 3; i++ {
		out = append(out, rgPath(r))
	}
	// keep absolute paths only (a literal taken from the middle of a path may lack the slash)
	res := []string{}
	for _, p := range out {
		if len(p) > 0 && p[0] == '/' {
			res = append(res, p)
		}
	}
	return res
}

func rgHost(r *rand.Rand, cfg vx.M) string {
	h := rgPick(r, rgHostNames)
	// more often than not a host some rule is configured for
	if rules := vx.List(cfg["rules"]); len(rules) > 0 && r.Intn(3) != 0 {
		if x := vx.Chars(rules[r.Intn(len(rules))].(vx.M)["host"]); x != "" {
			h = x
		}
	}
	switch r.Intn(3) {
	case 0:
		if h == "::1" {
			return "[::1]:80"
		}
		return h + ":" + rgPick(r, []string{"80", "8080"})
	}
	if h == "::1" {
		return "[::1]:8080"
	}
	return h
}

func rgReq(r *rand.Rand, o rgOpts, cfg vx.M, paths []string, clients []vx.M) vx.M {
	hdr := vx.M{}
	for _, k := range rgHdrKeys {
		if r.Intn(2) == 0 {
			hdr[k] = rhChars(rgPick(r, append(rgHdrVals, "3")))
			// values with a list separator in them (as Accept, User-Agent, Cookie values have)
			switch r.Intn(12) {
			case 0:
				hdr[k] = rhChars(vx.Chars(hdr[k]) + rgPick(r, rgHdrSeps[:3]))
			case 1:
				hdr[k] = rhChars(rgPick(r, rgHdrSeps[:3]) + vx.Chars(hdr[k]))
			case 2:
				hdr[k] = rhChars(vx.Chars(hdr[k]) + rgPick(r, rgHdrSeps) + rgPick(r, rgHdrVals))
			}
		} else {
			hdr[k] = []interface{}{}
		}
	}
	q := vx.M{"host": rhChars(rgHost(r, cfg)), "m": rhChars(rgReqMethod(r)), "path": rhChars(rgPick(r, paths)),
		"hdr": hdr, "ip": clients[r.Intn(len(clients))]}
	if o.filters {
		q = rgVia(r, q)
	}
	return q
}

// rgVia chooses how the client address reaches the server: RemoteAddr, X-Forwarded-For or
// X-Real-IP alone, or an X-Forwarded-For chain in which the client is the only public address
// among private / loopback / link-local proxy hops ("xffchain"; "xrichain": such hops only, the
// client in X-Real-IP). Which of several public addresses is "the client" is not for C05 to say:
// such requests are not generated. Clients with a non-public address are only unambiguous through
// RemoteAddr.
func rgVia(r *rand.Rand, q vx.M) vx.M {
	q["via"] = rgPick(r, []string{"remote", "remote", "xff", "xri", "xffchain", "xffchain", "xrichain"})
	delete(q, "hops")
	a, err := netip.ParseAddr(rhAddrString(q["ip"]))
	a = a.Unmap()
	if err != nil || a.IsPrivate() || a.IsLoopback() || a.IsLinkLocalUnicast() || a.IsUnspecified() {
		q["via"] = "remote"
	}
	if v := vx.Str(q["via"]); v == "xffchain" || v == "xrichain" {
		hops := []interface{}{}
		for i := r.Intn(3); i >= 0; i-- {
			hops = append(hops, rgPick(r, rhHopPool))
		}
		at := r.Intn(len(hops) + 1) // the client's place: more often than not behind the hops
		if r.Intn(2) == 0 {
			at = len(hops)
		}
		hops = append(hops[:at], append([]interface{}{"*"}, hops[at:]...)...)
		q["hops"] = hops
	}
	return q
}

// rgNotate: another spelling of the same client address - an IPv4 address in IPv4-mapped IPv6
// notation (::ffff:a.b.c.d denotes the IPv4 host a.b.c.d), an IPv6 address fully expanded or in
// upper case. The abstract address {fam, bits} is unchanged.
func rgNotate(r *rand.Rand, c vx.M) vx.M {
	a, err := netip.ParseAddr(vx.Str(c["txt"]))
	if err != nil || r.Intn(4) != 0 {
		return c
	}
	out := vx.M{"fam": c["fam"], "bits": c["bits"]}
	switch {
	case a.Is4():
		out["txt"] = "::ffff:" + a.String()
	case r.Intn(2) == 0:
		out["txt"] = a.StringExpanded()
	default:
		out["txt"] = strings.ToUpper(a.String())
	}
	return out
}

// clients: addresses near the configured nets (inside, just outside) and unrelated ones
func rgClients(r *rand.Rand, cfg vx.M, n int) []vx.M {
	out := []vx.M{}
	var nets []vx.M
	var walk func(f interface{})
	walk = func(f interface{}) {
		fm := f.(vx.M)
		for _, k := range []string{"allow", "block"} {
			for _, x := range vx.List(fm[k]) {
				nets = append(nets, x.(vx.M))
			}
		}
	}
	walk(cfg["ipf"])
	for _, rv := range vx.List(cfg["rules"]) {
		walk(rv.(vx.M)["ipf"])
		for _, ev := range vx.List(rv.(vx.M)["paths"]) {
			walk(ev.(vx.M)["ipf"])
		}
	}
	for len(out) < n {
		if len(nets) > 0 && r.Intn(4) != 0 {
			out = append(out, rgNotate(r, rgAddrAround(r, nets[r.Intn(len(nets))])))
		} else {
			out = append(out, rgNotate(r, rgAddr(r)))
		}
	}
	return out
}

// rgAddrAround: an address related to the net: inside it, with the first bit after the prefix
// flipped relative to the entry's address, with the last prefix bit flipped, or with the last bit
// of the address flipped.
func rgAddrAround(r *rand.Rand, n vx.M) vx.M {
	fam := vx.Int(n["fam"])
	full := 32
	if fam == 6 {
		full = 128
	}
	bits := vx.List(n["bits"])
	b := make([]byte, full/8)
	for i, x := range bits {
		if vx.Int(x) != 0 {
			b[i/8] |= 1 << (7 - uint(i%8))
		}
	}
	// random host part
	for i := len(bits); i < full; i++ {
		if r.Intn(2) == 0 {
			b[i/8] |= 1 << (7 - uint(i%8))
		}
	}
	flip := func(p int) {
		if p >= 0 && p < full {
			b[p/8] ^= 1 << (7 - uint(p%8))
		}
	}
	switch r.Intn(5) {
	case 0:
		flip(len(bits) - 1) // just outside: last prefix bit
	case 1:
		flip(r.Intn(full)) // anywhere
	case 2:
		flip(full - 1)
	}
	a, _ := netip.AddrFromSlice(b)
	return vx.M{"fam": fam, "bits": rgBits(a, full), "txt": a.String()}
}

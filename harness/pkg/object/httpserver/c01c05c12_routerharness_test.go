package httpserver

// Shared part of the harnesses for C01, C05 and C12 (DESIGN 5): renders an abstract router
// configuration (the records of specs/HttpRouter.tla, as JSON) to a real HTTPServer spec, builds a
// real mux from it through supervisor.NewSpec + mux.reload, drives mux.ServeHTTP with abstract
// requests and reports the abstract outcome {code, be, path}.  All identifiers start with rh.
// (The file is unprefixed so that the driver compiles it into the c01_, c05_ and c12_ harnesses.)

import (
	"encoding/json"
	"fmt"
	"hash/fnv"
	"net"
	"net/http"
	"net/http/httptest"
	"net/netip"
	"net/url"
	"regexp"
	"sort"
	"strings"

	"github.com/megaease/easegress/pkg/context"
	"github.com/megaease/easegress/pkg/logger"
	"github.com/megaease/easegress/pkg/protocols/httpprot"
	"github.com/megaease/easegress/pkg/protocols/httpprot/httpstat"
	"github.com/megaease/easegress/pkg/supervisor"
	vx "github.com/megaease/easegress/pkg/verifx"
)

func init() { logger.InitNop() }

// ---- strings ----------------------------------------------------------------------------------

// rhChars is the specs' string representation: a JSON array of one-character strings.
func rhChars(s string) []interface{} {
	out := make([]interface{}, 0, len(s))
	for _, r := range s {
		out = append(out, string(r))
	}
	return out
}

// rhRE renders a member of the regexp family of Strings.tla: ^? quote(lit) (.*)? $?
func rhRE(v interface{}) string {
	re, _ := v.(vx.M)
	if re == nil || !vx.Bool(re["on"]) {
		return ""
	}
	s := ""
	if vx.Bool(re["anchS"]) {
		s += "^"
	}
	s += regexp.QuoteMeta(vx.Chars(re["lit"]))
	if vx.Bool(re["tail"]) {
		s += "(.*)"
	}
	if vx.Bool(re["anchE"]) {
		s += "$"
	}
	return s
}

// ---- addresses --------------------------------------------------------------------------------

// rhWidth is the number of bits of a model address (BitWidth of the specs' universes).
var rhWidth = vx.EnvInt("VERIF_W", 2)

// Model addresses have rhWidth bits: they are the last bits below a fixed public base
// (203.0.113.0, 2001:db8::), so that realip does not discard them as private. Values with more
// bits than that are real addresses / prefixes.
func rhBitsToAddr(fam int, bits []interface{}) (netip.Addr, int) {
	full := 32
	var b [16]byte
	var base []byte
	if fam == 6 {
		full = 128
		base = []byte{0x20, 0x01, 0x0d, 0xb8, 0, 0, 0, 0, 0, 0, 0, 0, 0, 0, 0, 0}
	} else {
		base = []byte{203, 0, 113, 0}
	}
	n := full / 8
	off := 0
	if len(bits) <= rhWidth { // model width
		copy(b[:n], base)
		off = full - rhWidth
	}
	for i, x := range bits {
		if vx.Int(x) != 0 {
			p := off + i
			b[p/8] |= 1 << (7 - uint(p%8))
		}
	}
	plen := off + len(bits)
	if fam == 6 {
		return netip.AddrFrom16(b), plen
	}
	return netip.AddrFrom4([4]byte{b[0], b[1], b[2], b[3]}), plen
}

// rhAddrString: the textual client address of an abstract address {fam, bits[, txt]}.
func rhAddrString(v interface{}) string {
	a := v.(vx.M)
	if t := vx.Str(a["txt"]); t != "" {
		return t
	}
	ad, _ := rhBitsToAddr(vx.Int(a["fam"]), vx.List(a["bits"]))
	return ad.String()
}

// rhNetString: the configuration entry of an abstract net {fam, bits[, txt]}: an address when the
// prefix has full length and the model asks for it, a CIDR otherwise.
func rhNetString(v interface{}) string {
	n := v.(vx.M)
	if t := vx.Str(n["txt"]); t != "" {
		return t
	}
	ad, plen := rhBitsToAddr(vx.Int(n["fam"]), vx.List(n["bits"]))
	if plen == ad.BitLen() && !vx.Bool(n["cidr"]) {
		return ad.String() // bare address: the code chooses the /32 resp. /128 mask itself
	}
	return fmt.Sprintf("%s/%d", ad.String(), plen)
}

func rhFilterSpec(v interface{}, strip bool) interface{} {
	f, _ := v.(vx.M)
	if strip || f == nil || !vx.Bool(f["on"]) {
		return nil
	}
	al, bl := []string{}, []string{}
	for _, n := range vx.List(f["allow"]) {
		al = append(al, rhNetString(n))
	}
	for _, n := range vx.List(f["block"]) {
		bl = append(bl, rhNetString(n))
	}
	return map[string]interface{}{"blockByDefault": vx.Bool(f["dflt"]), "allowIPs": al, "blockIPs": bl}
}

// ---- configuration ------------------------------------------------------------------------------

func rhStrs(v interface{}) []string {
	out := []string{}
	for _, s := range vx.List(v) {
		out = append(out, vx.Chars(s))
	}
	return out
}

// rhSpecText renders the abstract configuration as an HTTPServer spec (JSON, which is YAML).
func rhSpecText(cfg vx.M, cacheSize int, strip bool) string {
	rules := []interface{}{}
	for _, rv := range vx.List(cfg["rules"]) {
		r := rv.(vx.M)
		paths := []interface{}{}
		for _, ev := range vx.List(r["paths"]) {
			e := ev.(vx.M)
			p := map[string]interface{}{"backend": vx.Str(e["backend"])}
			if s := vx.Chars(e["path"]); s != "" {
				p["path"] = s
			}
			if s := vx.Chars(e["prefix"]); s != "" {
				p["pathPrefix"] = s
			}
			if s := rhRE(e["re"]); s != "" {
				p["pathRegexp"] = s
			}
			if s := vx.Chars(e["rewrite"]); s != "" {
				p["rewriteTarget"] = s
			}
			if ms := rhStrs(e["methods"]); len(ms) > 0 {
				p["methods"] = ms
			}
			hs := []interface{}{}
			for _, hv := range vx.List(e["headers"]) {
				h := hv.(vx.M)
				hm := map[string]interface{}{"key": vx.Str(h["key"])}
				if vs := rhStrs(h["values"]); len(vs) > 0 {
					hm["values"] = vs
				}
				if s := rhRE(h["re"]); s != "" {
					hm["regexp"] = s
				}
				hs = append(hs, hm)
			}
			if len(hs) > 0 {
				p["headers"] = hs
			}
			if vx.Bool(e["matchAll"]) {
				p["matchAllHeader"] = true
			}
			if f := rhFilterSpec(e["ipf"], strip); f != nil {
				p["ipFilter"] = f
			}
			paths = append(paths, p)
		}
		rm := map[string]interface{}{"paths": paths}
		if s := vx.Chars(r["host"]); s != "" {
			rm["host"] = s
		}
		if s := rhRE(r["hostRE"]); s != "" {
			rm["hostRegexp"] = s
		}
		if f := rhFilterSpec(r["ipf"], strip); f != nil {
			rm["ipFilter"] = f
		}
		rules = append(rules, rm)
	}
	top := map[string]interface{}{"kind": "HTTPServer", "name": "verif", "port": 10080, "keepAlive": true,
		"https": false, "cacheSize": cacheSize, "rules": rules}
	if f := rhFilterSpec(cfg["ipf"], strip); f != nil {
		top["ipFilter"] = f
	}
	b, err := json.Marshal(top)
	if err != nil {
		panic(err)
	}
	return string(b)
}

// rhRecorder is the MuxMapper: the table of cfg.mapper (backend name -> label of the instance that
// is registered under the name now) and a record of what the chosen handler sees. A handler is one
// instance: it reports the label it was created with, whatever the table says by the time it is
// called (the table changes without a reload of the mux: rhMapStep).
type rhRecorder struct {
	known  map[string]string
	called int
	name   string // label of the instance that was invoked
	path   string
	host   string
}

type rhHandler struct {
	rec  *rhRecorder
	name string
}

// rhMapStep applies a step of the environment to the table behind the mapper (HttpRouter!Unmap,
// Map, Remap): {"a":"unmap","be":b}, {"a":"map"|"remap","be":b,"inst":label}. False for other steps.
func (x *rhMux) rhMapStep(st vx.M) bool {
	switch vx.Str(st["a"]) {
	case "unmap":
		delete(x.rec.known, vx.Str(st["be"]))
	case "map", "remap":
		x.rec.known[vx.Str(st["be"])] = vx.Str(st["inst"])
	default:
		return false
	}
	return true
}

func (h *rhHandler) Handle(ctx *context.Context) string {
	h.rec.called++
	h.rec.name = h.name
	if req, ok := ctx.GetRequest(context.DefaultNamespace).(*httpprot.Request); ok && req != nil {
		h.rec.path = req.Path()
		h.rec.host = req.Host()
	}
	resp, _ := httpprot.NewResponse(nil)
	resp.SetStatusCode(http.StatusOK)
	ctx.SetResponse(context.DefaultNamespace, resp)
	return ""
}

func (r *rhRecorder) GetHandler(name string) (context.Handler, bool) {
	label, ok := r.known[name]
	if !ok {
		return nil, false
	}
	return &rhHandler{rec: r, name: label}, true
}

type rhMux struct {
	m    *mux
	rec  *rhRecorder
	spec string
}

// rhNewMux builds a real mux for the abstract configuration; err != nil when the specification is
// rejected by easegress' own validation (a generator problem, never a verdict).
func rhNewMux(cfg vx.M, cacheSize int, strip bool) (*rhMux, error) {
	rec := &rhRecorder{known: map[string]string{}}
	if tab, ok := cfg["mapper"].(vx.M); ok { // name -> instance label (TLC-generated configurations)
		for b, l := range tab {
			rec.known[b] = vx.Str(l)
		}
	}
	if names, ok := cfg["mapper"].([]interface{}); ok { // names; each stands for the instance of that name
		for _, b := range names {
			rec.known[vx.Str(b)] = vx.Str(b)
		}
	}
	text := rhSpecText(cfg, cacheSize, strip)
	superSpec, err := supervisor.NewSpec(text)
	if err != nil {
		return nil, fmt.Errorf("spec rejected: %v: %s", err, text)
	}
	m := newMux(httpstat.New(), httpstat.NewTopN(10), rec)
	m.reload(superSpec, rec)
	return &rhMux{m: m, rec: rec, spec: text}, nil
}

func (x *rhMux) purge() {
	if c := x.m.inst.Load().(*muxInstance).cache; c != nil {
		c.Purge()
	}
}

// ---- requests -----------------------------------------------------------------------------------

// rhServe drives mux.ServeHTTP with the abstract request q = {host, m, path, hdr, ip[, via]} and
// returns the abstract outcome {code, be, path}: code 0 = the backend `be` was invoked and saw
// `path`; otherwise the status written to the client.
func rhServe(x *rhMux, q vx.M) vx.M {
	ip := rhAddrString(q["ip"])
	stdr := &http.Request{
		Method:     vx.Chars(q["m"]),
		URL:        &url.URL{Scheme: "http", Host: vx.Chars(q["host"]), Path: vx.Chars(q["path"])},
		Proto:      "HTTP/1.1",
		ProtoMajor: 1,
		ProtoMinor: 1,
		Header:     http.Header{},
		Body:       http.NoBody,
		Host:       vx.Chars(q["host"]),
		RequestURI: vx.Chars(q["path"]),
	}
	if hdr, ok := q["hdr"].(vx.M); ok {
		for k, v := range hdr {
			if s := vx.Chars(v); s != "" {
				stdr.Header.Set(k, s)
			}
		}
	}
	decoy := "198.51.100.7:4000"
	switch vx.Str(q["via"]) {
	case "xff":
		stdr.Header.Set("X-Forwarded-For", ip)
		stdr.RemoteAddr = decoy
	case "xri":
		stdr.Header.Set("X-Real-Ip", ip)
		stdr.RemoteAddr = decoy
	case "xffchain":
		// the client is the only public address the request names: X-Forwarded-For lists it among
		// private / loopback / link-local proxy hops, the connection comes from a private proxy
		chain := []string{}
		for _, h := range rhHops(q) {
			if h == "*" {
				h = ip
			}
			chain = append(chain, h)
		}
		stdr.Header.Set("X-Forwarded-For", strings.Join(chain, ", "))
		stdr.RemoteAddr = rhPrivateProxy
	case "xrichain":
		// X-Forwarded-For names non-public hops only, X-Real-IP the client, the connection comes
		// from a private proxy: again one public address in all
		chain := []string{}
		for _, h := range rhHops(q) {
			if h != "*" {
				chain = append(chain, h)
			}
		}
		stdr.Header.Set("X-Forwarded-For", strings.Join(chain, ", "))
		stdr.Header.Set("X-Real-Ip", ip)
		stdr.RemoteAddr = rhPrivateProxy
	default:
		stdr.RemoteAddr = net.JoinHostPort(ip, "4000")
	}
	x.rec.called = 0
	w := httptest.NewRecorder()
	if rhPanics(func() { x.m.ServeHTTP(w, stdr) }) && x.rec.called == 0 {
		// the handler goroutine of net/http would abort the connection: the client gets no status at
		// all. Recorded as an outcome (no contract outcome has this code), not as a harness failure.
		return vx.M{"code": rhPanicCode, "be": "", "path": []interface{}{}}
	}
	if x.rec.called > 0 {
		return vx.M{"code": 0, "be": x.rec.name, "path": rhChars(x.rec.path)}
	}
	return vx.M{"code": w.Code, "be": "", "path": []interface{}{}}
}

const rhPanicCode = 599

func rhPanics(f func()) (p bool) {
	defer func() {
		if recover() != nil {
			p = true
		}
	}()
	f()
	return false
}

const rhPrivateProxy = "10.0.0.7:4000"

// rhHopPool: addresses of proxy hops that are not public under any reading: RFC 1918 private,
// loopback, link-local (IPv4 and IPv6), IPv6 unique local.
var rhHopPool = []string{"10.0.0.1", "169.254.169.254", "192.168.1.1", "fe80::1", "172.16.0.9", "127.0.0.1", "169.254.0.3",
	"::1", "fe80::a:b", "fc00::1", "10.255.255.254", "fd12:3456::5"}

// rhHops: the X-Forwarded-For chain of a request sent "via" a chain: q["hops"] when the generator
// chose one, otherwise derived from the request itself (so that a request is always sent the same
// way): one to three hops from rhHopPool, "*" marking the client's place among them.
func rhHops(q vx.M) []string {
	if hs := vx.List(q["hops"]); len(hs) > 0 {
		out := []string{}
		for _, h := range hs {
			out = append(out, vx.Str(h))
		}
		return out
	}
	h := fnv.New32a()
	h.Write([]byte(rhAddrString(q["ip"]) + "|" + vx.Chars(q["host"]) + "|" + vx.Chars(q["m"]) + "|" + vx.Chars(q["path"]) + "|" + rhHdrString(q)))
	x := int(h.Sum32() >> 3)
	pick := func() string {
		s := rhHopPool[x%len(rhHopPool)]
		x /= len(rhHopPool)
		return s
	}
	var out []string
	switch x % 4 {
	case 0:
		x /= 4
		out = []string{pick(), "*"}
	case 1:
		x /= 4
		out = []string{"*", pick()}
	case 2:
		x /= 4
		out = []string{pick(), pick(), "*"}
	default:
		x /= 4
		out = []string{pick(), "*", pick()}
	}
	return out
}

func rhSame(a, b vx.M) bool {
	return vx.Int(a["code"]) == vx.Int(b["code"]) && vx.Str(a["be"]) == vx.Str(b["be"]) &&
		vx.Chars(a["path"]) == vx.Chars(b["path"])
}

func rhShow(o vx.M) string {
	if vx.Int(o["code"]) == 0 {
		return fmt.Sprintf("backend %s sees %q", vx.Str(o["be"]), vx.Chars(o["path"]))
	}
	return fmt.Sprintf("status %d", vx.Int(o["code"]))
}

// rhTriple: host, method, path of a request.
func rhTriple(q vx.M) [3]string {
	return [3]string{vx.Chars(q["host"]), vx.Chars(q["m"]), vx.Chars(q["path"])}
}

func rhHdrString(q vx.M) string {
	hdr, _ := q["hdr"].(vx.M)
	keys := []string{}
	for k, v := range hdr {
		if s := vx.Chars(v); s != "" {
			keys = append(keys, k+"="+s)
		}
	}
	// order-insensitive
	for i := range keys {
		for j := i + 1; j < len(keys); j++ {
			if keys[j] < keys[i] {
				keys[i], keys[j] = keys[j], keys[i]
			}
		}
	}
	return strings.Join(keys, ";")
}

// ---- diagnosis of cache divergences --------------------------------------------------------------

func rhKey(q vx.M) string {
	b, _ := json.Marshal(vx.M{"h": q["host"], "m": q["m"], "p": q["path"], "hdr": rhHdrString(q), "ip": rhAddrString(q["ip"]), "via": q["via"], "hops": q["hops"]})
	return string(b)
}

// rhCulprit: an earlier request p of the history such that a fresh mux with the cache on, fed p
// and then q, gives q the same wrong answer `wrong` that was observed (the request that stored the
// cache entry always does). Candidates closest to q (same key, then same headers, then same
// client) are tried first.
func rhCulprit(cfg vx.M, cs int, hist []vx.M, q vx.M, wrong vx.M) (vx.M, bool) {
	seen := map[string]bool{}
	var cands []vx.M
	for i := len(hist) - 1; i >= 0 && len(cands) < 60; i-- {
		k := rhKey(hist[i])
		if !seen[k] {
			seen[k] = true
			cands = append(cands, hist[i])
		}
	}
	dist := func(p vx.M) int {
		d := 0
		if rhTriple(p) != rhTriple(q) {
			d += 4
		}
		if rhHdrString(p) != rhHdrString(q) {
			d += 2
		}
		if rhAddrString(p["ip"]) != rhAddrString(q["ip"]) {
			d++
		}
		return d
	}
	sort.SliceStable(cands, func(a, b int) bool { return dist(cands[a]) < dist(cands[b]) })
	for _, p := range cands {
		mx, err := rhNewMux(cfg, cs, false)
		if err != nil {
			return nil, false
		}
		rhServe(mx, p)
		got := rhServe(mx, q)
		mx.m.close()
		if rhSame(got, wrong) {
			return p, true
		}
	}
	return nil, false
}

package httpserver

// Harness for C05, second half (DESIGN 5/C05): IP filters at server, rule and path level of the
// real mux, with and without the route cache.
// Four real muxes are built from every configuration: with the filters (route cache off / on) and
// the filter-less twins of the two.
//   TestVerifC05Replay - replays TLC-generated behaviours; every request record carries the
//                        contract's verdicts: den (the client is denied by a filter applying to the
//                        request), own (the route the request belongs to), all (the client is
//                        allowed by every filter of the server), c01 (what the routing rules say),
//                        amb (denied only by the filter of a host-matching rule passed over on the
//                        way to the route: C05 (iii), cached mux against the cache-less one) (MBT)
//   TestVerifC05Trace  - seeded random configurations with real IPv4/IPv6 filters (incl. adjacent
//                        nets of one size in one list), clients taken from RemoteAddr /
//                        X-Forwarded-For / X-Real-IP, alone or as the only public address of a
//                        chain of private / loopback / link-local proxy hops (HttpRouter.tla:
//                        req.via), request sequences over a small key space; observations of the
//                        four muxes recorded for TLC (TV)

import (
	"testing"

	vx "github.com/megaease/easegress/pkg/verifx"
)

type c05Quad struct {
	fu, fc, zu, zc *rhMux
}

func c05NewQuad(cfg vx.M, cs int) (*c05Quad, error) {
	fu, err := rhNewMux(cfg, 0, false)
	if err != nil {
		return nil, err
	}
	fc, _ := rhNewMux(cfg, cs, false)
	zu, _ := rhNewMux(cfg, 0, true)
	zc, _ := rhNewMux(cfg, cs, true)
	return &c05Quad{fu, fc, zu, zc}, nil
}

func (x *c05Quad) close() {
	for _, m := range []*rhMux{x.fu, x.fc, x.zu, x.zc} {
		m.m.close()
	}
}

func TestVerifC05Replay(t *testing.T) {
	behs := vx.ReadBehaviours(t, "VERIF_IN")
	w := vx.NewWriter(t, "VERIF_OUT")
	defer w.Close()
	sizes := []int{64, 1, 2, 3}
	steps, mism, rejected, denied, allowed, passed := 0, 0, 0, 0, 0, 0
	for bi, beh := range behs {
		if len(beh) == 0 || vx.Str(beh[0]["a"]) != "cfg" {
			t.Fatalf("behaviour %d does not start with cfg", bi)
		}
		cfg := beh[0]["cfg"].(vx.M)
		cs := sizes[bi%len(sizes)]
		x, err := c05NewQuad(cfg, cs)
		if err != nil {
			rejected++
			w.Raw(vx.M{"k": "rejected", "b": bi, "err": err.Error()})
			continue
		}
		var hist []vx.M
		for si, st := range beh[1:] {
			switch vx.Str(st["a"]) {
			case "purge":
				x.fc.purge()
				x.zc.purge()
				hist = nil
			case "req":
				steps++
				q := st["q"].(vx.M)
				den, all, amb := vx.Bool(st["den"]), vx.Bool(st["all"]), vx.Bool(st["amb"])
				own := st["own"].(vx.M)
				c01 := st["c01"].(vx.M)
				ou, oc, zu, zc := rhServe(x.fu, q), rhServe(x.fc, q), rhServe(x.zu, q), rhServe(x.zc, q)
				if den {
					denied++
				}
				if amb {
					passed++
				}
				if all {
					allowed++
				}
				for _, c := range []struct {
					cache bool
					o, z  vx.M
				}{{false, ou, zu}, {true, oc, zc}} {
					clause := ""
					code := vx.Int(c.o["code"])
					if den && (code < 400 || code > 499 || (vx.Int(own["code"]) == 0 && code != 403)) {
						clause = "i"
					} else if all && !rhSame(c.o, c.z) && !rhSame(c.o, c01) {
						clause = "ii"
					} else if amb && c.cache && (code == 0) != (vx.Int(ou["code"]) == 0) {
						clause = "iii" // C05iiiOf: the cached mux against the cache-less one
					}
					if clause == "" {
						continue
					}
					mism++
					rec := vx.M{"k": "mismatch", "b": bi, "step": si + 1, "cs": cs, "cache": c.cache, "clause": clause, "cfg": cfg,
						"q": q, "o": c.o, "z": c.z, "ou": ou, "c01": c01, "own": own, "den": den, "all": all, "amb": amb, "exp": st["exp"],
						"spec": x.fc.spec, "cul": []interface{}{}}
					if c.cache {
						if p, ok := rhCulprit(cfg, cs, hist, q, c.o); ok {
							rec["cul"] = []interface{}{p}
							for _, h := range beh[1:] {
								if vx.Str(h["a"]) == "req" && rhKey(h["q"].(vx.M)) == rhKey(p) {
									rec["cown"] = h["own"]
									break
								}
							}
						}
					}
					w.Raw(rec)
				}
				hist = append(hist, q)
			}
		}
		x.close()
	}
	w.Raw(vx.M{"k": "summary", "behaviours": len(behs), "steps": steps, "mismatches": mism, "rejected": rejected,
		"denied": denied, "allowed": allowed, "passed": passed})
}

func TestVerifC05Trace(t *testing.T) {
	w := vx.NewWriter(t, "VERIF_OUT")
	defer w.Close()
	ncfg := vx.EnvInt("VERIF_N", 40)
	nreq := vx.EnvInt("VERIF_REQS", 40)
	r := vx.Rand(502)
	o := rgOpts{filters: true, fewKeys: true, maxRules: 3, maxPaths: 3}
	sizes := []int{64, 2, 1}
	done, rejected := 0, 0
	for done < ncfg && rejected < 10*ncfg+100 {
		cfg := rgCfg(r, o)
		cs := sizes[done%len(sizes)]
		x, err := c05NewQuad(cfg, cs)
		if err != nil {
			rejected++
			w.Raw(vx.M{"ev": "rejected", "err": err.Error()})
			continue
		}
		done++
		w.Raw(vx.M{"ev": "cfg", "cfg": cfg, "cs": cs})
		clients := rgClients(r, cfg, 5)
		paths := rgReqPaths(r, cfg)
		base := []vx.M{}
		for i := 0; i < 3+r.Intn(3); i++ {
			base = append(base, rgReq(r, o, cfg, paths, clients))
		}
		var hist []vx.M
		for i := 0; i < nreq; i++ {
			// a base request, often from another client and through another header
			q := vx.M{}
			for k, v := range base[r.Intn(len(base))] {
				q[k] = v
			}
			if r.Intn(3) != 0 {
				q["ip"] = clients[r.Intn(len(clients))]
				q["via"] = "remote"
				if r.Intn(2) == 0 {
					q = rgVia(r, q)
				}
			}
			ou, oc, zu, zc := rhServe(x.fu, q), rhServe(x.fc, q), rhServe(x.zu, q), rhServe(x.zc, q)
			rec := vx.M{"ev": "req", "q": q, "ou": ou, "oc": oc, "zu": zu, "zc": zc, "cul": []interface{}{}}
			if !rhSame(oc, ou) {
				if p, ok := rhCulprit(cfg, cs, hist, q, oc); ok {
					rec["cul"] = []interface{}{p}
				}
			}
			w.Raw(rec)
			hist = append(hist, q)
		}
		x.close()
	}
}

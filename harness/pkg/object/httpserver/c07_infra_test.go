package httpserver

// Socket-level infrastructure shared by the C03 and C07 harnesses (DESIGN 5/C03, 5/C07).
//
// NOTE: this file is a mechanical copy of c03_infra_test.go (sed s/c03/c07/g; s/C03/C07/g): the
// driver builds a property's harness only from its own cNN_* files, so the two checks cannot
// share Go identifiers.  Edit c03_infra_test.go and regenerate this copy.
//
//   c07Stack    real mux (mux.ServeHTTP) behind a real net/http server on a loopback listener; the
//               mux routes every path to a real pipeline.Pipeline (RequestAdaptor? -> Proxy ->
//               ResponseAdaptor?) built from a generated spec
//   c07Backend  raw TCP backend: parses the request bytes by hand (request line, header lines, body
//               by Content-Length or chunked), records them and answers with scripted bytes
//               (any status / header lines / framing, also lying lengths)
//   c07Client   raw-socket client: sends hand-made request bytes and parses the response framing by
//               hand (status line, header lines, exactly Content-Length bytes or chunk parsing or
//               read-to-EOF), then checks what follows the message (pipelined sentinel request or EOF)

import (
	"bufio"
	"bytes"
	"compress/gzip"
	"crypto/sha256"
	"encoding/hex"
	"encoding/json"
	"errors"
	"fmt"
	"io"
	"net"
	"net/http"
	"strconv"
	"strings"
	"sync"
	"time"

	"github.com/megaease/easegress/pkg/context"
	_ "github.com/megaease/easegress/pkg/filters/proxy"
	_ "github.com/megaease/easegress/pkg/filters/requestadaptor"
	_ "github.com/megaease/easegress/pkg/filters/responseadaptor"
	"github.com/megaease/easegress/pkg/logger"
	"github.com/megaease/easegress/pkg/object/pipeline"
	"github.com/megaease/easegress/pkg/protocols/httpprot"
	"github.com/megaease/easegress/pkg/protocols/httpprot/httpstat"
	"github.com/megaease/easegress/pkg/supervisor"
)

func init() { logger.InitNop() }

const (
	c07IOTimeout    = 40 * time.Second // generous: only a guard against hangs, never part of a verdict
	c07SentinelPath = "/c07-sentinel"
	c07PipelineName = "c07-pipeline"
)

// ------------------------------------------------------------------------------------------
// raw HTTP/1.x message parsing (both directions)

type c07Line struct{ N, V string } // header line as on the wire

// c07Hdr is the abstraction handed to TLC: lower-cased name and the values in wire order.
type c07Hdr struct {
	N string   `json:"n"`
	V []string `json:"v"`
}

func c07Group(lines []c07Line) []c07Hdr {
	out := []c07Hdr{}
	idx := map[string]int{}
	for _, l := range lines {
		n := strings.ToLower(l.N)
		i, ok := idx[n]
		if !ok {
			i = len(out)
			idx[n] = i
			out = append(out, c07Hdr{N: n, V: []string{}})
		}
		out[i].V = append(out[i].V, strings.TrimSpace(l.V)) // optional whitespace around a field value is not part of it
	}
	return out
}

func c07Get(lines []c07Line, name string) []string {
	var out []string
	for _, l := range lines {
		if strings.EqualFold(l.N, name) {
			out = append(out, l.V)
		}
	}
	return out
}

// c07Tokens splits comma separated header values into lower-cased tokens.
func c07Tokens(vals []string) []string {
	out := []string{}
	for _, v := range vals {
		for _, t := range strings.Split(v, ",") {
			if t = strings.ToLower(strings.TrimSpace(t)); t != "" {
				out = append(out, t)
			}
		}
	}
	return out
}

func c07ReadLine(br *bufio.Reader) (string, error) {
	s, err := br.ReadString('\n')
	if err != nil {
		return s, err
	}
	return strings.TrimRight(s, "\r\n"), nil
}

// c07ReadHead reads the start line and the header lines.
func c07ReadHead(br *bufio.Reader) (start string, lines []c07Line, err error) {
	start, err = c07ReadLine(br)
	if err != nil {
		return
	}
	for {
		var s string
		s, err = c07ReadLine(br)
		if err != nil {
			return
		}
		if s == "" {
			return
		}
		i := strings.IndexByte(s, ':')
		if i < 0 {
			err = fmt.Errorf("malformed header line %q", s)
			return
		}
		lines = append(lines, c07Line{s[:i], strings.TrimSpace(s[i+1:])})
	}
}

type c07Body struct {
	Framing  string // "none" | "cl" | "chunked" | "close"
	Declared int64  // Content-Length value, -1 if none
	Data     []byte
	Complete bool // all declared bytes / the terminating chunk and trailer section / EOF were seen
	Err      string
}

// c07ReadBody reads a message body according to the framing headers.  noBody: the message cannot
// have a body (response to HEAD, 1xx/204/304).  isResp: read-to-EOF framing is possible.
func c07ReadBody(br *bufio.Reader, lines []c07Line, noBody, isResp bool) c07Body {
	b := c07Body{Framing: "none", Declared: -1, Complete: true}
	cl := c07Get(lines, "Content-Length")
	if len(cl) > 0 {
		n, err := strconv.ParseInt(strings.TrimSpace(cl[0]), 10, 64)
		if err != nil {
			b.Err = "bad content-length " + cl[0]
			b.Complete = false
			return b
		}
		b.Declared = n
	}
	if noBody {
		return b
	}
	te := c07Tokens(c07Get(lines, "Transfer-Encoding"))
	switch {
	case len(te) > 0 && te[len(te)-1] == "chunked":
		b.Framing = "chunked"
		b.Complete = false
		for {
			s, err := c07ReadLine(br)
			if err != nil {
				b.Err = "chunk size line: " + err.Error()
				return b
			}
			if i := strings.IndexByte(s, ';'); i >= 0 {
				s = s[:i]
			}
			n, err := strconv.ParseInt(strings.TrimSpace(s), 16, 64)
			if err != nil || n < 0 {
				b.Err = fmt.Sprintf("bad chunk size line %q", s)
				return b
			}
			if n == 0 {
				for { // trailer section
					t, err := c07ReadLine(br)
					if err != nil {
						b.Err = "trailer: " + err.Error()
						return b
					}
					if t == "" {
						b.Complete = true
						return b
					}
				}
			}
			old := len(b.Data)
			b.Data = append(b.Data, make([]byte, n)...)
			if _, err := io.ReadFull(br, b.Data[old:]); err != nil {
				b.Err = "chunk data: " + err.Error()
				return b
			}
			crlf := make([]byte, 2)
			if _, err := io.ReadFull(br, crlf); err != nil || string(crlf) != "\r\n" {
				b.Err = "chunk not terminated by CRLF"
				return b
			}
		}
	case b.Declared >= 0:
		b.Framing = "cl"
		b.Data = make([]byte, b.Declared)
		n, err := io.ReadFull(br, b.Data)
		b.Data = b.Data[:n]
		if err != nil {
			b.Complete = false
			b.Err = "body: " + err.Error()
		}
		return b
	case isResp:
		b.Framing = "close"
		data, err := io.ReadAll(br)
		b.Data = data
		if err != nil {
			b.Err = "body: " + err.Error() // a reset instead of FIN: length unknown
			b.Complete = false
		}
		return b
	}
	return b
}

func c07Sha(b []byte) string {
	h := sha256.Sum256(b)
	return hex.EncodeToString(h[:8])
}

func c07Gzip(b []byte) []byte {
	var buf bytes.Buffer
	zw := gzip.NewWriter(&buf)
	zw.Write(b)
	zw.Close()
	return buf.Bytes()
}

// c07BodyAbs is what TLC sees of a body: identity of the bytes, their number, the Content-Encoding
// label and the identity of the content once a gzip label is undone ("!" = labelled gzip but not
// decodable; an empty body decodes to the empty content).
type c07BodyAbs struct {
	Raw   string `json:"raw"`
	Len   int    `json:"len"`
	Label string `json:"label"`
	Dec   string `json:"dec"`
	Decok bool   `json:"decok"`
}

func c07Abstract(data []byte, lines []c07Line) c07BodyAbs {
	a := c07BodyAbs{Raw: c07Sha(data), Len: len(data), Decok: true}
	a.Label = strings.ToLower(strings.Join(c07Get(lines, "Content-Encoding"), ","))
	a.Dec = a.Raw
	if a.Label == "gzip" && len(data) > 0 {
		zr, err := gzip.NewReader(bytes.NewReader(data))
		if err != nil {
			a.Dec, a.Decok = "!", false
			return a
		}
		dec, err := io.ReadAll(zr)
		if err != nil {
			a.Dec, a.Decok = "!", false
			return a
		}
		a.Dec = c07Sha(dec)
	}
	return a
}

// ------------------------------------------------------------------------------------------
// raw TCP backend

type c07BReq struct {
	Method, Target, Proto string
	Lines                 []c07Line
	Body                  c07Body
	Via                   int    // port of the listener the request arrived at
	ViaAddr               string // ip:port of the listener the request arrived at
}

// c07Script is one answer of the backend: bytes written verbatim.
type c07Script struct {
	Raw        []byte
	CloseAfter bool
	Break      bool // read the request, then drop the connection without answering
	// Gate != nil: the first Hold bytes are written, the gate is told, and the rest is written when
	// the gate opens (exchanges that overlap: every answer is under way before any is completed)
	Hold int
	Gate *c07Gate
}

// c07Gate opens when `need` parties have arrived and then either all of them were released by
// release() (the clients have seen their response heads) or `grace` has passed - or, whatever
// happened, after `max` (a guard: a party that never arrives must not block the others).
type c07Gate struct {
	mu       sync.Mutex
	need     int
	arrived  int
	released int
	grace    time.Duration
	ch       chan struct{}
	once     sync.Once
	full     bool // all parties were under way at the same time when the gate opened
}

func c07NewGate(need int, grace, max time.Duration) *c07Gate {
	g := &c07Gate{need: need, grace: grace, ch: make(chan struct{})}
	time.AfterFunc(max, g.open)
	return g
}

func (g *c07Gate) open() { g.once.Do(func() { close(g.ch) }) }

func (g *c07Gate) arrive() {
	g.mu.Lock()
	g.arrived++
	all := g.arrived == g.need
	if all {
		g.full = true
	}
	g.mu.Unlock()
	if all {
		time.AfterFunc(g.grace, g.open)
	}
}

// release: one party's client has received its response head.
func (g *c07Gate) release() {
	g.mu.Lock()
	g.released++
	all := g.released >= g.need && g.arrived >= g.need
	g.mu.Unlock()
	if all {
		g.open()
	}
}

func (g *c07Gate) wasFull() bool {
	g.mu.Lock()
	defer g.mu.Unlock()
	return g.full
}

const c07SlotHeader = "X-C07-Slot" // names the exchange a request belongs to when several are in flight

// c07Backend may listen on several addresses (several "servers" of a pool); the requests of all
// listeners are recorded in arrival order and answered from one queue of scripts (the last script
// answers all further requests).
type c07Backend struct {
	ln      net.Listener
	more    []net.Listener
	mu      sync.Mutex
	reqs    []*c07BReq
	scripts []*c07Script
	bySlot  map[string]*c07Script // answers for requests that carry the slot header
	conns   map[net.Conn]struct{}
	wg      sync.WaitGroup
}

func c07NewBackend(network, addr string) (*c07Backend, error) {
	ln, err := net.Listen(network, addr)
	if err != nil {
		return nil, err
	}
	b := &c07Backend{ln: ln, conns: map[net.Conn]struct{}{}}
	b.accept(ln)
	return b, nil
}

// addListener opens a further listener served by the same backend and returns its port.
func (b *c07Backend) addListener(network, addr string) (int, error) {
	ln, err := net.Listen(network, addr)
	if err != nil {
		return 0, err
	}
	b.more = append(b.more, ln)
	b.accept(ln)
	return ln.Addr().(*net.TCPAddr).Port, nil
}

// addNamedListener opens a further listener on a given address.
func (b *c07Backend) addNamedListener(network, addr string) (net.Listener, error) {
	ln, err := net.Listen(network, addr)
	if err != nil {
		return nil, err
	}
	b.more = append(b.more, ln)
	b.accept(ln)
	return ln, nil
}

func (b *c07Backend) accept(ln net.Listener) {
	go func() {
		for {
			c, err := ln.Accept()
			if err != nil {
				return
			}
			b.mu.Lock()
			b.conns[c] = struct{}{}
			b.wg.Add(1)
			b.mu.Unlock()
			go b.serve(c)
		}
	}()
}

func (b *c07Backend) hostPort() string { return b.ln.Addr().String() }
func (b *c07Backend) port() int        { return b.ln.Addr().(*net.TCPAddr).Port }

func (b *c07Backend) serve(c net.Conn) {
	defer func() {
		c.Close()
		b.mu.Lock()
		delete(b.conns, c)
		b.mu.Unlock()
		b.wg.Done()
	}()
	br := bufio.NewReaderSize(c, 64<<10)
	for {
		c.SetDeadline(time.Now().Add(c07IOTimeout))
		start, lines, err := c07ReadHead(br)
		if err != nil {
			return
		}
		parts := strings.SplitN(start, " ", 3)
		r := &c07BReq{Lines: lines, Via: c.LocalAddr().(*net.TCPAddr).Port, ViaAddr: c.LocalAddr().String()}
		if len(parts) == 3 {
			r.Method, r.Target, r.Proto = parts[0], parts[1], parts[2]
		} else {
			r.Method = start
		}
		r.Body = c07ReadBody(br, lines, false, false)
		b.mu.Lock()
		b.reqs = append(b.reqs, r)
		var sc *c07Script
		if slot := c07Get(lines, c07SlotHeader); len(slot) > 0 && b.bySlot[slot[0]] != nil {
			sc = b.bySlot[slot[0]]
		} else if len(b.scripts) > 0 {
			sc = b.scripts[0]
			if len(b.scripts) > 1 {
				b.scripts = b.scripts[1:]
			}
		}
		b.mu.Unlock()
		if sc == nil {
			sc = &c07Script{Raw: []byte("HTTP/1.1 599 no script\r\nContent-Length: 0\r\nConnection: close\r\n\r\n"), CloseAfter: true}
		}
		if sc.Break {
			return
		}
		rest := sc.Raw
		if sc.Gate != nil {
			hold := c07Min(sc.Hold, len(rest))
			if _, err := c.Write(rest[:hold]); err != nil {
				sc.Gate.arrive()
				return
			}
			rest = rest[hold:]
			sc.Gate.arrive()
			<-sc.Gate.ch
			c.SetDeadline(time.Now().Add(c07IOTimeout))
		}
		if _, err := c.Write(rest); err != nil {
			return
		}
		if sc.CloseAfter || !r.Body.Complete {
			return
		}
	}
}

// begin installs the scripts of the next case and forgets what was recorded.
func (b *c07Backend) begin(scs ...*c07Script) {
	b.mu.Lock()
	b.scripts = scs
	b.bySlot = nil
	b.reqs = nil
	b.mu.Unlock()
}

// slots installs the answers of exchanges that run at the same time (keyed by the slot header).
func (b *c07Backend) slots(m map[string]*c07Script) {
	b.mu.Lock()
	b.bySlot = m
	b.mu.Unlock()
}

// take returns the requests seen since begin / the last take; connections stay open (the next
// request of a sequence may reuse them).
func (b *c07Backend) take() []*c07BReq {
	b.mu.Lock()
	defer b.mu.Unlock()
	r := b.reqs
	b.reqs = nil
	return r
}

// end closes all connections (the proxy instance of the case is discarded, nothing is in flight)
// and returns the requests seen.
func (b *c07Backend) end() []*c07BReq {
	b.mu.Lock()
	for c := range b.conns {
		c.Close()
	}
	b.mu.Unlock()
	b.wg.Wait()
	b.mu.Lock()
	defer b.mu.Unlock()
	r := b.reqs
	b.reqs = nil
	b.scripts = nil
	b.bySlot = nil
	return r
}

// ------------------------------------------------------------------------------------------
// the stack: loopback listener -> net/http server -> real mux -> real pipeline

type c07Mapper struct {
	h  context.Handler
	st *c07Stack
}

func (m *c07Mapper) GetHandler(name string) (context.Handler, bool) {
	if name == c07PipelineName && m.h != nil {
		return &c07HoldHandler{h: m.h, st: m.st}, true
	}
	return nil, false
}

// c07Hold parks exchanges between the point where the mux has taken the request in (httpprot.NewRequest +
// Request.FetchPayload, as mux.ServeHTTP does) and the pipeline: a request that carries one of the slot
// header values of `slots` waits in its handler until release() (or `max`, a guard).  Everything else
// passes.  entered(slot) tells the driver that the exchange is parked.
type c07Hold struct {
	mu      sync.Mutex
	slots   map[string]chan struct{} // closed when the exchange of that slot is parked
	parked  map[string]bool
	ch      chan struct{}
	once    sync.Once
	max     time.Duration
	expired bool // an exchange left the hold because of the guard, not because it was released
}

func c07NewHold(max time.Duration, slots ...string) *c07Hold {
	h := &c07Hold{slots: map[string]chan struct{}{}, parked: map[string]bool{}, ch: make(chan struct{}), max: max}
	for _, s := range slots {
		h.slots[s] = make(chan struct{})
	}
	return h
}

func (h *c07Hold) release() { h.once.Do(func() { close(h.ch) }) }

// entered waits until the exchange of the slot is parked (false: it did not get there in time).
func (h *c07Hold) entered(slot string, wait time.Duration) bool {
	select {
	case <-h.slots[slot]:
		return true
	case <-time.After(wait):
		return false
	}
}

func (h *c07Hold) park(slot string) {
	h.mu.Lock()
	ch, ok := h.slots[slot]
	if !ok || h.parked[slot] {
		h.mu.Unlock()
		return
	}
	h.parked[slot] = true
	h.mu.Unlock()
	close(ch)
	select {
	case <-h.ch:
	case <-time.After(h.max):
		h.mu.Lock()
		h.expired = true
		h.mu.Unlock()
	}
}

func (h *c07Hold) wasExpired() bool {
	h.mu.Lock()
	defer h.mu.Unlock()
	return h.expired
}

// c07HoldHandler is what the mux gets as the handler of the pipeline: the pipeline itself, behind the hold
// of the case (if any).
type c07HoldHandler struct {
	h  context.Handler
	st *c07Stack
}

func (w *c07HoldHandler) Handle(ctx *context.Context) string {
	if w.st != nil {
		if hd := w.st.getHold(); hd != nil {
			if req, ok := ctx.GetInputRequest().(*httpprot.Request); ok {
				if slot := req.HTTPHeader().Get(c07SlotHeader); slot != "" {
					hd.park(slot)
				}
			}
		}
	}
	return w.h.Handle(ctx)
}

type c07Stack struct {
	ln     net.Listener
	srv    *http.Server
	mu     sync.RWMutex
	cur    *mux
	mapper *c07Mapper
	hold   *c07Hold
}

func (s *c07Stack) setHold(h *c07Hold) {
	s.mu.Lock()
	s.hold = h
	s.mu.Unlock()
}

func (s *c07Stack) getHold() *c07Hold {
	s.mu.RLock()
	defer s.mu.RUnlock()
	return s.hold
}

func (s *c07Stack) ServeHTTP(w http.ResponseWriter, r *http.Request) {
	s.mu.RLock()
	m := s.cur
	s.mu.RUnlock()
	if m == nil {
		w.WriteHeader(598)
		return
	}
	m.ServeHTTP(w, r)
}

func c07NewStack() (*c07Stack, error) {
	ln, err := net.Listen("tcp4", "127.0.0.1:0")
	if err != nil {
		return nil, err
	}
	s := &c07Stack{ln: ln}
	// same construction as runtime.startServer: mux as Handler, keep-alive enabled
	s.srv = &http.Server{Handler: s, IdleTimeout: 60 * time.Second}
	s.srv.SetKeepAlivesEnabled(true)
	go s.srv.Serve(ln)
	return s, nil
}

func (s *c07Stack) addr() string { return s.ln.Addr().String() }
func (s *c07Stack) close()       { s.srv.Close() }

// c07Config is the concrete configuration of one case.
type c07Config struct {
	ServerURL      string   // proxy server url
	MoreServers    []string // further servers of the pool (round robin)
	Retry          int      // > 0: a retry policy with that many attempts is attached to the pool ...
	FailureCodes   []int    // ... and these statuses count as failures
	KeepHost       bool
	CompressionMin int   // -1: no compression section
	PathLimit      int64 // clientMaxBodySize of the path
	ServerLimit    int64 // clientMaxBodySize of the HTTPServer
	PoolLimit      int64 // serverMaxBodySize of the pool
	ProxyLimit     int64 // serverMaxBodySize of the proxy
	ReqAdaptor     map[string]interface{}
	RespAdaptor    map[string]interface{}
	CacheSize      int                    // > 0: route cache of the HTTPServer (cacheSize)
	MemoryCache    map[string]interface{} // memoryCache section of the pool, nil: none
	LBPolicy       string                 // loadBalance.policy of the pool, "": no loadBalance section
	LBHeaderKey    string                 // loadBalance.headerHashKey
	Weights        []int                  // weight of the servers (ServerURL, MoreServers...), nil: none has a weight
}

// c07ServerSpec: the HTTPServer spec of cfg (one rule: the sentinel path, and everything else to the pipeline).
func c07ServerSpec(cfg *c07Config) (*supervisor.Spec, error) {
	path := map[string]interface{}{"pathPrefix": "/", "backend": c07PipelineName}
	if cfg.PathLimit != 0 {
		path["clientMaxBodySize"] = cfg.PathLimit
	}
	hs := map[string]interface{}{
		"name": "c07-server", "kind": "HTTPServer", "port": 10080, "keepAlive": true, "https": false,
		"rules": []interface{}{map[string]interface{}{"paths": []interface{}{
			map[string]interface{}{"path": c07SentinelPath, "backend": "c07-no-such-backend"}, path}}},
	}
	if cfg.ServerLimit != 0 {
		hs["clientMaxBodySize"] = cfg.ServerLimit
	}
	if cfg.CacheSize > 0 {
		hs["cacheSize"] = cfg.CacheSize
	}
	hj, _ := json.Marshal(hs)
	hspec, err := supervisor.NewSpec(string(hj))
	if err != nil {
		return nil, fmt.Errorf("httpserver spec: %v", err)
	}
	return hspec, nil
}

// update applies a changed HTTPServer spec to the installed mux the way HTTPServer hot updates do
// (runtime.reload -> mux.reload): same mux, same pipeline.
func (s *c07Stack) update(cfg *c07Config) error {
	hspec, err := c07ServerSpec(cfg)
	if err != nil {
		return err
	}
	s.mu.RLock()
	m, mapper := s.cur, s.mapper
	s.mu.RUnlock()
	if m == nil {
		return errors.New("no mux installed")
	}
	m.reload(hspec, mapper)
	return nil
}

// install builds a fresh mux and a fresh pipeline for cfg; the returned func tears them down.
func (s *c07Stack) install(cfg *c07Config) (func(), error) {
	servers := []interface{}{}
	for i, u := range append([]string{cfg.ServerURL}, cfg.MoreServers...) {
		server := map[string]interface{}{"url": u, "keepHost": cfg.KeepHost}
		if i < len(cfg.Weights) {
			server["weight"] = cfg.Weights[i]
		}
		servers = append(servers, server)
	}
	pool := map[string]interface{}{"servers": servers}
	if cfg.LBPolicy != "" {
		lb := map[string]interface{}{"policy": cfg.LBPolicy}
		if cfg.LBHeaderKey != "" {
			lb["headerHashKey"] = cfg.LBHeaderKey
		}
		pool["loadBalance"] = lb
	}
	pspecMap := map[string]interface{}{"name": c07PipelineName, "kind": "Pipeline"}
	if cfg.Retry > 0 {
		pool["retryPolicy"] = "c07-retry"
		pool["failureCodes"] = cfg.FailureCodes
		pspecMap["resilience"] = []interface{}{map[string]interface{}{"name": "c07-retry", "kind": "Retry",
			"maxAttempts": cfg.Retry, "waitDuration": "1ms"}}
	}
	if cfg.PoolLimit != 0 {
		pool["serverMaxBodySize"] = cfg.PoolLimit
	}
	if cfg.MemoryCache != nil {
		pool["memoryCache"] = cfg.MemoryCache
	}
	proxy := map[string]interface{}{"name": "proxy", "kind": "Proxy", "pools": []interface{}{pool}}
	if cfg.ProxyLimit != 0 {
		proxy["serverMaxBodySize"] = cfg.ProxyLimit
	}
	if cfg.CompressionMin >= 0 {
		proxy["compression"] = map[string]interface{}{"minLength": cfg.CompressionMin}
	}
	var fs []interface{}
	if cfg.ReqAdaptor != nil {
		cfg.ReqAdaptor["name"], cfg.ReqAdaptor["kind"] = "reqadaptor", "RequestAdaptor"
		fs = append(fs, cfg.ReqAdaptor)
	}
	fs = append(fs, proxy)
	if cfg.RespAdaptor != nil {
		cfg.RespAdaptor["name"], cfg.RespAdaptor["kind"] = "respadaptor", "ResponseAdaptor"
		fs = append(fs, cfg.RespAdaptor)
	}
	pspecMap["filters"] = fs
	pj, _ := json.Marshal(pspecMap)
	pspec, err := supervisor.NewSpec(string(pj))
	if err != nil {
		return nil, fmt.Errorf("pipeline spec: %v", err)
	}
	p := &pipeline.Pipeline{}
	p.Init(pspec, nil)

	hspec, err := c07ServerSpec(cfg)
	if err != nil {
		p.Close()
		return nil, err
	}
	mapper := &c07Mapper{h: p, st: s}
	m := newMux(httpstat.New(), httpstat.NewTopN(10), mapper)
	m.reload(hspec, mapper)
	s.mu.Lock()
	s.cur, s.mapper = m, mapper
	s.mu.Unlock()
	return func() {
		s.mu.Lock()
		s.cur = nil
		s.mu.Unlock()
		m.close()
		p.Close()
	}, nil
}

// ------------------------------------------------------------------------------------------
// raw client

type c07Request struct {
	Method string
	Target string
	Lines  []c07Line // all header lines, Host included, in wire order
	// body: either Body with the framing announced in Lines, or chunks (Transfer-Encoding: chunked
	// announced in Lines) - the client writes exactly what it is told
	Body      []byte
	Chunks    [][]byte
	Trailers  []c07Line
	HalfClose bool // shut the write side down after the request bytes (lying Content-Length)
}

func (r *c07Request) head() []byte {
	var b bytes.Buffer
	fmt.Fprintf(&b, "%s %s HTTP/1.1\r\n", r.Method, r.Target)
	for _, l := range r.Lines {
		fmt.Fprintf(&b, "%s: %s\r\n", l.N, l.V)
	}
	b.WriteString("\r\n")
	return b.Bytes()
}

func (r *c07Request) writeTo(w io.Writer) error {
	bw := bufio.NewWriterSize(w, 64<<10)
	bw.Write(r.head())
	if r.Chunks != nil {
		for _, c := range r.Chunks {
			if len(c) == 0 {
				continue
			}
			fmt.Fprintf(bw, "%x\r\n", len(c))
			bw.Write(c)
			bw.WriteString("\r\n")
		}
		bw.WriteString("0\r\n")
		for _, l := range r.Trailers {
			fmt.Fprintf(bw, "%s: %s\r\n", l.N, l.V)
		}
		bw.WriteString("\r\n")
	} else {
		bw.Write(r.Body)
	}
	return bw.Flush()
}

type c07Response struct {
	Proto    string
	Status   int
	Lines    []c07Line
	Body     c07Body
	After    string // what follows the message: "eof" | "sentinel-ok" | "garbage" | "unknown"
	AfterHex string // first bytes of the garbage
	Err      string // transport-level problem (no response at all, time-out)
	Timeout  bool
}

func c07ParseStatus(start string) (proto string, code int, err error) {
	parts := strings.SplitN(start, " ", 3)
	if len(parts) < 2 || !strings.HasPrefix(parts[0], "HTTP/1.") {
		return "", 0, fmt.Errorf("malformed status line %q", start)
	}
	code, err = strconv.Atoi(parts[1])
	return parts[0], code, err
}

// c07Do performs one exchange on a fresh connection.
func c07Do(addr string, req *c07Request) *c07Response { return c07DoHook(addr, req, nil) }

// c07DoHook: onHead (if any) is called once, when the response head has arrived or the exchange ended
// without one.
func c07DoHook(addr string, req *c07Request, onHead func()) *c07Response {
	res := &c07Response{After: "unknown"}
	if onHead != nil {
		var once sync.Once
		hook := onHead
		onHead = func() { once.Do(hook) }
		defer onHead()
	}
	conn, err := net.DialTimeout("tcp", addr, c07IOTimeout)
	if err != nil {
		res.Err = err.Error()
		return res
	}
	defer conn.Close()
	conn.SetDeadline(time.Now().Add(c07IOTimeout))
	wdone := make(chan error, 1)
	go func() {
		err := req.writeTo(conn)
		if err == nil && req.HalfClose {
			conn.(*net.TCPConn).CloseWrite()
		}
		wdone <- err
	}()
	br := bufio.NewReaderSize(conn, 64<<10)
	var start string
	for { // skip interim responses
		var lines []c07Line
		start, lines, err = c07ReadHead(br)
		if err != nil {
			res.Err = "reading response head: " + err.Error()
			var ne net.Error
			res.Timeout = errors.As(err, &ne) && ne.Timeout()
			return res
		}
		res.Proto, res.Status, err = c07ParseStatus(start)
		if err != nil {
			res.Err = err.Error()
			return res
		}
		res.Lines = lines
		if res.Status >= 200 || res.Status == 101 {
			break
		}
	}
	if onHead != nil {
		onHead()
	}
	noBody := req.Method == "HEAD" || res.Status/100 == 1 || res.Status == 204 || res.Status == 304
	res.Body = c07ReadBody(br, res.Lines, noBody, true)
	if strings.Contains(res.Body.Err, "i/o timeout") {
		res.Timeout = true
	}
	if !res.Body.Complete || res.Body.Framing == "close" {
		res.After = "eof"
		return res
	}
	closing := res.Proto == "HTTP/1.0"
	for _, t := range c07Tokens(c07Get(res.Lines, "Connection")) {
		if t == "close" {
			closing = true
		}
	}
	if closing || req.HalfClose {
		rest, _ := io.ReadAll(io.LimitReader(br, 4096))
		if len(rest) == 0 {
			res.After = "eof"
		} else {
			res.After, res.AfterHex = "garbage", hex.EncodeToString(rest[:c07Min(len(rest), 32)])
		}
		return res
	}
	// keep-alive: the next bytes on the connection must be the answer to a pipelined sentinel
	// request (routed to a backend that does not exist: 503 without body)
	select {
	case <-wdone:
	case <-time.After(c07IOTimeout):
		res.After = "unknown"
		return res
	}
	fmt.Fprintf(conn, "GET %s HTTP/1.1\r\nHost: c07.sentinel\r\nConnection: close\r\n\r\n", c07SentinelPath)
	peek, err := br.Peek(13)
	if err != nil {
		if len(peek) == 0 {
			res.After = "eof" // connection was closed without an announcement: nothing followed the message
		} else {
			res.After, res.AfterHex = "garbage", hex.EncodeToString(peek)
		}
		return res
	}
	if string(peek) == "HTTP/1.1 503 " {
		res.After = "sentinel-ok"
	} else {
		res.After, res.AfterHex = "garbage", hex.EncodeToString(peek)
	}
	return res
}

func c07Min(a, b int) int {
	if a < b {
		return a
	}
	return b
}

// c07Split returns the request-target as byte codes (the specs see strings they must look into as
// sequences; byte codes make percent-decoding definable in TLA+).
func c07Codes(s string) []int {
	out := make([]int, len(s))
	for i := 0; i < len(s); i++ {
		out[i] = int(s[i])
	}
	return out
}

package httpserver

// TestVerifC11Replay: every behaviour of HotUpdate_Gen (Atomic = "gates") is a schedule of request
// steps and updater steps; the harness performs each step on the real objects and compares what the
// real system shows with what the model predicts (the `out` record of the step).

import (
	"fmt"
	"net/http/httptest"
	"runtime/debug"
	"sync/atomic"
	"testing"
	"time"

	"github.com/megaease/easegress/pkg/object/trafficcontroller"
	vx "github.com/megaease/easegress/pkg/verifx"
)

type c11Replay struct {
	w        *c11World
	reqs     map[string]*c11RunReq
	specs    map[int]string // server generation -> yaml, built at srvBuild
	upd      *c11UpdGate
	updCh    chan string // "returned" when the real update call has returned
	kept     bool        // entity returned by the last Apply is the previous one
	pend     string      // yaml of the pipeline version about to be applied
	nreq     int
	beh      []vx.M // the behaviour being replayed and the index of the current step
	si       int
	updRet   bool // the real update call has returned
	updPanic bool
	judged   int // class "x" / "f" requests whose outcome was compared with the configuration of the held generation
}

type c11RunReq struct {
	r    *c11Req
	inst *muxInstance
	tg   string
	ip   string
	rec  *httptest.ResponseRecorder
	done chan struct{}
	fin  bool
	told bool
}

func (rp *c11Replay) waitReq(rr *c11RunReq) string {
	select {
	case p := <-rr.r.ev:
		return p
	case <-rr.done:
		rr.fin = true
		return "finished"
	case <-time.After(c11Wait):
		return "stuck"
	}
}

func (rp *c11Replay) waitUpd() string {
	select {
	case p := <-rp.upd.ev:
		return p
	case p := <-rp.updCh:
		rp.updRet = true
		return p
	case <-time.After(c11Wait):
		return "stuck"
	}
}

// launch starts the goroutine of a request: through the held mux instance, or straight to a pipeline.
func (rp *c11Replay) launch(rr *c11RunReq) {
	rr.done = make(chan struct{})
	go func() {
		defer func() {
			if e := recover(); e != nil {
				rr.r.panicV = fmt.Sprint(e)
				rr.r.site = c11Site(string(debug.Stack()))
			}
			close(rr.done)
		}()
		if rr.tg == "srv" {
			rr.inst.serveHTTP(rr.rec, c11NewHTTPRequestC(rr.r.id, rr.ip, rr.r.cl))
			rr.r.status = rr.rec.Code
		} else {
			rr.r.status = rp.w.c11Direct(rr.r, rr.tg)
		}
	}()
}

func (rp *c11Replay) release(rr *c11RunReq) {
	c11Cur.Store(rr.r)
	rr.r.rel <- struct{}{}
}

// step performs one step; returns a description of the divergence from the model ("" = none).
func (rp *c11Replay) step(st vx.M) string {
	a := vx.Str(st["a"])
	w := rp.w
	switch a {
	case "start":
		rp.nreq++
		id := fmt.Sprintf("%s-%d", vx.Str(st["r"]), rp.nreq)
		rr := &c11RunReq{r: c11NewReq(id, true), tg: vx.Str(st["tg"]), ip: vx.Str(st["ip"]), rec: httptest.NewRecorder()}
		rr.r.cl = vx.Str(st["cl"])
		rp.reqs[vx.Str(st["r"])] = rr
		if rr.tg != "srv" { // a direct request starts at GetHandler: run it up to the mapper gate
			c11Cur.Store(rr.r)
			rp.launch(rr)
			if p := rp.waitReq(rr); p != "get:"+rr.tg {
				return fmt.Sprintf("direct request reached %q instead of the GetHandler call", p)
			}
		}
	case "load":
		rr := rp.reqs[vx.Str(st["r"])]
		rr.inst = w.mux.inst.Load().(*muxInstance)
		if rv, ov := c11GenOfInst(rr.inst); rv != vx.Int(st["rv"]) || ov != vx.Int(st["ov"]) {
			return fmt.Sprintf("visibility: m.inst.Load() returned rules v%d / options v%d, model says v%d / v%d", rv, ov, vx.Int(st["rv"]), vx.Int(st["ov"]))
		}
	case "route":
		rr := rp.reqs[vx.Str(st["r"])]
		c11Cur.Store(rr.r)
		rp.launch(rr)
		p := rp.waitReq(rr)
		if vx.Bool(st["blocked"]) {
			if p != "finished" || rr.r.status != 403 {
				return fmt.Sprintf("mixed: client %s is refused by the options of the held generation, real request: %q status %d", rr.ip, p, rr.r.status)
			}
			return ""
		}
		if p != "get:"+vx.Str(st["be"]) {
			return fmt.Sprintf("mixed: request routed to %q (status %d), model says backend %s of rules v%d", p, rr.r.status,
				vx.Str(st["be"]), vx.Int(st["rv"]))
		}
	case "get":
		rr := rp.reqs[vx.Str(st["r"])]
		rp.release(rr)
		p := rp.waitReq(rr)
		if !vx.Bool(st["found"]) {
			if p != "finished" || rr.r.status != 503 || rr.r.panicV != "" {
				return fmt.Sprintf("pipeline absent in the model, real request: %s status %d panic %q", p, rr.r.status, rr.r.panicV)
			}
			return ""
		}
		if p != "mark1" {
			return fmt.Sprintf("after GetHandler the request is at %q (status %d, panic %q at %s), model says it enters the pipeline",
				p, rr.r.status, rr.r.panicV, rr.r.site)
		}
		o := rr.r.snapshot()[0]
		if o.Pipe != vx.Str(st["p"]) || o.Value != vx.Int(st["fv"]) {
			return fmt.Sprintf("request entered %s filters v%d, model says %s generation %d (filters v%d)", o.Pipe, o.Value, vx.Str(st["p"]),
				vx.Int(st["ver"]), vx.Int(st["fv"]))
		}
		if rr.tg == "srv" {
			if g := c11GenOfPath(o.Path); g != vx.Int(st["rv"]) || o.XFF != vx.Bool(st["xf"]) {
				return fmt.Sprintf("mixed: request rewritten to %s with xff=%v, model says rules v%d with xff=%v", o.Path, o.XFF,
					vx.Int(st["rv"]), vx.Bool(st["xf"]))
			}
		}
	case "run", "enter", "exit":
		// run: release the marker before filter i, the filter runs, the request stops at the next marker
		// enter: the same for a filter that calls out - the request stops inside the backend
		// exit: the backend answers, the request stops at the next marker
		rr := rp.reqs[vx.Str(st["r"])]
		i := vx.Int(st["i"])
		next := fmt.Sprintf("mark%d", i+1)
		if a == "enter" {
			next = "backend"
		}
		rp.release(rr)
		p := rp.waitReq(rr)
		failed := p == "finished" && (rr.r.panicV != "" || rr.r.status != 200)
		// the configuration of the generation the request holds: the limit of the URL rule for class "x" ...
		if res := vx.Str(st["res"]); rr.r.cl == "x" && vx.Str(st["k"]) == "rl" && rr.r.panicV == "" && (res == "limited" || res == "pass") {
			limited := p == "finished" && rr.r.status == 429
			switch {
			case limited == (res == "limited") && (limited || p == next):
				rp.judged++
				return ""
			case (limited || p == next) && vx.Bool(st["closed"]):
				// the request holds a closed generation: what its limiter does by now is not stated by C11, and the
				// real limiter and the model's may be out of step from here on
				return "unjudged"
			case p == next:
				return fmt.Sprintf("configured: a request beyond the limit of its URL rule (1 permit per hour) passed the RateLimiter of generation %d "+
					"(filters v%d) of the pipeline, which is not closed; model says it is limited", vx.Int(st["ver"]), vx.Int(st["fv"]))
			case limited:
				return fmt.Sprintf("harness: generation %d limited a request for which the model still has a permit", vx.Int(st["ver"]))
			}
		}
		// ... and the retry policy for class "f", whose backend call fails
		if vx.Str(st["res"]) == "bfail" && a != "enter" && rr.r.panicV == "" {
			want := int64(vx.Int(st["pol"]) + 1)
			calls := atomic.LoadInt64(&rr.r.calls)
			switch {
			case p != "finished" || rr.r.status != 503:
				return fmt.Sprintf("status: a request whose backend call fails is at %q with status %d after the Proxy of generation %d, expected the backend's 503",
					p, rr.r.status, vx.Int(st["ver"]))
			case calls != want:
				return fmt.Sprintf("configured: the Proxy of generation %d of the pipeline (filters v%d, resilience v%d: retry maxAttempts %d) made %d attempts "+
					"for a request whose backend call fails", vx.Int(st["ver"]), vx.Int(st["fv"]), vx.Int(st["pv"]), want, calls)
			}
			rp.judged++
			return ""
		}
		if !vx.Bool(st["ok"]) {
			// the implementation-shaped layer says this step *may* fail (observed Inherit/Close modes): a real
			// failure is reported through its fail record; if the real request survives, it is left to finish
			if !failed && p != "finished" {
				rr.r.ungate()
				for p != "finished" && p != "stuck" {
					p = rp.waitReq(rr)
				}
			}
			return ""
		}
		if failed && rr.r.panicV != "" {
			return fmt.Sprintf("panic: filter #%d (%s) of pipeline version %d: panic in %s: %s", i, vx.Str(st["k"]), vx.Int(st["ver"]),
				rr.r.site, rr.r.panicV)
		}
		if failed {
			return fmt.Sprintf("status: filter #%d (%s) of pipeline version %d: the request ended with status %d", i, vx.Str(st["k"]), vx.Int(st["ver"]), rr.r.status)
		}
		if p != next {
			return fmt.Sprintf("after step %s of filter #%d the request is at %q (status %d)", a, i, p, rr.r.status)
		}
		if a != "enter" {
			obs := rr.r.snapshot()
			if o := obs[len(obs)-1]; o.Value != vx.Int(st["fv"]) {
				return fmt.Sprintf("mixed: marker %d shows filters v%d, the request holds generation %d (filters v%d)", o.Pos, o.Value,
					vx.Int(st["ver"]), vx.Int(st["fv"]))
			}
		}
	case "done":
		rr := rp.reqs[vx.Str(st["r"])]
		if !rr.fin {
			rp.release(rr)
			if p := rp.waitReq(rr); p != "finished" {
				return fmt.Sprintf("request did not finish: %q", p)
			}
		}
		want := vx.Str(st["st"])
		switch {
		case want == "ok" && (rr.r.status != 200 || rr.r.panicV != ""):
			return fmt.Sprintf("status: request ended with status %d panic %q (%s), model says 200", rr.r.status, rr.r.panicV, rr.r.site)
		case want == "503" && (rr.r.status != 503 || rr.r.panicV != ""):
			return fmt.Sprintf("status: request ended with status %d panic %q, model says 503", rr.r.status, rr.r.panicV)
		case want == "403" && rr.r.status != 403:
			return fmt.Sprintf("mixed: request ended with status %d, model says 403", rr.r.status)
		case want == "429" && (rr.r.status != 429 || rr.r.panicV != ""):
			return fmt.Sprintf("status: request ended with status %d panic %q, model says 429 (limited)", rr.r.status, rr.r.panicV)
		case want == "bfail" && (rr.r.status != 503 || rr.r.panicV != ""):
			return fmt.Sprintf("status: request ended with status %d panic %q, model says 503 (the backend's failure)", rr.r.status, rr.r.panicV)
		}
		c11Reqs.Delete(rr.r.id)
		delete(rp.reqs, vx.Str(st["r"]))
	case "srvBuild":
		rp.specs[vx.Int(st["g"])] = c11ServerYAML(vx.Int(st["rv"]), vx.Int(st["ov"]))
	case "srvStore":
		w.mux.reload(c11MustSpec(rp.specs[vx.Int(st["g"])]), w.mapper)
		if rv, ov := c11GenOfInst(w.mux.inst.Load().(*muxInstance)); rv != vx.Int(st["rv"]) || ov != vx.Int(st["ov"]) {
			return fmt.Sprintf("visibility: after reload m.inst holds rules v%d / options v%d, model says v%d / v%d", rv, ov, vx.Int(st["rv"]), vx.Int(st["ov"]))
		}
	case "pipBegin", "createInit":
		p := vx.Str(st["p"])
		rp.pend = w.c11PipelineYAML2(p, vx.Int(st["fv"]), vx.Int(st["pv"]))
		if a == "createInit" { // CreatePipeline: Init (stopped at the end of the last filter's Init) ; Store
			return rp.startUpdate(p, "inited", func() {
				_, err := w.tc.CreatePipelineForSpec(c11Namespace, c11MustSpec(rp.pend))
				if err != nil {
					panic(err)
				}
			})
		}
	case "pipInherit":
		if vx.Int(st["i"]) != 1 {
			return "" // the Inherit calls of one update are one block (Gen: Atomic = "gates")
		}
		p := vx.Str(st["p"])
		prev, _ := w.tc.GetPipeline(c11Namespace, p)
		bad := rp.startUpdate(p, "inherited", func() {
			e, err := w.tc.ApplyPipelineForSpec(c11Namespace, c11MustSpec(rp.pend))
			if err != nil {
				panic(err)
			}
			rp.kept = e == prev
		})
		if bad != "" && rp.updRet && !rp.updPanic {
			// the update returned without calling Inherit on the last filter (nothing obliges an implementation to call it
			// on a filter whose spec is unchanged): the harness could not stop it.  If the schedule has no request step
			// before Close(prev);Store anyway, the replay goes on with the update applied as a whole; otherwise the
			// schedule cannot be replayed on this implementation.
			for j := rp.si + 1; j < len(rp.beh); j++ {
				switch vx.Str(rp.beh[j]["a"]) {
				case "pipInherit":
					continue
				case "pipClose":
					return ""
				}
				break
			}
			return "ungated"
		}
		return bad
	case "pipClose", "createStore":
		// release the updater: Close(prev) ; Store happen, the call returns
		if !rp.updRet {
			rp.upd.rel <- struct{}{}
			if p := rp.waitUpd(); p != "returned" {
				return fmt.Sprintf("update did not return: %q", p)
			}
		}
		c11Upd.Store((*c11UpdGate)(nil))
		if a == "pipClose" {
			if rp.kept {
				return "ApplyPipeline with a changed spec returned the previous entity"
			}
			return ""
		}
		fallthrough
	case "pipStore":
		if fv, pv, _ := w.c11GenOfEntity(vx.Str(st["p"])); fv != vx.Int(st["fv"]) || pv != vx.Int(st["pv"]) {
			return fmt.Sprintf("stored: namespace holds filters v%d / resilience v%d of %s, model says v%d / v%d", fv, pv, vx.Str(st["p"]),
				vx.Int(st["fv"]), vx.Int(st["pv"]))
		}
	case "same":
		p := vx.Str(st["p"])
		fv0, pv0, e0 := w.c11GenOfEntity(p)
		n0 := atomic.LoadInt64(&c11Inherits)
		e1, err := w.tc.ApplyPipelineForSpec(c11Namespace, c11MustSpec(w.c11PipelineYAML2(p, fv0, pv0)))
		if err != nil {
			return "apply of an unchanged spec failed: " + err.Error()
		}
		if fv0 != vx.Int(st["fv"]) || pv0 != vx.Int(st["pv"]) {
			return fmt.Sprintf("stored: namespace holds filters v%d / resilience v%d of %s, model says v%d / v%d", fv0, pv0, p, vx.Int(st["fv"]), vx.Int(st["pv"]))
		}
		_, e2 := w.c11VerOfEntity(p)
		if e1 != e0 || e2 != e0 || atomic.LoadInt64(&c11Inherits) != n0 {
			return fmt.Sprintf("noop: applying an unchanged spec replaced the entity (same=%v/%v) or touched its filters (%d calls)",
				e1 == e0, e2 == e0, atomic.LoadInt64(&c11Inherits)-n0)
		}
	case "deleteRemove":
		// LoadAndDelete ; Close is one block (Gen: Atomic = "gates")
		if err := w.tc.DeletePipeline(c11Namespace, vx.Str(st["p"])); err != nil {
			return "delete failed: " + err.Error()
		}
	case "deleteClose":
		if ver, _ := w.c11VerOfEntity(vx.Str(st["p"])); ver != 0 {
			return fmt.Sprintf("stored: %s still present after delete", vx.Str(st["p"]))
		}
	case "ctl":
		// a new generation of the TrafficController object takes over the namespaces
		n0 := atomic.LoadInt64(&c11Inherits)
		tc2 := &trafficcontroller.TrafficController{}
		tc2.Inherit(c11MustSpec("kind: TrafficController\nname: c11tc\n"), w.tc)
		w.tc = tc2
		if atomic.LoadInt64(&c11Inherits) != n0 {
			return "noop: inheriting the TrafficController touched the filters of its pipelines"
		}
	case "init":
	default:
		return "harness: unknown step " + a
	}
	return ""
}

func (rp *c11Replay) startUpdate(pipe, want string, fn func()) string {
	rp.upd = &c11UpdGate{pipe: pipe, ev: make(chan string, 4), rel: make(chan struct{}, 4)}
	rp.updCh = make(chan string, 2)
	rp.kept, rp.updRet, rp.updPanic = false, false, false
	c11Upd.Store(rp.upd)
	ch := rp.updCh
	go func() {
		defer func() {
			if e := recover(); e != nil {
				rp.updPanic = true
				ch <- "panic: " + fmt.Sprint(e)
				return
			}
			ch <- "returned"
		}()
		fn()
	}()
	if p := rp.waitUpd(); p != want {
		return fmt.Sprintf("update of %s reached %q instead of %q", pipe, p, want)
	}
	return ""
}

// finish drains whatever the behaviour left in flight.
func (rp *c11Replay) finish() {
	if g, _ := c11Upd.Load().(*c11UpdGate); g != nil {
		c11Upd.Store((*c11UpdGate)(nil))
		g.rel <- struct{}{}
		if !rp.updRet {
			select {
			case <-rp.updCh:
			case <-time.After(c11Wait):
			}
		}
	}
	for _, rr := range rp.reqs {
		rr.r.ungate()
		if rr.done != nil && !rr.fin {
			select {
			case <-rr.done:
			case <-time.After(c11Wait):
			}
		}
		c11Reqs.Delete(rr.r.id)
	}
	c11Cur.Store((*c11Req)(nil))
	rp.w.close()
}

// c11Baseline: what the replay reads the configuration of a generation from must hold on a first
// generation that no update has touched: the second POST is limited (429), a failing backend call is
// made maxAttempts = pv + 1 = 2 times and ends with the backend's 503.  Otherwise the harness cannot judge.
func c11Baseline() string {
	c11Upd.Store((*c11UpdGate)(nil))
	c11Cur.Store((*c11Req)(nil))
	w := c11NewWorld(true)
	defer w.close()
	do := func(id, cl string) (int, int64) {
		r := c11NewReq(id, false)
		r.cl = cl
		defer c11Reqs.Delete(id)
		st := w.c11Direct(r, "pa")
		return st, atomic.LoadInt64(&r.calls)
	}
	if st, _ := do("base-x1", "x"); st != 200 {
		return fmt.Sprintf("baseline: the first POST to a fresh pipeline ended with status %d", st)
	}
	if st, _ := do("base-x2", "x"); st != 429 {
		return fmt.Sprintf("baseline: the second POST to a fresh pipeline (limit 1 per hour) ended with status %d", st)
	}
	if st, calls := do("base-f", "f"); st != 503 || calls != 2 {
		return fmt.Sprintf("baseline: a failing backend call on a fresh pipeline (retry maxAttempts 2) ended with status %d after %d attempts", st, calls)
	}
	if st, calls := do("base-n", "n"); st != 200 || calls != 1 {
		return fmt.Sprintf("baseline: a plain request to a fresh pipeline ended with status %d after %d backend calls", st, calls)
	}
	return ""
}

func TestVerifC11Replay(t *testing.T) {
	behs := vx.ReadBehaviours(t, "VERIF_IN")
	out := vx.NewWriter(t, "VERIF_OUT")
	defer out.Close()
	steps, mism, judged, unjudged, ungated := 0, 0, 0, 0, 0
	if bad := c11Baseline(); bad != "" {
		out.Raw(vx.M{"k": "mismatch", "b": -1, "step": 0, "a": "baseline", "at": vx.M{}, "what": "harness: " + bad, "behaviour": []vx.M{}})
		behs = nil
	}
	for bi, beh := range behs {
		rp := &c11Replay{w: c11NewWorld(true), reqs: map[string]*c11RunReq{}, specs: map[int]string{}}
		c11Upd.Store((*c11UpdGate)(nil))
		c11Cur.Store((*c11Req)(nil))
		for si, st := range beh {
			steps++
			rp.beh, rp.si = beh, si
			bad := rp.step(st)
			for name, rr := range rp.reqs { // every real failure is reported, predicted by the model or not
				if rr.fin && !rr.told && (rr.r.panicV != "" || (rr.r.status != 200 && rr.r.status != 403 && !(rr.r.status == 503 && !rr.r.found) &&
					!(rr.r.cl == "x" && rr.r.status == 429) && !(rr.r.cl == "f" && rr.r.status == 503))) {
					rr.told = true
					site, pv := rr.r.site, rr.r.panicV
					if pv == "" {
						site, pv = fmt.Sprintf("status %d", rr.r.status), fmt.Sprintf("request ended with status %d", rr.r.status)
					}
					out.Raw(vx.M{"k": "fail", "b": bi, "step": si, "r": name, "site": site, "panic": pv, "at": st, "behaviour": beh[:si+1]})
				}
			}
			if bad == "unjudged" {
				unjudged++
				break
			}
			if bad == "ungated" {
				ungated++
				break
			}
			if bad != "" {
				mism++
				out.Raw(vx.M{"k": "mismatch", "b": bi, "step": si, "a": vx.Str(st["a"]), "at": st, "what": bad, "behaviour": beh[:si+1]})
				break
			}
		}
		rp.finish()
		judged += rp.judged
	}
	out.Raw(vx.M{"k": "summary", "behaviours": len(behs), "steps": steps, "mismatches": mism, "judged": judged, "unjudged": unjudged, "ungated": ungated})
}

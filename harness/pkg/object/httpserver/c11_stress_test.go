package httpserver

// TestVerifC11Stress: N goroutines push requests through the real mux.ServeHTTP (and, for the
// isolation clause, straight through Namespace.GetHandler to another pipeline) while one goroutine
// reloads the server, updates / re-applies the pipelines and creates / deletes another pipeline.
// Every request logs the tuple it saw; TLC validates the log against HotUpdate (HotUpdate_Trace).

import (
	"fmt"
	"net/http/httptest"
	goruntime "runtime"
	"runtime/debug"
	"sync"
	"sync/atomic"
	"testing"
	"time"

	"github.com/megaease/easegress/pkg/supervisor"

	vx "github.com/megaease/easegress/pkg/verifx"
)

func c11StressRun(out *vx.Writer, run int, rlSame, realServer bool, workers, perWorker, updates int) {
	w := c11NewWorld(rlSame)
	defer w.close()
	if realServer {
		if err := w.startServer(); err != nil {
			out.Emit(vx.M{"ev": "harness-error", "what": err.Error()})
			return
		}
	}
	c11Upd.Store((*c11UpdGate)(nil))
	c11Cur.Store((*c11Req)(nil))
	out.Emit(vx.M{"ev": "reset", "run": run, "rlSame": rlSame})
	rng := vx.Rand(int64(1100 + run))
	var stop int32
	var started, finished, budget, granted int64
	live := int64(workers) // workers still running (each stops after perWorker requests at the latest)
	grant := func(n int) { granted += int64(n); atomic.AddInt64(&budget, int64(n)) }
	settle := func() { // all granted requests have returned
		for atomic.LoadInt64(&finished) < granted && atomic.LoadInt64(&live) > 0 {
			time.Sleep(50 * time.Microsecond)
		}
	}
	var wg sync.WaitGroup

	// requests
	for wi := 0; wi < workers; wi++ {
		wg.Add(1)
		direct := wi == workers-1 // the last worker probes the other pipeline q
		go func(wi int) {
			defer wg.Done()
			defer atomic.AddInt64(&live, -1)
			p := fmt.Sprintf("w%d", wi)
			for n := 0; atomic.LoadInt32(&stop) == 0 && n < perWorker; n++ {
				// requests are paced by the updater's grants, not by time: the size of the log does not
				// depend on the speed of the machine
				if atomic.AddInt64(&budget, -1) < 0 {
					atomic.AddInt64(&budget, 1)
					n--
					time.Sleep(20 * time.Microsecond)
					continue
				}
				atomic.AddInt64(&started, 1)
				id := fmt.Sprintf("s%d-%s-%d", run, p, n)
				r := c11NewReq(id, false)
				tg, ip := "srv", "n"
				if direct && n%2 == 0 {
					tg = "q"
				} else if (n+wi)%3 == 0 {
					ip = "b" // the client address that every other options version refuses
				}
				out.Emit(vx.M{"ev": "r.inv", "p": p, "tg": tg, "ip": ip})
				func() {
					defer func() {
						if e := recover(); e != nil {
							r.panicV = fmt.Sprint(e)
							r.site = c11Site(string(debug.Stack()))
						}
					}()
					if tg == "srv" && realServer {
						r.status = w.get(id, ip)
					} else if tg == "srv" {
						rec := httptest.NewRecorder()
						w.mux.ServeHTTP(rec, c11NewHTTPRequest(id, ip))
						r.status = rec.Code
					} else {
						r.status = w.c11Direct(r, tg)
					}
				}()
				obs := r.snapshot()
				if r.status == 0 && r.panicV == "" {
					r.site, _ = c11LastErr.Load().(string)
				}
				ev := vx.M{"ev": "r.ret", "p": p, "tg": tg, "ip": ip, "st": r.status, "panic": r.panicV != "", "site": r.site,
					"pipe": "-", "g": 0, "xf": false, "v1": 0, "v2": 0, "v3": 0}
				for _, o := range obs {
					ev[fmt.Sprintf("v%d", o.Pos)] = o.Value
					if o.Pos == 1 {
						ev["pipe"], ev["g"], ev["xf"] = o.Pipe, c11GenOfPath(o.Path), o.XFF
					} else if o.Pipe != ev["pipe"] {
						ev["pipe"] = "mixed:" + o.Pipe
					}
				}
				c11Reqs.Delete(id)
				out.Emit(ev)
				atomic.AddInt64(&finished, 1)
			}
		}(wi)
	}

	// the updater
	wg.Add(1)
	go func() {
		defer wg.Done()
		defer atomic.StoreInt32(&stop, 1)
		gen, rv, ov := 1, 1, 1
		ver := map[string]int{"pa": 1, "pb": 1, "q": 0}
		nver := map[string]int{"pa": 1, "pb": 1, "q": 0} // versions used so far (a re-created q goes on counting)
		grant(workers)
		settle()
		for k := 0; k < updates; k++ {
			c := rng.Intn(10)
			// specs are built before the call is logged: the inv..ret window is the real call only
			kind := []string{"rules", "opts", "both"}[rng.Intn(3)]
			nrv, nov := rv, ov
			if kind != "opts" {
				nrv++
			}
			if kind != "rules" {
				nov++
			}
			nextSrv := c11MustSpec(c11ServerYAML(nrv, nov))
			specOf := func(p string, v int) *supervisor.Spec { return c11MustSpec(w.c11PipelineYAML(p, v)) }
			pp := []string{"pa", "pb", "q"}[rng.Intn(3)]
			if ver[pp] == 0 {
				pp = []string{"pa", "pb"}[k%2]
			}
			upSpec, sameSpec, qSpec := specOf(pp, nver[pp]+1), specOf(pp, ver[pp]), specOf("q", nver["q"]+1)
			s0 := atomic.LoadInt64(&started)
			grant(2 * workers)
			for i := 0; atomic.LoadInt64(&started) < s0+int64(workers/2) && i < 200; i++ { // some requests are in flight
				goruntime.Gosched()
				time.Sleep(10 * time.Microsecond)
			}
			switch {
			case c < 3:
				gen, rv, ov = gen+1, nrv, nov
				out.Emit(vx.M{"ev": "u.inv", "op": "srv", "o": "-", "g": gen, "kind": kind})
				if !realServer {
					w.mux.reload(nextSrv, w.mapper)
				} else if err := w.reloadServer(nextSrv, rv, ov); err != nil {
					out.Emit(vx.M{"ev": "harness-error", "what": err.Error()})
					return
				}
				out.Emit(vx.M{"ev": "u.ret", "op": "srv", "o": "-", "g": gen, "kind": kind, "kept": false})
			case c < 6:
				p := pp
				nver[p]++
				out.Emit(vx.M{"ev": "u.inv", "kind": "-", "op": "pip", "o": p, "g": nver[p]})
				_, e0 := w.c11VerOfEntity(p)
				e1, err := w.tc.ApplyPipelineForSpec(c11Namespace, upSpec)
				ver[p] = nver[p]
				out.Emit(vx.M{"ev": "u.ret", "op": "pip", "o": p, "g": nver[p], "kept": e1 == e0, "err": err != nil})
			case c < 7:
				p := pp
				out.Emit(vx.M{"ev": "u.inv", "kind": "-", "op": "same", "o": p, "g": ver[p]})
				_, e0 := w.c11VerOfEntity(p)
				n0 := atomic.LoadInt64(&c11Inherits)
				e1, err := w.tc.ApplyPipelineForSpec(c11Namespace, sameSpec)
				_, e2 := w.c11VerOfEntity(p)
				// marker filters of q, pa, pb are only touched by this goroutine: the counter is exact
				out.Emit(vx.M{"ev": "u.ret", "op": "same", "o": p, "g": ver[p], "err": err != nil,
					"kept": e1 == e0 && e2 == e0 && atomic.LoadInt64(&c11Inherits) == n0})
			default:
				if ver["q"] == 0 {
					nver["q"]++
					out.Emit(vx.M{"ev": "u.inv", "kind": "-", "op": "create", "o": "q", "g": nver["q"]})
					_, err := w.tc.CreatePipelineForSpec(c11Namespace, qSpec)
					ver["q"] = nver["q"]
					out.Emit(vx.M{"ev": "u.ret", "op": "create", "o": "q", "g": nver["q"], "kept": false, "err": err != nil})
				} else {
					out.Emit(vx.M{"ev": "u.inv", "kind": "-", "op": "delete", "o": "q", "g": 0})
					err := w.tc.DeletePipeline(c11Namespace, "q")
					ver["q"] = 0
					out.Emit(vx.M{"ev": "u.ret", "op": "delete", "o": "q", "g": 0, "kept": false, "err": err != nil})
				}
			}
			// the requests granted at the beginning of the update have run concurrently with it; then a
			// few requests that start strictly after the update has returned
			settle()
			grant(1 + rng.Intn(3))
			settle()
		}
	}()
	wg.Wait()
}

func TestVerifC11Stress(t *testing.T) {
	out := vx.NewWriter(t, "VERIF_OUT")
	defer out.Close()
	runs := vx.EnvInt("VERIF_N", 3)
	workers := vx.EnvInt("VERIF_WORKERS", 4)
	per := vx.EnvInt("VERIF_PER", 30)
	updates := vx.EnvInt("VERIF_UPDATES", 12)
	rlSame := vx.EnvInt("VERIF_RLSAME", 0) == 1
	c11FillerRules = vx.EnvInt("VERIF_FILLER", 40)
	defer func() { c11FillerRules = 0 }()
	realServer := vx.EnvInt("VERIF_RUNTIME", 0) == 1
	for run := 0; run < runs; run++ {
		c11StressRun(out, run, rlSame, realServer, workers, per, updates)
	}
}

package httpserver

// Harness for C11 (DESIGN 5/C11, specs/HotUpdate.tla): a real mux in front of a real
// TrafficController namespace holding real Pipelines made of real filters (RateLimiter, Proxy) and
// of the harness' own marker filter kind.  Nothing in /repo is hooked: the harness stops a request
// (a) itself between m.inst.Load() and inst.serveHTTP, (b) in its MuxMapper wrapper around the real
// Namespace.GetHandler, (c) in the Handle of its marker filters placed before/after every real
// filter; it stops an update at the end of the last marker filter's Init/Inherit.
// A pipeline generation is built from version fv of its filters and version pv of its resilience
// section (an update changes either or both).  Requests of class "x" (POST) fall under a URL rule of
// the RateLimiter that every generation limits to one permit per hour; for requests of class "f" the
// backend answers 503 and the Proxy retries as the retry policy of the resilience section says
// (maxAttempts = pv + 1, the backend counts the calls): both show which configuration handled a request.
//
//   c11_world_test.go   the world: filter kind C11Mark, traffic-gate kind C11Gate, specs per generation
//   c11_replay_test.go  TestVerifC11Replay - TLC-generated schedules replayed step by step (MBT)
//   c11_stress_test.go  TestVerifC11Stress - concurrent requests vs. an updater, recorded for TLC (TV)

import (
	"fmt"
	"io"
	"net"
	"net/http"
	"net/http/httptest"
	"regexp"
	"strconv"
	"strings"
	"sync"
	"sync/atomic"
	"time"

	"github.com/megaease/easegress/pkg/context"
	"github.com/megaease/easegress/pkg/filters"
	_ "github.com/megaease/easegress/pkg/filters/proxy"
	_ "github.com/megaease/easegress/pkg/filters/ratelimiter"
	"github.com/megaease/easegress/pkg/logger"
	"github.com/megaease/easegress/pkg/object/pipeline"
	"github.com/megaease/easegress/pkg/object/trafficcontroller"
	"github.com/megaease/easegress/pkg/protocols/httpprot"
	"github.com/megaease/easegress/pkg/protocols/httpprot/httpstat"
	"github.com/megaease/easegress/pkg/supervisor"
	"github.com/megaease/easegress/pkg/tracing"
)

const (
	c11Namespace   = "c11ns"
	c11ReqHeader   = "X-C11-Req"
	c11ClassHeader = "X-C11-Class"
	c11Wait        = 60 * time.Second
)

var c11FillerRules = 0      // set by the stress test
var c11LastErr atomic.Value // last transport error of the real-server variant (diagnostics)
var c11Port = 18611         // only listened on by the runtime variant of the stress test (a free port is chosen then)

func init() {
	logger.InitNop()
	filters.Register(c11MarkKind)
	supervisor.Register(&c11Gate{})
}

// ---------------------------------------------------------------------------------------------
// the marker filter: records what a request looks like at its position of the pipeline and which
// generation of the pipeline it belongs to; optionally stops the request there.

type c11MarkSpec struct {
	filters.BaseSpec `yaml:",inline"`
	Value            int  `yaml:"value"`
	Pos              int  `yaml:"pos"`
	Last             bool `yaml:"last"`
}

type c11Mark struct {
	spec *c11MarkSpec
}

var c11MarkKind = &filters.Kind{
	Name:           "C11Mark",
	Description:    "verification marker",
	Results:        []string{},
	DefaultSpec:    func() filters.Spec { return &c11MarkSpec{} },
	CreateInstance: func(spec filters.Spec) filters.Filter { return &c11Mark{spec: spec.(*c11MarkSpec)} },
}

var (
	c11Reqs     sync.Map     // request id -> *c11Req
	c11Cur      atomic.Value // *c11Req: the request the controller lets run (schedule replay only)
	c11Upd      atomic.Value // *c11UpdGate: armed gate of the updater (schedule replay only)
	c11Inherits int64        // number of Inherit/Init/Close calls on marker filters (no-op detection)
)

type c11Obs struct {
	Pos   int
	Value int
	Pipe  string
	Path  string
	XFF   bool
}

type c11Req struct {
	id    string
	gated bool
	ev    chan string   // request goroutine -> controller: the point it arrived at
	rel   chan struct{} // controller -> request goroutine
	mu    sync.Mutex
	obs   []c11Obs
	asked string // backend name asked from the MuxMapper
	found bool
	cl    string // request class: "" / "n" plain, "x" POST (a URL rule every generation limits), "f" the backend fails the call
	calls int64  // calls that reached the backend (attempts of the Proxy)
	// result
	status int
	panicV string
	site   string
}

func c11NewReq(id string, gated bool) *c11Req {
	r := &c11Req{id: id, gated: gated, ev: make(chan string, 16), rel: make(chan struct{}, 16)}
	c11Reqs.Store(id, r)
	return r
}

func (r *c11Req) arrive(point string) {
	if !r.isGated() {
		return
	}
	r.ev <- point
	<-r.rel
}

func (r *c11Req) isGated() bool {
	r.mu.Lock()
	defer r.mu.Unlock()
	return r.gated
}

// ungate lets the request run to its end.
func (r *c11Req) ungate() {
	r.mu.Lock()
	r.gated = false
	r.mu.Unlock()
	for i := 0; i < 8; i++ {
		select {
		case r.rel <- struct{}{}:
		default:
		}
	}
}

func (r *c11Req) snapshot() []c11Obs {
	r.mu.Lock()
	defer r.mu.Unlock()
	return append([]c11Obs(nil), r.obs...)
}

type c11UpdGate struct {
	pipe string
	ev   chan string
	rel  chan struct{}
}

func (m *c11Mark) Name() string        { return m.spec.Name() }
func (m *c11Mark) Kind() *filters.Kind { return c11MarkKind }
func (m *c11Mark) Spec() filters.Spec  { return m.spec }
func (m *c11Mark) Status() interface{} { return nil }
func (m *c11Mark) Close()              { atomic.AddInt64(&c11Inherits, 1) }

func (m *c11Mark) stopUpdater(point string) {
	if !m.spec.Last {
		return
	}
	if g, _ := c11Upd.Load().(*c11UpdGate); g != nil && g.pipe == m.spec.Pipeline() {
		g.ev <- point
		<-g.rel
	}
}

func (m *c11Mark) Init() {
	atomic.AddInt64(&c11Inherits, 1)
	m.stopUpdater("inited")
}

func (m *c11Mark) Inherit(previousGeneration filters.Filter) {
	atomic.AddInt64(&c11Inherits, 1)
	m.stopUpdater("inherited")
}

func (m *c11Mark) Handle(ctx *context.Context) string {
	req := ctx.GetInputRequest().(*httpprot.Request)
	v, ok := c11Reqs.Load(req.HTTPHeader().Get(c11ReqHeader))
	if !ok {
		return ""
	}
	r := v.(*c11Req)
	r.mu.Lock()
	r.obs = append(r.obs, c11Obs{Pos: m.spec.Pos, Value: m.spec.Value, Pipe: m.spec.Pipeline(), Path: req.Path(),
		XFF: req.HTTPHeader().Get("X-Forwarded-For") != ""})
	r.mu.Unlock()
	r.arrive("mark" + strconv.Itoa(m.spec.Pos))
	return ""
}

// ---------------------------------------------------------------------------------------------
// a traffic gate kind whose only purpose is to obtain the real *Namespace (the MuxMapper the
// TrafficController hands to traffic gates) from outside package trafficcontroller.

type c11Gate struct{}

type c11GateSpec struct{}

var c11GateMapper = make(chan context.MuxMapper, 4)

func (g *c11Gate) Category() supervisor.ObjectCategory { return supervisor.CategoryTrafficGate }
func (g *c11Gate) Kind() string                        { return "C11Gate" }
func (g *c11Gate) DefaultSpec() interface{}            { return &c11GateSpec{} }
func (g *c11Gate) Status() *supervisor.Status          { return &supervisor.Status{} }
func (g *c11Gate) Close()                              {}
func (g *c11Gate) Init(superSpec *supervisor.Spec, muxMapper context.MuxMapper) {
	c11GateMapper <- muxMapper
}
func (g *c11Gate) Inherit(superSpec *supervisor.Spec, prev supervisor.Object, muxMapper context.MuxMapper) {
}

// c11Mapper wraps the real namespace: in schedule replay the current request stops before the
// real sync.Map load.
type c11Mapper struct {
	real context.MuxMapper
}

func (mm *c11Mapper) GetHandler(name string) (context.Handler, bool) {
	r, _ := c11Cur.Load().(*c11Req)
	if r != nil && r.isGated() {
		r.mu.Lock()
		r.asked = name
		r.mu.Unlock()
		r.arrive("get:" + name)
	}
	h, ok := mm.real.GetHandler(name)
	if r != nil {
		r.mu.Lock()
		r.found = ok
		r.mu.Unlock()
	}
	return h, ok
}

// ---------------------------------------------------------------------------------------------
// the world

type c11World struct {
	tc      *trafficcontroller.TrafficController
	ns      context.MuxMapper // the real *trafficcontroller.Namespace
	mapper  *c11Mapper
	mux     *mux
	backend *httptest.Server
	rlSame  bool        // the RateLimiter's URL rule is the same in every version of a pipeline
	hs      *HTTPServer // runtime variant: the real HTTPServer object (listener, event loop) owning w.mux
	client  *http.Client
}

var c11BackendOnce sync.Once
var c11Backend *httptest.Server

func c11GetBackend() *httptest.Server {
	c11BackendOnce.Do(func() {
		c11Backend = httptest.NewServer(http.HandlerFunc(func(w http.ResponseWriter, r *http.Request) {
			// schedule replay: the request is in flight at the backend until the controller lets it return
			// (its first call: a call the Proxy repeats because its retry policy says so is answered at once)
			if v, ok := c11Reqs.Load(r.Header.Get(c11ReqHeader)); ok {
				if atomic.AddInt64(&v.(*c11Req).calls, 1) == 1 {
					v.(*c11Req).arrive("backend")
				}
			}
			if r.Header.Get(c11ClassHeader) == "f" { // the backend fails this class of requests
				w.WriteHeader(503)
				w.Write([]byte("unavailable"))
				return
			}
			w.Header().Set("X-C11-Backend", "1")
			w.WriteHeader(200)
			w.Write([]byte("ok"))
		}))
	})
	return c11Backend
}

func c11MustSpec(yaml string) *supervisor.Spec {
	s, err := supervisor.NewSpec(yaml)
	if err != nil {
		panic(fmt.Errorf("c11: bad spec: %v\n%s", err, yaml))
	}
	return s
}

const c11BlockedIP = "10.9.9.9"

// c11ServerYAML is a generation of the server spec: version rv of the rules (backend pa/pb, rewrite
// target /g<rv>) and version ov of the options (xForwardedFor, the server-level ipFilter that blocks
// c11BlockedIP in every other version, maxConnections encoding ov for the harness - all of them
// options the runtime applies without restarting the listener).  The cache
// size never changes and the rules are byte-identical for equal rv: an options-only update leaves
// the routing table alone.
func c11ServerYAML(rv, ov int) string {
	be := "pa"
	if rv%2 == 0 {
		be = "pb"
	}
	blocked := "10.9.9.8"
	if ov%2 == 0 {
		blocked = c11BlockedIP
	}
	// rules that never match come first: building an instance takes a while, as it does for a real
	// server with many rules - a request that could see a half-built instance has a window to do so
	filler := ""
	for i := 0; i < c11FillerRules; i++ {
		filler += fmt.Sprintf("- hostRegexp: ^filler%d-[a-z]+\\.g%d\\.test$\n  paths:\n  - pathRegexp: ^/f%d/([a-z]+)/(\\d+)$\n    backend: pa\n", i, rv, i)
	}
	return fmt.Sprintf(`
kind: HTTPServer
name: c11srv
port: %d
keepAlive: true
https: false
xForwardedFor: %v
maxConnections: %d
cacheSize: 16
ipFilter:
  blockIPs: [%s]
rules:
%s- paths:
  - pathPrefix: /in
    backend: %s
    rewriteTarget: /g%d
`, c11Port, ov%2 == 1, 10000+ov, blocked, filler, be, rv)
}

// c11PipelineYAML is version ver of pipeline name, filters and resilience section.
func (w *c11World) c11PipelineYAML(name string, ver int) string {
	return w.c11PipelineYAML2(name, ver, ver)
}

// c11PipelineYAML2 is the generation of pipeline name built from version fv of its filters
// (mark1 -> RateLimiter -> mark2 -> Proxy -> mark3: the markers show fv, the RateLimiter and the Proxy
// differ in an option) and version pv of its resilience section (the retry policy the Proxy refers to:
// maxAttempts = pv + 1).  In every generation POST requests are limited to one permit per hour.
func (w *c11World) c11PipelineYAML2(name string, fv, pv int) string {
	ver := fv
	url := "prefix: /"
	if !w.rlSame && ver%2 == 0 {
		url = "regex: ^/.*$"
	}
	return fmt.Sprintf(`
name: %s
kind: Pipeline
filters:
- name: mark1
  kind: C11Mark
  value: %d
  pos: 1
- name: rl
  kind: RateLimiter
  policies:
  - name: pol
    timeoutDuration: 100ms
    limitRefreshPeriod: 10ms
    limitForPeriod: 1000000
  - name: tight
    timeoutDuration: 1ms
    limitRefreshPeriod: 1h
    limitForPeriod: 1
  - name: unused
    limitForPeriod: %d
  defaultPolicyRef: pol
  urls:
  - methods: [POST]
    url:
      prefix: /
    policyRef: tight
  - url:
      %s
    policyRef: pol
- name: mark2
  kind: C11Mark
  value: %d
  pos: 2
- name: px
  kind: Proxy
  maxIdleConns: %d
  pools:
  - servers:
    - url: %s
    retryPolicy: retry
    failureCodes: [503]
- name: mark3
  kind: C11Mark
  value: %d
  pos: 3
  last: true
resilience:
- name: retry
  kind: Retry
  maxAttempts: %d
  waitDuration: 1ms
`, name, ver, 10+ver, url, ver, 100+ver, w.backend.URL, ver, pv+1)
}

func c11NewWorld(rlSame bool) *c11World {
	w := &c11World{backend: c11GetBackend(), rlSame: rlSame}
	w.tc = &trafficcontroller.TrafficController{}
	w.tc.Init(c11MustSpec("kind: TrafficController\nname: c11tc\n"))
	if _, err := w.tc.CreateTrafficGateForSpec(c11Namespace, c11MustSpec("kind: C11Gate\nname: c11gate\n")); err != nil {
		panic(err)
	}
	w.ns = <-c11GateMapper
	w.mapper = &c11Mapper{real: w.ns}
	for _, p := range []string{"pa", "pb"} {
		if _, err := w.tc.CreatePipelineForSpec(c11Namespace, c11MustSpec(w.c11PipelineYAML(p, 1))); err != nil {
			panic(err)
		}
	}
	w.mux = newMux(httpstat.New(), httpstat.NewTopN(10), w.mapper)
	w.mux.reload(c11MustSpec(c11ServerYAML(1, 1)), w.mapper)
	return w
}

func (w *c11World) close() {
	if w.hs != nil {
		w.hs.Close()
	}
	w.tc.Close()
}

// startServer replaces the bare mux by a real HTTPServer object: newRuntime, its event loop, a real
// listener on a free port.  Returns an error if the server does not come up (not a verdict).
func (w *c11World) startServer() error {
	l, err := net.Listen("tcp", "127.0.0.1:0")
	if err != nil {
		return err
	}
	c11Port = l.Addr().(*net.TCPAddr).Port
	l.Close()
	hs := &HTTPServer{}
	hs.Init(c11MustSpec(c11ServerYAML(1, 1)), w.mapper)
	w.hs, w.mux = hs, hs.runtime.mux
	w.client = &http.Client{Timeout: 30 * time.Second, Transport: &http.Transport{DisableKeepAlives: true}}
	for i := 0; i < 2000; i++ {
		if rv, _ := c11GenOfInst(w.mux.inst.Load().(*muxInstance)); hs.runtime.getState() == stateRunning && rv == 1 {
			if c, err := net.Dial("tcp", fmt.Sprintf("127.0.0.1:%d", c11Port)); err == nil {
				c.Close()
				return nil
			}
		}
		time.Sleep(5 * time.Millisecond)
	}
	return fmt.Errorf("HTTPServer did not start on port %d: state %v error %v", c11Port, hs.runtime.getState(), hs.runtime.getError())
}

// reloadServer applies generation gen through the object's own path: a new HTTPServer generation
// inherits the runtime and sends it a reload event; returns when the event loop has applied it.
func (w *c11World) reloadServer(spec *supervisor.Spec, rv, ov int) error {
	hs := &HTTPServer{}
	hs.Inherit(spec, w.hs, w.mapper)
	w.hs = hs
	for i := 0; i < 20000; i++ {
		if r, o := c11GenOfInst(w.mux.inst.Load().(*muxInstance)); r == rv && o == ov {
			return nil
		}
		time.Sleep(time.Millisecond)
	}
	return fmt.Errorf("reload event for generation (%d,%d) was not applied within 20s", rv, ov)
}

// get sends one request over TCP to the real listener; 0 = transport error.
func (w *c11World) get(id, ip string) int {
	req, _ := http.NewRequest(http.MethodGet, fmt.Sprintf("http://127.0.0.1:%d/in/x", c11Port), http.NoBody)
	req.Header.Set(c11ReqHeader, id)
	if ip == "b" {
		req.Header.Set("X-Real-Ip", c11BlockedIP)
	}
	resp, err := w.client.Do(req)
	if err != nil {
		c11LastErr.Store(err.Error())
		return 0
	}
	io.Copy(io.Discard, resp.Body)
	resp.Body.Close()
	return resp.StatusCode
}

var c11PathRE = regexp.MustCompile(`^/g(\d+)(/.*)?$`)

// c11GenOfPath extracts the server generation from a rewritten path (0 if it is not one).
func c11GenOfPath(p string) int {
	m := c11PathRE.FindStringSubmatch(p)
	if m == nil {
		return 0
	}
	n, _ := strconv.Atoi(m[1])
	return n
}

// c11GenOfInst reads (rules version, options version) out of a mux instance.
func c11GenOfInst(mi *muxInstance) (rv, ov int) {
	if mi.spec == nil || len(mi.spec.Rules) == 0 {
		return 0, 0
	}
	last := mi.spec.Rules[len(mi.spec.Rules)-1]
	if len(last.Paths) == 0 {
		return 0, 0
	}
	return c11GenOfPath(last.Paths[0].RewriteTarget), int(mi.spec.MaxConnections) - 10000
}

// c11VerOfEntity reads the version out of the marker filters of the pipeline stored under name.
func (w *c11World) c11VerOfEntity(name string) (int, *supervisor.ObjectEntity) {
	e, ok := w.tc.GetPipeline(c11Namespace, name)
	if !ok {
		return 0, nil
	}
	p, ok := e.Instance().(*pipeline.Pipeline)
	if !ok {
		return -1, e
	}
	f := pipeline.MockGetFilter(p, "mark1")
	if f == nil {
		return -1, e
	}
	return f.(*c11Mark).spec.Value, e
}

// c11GenOfEntity reads (filters version, resilience version) of the pipeline stored under name: the
// markers show the first, the retry policy of its spec the second; (0, 0) if there is none.
func (w *c11World) c11GenOfEntity(name string) (fv, pv int, e *supervisor.ObjectEntity) {
	fv, e = w.c11VerOfEntity(name)
	if e == nil {
		return 0, 0, nil
	}
	pv = -1
	if ps, ok := e.Spec().ObjectSpec().(*pipeline.Spec); ok && len(ps.Resilience) > 0 {
		if n, ok := ps.Resilience[0]["maxAttempts"].(int); ok {
			pv = n - 1
		}
	}
	return fv, pv, e
}

// c11NewHTTPRequest: client "b" is the address the server-level ipFilter blocks in every other
// options version.
func c11NewHTTPRequest(id, ip string) *http.Request { return c11NewHTTPRequestC(id, ip, "n") }

func c11NewHTTPRequestC(id, ip, cl string) *http.Request {
	method := http.MethodGet
	if cl == "x" {
		method = http.MethodPost
	}
	stdr := httptest.NewRequest(method, "http://c11.test/in/x", http.NoBody)
	if cl == "f" {
		stdr.Header.Set(c11ClassHeader, "f")
	}
	stdr.Header.Set(c11ReqHeader, id)
	if ip == "b" {
		stdr.Header.Set("X-Real-Ip", c11BlockedIP)
	}
	return stdr
}

// c11Site names the first easegress frame of a panic stack (the signature of a failure).
func c11Site(stack string) string {
	for _, ln := range strings.Split(stack, "\n") {
		ln = strings.TrimSpace(ln)
		if !strings.HasPrefix(ln, "github.com/megaease/easegress/pkg/") || strings.Contains(ln, "zz_verif") {
			continue
		}
		if strings.Contains(ln, "pkg/verifx") || strings.Contains(ln, ".c11") || strings.Contains(ln, "(*c11") {
			continue
		}
		ln = strings.TrimPrefix(ln, "github.com/megaease/easegress/pkg/")
		if i := strings.LastIndex(ln, "("); i > 0 {
			ln = ln[:i]
		}
		return ln
	}
	return "?"
}

// c11Direct sends a request straight to the pipeline stored under name, as a traffic gate does:
// GetHandler then Handle.  Returns 503 if the namespace has no such pipeline.
func (w *c11World) c11Direct(r *c11Req, name string) int {
	h, ok := w.mapper.GetHandler(name)
	if !ok {
		return http.StatusServiceUnavailable
	}
	method := http.MethodGet
	if r.cl == "x" {
		method = http.MethodPost
	}
	stdr := httptest.NewRequest(method, "http://c11.test/direct", http.NoBody)
	if r.cl == "f" {
		stdr.Header.Set(c11ClassHeader, "f")
	}
	stdr.Header.Set(c11ReqHeader, r.id)
	req, _ := httpprot.NewRequest(stdr)
	req.FetchPayload(0)
	ctx := context.New(tracing.NoopSpan)
	ctx.SetRequest(context.DefaultNamespace, req)
	h.Handle(ctx)
	resp, _ := ctx.GetResponse(context.DefaultNamespace).(*httpprot.Response)
	ctx.Finish()
	if resp == nil {
		return 0
	}
	return resp.StatusCode()
}

package httpserver

// Harness for C12 (DESIGN 5/C12): the route cache is transparent.
//   TestVerifC12Replay - replays TLC-generated behaviours (configuration, requests with the
//                        contract's predicted outcome, purges, changes of the table behind the
//                        MuxMapper) on a real mux with the cache on and on its cache-less twin (MBT)
//   TestVerifC12Trace  - seeded random configurations (with IP filters) and long request
//                        sequences over a small key space, cache sizes 1, 2 and 64, now and then
//                        a backend deleted, created or replaced behind the MuxMapper of both
//                        muxes, observations of both recorded for TLC trace validation (TV)
// When the cached mux answers differently, the harness looks for the earlier request that is
// responsible (fresh cached mux, that request, then this one): diagnosis only, used to tell the
// defect classes apart.

import (
	"fmt"
	"math/rand"
	"strings"
	"testing"

	vx "github.com/megaease/easegress/pkg/verifx"
)

func TestVerifC12Replay(t *testing.T) {
	behs := vx.ReadBehaviours(t, "VERIF_IN")
	w := vx.NewWriter(t, "VERIF_OUT")
	defer w.Close()
	sizes := []int{64, 1, 2, 3}
	steps, mism, rejected, asimpl := 0, 0, 0, 0
	for bi, beh := range behs {
		if len(beh) == 0 || vx.Str(beh[0]["a"]) != "cfg" {
			t.Fatalf("behaviour %d does not start with cfg", bi)
		}
		cfg := beh[0]["cfg"].(vx.M)
		// the contract's prediction does not depend on the cache, so any size may be used; with 64
		// nothing is evicted except where the behaviour says so (purge), as in the model
		cs := sizes[bi%len(sizes)]
		cached, err := rhNewMux(cfg, cs, false)
		if err != nil {
			rejected++
			w.Raw(vx.M{"k": "rejected", "b": bi, "err": err.Error()})
			continue
		}
		plain, _ := rhNewMux(cfg, 0, false)
		var hist []vx.M
		mapsteps := []interface{}{} // changes of the mapper's table so far
		for si, st := range beh[1:] {
			switch vx.Str(st["a"]) {
			case "unmap", "map", "remap":
				cached.rhMapStep(st)
				plain.rhMapStep(st)
				mapsteps = append(mapsteps, st)
			case "purge":
				cached.purge()
				hist = nil
			case "req":
				steps++
				q := st["q"].(vx.M)
				exp := st["exp"].(vx.M)
				oc := rhServe(cached, q)
				ou := rhServe(plain, q)
				if impl, ok := st["impl"].(vx.M); ok && cs == 64 && rhSame(oc, impl) {
					asimpl++
				}
				if !rhSame(oc, exp) || !rhSame(ou, exp) {
					mism++
					rec := vx.M{"k": "mismatch", "b": bi, "step": si + 1, "cs": cs, "cfg": cfg, "q": q, "exp": exp, "oc": oc, "ou": ou,
						"own": st["own"], "why": st["why"], "impl": st["impl"], "spec": cached.spec, "cul": []interface{}{}, "mapsteps": mapsteps}
					if p, ok := rhCulprit(cfg, cs, hist, q, oc); ok {
						rec["cul"] = []interface{}{p}
						for _, h := range beh[1:] { // the contract's owner of the culprit
							if vx.Str(h["a"]) == "req" && rhKey(h["q"].(vx.M)) == rhKey(p) {
								rec["cown"] = h["own"]
								break
							}
						}
					}
					w.Raw(rec)
				}
				hist = append(hist, q)
			}
		}
		cached.m.close()
		plain.m.close()
	}
	w.Raw(vx.M{"k": "summary", "behaviours": len(behs), "steps": steps, "mismatches": mism, "rejected": rejected, "asimpl": asimpl})
}

// c12Pool: a small set of requests built to repeat and to collide: base requests, the same
// with other headers, from other clients, with another method, for another host, partners whose
// host+method+path concatenation coincides ("h"+"GET" = "hG"+"ET"), and requests for the URL a
// base request is rewritten to.
// seenAs(q) is the path the backend of q sees (rewriteTarget), "" when q is not dispatched: the pool also holds, for a
// base request that is rewritten, the request for the rewritten URL itself (same host and method).
func c12Pool(r *rand.Rand, base []vx.M, clients []vx.M, seenAs func(vx.M) string, otherHost func() string) []vx.M {
	pool := []vx.M{}
	clone := func(q vx.M) vx.M {
		c := vx.M{}
		for k, v := range q {
			c[k] = v
		}
		return c
	}
	for _, q := range base {
		pool = append(pool, q)
		// other headers
		h := clone(q)
		hdr := vx.M{}
		for _, k := range rgHdrKeys {
			hdr[k] = []interface{}{}
			if r.Intn(2) == 0 {
				hdr[k] = rhChars(rgHdrVals[r.Intn(3)])
			}
		}
		h["hdr"] = hdr
		pool = append(pool, h)
		// two requests for the URL of q whose header values collide once folded into one string
		if r.Intn(2) == 0 {
			pool = append(pool, rgHdrPartners(r, q)...)
		}
		// the URL q is rewritten to, asked for literally
		if p := seenAs(q); p != "" && p != vx.Chars(q["path"]) && strings.HasPrefix(p, "/") {
			v := clone(q)
			v["path"] = rhChars(p)
			pool = append(pool, v)
		}
		// another host, everything else the same: the two may reach the same entry by different ways
		// (rules for one host that are passed over, rules for every host)
		if r.Intn(2) == 0 {
			v := clone(q)
			v["host"] = rhChars(otherHost())
			pool = append(pool, v)
		}
		// other client
		c := clone(q)
		c["ip"] = clients[r.Intn(len(clients))]
		c["via"] = "remote"
		pool = append(pool, c)
		// other method (standard or not): same host and path
		if r.Intn(3) != 0 {
			o := clone(q)
			ms := append(append([]string{}, rgMethods...), rgOddMethods...)
			o["m"] = rhChars(ms[r.Intn(len(ms))])
			pool = append(pool, o)
		}
		// colliding partner: move the first letter of the method to the end of the host
		if r.Intn(2) == 0 {
			m := vx.Chars(q["m"])
			host := vx.Chars(q["host"])
			p := clone(q)
			p["host"] = rhChars(host + m[:1])
			p["m"] = rhChars(m[1:])
			pool = append(pool, p)
		}
		// spellings a key normalisation might conflate but the router distinguishes: letter case of
		// host or path, a trailing dot on the host
		if r.Intn(2) == 0 {
			v := clone(q)
			switch r.Intn(3) {
			case 0:
				v["host"] = rhChars(strings.ToUpper(vx.Chars(q["host"])))
			case 1:
				v["path"] = rhChars(strings.ToUpper(vx.Chars(q["path"])))
			default:
				v["host"] = rhChars(vx.Chars(q["host"]) + ".")
			}
			pool = append(pool, v)
		}
	}
	return pool
}

// c12Backends: the backend names the entries of the configuration point to (existing or not), in order.
func c12Backends(cfg vx.M) []string {
	out := []string{}
	seen := map[string]bool{}
	for _, rv := range vx.List(cfg["rules"]) {
		for _, ev := range vx.List(rv.(vx.M)["paths"]) {
			if b := vx.Str(ev.(vx.M)["backend"]); !seen[b] {
				seen[b] = true
				out = append(out, b)
			}
		}
	}
	return out
}

func TestVerifC12Trace(t *testing.T) {
	w := vx.NewWriter(t, "VERIF_OUT")
	defer w.Close()
	ncfg := vx.EnvInt("VERIF_N", 40)
	minLen := vx.EnvInt("VERIF_MINLEN", 20)
	maxLen := vx.EnvInt("VERIF_MAXLEN", 200)
	r := vx.Rand(1201)
	o := rgOpts{filters: true, fewKeys: true, maxRules: 3, maxPaths: 3}
	sizes := []int{1, 2, 64}
	done, rejected := 0, 0
	for done < ncfg && rejected < 10*ncfg+100 {
		cfg := rgCfg(r, o)
		cs := sizes[done%len(sizes)]
		cached, err := rhNewMux(cfg, cs, false)
		if err != nil {
			rejected++
			w.Raw(vx.M{"ev": "rejected", "err": err.Error()})
			continue
		}
		plain, _ := rhNewMux(cfg, 0, false)
		done++
		w.Raw(vx.M{"ev": "cfg", "cfg": cfg, "cs": cs})
		clients := rgClients(r, cfg, 3)
		paths := rgReqPaths(r, cfg)
		base := []vx.M{}
		for i := 0; i < 2+r.Intn(3); i++ {
			base = append(base, rgReq(r, o, cfg, paths, clients))
		}
		// asked of a third, cache-less mux (the recorded two see the recorded requests only)
		probe, _ := rhNewMux(cfg, 0, false)
		// if the configuration rewrites at all, one base request at least is one that is rewritten
		rewritten := func(q vx.M) bool {
			o := rhServe(probe, q)
			return vx.Int(o["code"]) == 0 && vx.Chars(o["path"]) != vx.Chars(q["path"])
		}
		have := true
		for _, rv := range vx.List(cfg["rules"]) {
			for _, ev := range vx.List(rv.(vx.M)["paths"]) {
				if vx.Chars(ev.(vx.M)["rewrite"]) != "" {
					have = false
				}
			}
		}
		for _, q := range base {
			have = have || rewritten(q)
		}
		for k := 0; k < 30 && !have; k++ {
			if q := rgReq(r, o, cfg, paths, clients); rewritten(q) {
				base = append(base, q)
				have = true
			}
		}
		pool := c12Pool(r, base, clients, func(q vx.M) string {
			if o := rhServe(probe, q); vx.Int(o["code"]) == 0 {
				return vx.Chars(o["path"])
			}
			return ""
		}, func() string { return rgHost(r, cfg) })
		probe.m.close()
		n := minLen + r.Intn(maxLen-minLen+1)
		var hist []vx.M
		backends := c12Backends(cfg)
		changes := 0
		for i := 0; i < n; i++ {
			// now and then the table behind the MuxMapper changes (a backend deleted, created - also
			// one that did not exist at the start - or replaced by a new instance), for both muxes, without
			// a reload of either
			if len(backends) > 0 && r.Intn(12) == 0 {
				changes++
				b := backends[r.Intn(len(backends))]
				st := vx.M{"a": "remap", "be": b, "inst": fmt.Sprintf("%s#%d", b, changes)}
				if _, ok := cached.rec.known[b]; !ok {
					st["a"] = "map"
				} else if r.Intn(2) == 0 {
					st["a"] = "unmap"
				}
				cached.rhMapStep(st)
				plain.rhMapStep(st)
				names, insts := []interface{}{}, []interface{}{}
				for _, b := range backends {
					if l, ok := plain.rec.known[b]; ok {
						names = append(names, b)
						insts = append(insts, l)
					}
				}
				now := vx.M{}
				for k, v := range cfg {
					now[k] = v
				}
				now["mapper"] = names
				cfg = now
				w.Raw(vx.M{"ev": "cfg", "cfg": cfg, "cs": cs, "insts": insts, "same": true, "step": st})
			}
			q := pool[r.Intn(len(pool))]
			oc := rhServe(cached, q)
			ou := rhServe(plain, q)
			rec := vx.M{"ev": "req", "q": q, "ou": ou, "oc": oc, "zu": ou, "zc": oc, "cul": []interface{}{}}
			if !rhSame(oc, ou) {
				if p, ok := rhCulprit(cfg, cs, hist, q, oc); ok {
					rec["cul"] = []interface{}{p}
				}
			}
			w.Raw(rec)
			hist = append(hist, q)
		}
		cached.m.close()
		plain.m.close()
	}
}

package httpserver

// Harness for C17 (DESIGN 5/C17), server level: a real HTTPServer object (real runtime, real
// net/http server over the real LimitListener; HTTP/3 stubbed out) whose maxConnections is changed
// through Inherit -> reload, and raw keep-alive TCP clients.
//
// Observation from the client side, events of specs/ConnCap_Trace.tla:
//   acc.inv {p}  before client p dials          acc {p}   after p received a complete response
//   close        before a served client hangs up (the server releases the slot later still)
//   rz {id,n}    before Inherit is called       rzdone    see below
//   drop         a served connection failed on its next request although nobody hung up
//   stuck        a waiting client was not served within the deadline although slots must be free
// A client that has a response was accepted before; one that has not hung up is still open on the
// server: the counter is conservative (DESIGN 2.3).
//
//   restart {cap} after a reload that changed a restart-relevant option (port, keepAliveTimeout) has
//                been carried out - a new listener with the cap of the new spec; nobody is connected
//
// Scenario "reload-sequence": TLC-generated sequences of reloads (specs/ConnCap.tla, profile
// OnlyReloads: run-time cap changes and restarting reloads in every order, with every value; read
// from VERIF_IN) are executed on a real server; the cap the server ends with (thorough tier: the cap
// after every reload) is probed with cap+1 clients.
//
// The runtime gives no signal when a cap change has been applied.  The harness waits until the
// reload event was consumed plus a settle time and then logs `rzdone` with "assumed":true.  The
// driver trusts a rejection only if it also holds without the assumed events, or if it reproduces
// with a five times longer settle time (DESIGN 2.3, timing).

import (
	"bufio"
	"fmt"
	"io"
	"net"
	"net/http"
	"os"
	"strings"
	"sync"
	"testing"
	"time"

	"github.com/megaease/easegress/pkg/context"
	"github.com/megaease/easegress/pkg/context/contexttest"
	"github.com/megaease/easegress/pkg/logger"
	"github.com/megaease/easegress/pkg/protocols/httpprot"
	"github.com/megaease/easegress/pkg/supervisor"
	vx "github.com/megaease/easegress/pkg/verifx"
)

func init() { logger.InitNop() }

type c17SLog struct {
	mu   sync.Mutex
	w    *vx.Writer
	open int
	nrz  int
}

func (g *c17SLog) emit(rec vx.M) {
	g.w.Emit(rec)
}

func (g *c17SLog) reset(cap int, meta vx.M) {
	g.mu.Lock()
	defer g.mu.Unlock()
	g.open, g.nrz = 0, 0
	rec := vx.M{"ev": "reset", "cap": cap, "level": "server"}
	for k, v := range meta {
		rec[k] = v
	}
	g.emit(rec)
}

func (g *c17SLog) rz(n int) int {
	g.mu.Lock()
	defer g.mu.Unlock()
	g.nrz++
	g.emit(vx.M{"ev": "rz", "id": g.nrz, "n": n})
	return g.nrz
}

// restart: the server has been restarted with this cap; the numbering of cap changes starts again.
func (g *c17SLog) restart(cap int, how string) {
	g.mu.Lock()
	defer g.mu.Unlock()
	g.nrz = 0
	g.emit(vx.M{"ev": "restart", "cap": cap, "how": how})
}

func (g *c17SLog) rzdoneAssumed(id int) {
	g.mu.Lock()
	defer g.mu.Unlock()
	g.emit(vx.M{"ev": "rzdone", "id": id, "assumed": true})
}

func (g *c17SLog) accInv(p string) {
	g.mu.Lock()
	defer g.mu.Unlock()
	g.emit(vx.M{"ev": "acc.inv", "p": p})
}

func (g *c17SLog) acc(p string) {
	g.mu.Lock()
	defer g.mu.Unlock()
	g.emit(vx.M{"ev": "acc", "p": p, "open": g.open})
	g.open++
}

func (g *c17SLog) accErr(p string) {
	g.mu.Lock()
	defer g.mu.Unlock()
	g.emit(vx.M{"ev": "acc.err", "p": p})
}

func (g *c17SLog) closing() {
	g.mu.Lock()
	defer g.mu.Unlock()
	g.open--
	g.emit(vx.M{"ev": "close"})
}

func (g *c17SLog) drop() {
	g.mu.Lock()
	defer g.mu.Unlock()
	g.emit(vx.M{"ev": "drop"})
}

func (g *c17SLog) stuck(openhi int) {
	g.mu.Lock()
	defer g.mu.Unlock()
	g.emit(vx.M{"ev": "stuck", "openhi": openhi})
}

func (g *c17SLog) note(rec vx.M) {
	g.mu.Lock()
	defer g.mu.Unlock()
	rec["ev"] = "note"
	g.w.Raw(rec)
}

type c17Client struct {
	p      string
	conn   net.Conn
	br     *bufio.Reader
	done   chan struct{} // first exchange finished (served or failed)
	served bool
	hung   bool

	// slow clients: the request goes to a handler that blocks until the harness lets it return; the
	// connection counts as open from the handler's entry (it was accepted before) to just before its
	// return (it is closed after).  The client half-closes right after sending the request.
	slow     bool
	entered  chan struct{}
	gate     chan struct{}
	released bool
}

type c17Env struct {
	t      *testing.T
	g      *c17SLog
	port   int
	kat    int // keepAliveTimeout of the spec, seconds (changing it makes a reload restart the server)
	hs     *HTTPServer
	settle time.Duration
	nc     int
	all    []*c17Client

	lastCap int
	pending []c17Resize // cap changes whose completion has not been logged yet

	smu  sync.Mutex
	slow map[string]*c17Client

	probed bool

	dialFailed int // clients that could not connect at all
}

// stuck logs the liveness observation "a waiting client was not served" - unless a client of this
// scenario could not even connect (the environment's fault, e.g. no ephemeral port on a loaded
// machine): then fewer clients are waiting than the scenario thinks and the observation means nothing.
// (The safety observations - who was served while how many were open - stay valid.)
func (e *c17Env) stuck(openhi int) {
	if e.dialFailed > 0 {
		e.g.note(vx.M{"k": "stuck-ignored", "openhi": openhi, "dialfailed": e.dialFailed})
		return
	}
	e.g.stuck(openhi)
}

func (e *c17Env) dialFail(p string, err error) {
	e.dialFailed++
	e.g.note(vx.M{"k": "dialfail", "p": p, "err": err.Error()})
}

// mapper routes /slow/<p> to the blocking handler.
func (e *c17Env) mapper() context.MuxMapper {
	return &contexttest.MockedMuxMapper{MockedGetHandler: func(name string) (context.Handler, bool) {
		return &contexttest.MockedHandler{MockedHandle: func(ctx *context.Context) string {
			req, ok := ctx.GetRequest(context.DefaultNamespace).(*httpprot.Request)
			if !ok {
				return ""
			}
			p := strings.TrimPrefix(req.Path(), "/slow/")
			e.smu.Lock()
			c := e.slow[p]
			e.smu.Unlock()
			if c == nil {
				return ""
			}
			e.g.acc(p) // this connection is being served: it is open
			close(c.entered)
			select {
			case <-c.gate:
			case <-time.After(90 * time.Second):
			}
			e.g.closing() // before the handler returns (the server closes the connection after)
			return ""
		}}, true
	}}
}

type c17Resize struct {
	id, n, from int
	at          time.Time // when the runtime had consumed the reload
	quiet       bool      // nobody was connected then, nobody has dialled since
}

func c17FreePort() int {
	l, err := net.Listen("tcp", ":0")
	if err != nil {
		panic(err)
	}
	defer l.Close()
	return l.Addr().(*net.TCPAddr).Port
}

func (e *c17Env) spec(maxc int) *supervisor.Spec {
	y := fmt.Sprintf(`
kind: HTTPServer
name: c17
port: %d
keepAlive: true
keepAliveTimeout: %ds
https: false
maxConnections: %d
rules:
- paths:
  - pathPrefix: /slow/
    backend: c17slow
`, e.port, e.kat, maxc)
	ss, err := supervisor.NewSpec(y)
	if err != nil {
		e.t.Fatalf("c17: spec: %v", err)
	}
	return ss
}

func c17Start(t *testing.T, g *c17SLog, cap0 int, settle time.Duration, meta vx.M) *c17Env {
	e := &c17Env{t: t, g: g, port: c17FreePort(), kat: 600, settle: settle, lastCap: cap0, slow: map[string]*c17Client{}}
	g.reset(cap0, meta)
	e.hs = &HTTPServer{}
	e.hs.Init(e.spec(cap0), e.mapper())
	deadline := time.Now().Add(20 * time.Second)
	for e.hs.runtime.getState() != stateRunning || e.hs.runtime.getError().Error() != "" {
		if time.Now().After(deadline) {
			t.Fatalf("c17: server did not start: %v", e.hs.runtime.getError())
		}
		time.Sleep(time.Millisecond)
	}
	return e
}

// reload changes maxConnections the way the supervisor does (a new generation inherits the runtime).
func (e *c17Env) reload(n int) {
	e.reloadLazy(n)
	e.trySettle()
}

// reloadLazy: the same without waiting for the settle time (trySettle does, before the next observation).
func (e *c17Env) reloadLazy(n int) {
	id := e.g.rz(n)
	next := &HTTPServer{}
	next.Inherit(e.spec(n), e.hs, e.mapper())
	e.hs = next
	for i := 0; i < 20000 && len(e.hs.runtime.eventChan) > 0; i++ {
		time.Sleep(100 * time.Microsecond)
	}
	e.pending = append(e.pending, c17Resize{id: id, n: n, from: e.lastCap, at: time.Now(), quiet: e.connected() == 0})
	e.lastCap = n
}

// restart reloads the server with a restart-relevant option changed (how = "port": another port;
// otherwise another keepAliveTimeout) and maxConnections n: the runtime shuts the server down and starts
// a new one, with a new listener.  Only called with nobody connected.  False: the new server did not
// come up (environment: the port could not be bound); the scenario is abandoned.
func (e *c17Env) restart(n int, how string) bool {
	if k := e.connected(); k > 0 {
		e.t.Fatalf("c17: restart with %d clients connected (harness bug)", k)
	}
	if how == "port" {
		e.port = c17FreePort()
	} else {
		e.kat++
	}
	next := &HTTPServer{}
	next.Inherit(e.spec(n), e.hs, e.mapper())
	e.hs = next
	// the event loop handles one event at a time: once a second (idle) event has been taken out of the
	// channel the reload before it has been carried out completely
	e.hs.runtime.eventChan <- &eventCheckFailed{}
	deadline := time.Now().Add(25 * time.Second) // (a failed start is retried by the runtime every 10 s)
	for len(e.hs.runtime.eventChan) > 0 || e.hs.runtime.getState() != stateRunning || e.hs.runtime.getError().Error() != "" {
		if time.Now().After(deadline) {
			e.g.note(vx.M{"k": "restart-failed", "how": how, "state": string(e.hs.runtime.getState()), "err": e.hs.runtime.getError().Error()})
			return false
		}
		time.Sleep(200 * time.Microsecond)
	}
	e.pending = nil // cap changes of the old listener are history
	e.lastCap = n
	e.g.restart(n, how)
	return true
}

// trySettle logs the assumed completion of pending cap changes, oldest first.  A grow is taken as
// applied a settle time after the reload was consumed.  A shrink can only complete once the slots
// it takes back are free: it is taken as applied when fewer than n clients are connected at all
// (served or waiting: a waiting one may already hold a slot, and the acceptor holds one in advance).
func (e *c17Env) trySettle() {
	for len(e.pending) > 0 {
		r := e.pending[0]
		if r.n < r.from && e.connected() > r.n-1 {
			return
		}
		if !r.quiet {
			time.Sleep(e.settle)
		} else if d := time.Until(r.at.Add(e.settle)); d > 0 {
			time.Sleep(d) // nobody has been connected since the reload: the settle time counts from the reload
		}
		e.g.rzdoneAssumed(r.id)
		e.pending = e.pending[1:]
	}
}

func (e *c17Env) unquiet() {
	for i := range e.pending {
		e.pending[i].quiet = false
	}
}

// connected: clients that dialled and have not hung up (upper bound of the slots in use by connections).
func (e *c17Env) connected() int {
	k := 0
	for _, c := range e.all {
		if c.conn != nil && !c.hung {
			k++
		}
	}
	return k
}

func (c *c17Client) exchange(d time.Duration) error {
	c.conn.SetDeadline(time.Now().Add(d))
	if _, err := io.WriteString(c.conn, "GET /c17 HTTP/1.1\r\nHost: c17\r\n\r\n"); err != nil {
		return err
	}
	resp, err := http.ReadResponse(c.br, nil)
	if err != nil {
		return err
	}
	_, err = io.Copy(io.Discard, resp.Body)
	resp.Body.Close()
	return err
}

// dial starts a client; it is served (or fails) in the background.
func (e *c17Env) dial() *c17Client {
	e.nc++
	c := &c17Client{p: fmt.Sprintf("c%d", e.nc), done: make(chan struct{})}
	e.all = append(e.all, c)
	e.unquiet()
	e.g.accInv(c.p)
	conn, err := net.DialTimeout("tcp", fmt.Sprintf("127.0.0.1:%d", e.port), 10*time.Second)
	if err != nil {
		e.g.accErr(c.p)
		e.dialFail(c.p, err)
		close(c.done)
		return c
	}
	c.conn, c.br = conn, bufio.NewReader(conn)
	go func() {
		defer close(c.done)
		if err := c.exchange(120 * time.Second); err != nil {
			e.g.accErr(c.p)
			return
		}
		c.served = true
		e.g.acc(c.p)
	}()
	return c
}

// dialSlow starts a client whose request blocks in the handler and which half-closes after sending it.
func (e *c17Env) dialSlow() *c17Client {
	e.nc++
	c := &c17Client{p: fmt.Sprintf("s%d", e.nc), done: make(chan struct{}), slow: true,
		entered: make(chan struct{}), gate: make(chan struct{})}
	e.smu.Lock()
	e.slow[c.p] = c
	e.smu.Unlock()
	e.all = append(e.all, c)
	e.unquiet()
	e.g.accInv(c.p)
	conn, err := net.DialTimeout("tcp", fmt.Sprintf("127.0.0.1:%d", e.port), 10*time.Second)
	if err != nil {
		e.g.accErr(c.p)
		e.dialFail(c.p, err)
		close(c.done)
		return c
	}
	c.conn = conn
	go func() {
		defer close(c.done)
		conn.SetDeadline(time.Now().Add(120 * time.Second))
		io.WriteString(conn, "GET /slow/"+c.p+" HTTP/1.1\r\nHost: c17\r\n\r\n")
		if tc, ok := conn.(*net.TCPConn); ok {
			tc.CloseWrite() // the peer has finished; the connection is still being served
		}
		io.Copy(io.Discard, conn)
	}()
	return c
}

func (c *c17Client) isEntered() bool {
	select {
	case <-c.entered:
		return true
	default:
		return false
	}
}

// release lets the handler of a slow client return.
func (e *c17Env) release(c *c17Client) {
	if c.slow && !c.released {
		c.released = true
		close(c.gate)
	}
}

// expectEntered: n of the slow clients must reach their handler (generous deadline); logs stuck otherwise.
func (e *c17Env) expectEntered(cs []*c17Client, n int) bool {
	deadline := time.Now().Add(20 * time.Second)
	for {
		k := 0
		for _, c := range cs {
			if c.isEntered() {
				k++
			}
		}
		if k >= n {
			return true
		}
		if time.Now().After(deadline) {
			e.stuck(e.openNow())
			return false
		}
		time.Sleep(500 * time.Microsecond)
	}
}

func (c *c17Client) isServed() bool {
	if c.slow {
		return false
	}
	select {
	case <-c.done:
		return c.served
	default:
		return false
	}
}

// waitServed waits until n of the given clients are served; false after the deadline.
func c17WaitServed(cs []*c17Client, n int, d time.Duration) bool {
	deadline := time.Now().Add(d)
	for {
		k := 0
		for _, c := range cs {
			if c.isServed() {
				k++
			}
		}
		if k >= n {
			return true
		}
		if time.Now().After(deadline) {
			return false
		}
		time.Sleep(500 * time.Microsecond)
	}
}

func (e *c17Env) openNow() int {
	k := 0
	for _, c := range e.all {
		if c.isServed() && !c.hung {
			k++
		}
		if c.slow && c.isEntered() && !c.released {
			k++
		}
	}
	return k
}

// expectServed: n more of cs must get served (liveness, generous deadline); logs stuck otherwise.
func (e *c17Env) expectServed(cs []*c17Client, n int) bool {
	if c17WaitServed(cs, n, 20*time.Second) {
		return true
	}
	e.stuck(e.openNow())
	return false
}

func (e *c17Env) hangup(c *c17Client) {
	if c == nil || c.hung || !c.isServed() {
		return
	}
	c.hung = true
	e.g.closing()
	c.conn.Close()
	e.trySettle()
}

// again: every served, not hung-up client does one more exchange (established connections survive a resize).
func (e *c17Env) again() {
	for _, c := range e.all {
		if c.isServed() && !c.hung {
			if err := c.exchange(20 * time.Second); err != nil {
				e.g.drop()
				e.g.note(vx.M{"what": "established connection failed after a cap change", "p": c.p, "err": err.Error()})
				c.hung = true
				e.g.closing()
				c.conn.Close()
			}
		}
	}
}

// drain hangs up served clients until every client has been served and has hung up.
func (e *c17Env) drain() bool {
	deadline := time.Now().Add(30 * time.Second)
	for {
		pending := 0
		for _, c := range e.all {
			e.release(c)
			select {
			case <-c.done:
				e.hangup(c)
			default:
				pending++
			}
		}
		if pending == 0 {
			return true
		}
		if time.Now().After(deadline) {
			e.stuck(e.openNow())
			return false
		}
		time.Sleep(time.Millisecond)
	}
}

// probe: everybody has hung up, every cap change had the time to complete: exactly the last
// configured cap is usable - that many new clients are served (stuck otherwise), one more is not
// (its answer would be in the log).  Afterwards everybody is served and hangs up.
func (e *c17Env) probe() bool {
	e.trySettle()
	var ps []*c17Client
	n, want := e.lastCap+1, e.lastCap
	if e.lastCap > 16 {
		// a cap too large to be filled (maxConnections around the capacity of the semaphore underneath,
		// 20,000,000): probed from below only - a handful of clients are all served
		n, want = 6, 6
	}
	for i := 0; i < n; i++ {
		ps = append(ps, e.dial())
	}
	e.expectServed(ps, want)
	time.Sleep(80 * time.Millisecond)
	return e.drain()
}

// finish hangs up served clients until every client has been served and hung up, probes the cap the
// scenario ends with, then closes the server.
func (e *c17Env) finish() {
	e.drain()
	if !e.probed {
		e.probed = true
		e.probe()
	}
	e.hs.Close()
	for _, c := range e.all {
		if c.conn != nil {
			<-c.done
			c.conn.Close()
		}
	}
}

func c17Some(cs []*c17Client, served bool) *c17Client {
	for _, c := range cs {
		if !c.hung && c.isServed() == served {
			return c
		}
	}
	return nil
}

// TestVerifC17Server: scenarios on a real server. VERIF_SETTLE_MS is the settle time after a reload.
func TestVerifC17Server(t *testing.T) {
	w := vx.NewWriter(t, "VERIF_OUT")
	defer w.Close()
	g := &c17SLog{w: w}
	settle := time.Duration(vx.EnvInt("VERIF_SETTLE_MS", 300)) * time.Millisecond
	hold := 60 * time.Millisecond // how long a held-back client is watched; an early answer shows up in the log
	rounds := vx.EnvInt("VERIF_N", 1)
	rng := vx.Rand(1703)
	var seqs []vx.M
	if os.Getenv("VERIF_IN") != "" {
		seqs = vx.ReadNDJSON(t, "VERIF_IN")
	}
	probeAll := vx.EnvInt("VERIF_PROBE_ALL", 0) == 1

	for round := 0; round < rounds; round++ {
		// S1: fixed cap: c served, the rest held back; a hang-up frees exactly one slot
		for _, c0 := range []int{1, 2, 3} {
			e := c17Start(t, g, c0, settle, vx.M{"scenario": "fixed", "round": round})
			var cs []*c17Client
			for i := 0; i < c0+2; i++ {
				cs = append(cs, e.dial())
			}
			e.expectServed(cs, c0)
			time.Sleep(hold)
			e.hangup(c17Some(cs, true))
			e.expectServed(cs, c0+1)
			time.Sleep(hold)
			e.finish()
		}
		// S2: grow through reload: exactly the added slots become usable, nothing is dropped
		{
			c0, c1 := 1+rng.Intn(2), 3+rng.Intn(2)
			e := c17Start(t, g, c0, settle, vx.M{"scenario": "grow", "round": round})
			var cs []*c17Client
			for i := 0; i < c1+1; i++ {
				cs = append(cs, e.dial())
			}
			e.expectServed(cs, c0)
			time.Sleep(hold)
			e.reload(c1)
			e.expectServed(cs, c1)
			e.again()
			time.Sleep(hold)
			e.finish()
		}
		// S3: shrink below the usage: nobody is dropped; the change completes only when enough clients have hung up
		// (until then the contract lets the old cap justify an accept); afterwards the new cap holds
		{
			e := c17Start(t, g, 3, settle, vx.M{"scenario": "shrink", "round": round})
			var cs []*c17Client
			for i := 0; i < 3; i++ {
				cs = append(cs, e.dial())
			}
			e.expectServed(cs, 3)
			e.reload(1)
			e.again()
			late := e.dial()
			cs = append(cs, late)
			time.Sleep(hold)
			e.hangup(c17Some(cs, true))
			time.Sleep(hold)
			e.hangup(c17Some(cs, true))
			time.Sleep(hold)
			e.hangup(c17Some(cs, true))
			e.expectServed([]*c17Client{late}, 1)
			// everybody hangs up: the shrink completes; now exactly one of two new clients gets in
			e.hangup(late)
			n1, n2 := e.dial(), e.dial()
			e.expectServed([]*c17Client{n1, n2}, 1)
			time.Sleep(hold)
			e.finish()
		}
		// S4: at capacity with a client waiting: a burst of reloads (first value = initial cap) that ends at a
		// value still at or below the usage: shrink then grow, also with reloads that leave maxConnections as
		// it is in between (every reload of the server calls SetMaxConnection, whatever changed in the spec).
		// No cap that was ever configured admits the waiting client.
		bursts := [][]int{{3, 1, 2}, {2, 1, 2}, {3, 1, 3}, {3, 1, 1, 2}, {2, 2, 1, 1, 2}}
		{
			// one more, drawn: cap c, then 2-4 reloads with values in 1..c, each with probability 1/3 the
			// value already configured
			c := 2 + rng.Intn(2)
			b := []int{c}
			for k, n := 0, 2+rng.Intn(3); k < n; k++ {
				v := 1 + rng.Intn(c)
				if rng.Intn(3) == 0 {
					v = b[len(b)-1]
				}
				b = append(b, v)
			}
			bursts = append(bursts, b)
		}
		for _, v := range bursts {
			e := c17Start(t, g, v[0], settle, vx.M{"scenario": "reload-burst-at-capacity", "round": round, "burst": fmt.Sprint(v)})
			var cs []*c17Client
			for i := 0; i < v[0]; i++ {
				cs = append(cs, e.dial())
			}
			e.expectServed(cs, v[0])
			waiting := e.dial()
			time.Sleep(hold)
			for _, n := range v[1:] {
				e.reload(n)
			}
			time.Sleep(hold)
			e.again()
			_ = waiting // served only after enough of the others have hung up (finish)
			e.finish()
		}
		// S6: the peer finishes its stream while the handler still serves the connection: the connection is open
		// and keeps its slot until the server closes it; a further client is held back
		for _, c0 := range []int{1, 2} {
			e := c17Start(t, g, c0, settle, vx.M{"scenario": "slow-handler-half-close", "round": round})
			var cs []*c17Client
			for i := 0; i < c0; i++ {
				cs = append(cs, e.dialSlow())
			}
			e.expectEntered(cs, c0)
			x := e.dialSlow()
			time.Sleep(hold + 100*time.Millisecond) // if x reaches its handler now, the log shows it (TLC judges)
			for _, c := range cs {
				e.release(c)
			}
			e.expectEntered([]*c17Client{x}, 1)
			e.finish()
		}
		// S7: reload sequences generated by TLC (profile OnlyReloads of specs/ConnCap.tla): run-time cap changes
		// and restarting reloads (port / keepAliveTimeout changed: a new listener) in every order.  The cap the
		// server ends with is probed with cap+1 clients (VERIF_PROBE_ALL=1: the cap after every reload).
		for si, sq := range seqs {
			if si%rounds != round {
				continue
			}
			c0 := vx.Int(sq["cap"])
			e := c17Start(t, g, c0, settle, vx.M{"scenario": "reload-sequence", "round": round, "seq": sq["ops"]})
			ok := true
			for _, o := range vx.List(sq["ops"]) {
				op := o.(map[string]interface{})
				n := vx.Int(op["n"])
				if vx.Str(op["k"]) == "rs" {
					how := "keepalive"
					if rng.Intn(2) == 0 {
						how = "port"
					}
					if ok = e.restart(n, how); !ok {
						break
					}
				} else {
					e.reloadLazy(n)
				}
				if probeAll {
					e.probe()
				}
			}
			if !ok {
				e.probed = true // the server is not up: nothing to probe
			}
			e.finish()
		}
		// S5: churn: clients come and go while the cap is changed a few times
		{
			c0 := 1 + rng.Intn(3)
			e := c17Start(t, g, c0, settle, vx.M{"scenario": "churn", "round": round})
			for step := 0; step < 14; step++ {
				switch rng.Intn(5) {
				case 0, 1:
					e.dial()
				case 2, 3:
					if c := c17Some(e.all, true); c != nil {
						e.hangup(c)
					}
				case 4:
					n := 1 + rng.Intn(4)
					if rng.Intn(3) == 0 {
						n = e.lastCap // a reload that leaves maxConnections as it is
					}
					e.reload(n)
					e.again()
				}
				time.Sleep(time.Duration(rng.Intn(3000)) * time.Microsecond)
			}
			e.finish()
		}
	}
}

package httpserver

// Harness for the growth item X01 (DESIGN 9.2): the runtime FSM of a real HTTPServer object is
// driven through seeded operation sequences (reload via Init/Inherit, port occupied / freed by
// somebody else, the serving goroutine dying, the check-failed tick, close) and the observable
// state after every operation is logged for TLC (HttpServerRuntime_Trace).

import (
	"bufio"
	"fmt"
	"net"
	"net/http"
	"net/http/httptest"
	"sync"
	"testing"
	"time"

	"github.com/megaease/easegress/pkg/context"
	"github.com/megaease/easegress/pkg/context/contexttest"
	"github.com/megaease/easegress/pkg/logger"
	"github.com/megaease/easegress/pkg/supervisor"
	vx "github.com/megaease/easegress/pkg/verifx"
)

func init() { logger.InitNop() }

type x01Env struct {
	ports  []int // real port of abstract port i+1
	hs     *HTTPServer
	mu     sync.Mutex
	seen   string
	occ    map[int]net.Listener
	pconn  net.Conn
	pconnL uint64 // startNum the persistent connection was made under
}

func x01FreePorts(n int) []int {
	var ls []net.Listener
	var ps []int
	for i := 0; i < n; i++ {
		l, err := net.Listen("tcp", ":0")
		if err != nil {
			panic(err)
		}
		ls = append(ls, l)
		ps = append(ps, l.Addr().(*net.TCPAddr).Port)
	}
	for _, l := range ls {
		l.Close()
	}
	return ps
}

func (e *x01Env) mapper() context.MuxMapper {
	return &contexttest.MockedMuxMapper{MockedGetHandler: func(name string) (context.Handler, bool) {
		return &contexttest.MockedHandler{MockedHandle: func(ctx *context.Context) string {
			e.mu.Lock()
			e.seen = name
			e.mu.Unlock()
			return ""
		}}, true
	}}
}

func (e *x01Env) superSpec(t *testing.T, s vx.M) *supervisor.Spec {
	y := fmt.Sprintf(`
kind: HTTPServer
name: x01
port: %d
keepAlive: true
keepAliveTimeout: %ds
https: false
maxConnections: %d
rules:
- paths:
  - path: /gen
    backend: gen%d
`, e.ports[vx.Int(s["port"])-1], 60+15*vx.Int(s["opt"]), 100*vx.Int(s["maxc"]), vx.Int(s["rules"]))
	ss, err := supervisor.NewSpec(y)
	if err != nil {
		t.Fatalf("x01: spec: %v", err)
	}
	return ss
}

// quiesce waits until the event channel is empty and the observable tuple is stable.
func (e *x01Env) quiesce() {
	r := e.hs.runtime
	type tup struct {
		st  stateType
		n   uint64
		sp  *Spec
		in  interface{}
		qln int
	}
	get := func() tup { return tup{r.getState(), r.startNum, r.spec, r.mux.inst.Load(), len(r.eventChan)} }
	last, stable := get(), 0
	for i := 0; i < 2000 && stable < 12; i++ {
		time.Sleep(5 * time.Millisecond)
		cur := get()
		if cur == last && cur.qln == 0 {
			stable++
		} else {
			stable = 0
		}
		last = cur
	}
}

func x01Dial(port int) net.Conn {
	c, err := net.DialTimeout("tcp", fmt.Sprintf("127.0.0.1:%d", port), 300*time.Millisecond)
	if err != nil {
		return nil
	}
	return c
}

func x01Get(c net.Conn) bool {
	c.SetDeadline(time.Now().Add(2 * time.Second))
	if _, err := fmt.Fprintf(c, "GET /gen HTTP/1.1\r\nHost: x\r\n\r\n"); err != nil {
		return false
	}
	resp, err := http.ReadResponse(bufio.NewReader(c), nil)
	if err != nil {
		return false
	}
	resp.Body.Close()
	return resp.StatusCode > 0
}

// observe returns (state, abstract bound port or 0, rules generation routed by the mux, persistent connection alive)
func (e *x01Env) observe(closed bool) vx.M {
	r := e.hs.runtime
	bound := 0
	for i, p := range e.ports {
		if _, mine := e.occ[i+1]; mine {
			continue
		}
		if c := x01Dial(p); c != nil {
			if x01Get(c) {
				bound = i + 1
			}
			c.Close()
		}
	}
	alive := false
	if e.pconn != nil {
		alive = x01Get(e.pconn)
		if !alive {
			e.pconn.Close()
			e.pconn = nil
		}
	}
	gen := 0
	if !closed {
		e.mu.Lock()
		e.seen = ""
		e.mu.Unlock()
		rec := httptest.NewRecorder()
		r.mux.ServeHTTP(rec, httptest.NewRequest("GET", "http://x/gen", nil))
		e.mu.Lock()
		fmt.Sscanf(e.seen, "gen%d", &gen)
		e.mu.Unlock()
	}
	o := vx.M{"st": string(r.getState()), "bound": bound, "rules": gen, "alive": alive, "hadconn": e.pconnL != 0}
	// (re)establish the persistent connection for the next step
	e.pconnL = 0
	if bound != 0 {
		if e.pconn == nil {
			e.pconn = x01Dial(e.ports[bound-1])
			if e.pconn != nil && !x01Get(e.pconn) {
				e.pconn.Close()
				e.pconn = nil
			}
		}
		if e.pconn != nil {
			e.pconnL = 1
		}
	} else if e.pconn != nil {
		e.pconn.Close()
		e.pconn = nil
	}
	return o
}

// TestVerifX01Replay replays TLC-generated behaviours of HttpServerRuntime_Gen on a real HTTPServer
// and logs the observation after every step (the python side feeds the log to the trace spec).
func TestVerifX01Replay(t *testing.T) {
	behs := vx.ReadBehaviours(t, "VERIF_IN")
	w := vx.NewWriter(t, "VERIF_OUT")
	defer w.Close()
	for _, beh := range behs {
		e := &x01Env{ports: x01FreePorts(2), occ: map[int]net.Listener{}}
		w.Emit(vx.M{"ev": "reset"})
		closed := false
		skipped := false
		for _, st := range beh[1:] {
			a := vx.Str(st["a"])
			if e.hs == nil && a != "reload" && a != "occupy" && a != "free" {
				skipped = true
				break // nothing to act on before the first reload in the real system (Init carries the first spec)
			}
			switch a {
			case "reload":
				ss := e.superSpec(t, st["spec"].(vx.M))
				nhs := &HTTPServer{}
				if e.hs == nil {
					nhs.Init(ss, e.mapper())
				} else {
					nhs.Inherit(ss, e.hs, e.mapper())
				}
				e.hs = nhs
			case "occupy":
				p := vx.Int(st["port"])
				l, err := net.Listen("tcp", fmt.Sprintf(":%d", e.ports[p-1]))
				if err != nil {
					w.Emit(vx.M{"ev": "abort", "why": "port taken by a foreign process"})
					skipped = true
				} else {
					e.occ[p] = l
					go func() {
						for {
							c, err := l.Accept()
							if err != nil {
								return
							}
							c.Close()
						}
					}()
				}
			case "free":
				p := vx.Int(st["port"])
				if l := e.occ[p]; l != nil {
					l.Close()
					delete(e.occ, p)
				}
			case "servefailed":
				r := e.hs.runtime
				n := uint64(vx.Int(st["n"]))
				if n == r.startNum && r.getState() == stateRunning && r.limitListener != nil {
					r.limitListener.Close() // the serving goroutine of the current start dies and reports it itself
				} else {
					r.eventChan <- &eventServeFailed{startNum: n, err: fmt.Errorf("x01: injected")}
				}
			case "checkfailed":
				e.hs.runtime.eventChan <- &eventCheckFailed{}
			case "close":
				e.hs.Close()
				closed = true
			}
			if skipped {
				break
			}
			if e.hs == nil {
				w.Emit(vx.M{"ev": a, "arg": st, "obs": vx.M{"st": "nil", "bound": 0, "rules": 0, "alive": false, "hadconn": false}})
				continue
			}
			if !closed {
				e.quiesce()
			} else {
				time.Sleep(30 * time.Millisecond)
			}
			w.Emit(vx.M{"ev": a, "arg": st, "obs": e.observe(closed)})
			if closed {
				break
			}
		}
		if e.hs != nil && !closed {
			e.hs.Close()
		}
		for _, l := range e.occ {
			l.Close()
		}
		if e.pconn != nil {
			e.pconn.Close()
		}
		_ = skipped
	}
}

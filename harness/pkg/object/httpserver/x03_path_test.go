package httpserver

// Harness for the growth item X03 (specs/Easegress.tla): requests are sent over HTTP through a real mux
// (server-level ipFilter, rules) in front of a real TrafficController namespace with a real Pipeline
// Validator -> RateLimiter -> Proxy (Retry + CircuitBreaker policies, round robin over two real
// backends). Each request and what came back (status, which backends were contacted in which order)
// is logged; TLC validates the log against the composed model.

import (
	"fmt"
	"net/http"
	"net/http/httptest"
	"strings"
	"sync"
	"testing"
	"time"

	"github.com/megaease/easegress/pkg/context"
	_ "github.com/megaease/easegress/pkg/filters/proxy"
	_ "github.com/megaease/easegress/pkg/filters/ratelimiter"
	_ "github.com/megaease/easegress/pkg/filters/validator"
	"github.com/megaease/easegress/pkg/logger"
	"github.com/megaease/easegress/pkg/object/trafficcontroller"
	"github.com/megaease/easegress/pkg/protocols/httpprot/httpstat"
	"github.com/megaease/easegress/pkg/supervisor"
	vx "github.com/megaease/easegress/pkg/verifx"
)

func init() {
	logger.InitNop()
	supervisor.Register(&x03Gate{})
}

type x03Gate struct{}
type x03GateSpec struct{}

var x03GateMapper = make(chan context.MuxMapper, 4)

func (g *x03Gate) Category() supervisor.ObjectCategory { return supervisor.CategoryTrafficGate }
func (g *x03Gate) Kind() string                        { return "X03Gate" }
func (g *x03Gate) DefaultSpec() interface{}            { return &x03GateSpec{} }
func (g *x03Gate) Status() *supervisor.Status          { return &supervisor.Status{} }
func (g *x03Gate) Close()                              {}
func (g *x03Gate) Init(superSpec *supervisor.Spec, muxMapper context.MuxMapper) {
	x03GateMapper <- muxMapper
}
func (g *x03Gate) Inherit(superSpec *supervisor.Spec, prev supervisor.Object, muxMapper context.MuxMapper) {
}

func x03MustSpec(t *testing.T, y string) *supervisor.Spec {
	s, err := supervisor.NewSpec(y)
	if err != nil {
		t.Fatalf("x03: bad spec: %v\n%s", err, y)
	}
	return s
}

type x03Backends struct {
	mu      sync.Mutex
	srv     [2]*httptest.Server
	contact map[string][]int // request id -> servers contacted, in order
}

func x03NewBackends() *x03Backends {
	b := &x03Backends{contact: map[string][]int{}}
	for i := 0; i < 2; i++ {
		i := i
		b.srv[i] = httptest.NewServer(http.HandlerFunc(func(w http.ResponseWriter, r *http.Request) {
			id := r.Header.Get("X-Req")
			script := strings.Split(r.Header.Get("X-Script"), ",")
			b.mu.Lock()
			n := len(b.contact[id])
			b.contact[id] = append(b.contact[id], i+1)
			b.mu.Unlock()
			if n < len(script) && script[n] == "ok" {
				w.WriteHeader(200)
				return
			}
			w.WriteHeader(503)
		}))
	}
	return b
}

func TestVerifX03Path(t *testing.T) {
	behs := vx.ReadBehaviours(t, "VERIF_IN")
	w := vx.NewWriter(t, "VERIF_OUT")
	defer w.Close()
	limit := vx.EnvInt("VERIF_LIMIT", 3)
	be := x03NewBackends()
	defer be.srv[0].Close()
	defer be.srv[1].Close()
	reqN := 0
	for bi, beh := range behs {
		ns := fmt.Sprintf("x03ns%d", bi)
		tc := &trafficcontroller.TrafficController{}
		tc.Init(x03MustSpec(t, "kind: TrafficController\nname: x03tc\n"))
		if _, err := tc.CreateTrafficGateForSpec(ns, x03MustSpec(t, "kind: X03Gate\nname: x03gate\n")); err != nil {
			t.Fatal(err)
		}
		mapper := <-x03GateMapper
		py := fmt.Sprintf(`
name: svc
kind: Pipeline
resilience:
- name: retry
  kind: Retry
  maxAttempts: 2
  waitDuration: 1ms
- name: cb
  kind: CircuitBreaker
  slidingWindowType: COUNT_BASED
  failureRateThreshold: 50
  slidingWindowSize: 2
  minimumNumberOfCalls: 2
  permittedNumberOfCallsInHalfOpenState: 1
  waitDurationInOpenState: 1h
filters:
- name: val
  kind: Validator
  headers:
    X-Key:
      values: ["good"]
- name: rl
  kind: RateLimiter
  policies:
  - name: p
    limitForPeriod: %d
    limitRefreshPeriod: 1h
    timeoutDuration: 1ms
  defaultPolicyRef: p
  urls:
  - url:
      prefix: /
    policyRef: p
- name: px
  kind: Proxy
  pools:
  - servers:
    - url: %s
    - url: %s
    loadBalance:
      policy: roundRobin
    failureCodes: [503]
    retryPolicy: retry
    circuitBreakerPolicy: cb
`, limit, be.srv[0].URL, be.srv[1].URL)
		if _, err := tc.CreatePipelineForSpec(ns, x03MustSpec(t, py)); err != nil {
			t.Fatal(err)
		}
		m := newMux(httpstat.New(), httpstat.NewTopN(10), mapper)
		m.reload(x03MustSpec(t, `
kind: HTTPServer
name: x03srv
port: 18903
keepAlive: true
https: false
cacheSize: 8
ipFilter:
  blockIPs: [9.9.9.9]
rules:
- paths:
  - pathPrefix: /svc
    backend: svc
  - pathPrefix: /nobackend
    backend: missing
`), mapper)
		front := httptest.NewServer(m)
		client := &http.Client{Timeout: 20 * time.Second}
		w.Emit(vx.M{"ev": "reset"})
		for _, st := range beh[1:] {
			if vx.Str(st["pc"]) != "filter" {
				continue // only the arrival of a request is an input; the rest is the model's prediction
			}
			rq := st["req"].(vx.M)
			reqN++
			id := fmt.Sprintf("r%d", reqN)
			var script []string
			for _, s := range vx.List(rq["script"]) {
				script = append(script, s.(string))
			}
			hr, _ := http.NewRequest("GET", front.URL+vx.Str(rq["path"])+"/x", nil)
			hr.Header.Set("X-Req", id)
			hr.Header.Set("X-Script", strings.Join(script, ","))
			hr.Header.Set("X-Key", vx.Str(rq["key"]))
			if vx.Str(rq["c"]) == "blocked" {
				hr.Header.Set("X-Forwarded-For", "9.9.9.9")
			} else {
				hr.Header.Set("X-Forwarded-For", "8.8.8.8")
			}
			w.Emit(vx.M{"ev": "req", "req": rq})
			resp, err := client.Do(hr)
			status := -1
			if err == nil {
				status = resp.StatusCode
				resp.Body.Close()
			}
			be.mu.Lock()
			contacted := append([]int{}, be.contact[id]...)
			be.mu.Unlock()
			w.Emit(vx.M{"ev": "resp", "status": status, "contacted": contacted})
		}
		front.Close()
		tc.Close()
	}
}

package mqttproxy

// Harness for C09, MQTT form (DESIGN 5/C09): sequences of Limiter.acquirePermission(bytes) on the
// limiter the broker builds from a RateLimit spec (connectionLimit / clientPublishLimit).
//
// The clock of pkg/util/ratelimiter cannot be replaced from this package and the period is a whole
// number of seconds. TestVerifC09MqttTrace lets "time pass" by moving the limiter's private
// startTime back (reflect + unsafe: the only way to reach the field from here; the harness reports
// an error, hence an inconclusive run, if the field disappears), and brackets every call with
// readings of the real clock, so the cycle the limiter computed is only known up to the interval
// [tlo, thi] - RateLimiterMqtt_Trace searches over it. TestVerifC09MqttReal uses no trick: it lets
// real seconds pass.

import (
	"fmt"
	"reflect"
	"testing"
	"time"
	"unsafe"

	"github.com/megaease/easegress/pkg/logger"
	vx "github.com/megaease/easegress/pkg/verifx"
)

func init() { logger.InitNop() }

func c09ShiftStart(l *Limiter, d time.Duration) error {
	for _, ptr := range []interface{}{l.multiLimiter, l.requestLimiter, l.byteLimiter} {
		v := reflect.ValueOf(ptr)
		if v.IsNil() {
			continue
		}
		f := v.Elem().FieldByName("startTime")
		if !f.IsValid() || f.Type() != reflect.TypeOf(time.Time{}) {
			return fmt.Errorf("%T has no field startTime of type time.Time", ptr)
		}
		p := (*time.Time)(unsafe.Pointer(f.UnsafeAddr()))
		*p = p.Add(-d)
	}
	return nil
}

func c09MqttPolicy(spec *RateLimit) (L []int, period time.Duration) {
	period = time.Second
	L = []int{}
	if spec != nil && spec.TimePeriod > 0 {
		period = time.Duration(spec.TimePeriod) * time.Second
	}
	if spec == nil {
		return L, period
	}
	if spec.RequestRate > 0 {
		L = append(L, spec.RequestRate)
	}
	if spec.BytesRate > 0 {
		L = append(L, spec.BytesRate)
	}
	return L, period
}

func c09MqttCounts(spec *RateLimit, bytes int) []int {
	n := []int{}
	if spec == nil {
		return n
	}
	if spec.RequestRate > 0 {
		n = append(n, 1)
	}
	if spec.BytesRate > 0 {
		n = append(n, bytes)
	}
	return n
}

func c09us(d time.Duration) int {
	if d < 0 {
		return 0
	}
	return int(d / time.Microsecond)
}

func c09RandSpec(rng interface{ Intn(int) int }) *RateLimit {
	switch rng.Intn(8) {
	case 0:
		return nil
	case 1:
		return &RateLimit{TimePeriod: 1 + rng.Intn(2)}
	case 2, 3:
		return &RateLimit{RequestRate: 1 + rng.Intn(5), TimePeriod: rng.Intn(3)}
	case 4:
		return &RateLimit{BytesRate: 20 + rng.Intn(200), TimePeriod: rng.Intn(3)}
	}
	return &RateLimit{RequestRate: 1 + rng.Intn(5), BytesRate: 20 + rng.Intn(200), TimePeriod: rng.Intn(3)}
}

func TestVerifC09MqttTrace(t *testing.T) {
	w := vx.NewWriter(t, "VERIF_OUT")
	defer w.Close()
	rng := vx.Rand(1909)
	nTraces := vx.EnvInt("VERIF_N", 40)
	nArr := vx.EnvInt("VERIF_STEPS", 80)
	for ti := 0; ti < nTraces; ti++ {
		spec := c09RandSpec(rng)
		L, P := c09MqttPolicy(spec)
		s0 := time.Now()
		lim := newLimiter(spec)
		s1 := time.Now()
		w.Emit(vx.M{"ev": "reset", "pol": vx.M{"L": L, "P": c09us(P)}})
		var virt time.Duration
		mode := rng.Intn(3)
		if ti%2 == 0 && spec != nil && spec.BytesRate > 0 {
			mode = 3
		}
		for a := 0; a < nArr && virt < 1000*time.Second; a++ {
			var gap time.Duration
			switch mode {
			case 0: // bursts, now and then a jump
				if rng.Intn(6) == 0 {
					gap = time.Duration(rng.Intn(int(2 * P / time.Millisecond))) * time.Millisecond
				}
			case 1: // steady
				gap = time.Duration(rng.Intn(int(P/time.Millisecond)/2+1)) * time.Millisecond
			case 3: // debt: 3-4 attempts in every period, for many periods, while oversized packets are paid off
				gap = P/4 + time.Duration(rng.Intn(int(P/time.Millisecond)/12+1))*time.Millisecond
			case 2: // sparse, long idle gaps
				gap = time.Duration(rng.Intn(int(P/time.Millisecond))) * time.Millisecond
				if rng.Intn(5) == 0 {
					gap += P * time.Duration(1+rng.Intn(6))
				}
			}
			if gap > 0 {
				if err := c09ShiftStart(lim, gap); err != nil {
					w.Emit(vx.M{"ev": "error", "what": err.Error()})
					return
				}
				virt += gap
			}
			bytes := 2 + rng.Intn(60)
			if rng.Intn(10) == 0 {
				bytes = 100 + rng.Intn(600)
			}
			if mode == 3 {
				bytes = 1 + rng.Intn(spec.BytesRate/4+1)
				if rng.Intn(30) == 0 {
					bytes = spec.BytesRate * (3 + rng.Intn(12)) // a debt of 3..14 periods
				}
			}
			t0 := time.Now()
			ok := lim.acquirePermission(bytes)
			t1 := time.Now()
			w.Emit(vx.M{"ev": "acq", "tlo": c09us(virt + t0.Sub(s1)), "thi": c09us(virt + t1.Sub(s0)),
				"n": c09MqttCounts(spec, bytes), "ok": ok})
		}
	}
}

// TestVerifC09MqttReal: the same without touching the limiter: period 1 s, a few real seconds.
func TestVerifC09MqttReal(t *testing.T) {
	w := vx.NewWriter(t, "VERIF_OUT")
	defer w.Close()
	rng := vx.Rand(2909)
	secs := vx.EnvInt("VERIF_SECS", 3)
	specs := []*RateLimit{{RequestRate: 3, BytesRate: 120}, {RequestRate: 2}, {BytesRate: 90, TimePeriod: 1}}
	type lim struct {
		spec   *RateLimit
		l      *Limiter
		s0, s1 time.Time
	}
	var lims []*lim
	for _, s := range specs {
		x := &lim{spec: s}
		x.s0 = time.Now()
		x.l = newLimiter(s)
		x.s1 = time.Now()
		lims = append(lims, x)
	}
	// one trace per limiter; the three are driven in turn but logged separately
	logs := make([][]vx.M, len(lims))
	end := time.Now().Add(time.Duration(secs) * time.Second)
	for time.Now().Before(end) {
		for i, x := range lims {
			bytes := 10 + rng.Intn(50)
			t0 := time.Now()
			ok := x.l.acquirePermission(bytes)
			t1 := time.Now()
			logs[i] = append(logs[i], vx.M{"ev": "acq", "tlo": c09us(t0.Sub(x.s1)), "thi": c09us(t1.Sub(x.s0)),
				"n": c09MqttCounts(x.spec, bytes), "ok": ok})
		}
		time.Sleep(time.Duration(20+rng.Intn(120)) * time.Millisecond)
	}
	for i, x := range lims {
		L, P := c09MqttPolicy(x.spec)
		w.Emit(vx.M{"ev": "reset", "pol": vx.M{"L": L, "P": c09us(P)}})
		for _, e := range logs[i] {
			w.Emit(e)
		}
	}
}

package mqttproxy

// Harness for C14 (DESIGN 5/C14): MQTT topic routing = MQTT 3.1.1 filter matching over any history.
//   TestVerifC14Replay  replays TLC-generated behaviours of MqttTopics_Gen in lock-step (MBT): after
//                       every operation every probe topic is looked up and compared with the contract
//   TestVerifC14Trace   seeded random histories over a level grammar, recorded for validation by
//                       TLC against MqttTopics (TV)
// Two bindings (VERIF_MODE): "direct" = a real TopicManager and real Session objects wired the way
// client.go wires them; "broker" = a real Broker on loopback TCP with raw MQTT clients, so that
// processSubscribe / processUnsubscribe / the read loop's teardown are on the path.

import (
	"fmt"
	"os"
	"sort"
	"strings"
	"testing"
	"time"

	"github.com/eclipse/paho.mqtt.golang/packets"
	vx "github.com/megaease/easegress/pkg/verifx"
)

type c14Sys interface {
	Takeover(c string) error
	Resume(c string) error
	Sub(c string, fs []string, qs []byte) (bool, error)
	Unsub(c string, fs []string) error
	Disc(c string) error
	Probe(topic string) (map[string]byte, error)
	Close()
}

// ---- direct binding
type c14Direct struct {
	tm   *TopicManager
	sess map[string]*Session
	pers map[string]bool
}

// Session.store() hands the encoded session to this channel from a goroutine; one drainer for all.
var c14StoreCh = func() chan SessionStore {
	ch := make(chan SessionStore, 64)
	go func() {
		for range ch {
		}
	}()
	return ch
}()

func c14NewDirect(cache int, pers map[string]bool) *c14Direct {
	return &c14Direct{tm: newTopicManager(cache), sess: map[string]*Session{}, pers: pers}
}

func (d *c14Direct) session(c string) *Session {
	s, ok := d.sess[c]
	if !ok {
		s = &Session{storeCh: c14StoreCh, info: &SessionInfo{ClientID: c, CleanFlag: !d.pers[c], Topics: map[string]int{}}}
		d.sess[c] = s
	}
	return s
}

func (d *c14Direct) Sub(c string, fs []string, qs []byte) (bool, error) { // = processSubscribe
	if err := d.tm.subscribe(fs, qs, c); err != nil {
		return false, nil
	}
	d.session(c).subscribe(fs, qs)
	return true, nil
}

func (d *c14Direct) Unsub(c string, fs []string) error { // = processUnsubscribe
	d.tm.unsubscribe(fs, c)
	d.session(c).unsubscribe(fs)
	return nil
}

func (d *c14Direct) Disc(c string) error { // = closeAndDelSession
	s, ok := d.sess[c]
	if !ok {
		return nil
	}
	topics, _, _ := s.allSubscribes()
	d.tm.unsubscribe(topics, c)
	delete(d.sess, c)
	return nil
}

func (d *c14Direct) Takeover(c string) error { return d.Disc(c) } // at this level: the old session's teardown

// Resume = the end of a persistent session's connection (closeAndDelSession: the session's filters
// are unsubscribed, the stored session stays) followed by a cleanSession=false connect (sessMgr.get:
// the session is decoded from what Session.store persisted; handleConn subscribes allSubscribes()).
func (d *c14Direct) Resume(c string) error {
	s, ok := d.sess[c]
	if !ok {
		return nil
	}
	topics, _, _ := s.allSubscribes()
	d.tm.unsubscribe(topics, c)
	s.Lock()
	str, err := s.encode()
	s.Unlock()
	if err != nil {
		return fmt.Errorf("session of %s cannot be encoded: %v", c, err)
	}
	ns := &Session{storeCh: c14StoreCh, info: &SessionInfo{}}
	if err := ns.decode(str); err != nil {
		return fmt.Errorf("stored session of %s cannot be decoded: %v", c, err)
	}
	if ns.info.Topics == nil {
		ns.info.Topics = map[string]int{}
	}
	d.sess[c] = ns
	topics, qoss, _ := ns.allSubscribes()
	if len(topics) > 0 {
		d.tm.subscribe(topics, qoss, c)
	}
	return nil
}

func (d *c14Direct) Probe(topic string) (map[string]byte, error) { return d.tm.findSubscribers(topic) }
func (d *c14Direct) Close()                                  {}

// ---- broker binding
type c14Broker struct {
	x     *mqxBroker
	cl    map[string]*mqxClient
	clean map[string]bool
	pers  map[string]bool
	k     int
}

const c14Wait = 20 * time.Second

func c14NewBroker(cache int, pers map[string]bool) (*c14Broker, error) {
	x, err := mqxNewBroker(mqxOpts{manualWatch: true, cacheSize: cache})
	if err != nil {
		return nil, err
	}
	return &c14Broker{x: x, cl: map[string]*mqxClient{}, clean: map[string]bool{}, pers: pers}, nil
}

// settle: Session.store is asynchronous and unordered; the harness lets every store reach the storage
// before the next operation, so that a resumed session is the session as it was when its connection
// ended (what happens when stores overtake each other is not C14's subject).
func (b *c14Broker) settle() error {
	if !b.x.StoreBarrier() {
		return fmt.Errorf("session stores did not settle")
	}
	return nil
}

func (b *c14Broker) dial(c string, clean bool) (*mqxClient, error) {
	cl, err := mqxDial(b.x.addr, c)
	if err != nil {
		return nil, err
	}
	code, err := cl.Connect(clean, "")
	if err != nil || code != 0 {
		return nil, fmt.Errorf("connect %s: code %d err %v", c, code, err)
	}
	return cl, nil
}

// client returns c's connection, connecting it if necessary: the clients of `pers` use a persistent
// session (cleanSession=false), which is only ever ended through a takeover.
func (b *c14Broker) client(c string) (*mqxClient, error) {
	if cl, ok := b.cl[c]; ok {
		return cl, nil
	}
	clean := !b.pers[c]
	if !clean {
		// nothing of an earlier persistent session of this id must be left in the store
		b.x.store.delete(sessionStoreKey(c))
		b.x.store.DeliverAll()
	}
	cl, err := b.dial(c, clean)
	if err != nil {
		return nil, err
	}
	b.cl[c], b.clean[c] = cl, clean
	// the session is stored (updateEGName) after the CONNACK was written: once the PINGRESP is here the
	// read loop runs, so that store has been issued, and it settles before the first SUBSCRIBE's store
	if !cl.Ping(c14Wait) {
		return nil, fmt.Errorf("no PINGRESP on the new connection of %s", c)
	}
	return cl, b.settle()
}

// Resume: the connection of c's persistent session ends (EOF or DISCONNECT), its teardown completes,
// and c connects again with cleanSession=false.
func (b *c14Broker) Resume(c string) error {
	cl, ok := b.cl[c]
	if !ok || b.clean[c] {
		return nil // never connected since its last session ended: nothing to resume
	}
	if err := b.settle(); err != nil {
		return err
	}
	b.k++
	if b.k%2 == 0 {
		cl.Disconnect()
	} else {
		cl.HalfClose()
	}
	if !cl.WaitEOF(c14Wait) {
		return fmt.Errorf("broker did not close the connection of %s after its end", c)
	}
	cl.Close()
	delete(b.cl, c)
	b.x.store.DeliverAll()
	nw, err := b.dial(c, false)
	if err != nil {
		return err
	}
	if !nw.Ping(c14Wait) { // handleConn is past the re-subscription and in the read loop
		return fmt.Errorf("no PINGRESP on the resumed connection of %s", c)
	}
	b.cl[c], b.clean[c] = nw, false
	return b.settle()
}

// Takeover: a second connection with the same client id and cleanSession=true takes the id over
// (it never subscribes); then the old connection goes away - by EOF, by DISCONNECT, or by sending a
// packet after the broker has closed it logically - and its teardown completes.
func (b *c14Broker) Takeover(c string) error {
	old, ok := b.cl[c]
	if !ok {
		return nil
	}
	bc := b.x.Registered(c)
	nw, err := b.dial(c, true)
	if err != nil {
		return err
	}
	b.k++
	switch b.k % 3 {
	case 0:
		old.HalfClose()
	case 1:
		old.Disconnect()
	default:
		deadline := time.Now().Add(c14Wait)
		for bc != nil && !bc.disconnected() {
			if time.Now().After(deadline) {
				return fmt.Errorf("superseded connection of %s never closed by the broker", c)
			}
			time.Sleep(200 * time.Microsecond)
		}
		old.write(packets.NewControlPacket(packets.Pingreq))
	}
	if !old.WaitEOF(c14Wait) {
		return fmt.Errorf("broker did not close the superseded connection of %s (mode %d, old registered=%v closedByBroker=%v, now registered=%v)",
			c, b.k%3, bc != nil, bc != nil && bc.disconnected(), b.x.Registered(c) != nil)
	}
	old.Close()
	b.x.store.DeliverAll()
	// the successor may have been closed by the broker (the old connection's delete notification, see
	// C16): either way the id now has no subscriptions, so simply start from a new connection later
	alive := nw.Ping(5 * time.Second)
	if alive && !b.pers[c] {
		b.cl[c], b.clean[c] = nw, true
	} else if alive {
		// c uses persistent sessions: the clean connection only discarded the old session; it ends too
		// (its clean session with it) and c's next operation connects with cleanSession=false again
		nw.Disconnect()
		if !nw.WaitEOF(c14Wait) {
			return fmt.Errorf("broker did not close the discarding connection of %s", c)
		}
		nw.Close()
		delete(b.cl, c)
		b.x.store.DeliverAll()
	} else {
		// its own teardown (started by the PINGREQ it has just read) must be over, and the delete
		// notification of its clean session delivered, before the id is used again
		if !nw.WaitEOF(c14Wait) {
			return fmt.Errorf("broker did not close the dead successor connection of %s", c)
		}
		nw.Close()
		delete(b.cl, c)
		b.x.store.DeliverAll()
	}
	return nil
}

func (b *c14Broker) Sub(c string, fs []string, qs []byte) (bool, error) {
	cl, err := b.client(c)
	if err != nil {
		return false, err
	}
	acked, decided := cl.SubscribeTry(fs, qs, c14Wait)
	if !decided {
		return false, fmt.Errorf("no answer to SUBSCRIBE+PINGREQ from the broker (client %s, eof=%v, registered=%v)", c, cl.EOF(), b.x.Registered(c) != nil)
	}
	return acked, b.settle()
}

func (b *c14Broker) Unsub(c string, fs []string) error {
	cl, err := b.client(c)
	if err != nil {
		return err
	}
	if _, decided := cl.UnsubscribeTry(fs, c14Wait); !decided {
		return fmt.Errorf("no answer to UNSUBSCRIBE+PINGREQ from the broker (client %s, eof=%v, registered=%v)", c, cl.EOF(), b.x.Registered(c) != nil)
	}
	return b.settle()
}

func (b *c14Broker) Disc(c string) error {
	if _, ok := b.cl[c]; ok && !b.clean[c] {
		// a persistent session ends for good only when a clean one replaces it
		if err := b.Takeover(c); err != nil {
			return err
		}
	}
	cl, ok := b.cl[c]
	if !ok {
		return nil
	}
	b.k++
	if b.k%2 == 0 {
		cl.Disconnect()
	} else {
		cl.HalfClose()
	}
	if !cl.WaitEOF(c14Wait) {
		return fmt.Errorf("broker did not close the connection of %s after its end", c)
	}
	cl.Close()
	delete(b.cl, c)
	b.x.store.DeliverAll() // the delete notification of the clean session, processed before anything else happens
	return nil
}

func (b *c14Broker) Probe(topic string) (map[string]byte, error) {
	return b.x.b.topicMgr.findSubscribers(topic)
}

func (b *c14Broker) Close() {
	for _, cl := range b.cl {
		cl.Close()
	}
	b.x.Close()
}

func c14NewSys(mode string, cache int, pers map[string]bool) (c14Sys, error) {
	if mode == "broker" {
		return c14NewBroker(cache, pers)
	}
	return c14NewDirect(cache, pers), nil
}

// ---- conversions: a level is a JSON array of one-character strings
func c14Path(v interface{}) string {
	var lv []string
	for _, l := range vx.List(v) {
		lv = append(lv, vx.Chars(l))
	}
	return strings.Join(lv, "/")
}

func c14Paths(v interface{}) []string {
	var out []string
	for _, f := range vx.List(v) {
		out = append(out, c14Path(f))
	}
	return out
}

func c14Levels(s string) [][]string {
	var out [][]string
	for _, l := range strings.Split(s, "/") {
		lv := []string{}
		for _, r := range l {
			lv = append(lv, string(r))
		}
		out = append(out, lv)
	}
	return out
}

func c14Qs(v interface{}) []byte {
	var out []byte
	for _, q := range vx.List(v) {
		out = append(out, byte(vx.Int(q)))
	}
	return out
}

// TestVerifC14Replay: lock-step replay of TLC behaviours.
func TestVerifC14Replay(t *testing.T) {
	behs := vx.ReadBehaviours(t, "VERIF_IN")
	w := vx.NewWriter(t, "VERIF_OUT")
	defer w.Close()
	mode := c14Getenv("VERIF_MODE", "direct")
	steps, probes, mism, hfail, replayed := 0, 0, 0, 0, 0
	// wall-clock budget: on a busy machine the broker binding (a round trip and a goroutine barrier per step) can be many
	// times slower than usual; the behaviours not reached within the budget are left out and counted
	budget := time.Duration(vx.EnvInt("VERIF_BUDGET_S", 100000)) * time.Second
	t0 := time.Now()
	shard, of, mine := 0, 1, 0
	if sh := os.Getenv("VERIF_SHARD"); sh != "" {
		fmt.Sscanf(sh, "%d/%d", &shard, &of)
	}
	for bi := range behs {
		if bi%of == shard {
			mine++
		}
	}
	for bi, beh := range behs {
		if bi%of != shard {
			continue
		}
		if time.Since(t0) > budget {
			break
		}
		replayed++
		cache := 100000
		if bi%2 == 1 {
			cache = 3 // tiny level-split cache: evictions on the path
		}
		pers := map[string]bool{}
		if len(beh) > 0 {
			for _, c := range vx.List(beh[0]["pers"]) {
				pers[vx.Str(c)] = true
			}
		}
		sys, err := c14NewSys(mode, cache, pers)
		if err != nil {
			hfail++
			w.Raw(vx.M{"k": "mismatch", "mode": mode, "behaviour": bi, "step": 0, "what": "harness: cannot build system: " + err.Error(), "sig": vx.M{"kind": "harness"}})
			continue
		}
		bad := ""
		var sig vx.M
		for si, st := range beh {
			if _, ok := st["op"]; !ok {
				continue
			}
			steps++
			op := st["op"].(vx.M)
			c := vx.Str(op["c"])
			switch vx.Str(op["a"]) {
			case "sub":
				ok, err := sys.Sub(c, c14Paths(op["fs"]), c14Qs(op["qs"]))
				if err != nil {
					hfail++
					bad = "harness: " + err.Error()
					sig = vx.M{"kind": "harness"}
				} else if ok != vx.Bool(op["ok"]) {
					bad = fmt.Sprintf("SUBSCRIBE %q accepted=%v, contract says %v", c14Paths(op["fs"]), ok, vx.Bool(op["ok"]))
					sig = vx.M{"kind": "replay", "what": "subscribe-accept", "filters": c14Paths(op["fs"])}
				}
			case "unsub":
				err = sys.Unsub(c, c14Paths(op["fs"]))
			case "disc":
				err = sys.Disc(c)
			case "takeover":
				err = sys.Takeover(c)
			case "resume":
				err = sys.Resume(c)
			}
			if err != nil && bad == "" {
				hfail++
				bad = "harness: " + err.Error()
				sig = vx.M{"kind": "harness"}
			}
			if bad == "" {
				for _, rr := range vx.List(st["route"]) {
					r := rr.(vx.M)
					topic := c14Path(r["t"])
					got, err := sys.Probe(topic)
					probes++
					want := map[string][]int{}
					for _, e := range vx.List(r["r"]) {
						em := e.(vx.M)
						for _, q := range vx.List(em["qs"]) {
							want[vx.Str(em["c"])] = append(want[vx.Str(em["c"])], vx.Int(q))
						}
					}
					what := ""
					if err != nil {
						what = "lookup-error"
					}
					for cl, q := range got {
						qs, ok := want[cl]
						if !ok {
							what = "routed-to-non-subscriber"
						} else {
							in := false
							for _, x := range qs {
								in = in || x == int(q)
							}
							if !in {
								what = "foreign-qos"
							}
						}
					}
					for cl := range want {
						if _, ok := got[cl]; !ok {
							what = "subscriber-not-routed"
						}
					}
					if what != "" {
						bad = fmt.Sprintf("after %s by %s: topic %q routed to %v, contract says %v (%s)", vx.Str(op["a"]), c, topic, got, want, what)
						sig = vx.M{"kind": "replay", "what": what, "after": vx.Str(op["a"])}
						break
					}
				}
			}
			if bad != "" {
				if sig["kind"] != "harness" {
					mism++
				}
				w.Raw(vx.M{"k": "mismatch", "mode": mode, "behaviour": bi, "step": si, "what": bad, "sig": sig, "prefix": beh[:si+1]})
				break
			}
		}
		sys.Close()
	}
	w.Raw(vx.M{"k": "summary", "mode": mode, "behaviours": mine, "replayed": replayed, "wall_s": int(time.Since(t0).Seconds()), "steps": steps, "probes": probes, "mismatches": mism, "harness_failures": hfail})
}

func c14Getenv(k, d string) string {
	if v := os.Getenv(k); v != "" {
		return v
	}
	return d
}

// ---- random histories (TV)
var c14Lits = []string{"a", "b", "c", "", "dev", "αβ", "x y", "a"}

type c14Rand = interface {
	Intn(int) int
	Float64() float64
}

func c14GoodFilter(r c14Rand) string {
	n := 1 + r.Intn(4)
	var lv []string
	for i := 0; i < n; i++ {
		x := r.Float64()
		switch {
		case x < 0.2:
			lv = append(lv, "+")
		case x < 0.32 && i == n-1:
			lv = append(lv, "#")
		default:
			lv = append(lv, c14Lits[r.Intn(len(c14Lits))])
		}
	}
	if len(lv) == 1 && lv[0] == "" { // the zero-length filter is not a filter at all (MQTT-4.7.3-1)
		lv[0] = "a"
	}
	return strings.Join(lv, "/")
}

func c14BadFilter(r c14Rand) string {
	base := strings.Split(c14GoodFilter(r), "/")
	i := r.Intn(len(base))
	switch r.Intn(5) {
	case 0:
		base[i] = "a+"
	case 1:
		base[i] = "+b"
	case 2:
		base[i] = "#x"
	case 3:
		base[i] = "a#"
	default: // '#' not last
		base = append(base[:i+1], base[i:]...)
		base[i] = "#"
	}
	return strings.Join(base, "/")
}

// a topic name that matches / nearly matches a live filter
func c14TopicFor(r c14Rand, live []string) string {
	if len(live) == 0 || r.Intn(6) == 0 {
		n := 1 + r.Intn(3)
		var lv []string
		for i := 0; i < n; i++ {
			lv = append(lv, c14Lits[r.Intn(len(c14Lits))])
		}
		if len(lv) == 1 && lv[0] == "" {
			lv[0] = "b"
		}
		return strings.Join(lv, "/")
	}
	f := strings.Split(live[r.Intn(len(live))], "/")
	var lv []string
	for _, l := range f {
		switch l {
		case "+":
			lv = append(lv, c14Lits[r.Intn(len(c14Lits))])
		case "#":
			for k := r.Intn(3); k > 0; k-- {
				lv = append(lv, c14Lits[r.Intn(len(c14Lits))])
			}
		default:
			lv = append(lv, l)
		}
	}
	switch r.Intn(8) { // near misses
	case 0:
		if len(lv) > 1 {
			lv = lv[:len(lv)-1]
		}
	case 1:
		lv = append(lv, c14Lits[r.Intn(len(c14Lits))])
	case 2:
		if len(lv) > 0 {
			lv[r.Intn(len(lv))] = c14Lits[r.Intn(len(c14Lits))]
		}
	}
	if len(lv) == 0 || (len(lv) == 1 && lv[0] == "") {
		lv = []string{"a"}
	}
	return strings.Join(lv, "/")
}

// c14Matches: does topic name t match the well-formed filter f?  Used by the generator only, to choose probe
// topics near the filters an operation touched (the verdict on every probe is TLC's).
func c14Matches(f, t string) bool {
	fl, tl := strings.Split(f, "/"), strings.Split(t, "/")
	for i, l := range fl {
		if l == "#" {
			return true
		}
		if i >= len(tl) || (l != "+" && l != tl[i]) {
			return false
		}
	}
	return len(fl) == len(tl)
}

// TestVerifC14Trace: VERIF_N histories of VERIF_STEPS operations by 4 clients.  VERIF_MULTIFAIL selects the
// family of packets that mix well-formed and malformed filters: 0 none (a malformed filter only ever alone in
// its packet), 1 SUBSCRIBE packets, 2 UNSUBSCRIBE packets whose last filter is malformed, 3 UNSUBSCRIBE packets
// with a malformed filter anywhere.
// After every operation four topics are looked up: one made for a filter the operation touched, one that
// was looked up before for such a filter (a topic is looked up again and again across operations), one
// looked up earlier for any filter, and one made for any filter ever subscribed.
func TestVerifC14Trace(t *testing.T) {
	w := vx.NewWriter(t, "VERIF_OUT")
	defer w.Close()
	mode := c14Getenv("VERIF_MODE", "direct")
	n, steps := vx.EnvInt("VERIF_N", 10), vx.EnvInt("VERIF_STEPS", 60)
	family := vx.EnvInt("VERIF_MULTIFAIL", 0)
	rng := vx.Rand(int64(14 + 1000*vx.EnvInt("VERIF_SALT", 0) + 100*len(mode) + map[string]int{"broker": 7}[mode])) // other histories per binding
	clients := []string{"c1", "c2", "c3", "c4"}
	pers := map[string]bool{"c3": true, "c4": true} // = Persistent of the trace configuration
	for ti := 0; ti < n; ti++ {
		cache := 100000
		if ti%2 == 1 {
			cache = 4
		}
		sys, err := c14NewSys(mode, cache, pers)
		w.Emit(vx.M{"ev": "reset", "trace": ti, "pers": []string{"c3", "c4"}})
		if err != nil {
			w.Emit(vx.M{"ev": "harness-failure", "what": "cannot build system: " + err.Error()})
			continue
		}
		live := map[string]bool{} // filters somebody subscribed at some time (probe material)
		var liveList []string
		held := map[string][]string{} // client -> filters it (probably) holds: material for UNSUBSCRIBE packets
		var probed []string           // topics looked up so far
		fail := false
		for s := 0; s < steps && !fail; s++ {
			c := clients[rng.Intn(len(clients))]
			x := rng.Float64()
			var touched []string // well-formed filters the operation is about
			switch {
			case x < 0.52: // subscribe
				k := 1
				if rng.Intn(3) == 0 {
					k = 2 + rng.Intn(2)
				}
				var fs []string
				var qs []byte
				hasBad := false
				for i := 0; i < k; i++ {
					f := ""
					if rng.Intn(9) == 0 && (family == 1 || k == 1) {
						f = c14BadFilter(rng)
						hasBad = true
					} else if len(liveList) > 0 && rng.Intn(3) == 0 {
						f = liveList[rng.Intn(len(liveList))] // re-subscription, shared prefixes
						touched = append(touched, f)
					} else {
						f = c14GoodFilter(rng)
						touched = append(touched, f)
					}
					fs = append(fs, f)
					qs = append(qs, byte(rng.Intn(2)))
				}
				ok, err := sys.Sub(c, fs, qs)
				if err != nil {
					w.Emit(vx.M{"ev": "harness-failure", "what": err.Error()})
					fail = true
					break
				}
				var lv [][][]string
				for _, f := range fs {
					lv = append(lv, c14Levels(f))
					if !hasBad && !live[f] {
						live[f] = true
						liveList = append(liveList, f)
					}
					if !hasBad {
						held[c] = append(held[c], f)
					}
				}
				w.Emit(vx.M{"ev": "sub", "c": c, "fs": lv, "qs": c14Ints(qs), "ok": ok})
			case x < 0.85: // unsubscribe (filters the client holds, filters of others, never-subscribed filters)
				k := 1 + rng.Intn(3)
				var fs []string
				for i := 0; i < k; i++ {
					f := c14GoodFilter(rng)
					if len(held[c]) > 0 && rng.Intn(2) == 0 {
						f = held[c][rng.Intn(len(held[c]))]
					} else if len(liveList) > 0 && rng.Intn(4) != 0 {
						f = liveList[rng.Intn(len(liveList))]
					}
					fs = append(fs, f)
					touched = append(touched, f)
				}
				switch {
				case family == 2 && rng.Intn(2) == 0:
					fs = append(fs, c14BadFilter(rng))
				case family == 3 && rng.Intn(2) == 0:
					i := rng.Intn(len(fs) + 1)
					fs = append(fs[:i], append([]string{c14BadFilter(rng)}, fs[i:]...)...)
				case family == 0 && rng.Intn(12) == 0:
					fs, touched = []string{c14BadFilter(rng)}, nil
				}
				var lv [][][]string
				for _, f := range fs {
					lv = append(lv, c14Levels(f))
				}
				if err := sys.Unsub(c, fs); err != nil {
					w.Emit(vx.M{"ev": "harness-failure", "what": err.Error()})
					fail = true
					break
				}
				var keep []string
				for _, h := range held[c] {
					gone := false
					for _, f := range fs {
						gone = gone || f == h
					}
					if !gone {
						keep = append(keep, h)
					}
				}
				held[c] = keep
				w.Emit(vx.M{"ev": "unsub", "c": c, "fs": lv})
			case x < 0.90:
				touched = held[c]
				if err := sys.Disc(c); err != nil {
					w.Emit(vx.M{"ev": "harness-failure", "what": err.Error()})
					fail = true
					break
				}
				held[c] = nil
				w.Emit(vx.M{"ev": "disc", "c": c})
			case x < 0.96 && pers[c]: // (a client with a clean session: takeover)
				touched = held[c]
				if err := sys.Resume(c); err != nil {
					w.Emit(vx.M{"ev": "harness-failure", "what": err.Error()})
					fail = true
					break
				}
				w.Emit(vx.M{"ev": "resume", "c": c})
			default:
				touched = held[c]
				if err := sys.Takeover(c); err != nil {
					w.Emit(vx.M{"ev": "harness-failure", "what": err.Error()})
					fail = true
					break
				}
				held[c] = nil
				w.Emit(vx.M{"ev": "takeover", "c": c})
			}
			if fail {
				break
			}
			var topics []string
			if len(touched) > 0 {
				f := touched[rng.Intn(len(touched))]
				topics = append(topics, c14TopicFor(rng, []string{f})) // made for a filter of the operation
				var again []string
				for _, p := range probed {
					if c14Matches(f, p) {
						again = append(again, p)
					}
				}
				if len(again) > 0 {
					topics = append(topics, again[rng.Intn(len(again))]) // looked up before the operation
				}
			}
			if len(probed) > 0 {
				topics = append(topics, probed[rng.Intn(len(probed))])
			}
			topics = append(topics, c14TopicFor(rng, liveList))
			for _, topic := range topics {
				got, err := sys.Probe(topic)
				if err != nil {
					w.Emit(vx.M{"ev": "probe-error", "t": c14Levels(topic), "what": err.Error()})
					continue
				}
				probed = append(probed, topic)
				var ks []string
				for k := range got {
					ks = append(ks, k)
				}
				sort.Strings(ks)
				r := []vx.M{}
				for _, k := range ks {
					r = append(r, vx.M{"c": k, "q": int(got[k])})
				}
				w.Emit(vx.M{"ev": "probe", "t": c14Levels(topic), "r": r})
			}
		}
		sys.Close()
	}
}

func c14Ints(qs []byte) []int {
	out := []int{}
	for _, q := range qs {
		out = append(out, int(q))
	}
	return out
}

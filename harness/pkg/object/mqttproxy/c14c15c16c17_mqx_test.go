package mqttproxy

// Shared helpers of the MQTT harnesses (C14, C15, C16, C17-mqtt): a real Broker on a loopback TCP port
// chosen by the kernel, raw MQTT clients that use nothing but the paho `packets` codec, a storage
// implementation whose delete notifications (and delete calls) are under harness control, and a
// MuxMapper whose pipelines record (and can park) what they are handed.  All identifiers carry
// the prefix mqx; the file defines no TestMain.

import (
	"bytes"
	"errors"
	"fmt"
	"io"
	"net"
	"net/http"
	"net/http/httptest"
	"runtime"
	"strings"
	"sync"
	"sync/atomic"
	"time"

	"github.com/eclipse/paho.mqtt.golang/packets"
	"github.com/megaease/easegress/pkg/context"
	"github.com/megaease/easegress/pkg/logger"
	"github.com/megaease/easegress/pkg/protocols/mqttprot"
	vx "github.com/megaease/easegress/pkg/verifx"
	etcderror "go.etcd.io/etcd/api/v3/v3rpc/rpctypes"
)

func init() { logger.InitNop() }

// mqxPath turns the specs' representation of a topic / filter (sequence of levels, a level being a
// sequence of one-character strings) into the string; mqxLevels is the inverse.
func mqxPath(v interface{}) string {
	var lv []string
	for _, l := range vx.List(v) {
		lv = append(lv, vx.Chars(l))
	}
	return strings.Join(lv, "/")
}

func mqxLevels(s string) [][]string {
	var out [][]string
	for _, l := range strings.Split(s, "/") {
		lv := []string{}
		for _, r := range l {
			lv = append(lv, string(r))
		}
		out = append(out, lv)
	}
	return out
}

// ------------------------------------------------------------------------------------------
// storage: same behaviour as the package's mockStorage, except that delete notifications are
// queued and handed to the broker's watch loop by the harness (Deliver*), and that a delete call
// can be parked (the call made by closeAndDelSession for a clean session = step T2 of MqttSession).

type mqxStorage struct {
	mu       sync.Mutex
	store    map[string]string
	watchCh  chan map[string]*string
	watched  bool
	manual   bool     // true: notifications wait in `queue` until DeliverOne/DeliverAll
	queue    []string // keys of pending delete notifications
	delGate  func(key string)
	putGate  func(key, value string) // called at the start of every put, outside the lock: may park (a slow store)
	puts     int
	deletes  int
	sentinel int
}

var _ storage = (*mqxStorage)(nil)

func mqxNewStorage(manual bool) *mqxStorage {
	return &mqxStorage{store: map[string]string{}, watchCh: make(chan map[string]*string), manual: manual}
}

func (m *mqxStorage) get(key string) (*string, error) {
	m.mu.Lock()
	defer m.mu.Unlock()
	if v, ok := m.store[key]; ok {
		return &v, nil
	}
	return nil, etcderror.ErrKeyNotFound
}

func (m *mqxStorage) getPrefix(prefix string, keysOnly bool) (map[string]string, error) {
	m.mu.Lock()
	defer m.mu.Unlock()
	out := map[string]string{}
	for k, v := range m.store {
		if strings.HasPrefix(k, prefix) {
			if keysOnly {
				out[k] = ""
			} else {
				out[k] = v
			}
		}
	}
	return out, nil
}

func (m *mqxStorage) put(key, value string) error {
	m.mu.Lock()
	g := m.putGate
	m.mu.Unlock()
	if g != nil {
		g(key, value)
	}
	m.mu.Lock()
	m.store[key] = value
	m.puts++
	m.mu.Unlock()
	return nil
}

func (m *mqxStorage) delete(key string) error {
	m.mu.Lock()
	g := m.delGate
	m.mu.Unlock()
	if g != nil {
		g(key)
	}
	m.mu.Lock()
	delete(m.store, key)
	m.deletes++
	w, manual := m.watched, m.manual
	if w && manual {
		m.queue = append(m.queue, key)
	}
	m.mu.Unlock()
	if w && !manual {
		go m.send(key)
	}
	return nil
}

func (m *mqxStorage) watchDelete(prefix string) (<-chan map[string]*string, func(), error) {
	m.mu.Lock()
	m.watched = true
	m.mu.Unlock()
	return m.watchCh, func() {}, nil
}

func (m *mqxStorage) send(key string) {
	select {
	case m.watchCh <- map[string]*string{key: nil}:
	case <-time.After(10 * time.Second):
	}
}

// Pending is the number of queued delete notifications.
func (m *mqxStorage) Pending() int {
	m.mu.Lock()
	defer m.mu.Unlock()
	return len(m.queue)
}

// DeliverAll hands every queued delete notification to the broker's watch loop and returns after
// the deleteSession goroutines they start have finished (see mqxWaitNoGoroutine).
func (m *mqxStorage) DeliverAll() int {
	m.mu.Lock()
	q := m.queue
	m.queue = nil
	m.mu.Unlock()
	for _, k := range q {
		m.send(k)
	}
	if len(q) > 0 {
		m.Barrier()
	}
	return len(q)
}

// Barrier: a put-type notification (value non-nil) is ignored by Broker.watchDelete; once the
// loop has taken it, every earlier notification has been turned into a `go deleteSession`, and
// we then wait until no deleteSession goroutine is left.
func (m *mqxStorage) Barrier() {
	v := "x"
	select {
	case m.watchCh <- map[string]*string{"/verif/sentinel": &v}:
	case <-time.After(10 * time.Second):
	}
	// a goroutine that has not run yet shows only its entry wrapper (`watchDelete.gowrapN`)
	mqxWaitNoGoroutine(10*time.Second, "mqttproxy.(*Broker).deleteSession", "mqttproxy.(*Broker).watchDelete.gowrap", "mqttproxy.(*Broker).watchDelete.func")
}

func (m *mqxStorage) Get(key string) (string, bool) {
	m.mu.Lock()
	defer m.mu.Unlock()
	v, ok := m.store[key]
	return v, ok
}

// mqxWaitNoGoroutine waits until no goroutine has one of `frames` on its stack.
func mqxWaitNoGoroutine(d time.Duration, frames ...string) bool {
	deadline := time.Now().Add(d)
	buf := make([]byte, 1<<20)
	pause := 200 * time.Microsecond
	for {
		n := runtime.Stack(buf, true)
		if n == len(buf) {
			buf = make([]byte, 2*len(buf))
			continue
		}
		dump, found := string(buf[:n]), false
		for _, f := range frames {
			found = found || strings.Contains(dump, f)
		}
		if !found {
			return true
		}
		if time.Now().After(deadline) {
			return false
		}
		// a goroutine dump stops the world: poll eagerly at first, then leave the CPU to whoever is waited for
		time.Sleep(pause)
		if pause < 5*time.Millisecond {
			pause += pause / 2
		}
	}
}

// ------------------------------------------------------------------------------------------
// pipelines

type mqxCall struct {
	Kind    string // pipeline packet type
	Client  string
	Topic   string
	Qos     byte
	ID      uint16
	Payload string
	Dup     bool
	Verdict string // what the hook answered: "" (pass), "drop", "disconnect"
	Ref     interface{} // the broker's *Client the packet belongs to
	User    string      // user name of the connection (CONNECT)
}

type mqxMapper struct {
	mu    sync.Mutex
	calls []mqxCall
	// hook is called (outside the lock) for every pipeline invocation; it may block (a gate) and
	// may return "drop" or "disconnect".
	hook func(c mqxCall) string
}

type mqxPipe struct {
	m    *mqxMapper
	kind string
}

func (m *mqxMapper) GetHandler(name string) (context.Handler, bool) {
	return &mqxPipe{m: m, kind: name}, true
}

func (p *mqxPipe) Handle(ctx *context.Context) string {
	req := ctx.GetRequest(context.DefaultNamespace).(*mqttprot.Request)
	c := mqxCall{Kind: p.kind, Client: req.Client().ClientID(), Ref: req.Client(), User: req.Client().UserName()}
	if req.PacketType() == mqttprot.PublishType {
		pp := req.PublishPacket()
		c.Topic, c.Qos, c.ID, c.Payload, c.Dup = pp.TopicName, pp.Qos, pp.MessageID, string(pp.Payload), pp.Dup
	}
	p.m.mu.Lock()
	p.m.calls = append(p.m.calls, c)
	idx := len(p.m.calls) - 1
	h := p.m.hook
	p.m.mu.Unlock()
	if h != nil {
		resp := ctx.GetResponse(context.DefaultNamespace).(*mqttprot.Response)
		v := h(c)
		switch v {
		case "drop":
			resp.SetDrop()
		case "disconnect":
			resp.SetDisconnect()
		}
		p.m.mu.Lock()
		p.m.calls[idx].Verdict = v
		p.m.mu.Unlock()
	}
	return ""
}

func (m *mqxMapper) Calls(kind string) []mqxCall {
	m.mu.Lock()
	defer m.mu.Unlock()
	var out []mqxCall
	for _, c := range m.calls {
		if c.Kind == kind {
			out = append(out, c)
		}
	}
	return out
}

// ------------------------------------------------------------------------------------------
// broker

type mqxBroker struct {
	b      *Broker
	addr   string
	store  *mqxStorage
	mapper *mqxMapper
}

type mqxOpts struct {
	maxConn     int
	manualWatch bool
	pipelines   []PacketType // packet types routed to a recording pipeline (named like the type)
	cacheSize   int
}

func mqxNewBroker(o mqxOpts) (*mqxBroker, error) {
	spec := &Spec{Name: "verif", EGName: "verif", Port: 0, MaxAllowedConnection: o.maxConn, TopicCacheSize: o.cacheSize}
	for _, pt := range o.pipelines {
		spec.Rules = append(spec.Rules, &Rule{When: &When{PacketType: pt}, Pipeline: string(pt)})
	}
	st := mqxNewStorage(o.manualWatch)
	mp := &mqxMapper{}
	b := newBroker(spec, st, mp, func(string, string) ([]string, error) { return nil, nil })
	if b == nil {
		return nil, errors.New("newBroker returned nil")
	}
	port := b.listener.Addr().(*net.TCPAddr).Port
	return &mqxBroker{b: b, addr: fmt.Sprintf("127.0.0.1:%d", port), store: st, mapper: mp}, nil
}

// Close closes the broker. Broker.close takes the broker lock: with a broker that is wedged on that
// lock (which a check then reports) the call is abandoned after 5s instead of hanging the harness.
func (x *mqxBroker) Close() {
	done := make(chan struct{})
	go func() { x.b.close(); close(done) }()
	select {
	case <-done:
	case <-time.After(5 * time.Second):
	}
	// Session.store hands its request over from a goroutine of its own; one that has not been served when the broker's
	// doStore loop ends would wait in this process for good - and in the way of the goroutine barriers (StoreBarrier) of
	// every broker made later. Take what still comes.
	if sm := x.b.sessMgr; sm != nil {
		ch := sm.storeCh
		go func() {
			for {
				select {
				case <-ch:
				case <-time.After(30 * time.Second):
					return
				}
			}
		}()
	}
}

// mqxBlockedOnLock returns the ids of the goroutines that have one of `frames` on their stack and are
// waiting for a mutex / RWMutex (goroutine header "[sync.RWMutex.RLock ...]", "[sync.Mutex.Lock ...]",
// "[semacquire ...]").
func mqxBlockedOnLock(frames ...string) map[string]bool {
	buf := make([]byte, 1<<20)
	for {
		n := runtime.Stack(buf, true)
		if n < len(buf) {
			buf = buf[:n]
			break
		}
		buf = make([]byte, 2*len(buf))
	}
	out := map[string]bool{}
	for _, g := range strings.Split(string(buf), "\n\n") {
		nl := strings.Index(g, "\n")
		if nl < 0 || !strings.HasPrefix(g, "goroutine ") {
			continue
		}
		head := g[:nl]
		if !(strings.Contains(head, "[sync.RWMutex.") || strings.Contains(head, "[sync.Mutex.") || strings.Contains(head, "[semacquire")) {
			continue
		}
		for _, f := range frames {
			if strings.Contains(g, f) {
				out[strings.Fields(head)[1]] = true
				break
			}
		}
	}
	return out
}

// HTTPPublish injects a message through the broker's HTTP publish handler.
func (x *mqxBroker) HTTPPublish(topic string, qos int, payload string) int {
	body := fmt.Sprintf(`{"topic":%q,"qos":%d,"payload":%q,"base64":false,"distributed":true}`, topic, qos, payload)
	r := httptest.NewRequest(http.MethodPost, "/mqttproxy/verif/topics/publish", strings.NewReader(body))
	w := httptest.NewRecorder()
	x.b.httpTopicsPublishHandler(w, r)
	return w.Code
}

// AdminDelete calls the admin endpoint that deletes sessions.
func (x *mqxBroker) AdminDelete(ids ...string) int {
	var parts []string
	for _, id := range ids {
		parts = append(parts, fmt.Sprintf(`{"sessionID":%q}`, id))
	}
	body := `{"sessions":[` + strings.Join(parts, ",") + `]}`
	r := httptest.NewRequest(http.MethodDelete, "/mqttproxy/verif/sessions", strings.NewReader(body))
	w := httptest.NewRecorder()
	x.b.httpDeleteSessionHandler(w, r)
	return w.Code
}

// StoreBarrier returns when every Session.store() made so far has reached the storage: store() hands
// the encoded session to SessionManager.doStore from a goroutine of its own over an unbuffered
// channel. First no such goroutine is left (each has been received by doStore), then a sentinel is
// sent over the same channel: doStore takes it only after the put before it has returned.
func (x *mqxBroker) StoreBarrier() bool {
	// a store request that is never served (a session without a store channel, say) stays in this process for good: once
	// a barrier has failed the later ones do not wait that long again
	d := 30 * time.Second
	if mqxStoreStuck.Load() {
		d = 2 * time.Second
	}
	if !mqxWaitNoGoroutine(d, "mqttproxy.(*Session).store") {
		mqxStoreStuck.Store(true)
		return false
	}
	select {
	case x.b.sessMgr.storeCh <- SessionStore{key: "verif-sentinel", value: ""}:
		return true
	case <-time.After(d):
		return false
	}
}

var mqxStoreStuck atomic.Bool

// Registered returns the connection registered for a client id (nil if none).
func (x *mqxBroker) Registered(cid string) *Client {
	x.b.RLock()
	defer x.b.RUnlock()
	if x.b.clients == nil {
		return nil
	}
	return x.b.clients[cid]
}

func (x *mqxBroker) NumClients() int {
	x.b.Lock()
	defer x.b.Unlock()
	return len(x.b.clients)
}

// ------------------------------------------------------------------------------------------
// raw client

type mqxClient struct {
	id   string
	user string // user name sent in CONNECT (lets a Connect pipeline tell connections with one client id apart)
	conn net.Conn
	wmu  sync.Mutex
	// in-memory connections (mqxDialPipe) only: the broker's end, and the end of Broker.handleConn
	gate        *mqxGatedConn
	handlerDone chan struct{}

	mu      sync.Mutex
	eof     bool
	eofCh   chan struct{}
	acks    chan packets.ControlPacket // SUBACK / UNSUBACK / PINGRESP / PUBACK / CONNACK
	onPub   func(p *packets.PublishPacket)
	pubs    []*packets.PublishPacket
	started bool
}

func mqxDial(addr, id string) (*mqxClient, error) {
	c, err := net.DialTimeout("tcp", addr, 10*time.Second)
	if err != nil {
		return nil, err
	}
	return &mqxClient{id: id, conn: c, eofCh: make(chan struct{}), acks: make(chan packets.ControlPacket, 1024)}, nil
}

// mqxGatedConn is the broker's end of an in-memory connection (net.Pipe) that the harness hands to
// Broker.handleConn, the function the accept loop starts for every connection: a transport without any
// buffering, whose peer decides when it takes what the broker writes.  While the connection is held
// (Hold), a Write of the broker announces itself (Reached) and blocks until Release - a client that does
// not read (full socket buffers), seen from the broker.
type mqxGatedConn struct {
	net.Conn
	mu      sync.Mutex
	held    bool
	reached chan struct{}
	release chan struct{}
}

func (g *mqxGatedConn) Write(p []byte) (int, error) {
	g.mu.Lock()
	if g.held {
		reached, rel := g.reached, g.release
		select {
		case <-reached:
		default:
			close(reached)
		}
		g.mu.Unlock()
		select {
		case <-rel:
		case <-time.After(120 * time.Second): // never leave a broker goroutine stuck for good
		}
	} else {
		g.mu.Unlock()
	}
	return g.Conn.Write(p)
}

// Hold: from now on the peer takes nothing the broker writes.
func (g *mqxGatedConn) Hold() {
	g.mu.Lock()
	if !g.held {
		g.held, g.reached, g.release = true, make(chan struct{}), make(chan struct{})
	}
	g.mu.Unlock()
}

// Reached is closed when the broker has started a Write since Hold (and is blocked in it).
func (g *mqxGatedConn) Reached() <-chan struct{} {
	g.mu.Lock()
	defer g.mu.Unlock()
	return g.reached
}

// Release: the peer reads again.
func (g *mqxGatedConn) Release() {
	g.mu.Lock()
	if g.held {
		g.held = false
		close(g.release)
	}
	g.mu.Unlock()
}

// mqxAsyncConn is the client's end of an in-memory connection: what the client writes is queued and written
// by a goroutine of its own, as a socket's send buffer would do it (a client that acknowledges from its read
// loop must not block there until the broker's read loop gets round to reading).
type mqxAsyncConn struct {
	net.Conn
	ch   chan []byte
	quit chan struct{}
	once sync.Once
}

func (a *mqxAsyncConn) Write(p []byte) (int, error) {
	b := append([]byte(nil), p...)
	select {
	case a.ch <- b:
		return len(p), nil
	case <-a.quit:
		return 0, io.ErrClosedPipe
	}
}

func (a *mqxAsyncConn) SetWriteDeadline(time.Time) error { return nil }

func (a *mqxAsyncConn) loop() {
	for {
		select {
		case b := <-a.ch:
			if _, err := a.Conn.Write(b); err != nil {
				return
			}
		case <-a.quit:
			return
		}
	}
}

func (a *mqxAsyncConn) Close() error {
	a.once.Do(func() { close(a.quit) })
	return a.Conn.Close()
}

// mqxDialPipe connects a raw client over an in-memory connection: the broker's end is served by
// Broker.handleConn in a goroutine of its own, exactly as Broker.run does for an accepted socket.
func mqxDialPipe(x *mqxBroker, id string) *mqxClient {
	srv, cli := net.Pipe()
	g := &mqxGatedConn{Conn: srv}
	done := make(chan struct{})
	go func() {
		x.b.handleConn(g)
		close(done)
	}()
	a := &mqxAsyncConn{Conn: cli, ch: make(chan []byte, 8192), quit: make(chan struct{})}
	go a.loop()
	return &mqxClient{id: id, conn: a, gate: g, handlerDone: done, eofCh: make(chan struct{}), acks: make(chan packets.ControlPacket, 1024)}
}

func (c *mqxClient) write(p packets.ControlPacket) error {
	c.wmu.Lock()
	defer c.wmu.Unlock()
	c.conn.SetWriteDeadline(time.Now().Add(10 * time.Second))
	return p.Write(c.conn)
}

func (c *mqxClient) readLoop() {
	for {
		p, err := packets.ReadPacket(c.conn)
		if err != nil {
			if c.handlerDone != nil {
				// in-memory connection: "EOF" = handleConn has returned (the teardown is complete), whoever closed first
				select {
				case <-c.handlerDone:
				case <-time.After(60 * time.Second):
				}
			}
			c.mu.Lock()
			c.eof = true
			c.mu.Unlock()
			close(c.eofCh)
			return
		}
		if pub, ok := p.(*packets.PublishPacket); ok {
			c.mu.Lock()
			c.pubs = append(c.pubs, pub)
			h := c.onPub
			c.mu.Unlock()
			if h != nil {
				h(pub)
			}
			continue
		}
		select {
		case c.acks <- p:
		default:
		}
	}
}

// Connect sends CONNECT and waits for CONNACK. Returns the return code (255 = no CONNACK).
func (c *mqxClient) Connect(clean bool, will string) (byte, error) {
	if err := c.ConnectSend(clean, will); err != nil {
		return 255, err
	}
	return c.ConnectRecv(20 * time.Second)
}

// ConnectSend writes the CONNECT packet only.
func (c *mqxClient) ConnectSend(clean bool, will string) error {
	cp := packets.NewControlPacket(packets.Connect).(*packets.ConnectPacket)
	cp.ClientIdentifier = c.id
	cp.CleanSession = clean
	cp.ProtocolName = "MQTT"
	cp.ProtocolVersion = 4
	cp.Keepalive = 0
	if c.user != "" {
		cp.UsernameFlag = true
		cp.Username = c.user
	}
	if will != "" {
		cp.WillFlag = true
		cp.WillTopic = will
		cp.WillMessage = []byte("will")
		cp.WillQos = 0
	}
	return c.write(cp)
}

// ConnectRecv waits for the CONNACK. Returns the return code (255 = no CONNACK within d).
func (c *mqxClient) ConnectRecv(d time.Duration) (byte, error) {
	c.conn.SetReadDeadline(time.Now().Add(d))
	p, err := packets.ReadPacket(c.conn)
	c.conn.SetReadDeadline(time.Time{})
	if err != nil {
		return 255, err
	}
	ca, ok := p.(*packets.ConnackPacket)
	if !ok {
		return 255, fmt.Errorf("expected CONNACK, got %s", p.String())
	}
	if ca.ReturnCode == packets.Accepted {
		c.started = true
		go c.readLoop()
	}
	return ca.ReturnCode, nil
}

func (c *mqxClient) wait(match func(p packets.ControlPacket) bool, d time.Duration) bool {
	t := time.NewTimer(d)
	defer t.Stop()
	for {
		select {
		case p := <-c.acks:
			if match(p) {
				return true
			}
		case <-c.eofCh:
			return false
		case <-t.C:
			return false
		}
	}
}

var mqxMsgID uint32 = 100

// Subscribe sends SUBSCRIBE and waits for the SUBACK (false: none within d).
func (c *mqxClient) Subscribe(filters []string, qoss []byte, d time.Duration) bool {
	sp := packets.NewControlPacket(packets.Subscribe).(*packets.SubscribePacket)
	sp.Topics, sp.Qoss = filters, qoss
	c.mu.Lock()
	mqxMsgID++
	sp.MessageID = uint16(mqxMsgID%60000 + 1)
	c.mu.Unlock()
	if c.write(sp) != nil {
		return false
	}
	return c.wait(func(p packets.ControlPacket) bool {
		a, ok := p.(*packets.SubackPacket)
		return ok && a.MessageID == sp.MessageID
	}, d)
}

// SubscribeBurst writes one SUBSCRIBE packet per filter and a PINGREQ in a single write and waits for the PINGRESP;
// returns true if every SUBSCRIBE was acknowledged before it.
func (c *mqxClient) SubscribeBurst(filters []string, qos byte, d time.Duration) bool {
	c.DrainAcks()
	var buf bytes.Buffer
	want := map[uint16]bool{}
	for _, f := range filters {
		sp := packets.NewControlPacket(packets.Subscribe).(*packets.SubscribePacket)
		sp.Topics, sp.Qoss = []string{f}, []byte{qos}
		c.mu.Lock()
		mqxMsgID++
		sp.MessageID = uint16(mqxMsgID%60000 + 1)
		c.mu.Unlock()
		want[sp.MessageID] = true
		sp.Write(&buf)
	}
	packets.NewControlPacket(packets.Pingreq).Write(&buf)
	c.wmu.Lock()
	c.conn.SetWriteDeadline(time.Now().Add(10 * time.Second))
	_, err := c.conn.Write(buf.Bytes())
	c.wmu.Unlock()
	if err != nil {
		return false
	}
	pinged := c.wait(func(p packets.ControlPacket) bool {
		switch a := p.(type) {
		case *packets.SubackPacket:
			delete(want, a.MessageID)
		case *packets.PingrespPacket:
			return true
		}
		return false
	}, d)
	return pinged && len(want) == 0
}

// SubscribeTry sends SUBSCRIBE followed by PINGREQ. The broker answers packets in order and sends
// no SUBACK for a rejected SUBSCRIBE, so whichever of SUBACK / PINGRESP arrives first decides,
// without any time-out being involved. Returns (accepted, decided).
func (c *mqxClient) SubscribeTry(filters []string, qoss []byte, d time.Duration) (bool, bool) {
	for {
		select {
		case <-c.acks:
			continue
		default:
		}
		break
	}
	sp := packets.NewControlPacket(packets.Subscribe).(*packets.SubscribePacket)
	sp.Topics, sp.Qoss = filters, qoss
	c.mu.Lock()
	mqxMsgID++
	sp.MessageID = uint16(mqxMsgID%60000 + 1)
	c.mu.Unlock()
	if c.write(sp) != nil || c.write(packets.NewControlPacket(packets.Pingreq)) != nil {
		return false, false
	}
	acked, pinged := false, false
	c.wait(func(p packets.ControlPacket) bool {
		switch a := p.(type) {
		case *packets.SubackPacket:
			if a.MessageID == sp.MessageID {
				acked = true
			}
		case *packets.PingrespPacket:
			pinged = true
		}
		return pinged
	}, d)
	return acked, pinged
}

func (c *mqxClient) Unsubscribe(filters []string, d time.Duration) bool {
	up := packets.NewControlPacket(packets.Unsubscribe).(*packets.UnsubscribePacket)
	up.Topics = filters
	c.mu.Lock()
	mqxMsgID++
	up.MessageID = uint16(mqxMsgID%60000 + 1)
	c.mu.Unlock()
	if c.write(up) != nil {
		return false
	}
	return c.wait(func(p packets.ControlPacket) bool {
		a, ok := p.(*packets.UnsubackPacket)
		return ok && a.MessageID == up.MessageID
	}, d)
}

// UnsubscribeTry sends UNSUBSCRIBE followed by PINGREQ and waits for the PINGRESP: the UNSUBSCRIBE has been
// processed then, whether or not the broker answers it (an UNSUBSCRIBE with a malformed filter need not be
// acknowledged). Returns (acknowledged, decided).
func (c *mqxClient) UnsubscribeTry(filters []string, d time.Duration) (bool, bool) {
	c.DrainAcks()
	up := packets.NewControlPacket(packets.Unsubscribe).(*packets.UnsubscribePacket)
	up.Topics = filters
	c.mu.Lock()
	mqxMsgID++
	up.MessageID = uint16(mqxMsgID%60000 + 1)
	c.mu.Unlock()
	if c.write(up) != nil || c.write(packets.NewControlPacket(packets.Pingreq)) != nil {
		return false, false
	}
	acked, pinged := false, false
	c.wait(func(p packets.ControlPacket) bool {
		switch a := p.(type) {
		case *packets.UnsubackPacket:
			if a.MessageID == up.MessageID {
				acked = true
			}
		case *packets.PingrespPacket:
			pinged = true
		}
		return pinged
	}, d)
	return acked, pinged
}

// Ping is a barrier: the broker's read loop handles packets in order, so when the PINGRESP is
// here everything sent before has been processed, and everything the broker queued for this
// client before answering has been received.
func (c *mqxClient) Ping(d time.Duration) bool {
	for {
		select {
		case <-c.acks:
			continue
		default:
		}
		break
	}
	if c.write(packets.NewControlPacket(packets.Pingreq)) != nil {
		return false
	}
	return c.wait(func(p packets.ControlPacket) bool { _, ok := p.(*packets.PingrespPacket); return ok }, d)
}

// DrainAcks forgets the acknowledgements read so far.
func (c *mqxClient) DrainAcks() {
	for {
		select {
		case <-c.acks:
		default:
			return
		}
	}
}

// PingCollect sends a PINGREQ - without forgetting what has been read before - and returns the ids of the
// PUBACKs read up to the PINGRESP: the broker queues what it sends to a client in FIFO order, so a PUBACK that
// was ever queued before the PINGRESP has been read by then.
func (c *mqxClient) PingCollect(d time.Duration) ([]int, bool) {
	if c.write(packets.NewControlPacket(packets.Pingreq)) != nil {
		return nil, false
	}
	var acks []int
	ok := c.wait(func(p packets.ControlPacket) bool {
		switch a := p.(type) {
		case *packets.PubackPacket:
			acks = append(acks, int(a.MessageID))
		case *packets.PingrespPacket:
			return true
		}
		return false
	}, d)
	return acks, ok
}

func (c *mqxClient) Puback(id uint16) error {
	pa := packets.NewControlPacket(packets.Puback).(*packets.PubackPacket)
	pa.MessageID = id
	return c.write(pa)
}

// Publish sends a PUBLISH; for QoS1 it waits for a PUBACK and returns its id (-1: none).
func (c *mqxClient) Publish(topic string, qos byte, id uint16, payload string, d time.Duration) int {
	pp := packets.NewControlPacket(packets.Publish).(*packets.PublishPacket)
	pp.TopicName, pp.Qos, pp.MessageID, pp.Payload = topic, qos, id, []byte(payload)
	if c.write(pp) != nil {
		return -1
	}
	if qos == 0 {
		return -1
	}
	got := -1
	c.wait(func(p packets.ControlPacket) bool {
		a, ok := p.(*packets.PubackPacket)
		if ok {
			got = int(a.MessageID)
		}
		return ok
	}, d)
	return got
}

// PublishBurst writes one PUBLISH per id and a PINGREQ in a single write and collects the PUBACK ids
// that arrive before the PINGRESP.
func (c *mqxClient) PublishBurst(topic string, qos byte, ids []uint16, payloads []string, d time.Duration) ([]int, bool) {
	for {
		select {
		case <-c.acks:
			continue
		default:
		}
		break
	}
	var buf bytes.Buffer
	for i, id := range ids {
		pp := packets.NewControlPacket(packets.Publish).(*packets.PublishPacket)
		pp.TopicName, pp.Qos, pp.MessageID, pp.Payload = topic, qos, id, []byte(payloads[i])
		pp.Write(&buf)
	}
	packets.NewControlPacket(packets.Pingreq).Write(&buf)
	c.wmu.Lock()
	c.conn.SetWriteDeadline(time.Now().Add(10 * time.Second))
	_, err := c.conn.Write(buf.Bytes())
	c.wmu.Unlock()
	if err != nil {
		return nil, false
	}
	var acks []int
	ok := c.wait(func(p packets.ControlPacket) bool {
		switch a := p.(type) {
		case *packets.PubackPacket:
			acks = append(acks, int(a.MessageID))
		case *packets.PingrespPacket:
			return true
		}
		return false
	}, d)
	return acks, ok
}

// PublishOne writes one PUBLISH (with the DUP flag as given) and a PINGREQ in a single write and
// collects the PUBACK ids that arrive before the PINGRESP.
func (c *mqxClient) PublishOne(topic string, qos byte, id uint16, dup bool, payload string, d time.Duration) ([]int, bool) {
	for {
		select {
		case <-c.acks:
			continue
		default:
		}
		break
	}
	var buf bytes.Buffer
	pp := packets.NewControlPacket(packets.Publish).(*packets.PublishPacket)
	pp.TopicName, pp.Qos, pp.MessageID, pp.Payload, pp.Dup = topic, qos, id, []byte(payload), dup
	pp.Write(&buf)
	packets.NewControlPacket(packets.Pingreq).Write(&buf)
	c.wmu.Lock()
	c.conn.SetWriteDeadline(time.Now().Add(10 * time.Second))
	_, err := c.conn.Write(buf.Bytes())
	c.wmu.Unlock()
	if err != nil {
		return nil, false
	}
	var acks []int
	ok := c.wait(func(p packets.ControlPacket) bool {
		switch a := p.(type) {
		case *packets.PubackPacket:
			acks = append(acks, int(a.MessageID))
		case *packets.PingrespPacket:
			return true
		}
		return false
	}, d)
	return acks, ok
}

func (c *mqxClient) Disconnect() error { return c.write(packets.NewControlPacket(packets.Disconnect)) }

// HalfClose shuts the sending direction: the broker's read loop sees EOF ("the network dropped"),
// runs its deferred teardown, handleConn returns and closes the connection, which WaitEOF observes.
func (c *mqxClient) HalfClose() {
	if t, ok := c.conn.(*net.TCPConn); ok {
		t.CloseWrite()
		return
	}
	c.conn.Close() // an in-memory connection has no half-close: the broker's read loop sees EOF all the same
}

func (c *mqxClient) WaitEOF(d time.Duration) bool {
	if c.handlerDone != nil && !c.started {
		select {
		case <-c.handlerDone:
			return true
		case <-time.After(d):
			return false
		}
	}
	if !c.started {
		c.conn.SetReadDeadline(time.Now().Add(d))
		_, err := io.Copy(io.Discard, c.conn)
		return err == nil
	}
	select {
	case <-c.eofCh:
		return true
	case <-time.After(d):
		return false
	}
}

func (c *mqxClient) Close() { c.conn.Close() }

func (c *mqxClient) Pubs() []*packets.PublishPacket {
	c.mu.Lock()
	defer c.mu.Unlock()
	return append([]*packets.PublishPacket(nil), c.pubs...)
}

func (c *mqxClient) SetOnPublish(h func(p *packets.PublishPacket)) {
	c.mu.Lock()
	c.onPub = h
	c.mu.Unlock()
}

func (c *mqxClient) EOF() bool {
	c.mu.Lock()
	defer c.mu.Unlock()
	return c.eof
}

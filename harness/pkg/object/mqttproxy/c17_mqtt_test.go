package mqttproxy

// Harness for the MQTT half of C17 (DESIGN 5/C17): at no instant more than maxAllowedConnection
// connected clients; refusal = CONNACK "server unavailable"; released capacity is usable again;
// takeovers of an id at the cap.
//   TestVerifC17MqttSeq   replays TLC-generated sequential scenarios (MqttConnCap_Gen) in lock-step
//   TestVerifC17MqttConc  goroutines connect / end / take over concurrently against a real Broker with
//                         a cap; inv/ret/close/gone events and samples of len(Broker.clients) are
//                         logged with a global order for linearisation by TLC (MqttConnCap_Trace)
// Sessions are cleanSession=false throughout: a clean session's teardown deletes the stored session,
// and the delete notification closes whatever connection is registered (finding of C16) - that would
// entangle the two properties.

import (
	"fmt"
	"net"
	"sync"
	"testing"
	"time"

	vx "github.com/megaease/easegress/pkg/verifx"
)

const c17Wait = 20 * time.Second

func TestVerifC17MqttSeq(t *testing.T) {
	behs := vx.ReadBehaviours(t, "VERIF_IN")
	w := vx.NewWriter(t, "VERIF_OUT")
	defer w.Close()
	steps, mism, hfail := 0, 0, 0
	for bi, beh := range behs {
		if len(beh) < 2 {
			continue
		}
		x, err := mqxNewBroker(mqxOpts{maxConn: vx.Int(beh[0]["cap"])})
		if err != nil {
			t.Fatalf("broker: %v", err)
		}
		conns := map[string]*mqxClient{}
		bad, kind := "", ""
		for si, st := range beh[1:] {
			steps++
			c := vx.Str(st["c"])
			switch vx.Str(st["a"]) {
			case "try":
				cl, err := mqxDial(x.addr, vx.Str(st["id"]))
				if err != nil {
					bad, kind = err.Error(), "harness"
					break
				}
				code, err := cl.Connect(false, "")
				if code == 255 {
					bad, kind = fmt.Sprintf("no CONNACK: %v", err), "harness"
					break
				}
				conns[c] = cl
				if vx.Bool(st["ok"]) && code != 0 {
					bad, kind = fmt.Sprintf("connection %s (id %s) refused with code %d although only %d of %d slots are held", c, vx.Str(st["id"]), code, vx.Int(st["n"])-1, vx.Int(beh[0]["cap"])), "refused-below-cap"
				} else if !vx.Bool(st["ok"]) && code == 0 {
					bad, kind = fmt.Sprintf("connection %s (id %s) accepted although %d slots are held (cap %d)", c, vx.Str(st["id"]), vx.Int(st["n"]), vx.Int(beh[0]["cap"])), "accepted-above-cap"
				} else if !vx.Bool(st["ok"]) && code != 3 {
					bad, kind = fmt.Sprintf("connection %s refused with code %d, not server-unavailable (3)", c, code), "wrong-refusal-code"
				}
				if code == 0 && !cl.Ping(c17Wait) {
					bad, kind = "no PINGRESP", "harness"
				}
			case "end":
				cl := conns[c]
				cl.HalfClose()
				if !cl.WaitEOF(c17Wait) {
					bad, kind = "broker did not close the connection after its end", "harness"
				}
				cl.Close()
			}
			if bad == "" {
				if n := x.NumClients(); n != vx.Int(st["n"]) {
					bad, kind = fmt.Sprintf("broker counts %d connected clients, contract says %d", n, vx.Int(st["n"])), "count"
				}
			}
			if bad != "" {
				if kind == "harness" {
					hfail++
				} else {
					mism++
				}
				w.Raw(vx.M{"k": "mismatch", "behaviour": bi, "step": si + 1, "what": bad, "kind": kind, "prefix": beh[:si+2]})
				break
			}
		}
		for _, cl := range conns {
			cl.Close()
		}
		x.Close()
	}
	w.Raw(vx.M{"k": "summary", "behaviours": len(behs), "steps": steps, "mismatches": mism, "harness_failures": hfail})
}

func TestVerifC17MqttConc(t *testing.T) {
	w := vx.NewWriter(t, "VERIF_OUT")
	defer w.Close()
	rounds, G, S := vx.EnvInt("VERIF_ROUNDS", 8), vx.EnvInt("VERIF_G", 6), vx.EnvInt("VERIF_S", 5)
	var logMu sync.Mutex // events are numbered and, for samples, read under this lock
	emit := func(rec vx.M) {
		logMu.Lock()
		w.Emit(rec)
		logMu.Unlock()
	}
	seedRng := vx.Rand(17)
	cn := 0
	var cnMu sync.Mutex
	for r := 0; r < rounds; r++ {
		cap := 1 + r%3
		x, err := mqxNewBroker(mqxOpts{maxConn: cap})
		if err != nil {
			t.Fatalf("broker: %v", err)
		}
		emit(vx.M{"ev": "reset", "cap": cap, "round": r})
		nids := cap + 1 + seedRng.Intn(2) // few ids: takeovers, also when all slots are held
		stop := make(chan struct{})
		var swg sync.WaitGroup
		swg.Add(1)
		go func() { // sampler
			defer swg.Done()
			for {
				select {
				case <-stop:
					return
				default:
				}
				logMu.Lock()
				n := x.NumClients()
				w.Emit(vx.M{"ev": "sample", "n": n})
				logMu.Unlock()
				time.Sleep(300 * time.Microsecond)
			}
		}()
		var wg sync.WaitGroup
		var failMu sync.Mutex
		fail := ""
		for g := 0; g < G; g++ {
			wg.Add(1)
			rng := vx.Rand(int64(1700 + 100*r + g))
			go func() {
				defer wg.Done()
				for s := 0; s < S; s++ {
					cnMu.Lock()
					cn++
					name := fmt.Sprintf("k%d", cn)
					cnMu.Unlock()
					id := fmt.Sprintf("id%d", rng.Intn(nids))
					// every other client is slow to read its CONNACK: unbuffered in-memory connection (the broker's write of
					// the CONNACK blocks until the client reads), read after a short random delay
					var cl *mqxClient
					var err error
					lazy := time.Duration(-1)
					if rng.Intn(2) == 0 {
						cl = mqxDialPipe(x, id)
						lazy = time.Duration(rng.Intn(3000)) * time.Microsecond
					} else if cl, err = mqxDial(x.addr, id); err != nil {
						failMu.Lock()
						fail = err.Error()
						failMu.Unlock()
						return
					}
					emit(vx.M{"ev": "inv", "c": name, "id": id})
					var code byte = 255
					if lazy < 0 {
						code, err = cl.Connect(false, "")
					} else if err = cl.ConnectSend(false, ""); err == nil {
						time.Sleep(lazy)
						code, err = cl.ConnectRecv(20 * time.Second)
					}
					if code == 255 {
						failMu.Lock()
						fail = fmt.Sprintf("no CONNACK: %v", err)
						failMu.Unlock()
						cl.Close()
						return
					}
					emit(vx.M{"ev": "ret", "c": name, "code": int(code)})
					if code != 0 {
						cl.Close()
						continue
					}
					time.Sleep(time.Duration(rng.Intn(1500)) * time.Microsecond)
					emit(vx.M{"ev": "close", "c": name})
					if rng.Intn(2) == 0 {
						cl.HalfClose()
					} else {
						cl.Disconnect()
					}
					if !cl.WaitEOF(c17Wait) {
						failMu.Lock()
						fail = "broker did not close a connection after its end"
						failMu.Unlock()
						cl.Close()
						return
					}
					emit(vx.M{"ev": "gone", "c": name})
					cl.Close()
				}
			}()
		}
		wg.Wait()
		close(stop)
		swg.Wait()
		x.Close()
		if fail != "" {
			emit(vx.M{"ev": "harness-failure", "what": fail})
			return
		}
	}
}

// TestVerifC17MqttGated executes schedules generated by TLC (MqttConnCap_Gen, PSpec) in which connection
// attempts are parked between checkConnectPermission (the early check) and the registration under the
// broker lock: the Connect (authentication) pipeline of the harness is a gate per connection. While an
// attempt is parked other connections come, go and take ids over. Events are logged in the format of
// MqttConnCap_Trace (inv when the CONNECT is sent, ret when the CONNACK is read, close / gone around the
// end of a connection, a sample of len(Broker.clients) after every step); TLC looks for a linearisation.
// A connection started with slow = true belongs to a client that is slow to read its CONNACK: it is connected over
// an unbuffered in-memory connection (net.Pipe handed to Broker.handleConn) whose broker-side writes are held;
// "release" opens the pipeline gate and returns when the broker is blocked writing the CONNACK, "take" lets the
// client read it - other attempts are started, released and ended in between.  "abandon": the slow reader gives up instead -
// it closes its connection, the broker's pending write of the CONNACK fails (abandon event; gone when Broker.handleConn has
// returned).
type c17Gate struct {
	parked  chan struct{}
	release chan struct{}
}

type c17GConn struct {
	cl       *mqxClient
	gate     *c17Gate
	res      chan byte
	slow     bool // the client is slow to read its CONNACK: in-memory connection, the broker's writes are held
	atAck    bool // (slow) the broker is blocked writing the CONNACK
	done     bool // CONNACK read
	accepted bool
	ended    bool
}

func TestVerifC17MqttGated(t *testing.T) {
	behs := vx.ReadBehaviours(t, "VERIF_IN")
	w := vx.NewWriter(t, "VERIF_OUT")
	defer w.Close()
	for bi, beh := range behs {
		if len(beh) < 2 {
			continue
		}
		cap := vx.Int(beh[0]["cap"])
		x, err := mqxNewBroker(mqxOpts{maxConn: cap, pipelines: []PacketType{Connect}})
		if err != nil {
			t.Fatalf("broker: %v", err)
		}
		var gmu sync.Mutex
		gates := map[string]*c17Gate{}
		x.mapper.hook = func(c mqxCall) string {
			if c.Kind != string(Connect) {
				return ""
			}
			gmu.Lock()
			g := gates[c.User]
			gmu.Unlock()
			if g != nil {
				close(g.parked)
				select {
				case <-g.release:
				case <-time.After(90 * time.Second): // never leave a broker goroutine stuck for good
				}
			}
			return ""
		}
		w.Emit(vx.M{"ev": "reset", "cap": cap, "round": bi})
		conns := map[string]*c17GConn{}
		fail := ""
		finish := func(name string, code byte) {
			c := conns[name]
			c.done = true
			c.accepted = code == 0
			w.Emit(vx.M{"ev": "ret", "c": name, "code": int(code)})
			if !c.accepted {
				c.cl.Close()
			}
		}
		// lockFree: can the broker lock be taken (within 100ms)?  The pinned tree writes the CONNACK of an attempt refused by
		// the second check while it holds the broker lock: a client that does not read that CONNACK would stall the whole
		// broker (and this harness with it), so such a client reads its CONNACK at once (its "take" step is then empty).
		lockFree := func() bool {
			for i := 0; i < 100; i++ {
				if x.b.TryLock() {
					x.b.Unlock()
					return true
				}
				time.Sleep(time.Millisecond)
			}
			return false
		}
		take := func(name string) {
			c := conns[name]
			if c == nil || c.done || !c.atAck {
				return
			}
			c.cl.gate.Release()
			select {
			case code := <-c.res:
				if code == 255 {
					fail = "no CONNACK after the slow reader came back"
				} else {
					finish(name, code)
				}
			case <-time.After(c17Wait):
				fail = "no CONNACK after the slow reader came back"
			}
		}
		for _, st := range beh[1:] {
			name := vx.Str(st["c"])
			switch vx.Str(st["a"]) {
			case "start":
				slow, _ := st["slow"].(bool)
				var cl *mqxClient
				if slow {
					cl = mqxDialPipe(x, vx.Str(st["id"]))
					cl.gate.Hold()
				} else {
					var err error
					if cl, err = mqxDial(x.addr, vx.Str(st["id"])); err != nil {
						fail = err.Error()
						break
					}
				}
				cl.user = name
				g := &c17Gate{parked: make(chan struct{}), release: make(chan struct{})}
				gmu.Lock()
				gates[name] = g
				gmu.Unlock()
				c := &c17GConn{cl: cl, gate: g, res: make(chan byte, 1), slow: slow}
				conns[name] = c
				w.Emit(vx.M{"ev": "inv", "c": name, "id": vx.Str(st["id"])})
				if err := cl.ConnectSend(false, ""); err != nil {
					fail = err.Error()
					break
				}
				go func() {
					code, _ := cl.ConnectRecv(120 * time.Second)
					c.res <- code
				}()
				var reached <-chan struct{}
				if slow {
					reached = cl.gate.Reached()
				}
				select {
				case <-g.parked: // in the Connect pipeline: past the early check, not yet registered
				case <-reached: // (slow reader) answered before it got there: the broker is blocked writing the CONNACK
					c.atAck = true
				case code := <-c.res: // answered before it got there
					if code == 255 {
						fail = "no CONNACK"
					} else {
						finish(name, code)
					}
				case <-time.After(c17Wait):
					fail = "attempt neither parked nor answered"
				}
			case "release":
				c := conns[name]
				if c == nil || c.done || c.atAck {
					break
				}
				close(c.gate.release)
				if c.slow {
					select {
					case <-c.cl.gate.Reached(): // decided; the CONNACK is being written to a client that does not read yet
						c.atAck = true
					case <-time.After(c17Wait):
						fail = "no CONNACK written after the gate was opened"
					}
					break
				}
				select {
				case code := <-c.res:
					if code == 255 {
						fail = "no CONNACK after the gate was opened"
					} else {
						finish(name, code)
					}
				case <-time.After(c17Wait):
					fail = "no CONNACK after the gate was opened"
				}
			case "take":
				take(name)
			case "abandon":
				c := conns[name]
				if c == nil || c.done || !c.atAck || c.cl.handlerDone == nil {
					break
				}
				c.done = true // no CONNACK will ever be read
				w.Emit(vx.M{"ev": "abandon", "c": name})
				c.cl.conn.Close()   // the client is gone ...
				c.cl.gate.Release() // ... and the broker's pending write of the CONNACK fails
				select {
				case <-c.cl.handlerDone:
					// (for the report only) is the connection that is gone still what the broker has registered for its client id?
					bc := x.Registered(c.cl.id)
					w.Emit(vx.M{"ev": "gone", "c": name, "stale": bc != nil && bc.conn == net.Conn(c.cl.gate)})
				case <-time.After(c17Wait):
					fail = "Broker.handleConn did not return after the CONNACK write failed"
				}
			case "end":
				c := conns[name]
				if c == nil || !c.accepted || c.ended {
					break
				}
				c.ended = true
				w.Emit(vx.M{"ev": "close", "c": name})
				c.cl.HalfClose()
				if !c.cl.WaitEOF(c17Wait) {
					fail = "broker did not close a connection after its end"
					break
				}
				w.Emit(vx.M{"ev": "gone", "c": name})
				c.cl.Close()
			}
			if c := conns[name]; fail == "" && c != nil && c.atAck && !c.done && !lockFree() {
				take(name) // its CONNACK is being written under the broker lock
			}
			if fail != "" {
				break
			}
			w.Emit(vx.M{"ev": "sample", "n": x.NumClients()})
		}
		// every parked attempt runs to its CONNACK before the broker is closed (handleConn must not register a
		// connection in a closed broker)
		for _, c := range conns {
			select {
			case <-c.gate.release:
			default:
				close(c.gate.release)
			}
			if c.cl.gate != nil {
				c.cl.gate.Release()
			}
			if !c.done {
				select {
				case <-c.res:
				case <-time.After(c17Wait):
				}
			}
		}
		for _, c := range conns {
			c.cl.Close()
		}
		x.Close()
		if fail != "" {
			w.Emit(vx.M{"ev": "harness-failure", "what": fail, "round": bi})
		}
	}
}

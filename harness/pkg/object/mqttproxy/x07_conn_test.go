package mqttproxy

// X07 - harness of specs/MqttConn*.tla: TLC-generated client scripts are executed against a real Broker
// over loopback TCP by raw clients that use nothing but the paho `packets` codec; what each connection
// observes is logged as an event trace, which TLC validates against MqttConn (MqttConn_Trace.tla).
// No hook in the repository: the end of a connection's teardown is the moment the client sees the broker
// close the socket (Broker.handleConn closes it after Client.readLoop's deferred teardown has run), the
// will / PUBLISH hand-over is observed by a MuxMapper whose Publish pipeline records what it is handed,
// "no reply" is decided by a PINGREQ written together with the packet (the broker answers in order).
// All identifiers carry the prefix x07; the file defines no TestMain.

import (
	"bytes"
	"fmt"
	"net"
	"os"
	"runtime"
	"strings"
	"sync"
	"sync/atomic"
	"testing"
	"time"

	"github.com/eclipse/paho.mqtt.golang/packets"
	"github.com/megaease/easegress/pkg/context"
	"github.com/megaease/easegress/pkg/logger"
	"github.com/megaease/easegress/pkg/protocols/mqttprot"
	vx "github.com/megaease/easegress/pkg/verifx"
	etcderror "go.etcd.io/etcd/api/v3/v3rpc/rpctypes"
)

func init() { logger.InitNop() }

// ------------------------------------------------------------------------------------------
// storage under harness control (the session watcher part uses the watch devices)

type x07Storage struct {
	mu        sync.Mutex
	store     map[string]string
	cur       chan map[string]*string // the channel handed out by the latest watchDelete call (nil: watch lost)
	watches   int                     // watchDelete calls
	prefixes  int                     // getPrefix calls with keysOnly (Broker.reconnectWatcher)
	rewatch   chan struct{}           // non-nil: watchDelete calls after the first one wait here (the watch gap)
	lostNotes int                     // delete notifications nobody was watching for
}

var _ storage = (*x07Storage)(nil)

func x07NewStorage() *x07Storage { return &x07Storage{store: map[string]string{}} }

func (m *x07Storage) get(key string) (*string, error) {
	m.mu.Lock()
	defer m.mu.Unlock()
	if v, ok := m.store[key]; ok {
		return &v, nil
	}
	return nil, etcderror.ErrKeyNotFound
}

func (m *x07Storage) getPrefix(prefix string, keysOnly bool) (map[string]string, error) {
	m.mu.Lock()
	defer m.mu.Unlock()
	if keysOnly {
		m.prefixes++
	}
	out := map[string]string{}
	for k, v := range m.store {
		if strings.HasPrefix(k, prefix) {
			if keysOnly {
				out[k] = ""
			} else {
				out[k] = v
			}
		}
	}
	return out, nil
}

func (m *x07Storage) put(key, value string) error {
	m.mu.Lock()
	m.store[key] = value
	m.mu.Unlock()
	return nil
}

func (m *x07Storage) delete(key string) error {
	m.mu.Lock()
	delete(m.store, key)
	ch := m.cur
	if ch == nil {
		m.lostNotes++
	}
	m.mu.Unlock()
	if ch != nil {
		// unbuffered: returns when the broker's watch loop has taken the notification (the loop only starts goroutines,
		// so it is always about to receive; a loop that has gone with its broker is given up on)
		select {
		case ch <- map[string]*string{key: nil}:
		case <-time.After(30 * time.Second):
		}
	}
	return nil
}

func (m *x07Storage) watchDelete(prefix string) (<-chan map[string]*string, func(), error) {
	m.mu.Lock()
	m.watches++
	gate := m.rewatch
	first := m.watches == 1
	m.mu.Unlock()
	if gate != nil && !first {
		<-gate
	}
	ch := make(chan map[string]*string)
	m.mu.Lock()
	m.cur = ch
	m.mu.Unlock()
	return ch, func() {}, nil
}

func (m *x07Storage) has(key string) bool {
	m.mu.Lock()
	defer m.mu.Unlock()
	_, ok := m.store[key]
	return ok
}

func (m *x07Storage) counts() (watches, prefixes int) {
	m.mu.Lock()
	defer m.mu.Unlock()
	return m.watches, m.prefixes
}

// loseWatch ends the current watch the way the cluster watcher does when etcd cancels it: the channel is
// closed. From now on delete notifications are lost until the broker has a new watch.
func (m *x07Storage) loseWatch() {
	m.mu.Lock()
	ch := m.cur
	m.cur = nil
	m.mu.Unlock()
	if ch != nil {
		close(ch)
	}
}

// ------------------------------------------------------------------------------------------
// pipelines: the Publish pipeline records what it is handed

type x07Call struct {
	Client  string
	Topic   string
	Qos     byte
	Payload string
	Retain  bool
}

type x07Mapper struct {
	mu    sync.Mutex
	calls []x07Call
}

type x07Pipe struct{ m *x07Mapper }

func (m *x07Mapper) GetHandler(name string) (context.Handler, bool) { return &x07Pipe{m: m}, true }

func (p *x07Pipe) Handle(ctx *context.Context) string {
	req := ctx.GetRequest(context.DefaultNamespace).(*mqttprot.Request)
	if req.PacketType() == mqttprot.PublishType {
		pp := req.PublishPacket()
		p.m.mu.Lock()
		p.m.calls = append(p.m.calls, x07Call{Client: req.Client().ClientID(), Topic: pp.TopicName, Qos: pp.Qos, Payload: string(pp.Payload), Retain: pp.Retain})
		p.m.mu.Unlock()
	}
	return ""
}

const (
	x07WillTopic = "x07/will/"
	x07PubTopic  = "x07/pub"
)

// seen returns the will publications (as the specs' records) and the number of client PUBLISH packets the
// Publish pipeline has been handed for client id `cid`.
func (m *x07Mapper) seen(cid string) ([]vx.M, int) {
	m.mu.Lock()
	defer m.mu.Unlock()
	wills, pubs := []vx.M{}, 0
	for _, c := range m.calls {
		switch {
		case strings.HasPrefix(c.Topic, x07WillTopic):
			w := 99
			var n int
			if _, err := fmt.Sscanf(c.Topic[len(x07WillTopic):], "%d", &n); err == nil && c.Client == cid && c.Payload == fmt.Sprintf("will-%d", n) && !c.Retain {
				w = n
			}
			wills = append(wills, vx.M{"w": w, "q": int(c.Qos)})
		case c.Topic == x07PubTopic:
			pubs++
		}
	}
	return wills, pubs
}

// ------------------------------------------------------------------------------------------
// broker

type x07Broker struct {
	b      *Broker
	addr   string
	store  *x07Storage
	mapper *x07Mapper
}

func x07NewBroker() (*x07Broker, error) {
	spec := &Spec{Name: "x07", EGName: "x07", Port: 0}
	spec.Rules = append(spec.Rules, &Rule{When: &When{PacketType: Publish}, Pipeline: string(Publish)})
	st := x07NewStorage()
	mp := &x07Mapper{}
	b := newBroker(spec, st, mp, func(string, string) ([]string, error) { return nil, nil })
	if b == nil {
		return nil, fmt.Errorf("newBroker returned nil")
	}
	port := b.listener.Addr().(*net.TCPAddr).Port
	return &x07Broker{b: b, addr: fmt.Sprintf("127.0.0.1:%d", port), store: st, mapper: mp}, nil
}

func (x *x07Broker) close() {
	done := make(chan struct{})
	go func() { x.b.close(); close(done) }()
	select {
	case <-done:
	case <-time.After(10 * time.Second):
	}
	// store requests that were not served when the session manager's loop ended would stay for good
	if sm := x.b.sessMgr; sm != nil {
		ch := sm.storeCh
		go func() {
			for {
				select {
				case <-ch:
				case <-time.After(20 * time.Second):
					return
				}
			}
		}()
	}
}

func (x *x07Broker) registered(cid string) *Client {
	x.b.RLock()
	defer x.b.RUnlock()
	if x.b.clients == nil {
		return nil
	}
	return x.b.clients[cid]
}

// ------------------------------------------------------------------------------------------
// raw client

type x07Client struct {
	conn   net.Conn
	in     chan packets.ControlPacket
	eofCh  chan struct{}
	eofAt  time.Time // set before eofCh is closed
	budget time.Duration
}

func x07Dial(addr string, budget time.Duration) (*x07Client, error) {
	conn, err := net.DialTimeout("tcp", addr, 30*time.Second)
	if err != nil {
		return nil, err
	}
	c := &x07Client{conn: conn, in: make(chan packets.ControlPacket, 1024), eofCh: make(chan struct{}), budget: budget}
	go func() {
		for {
			p, err := packets.ReadPacket(conn)
			if err != nil {
				c.eofAt = time.Now()
				close(c.eofCh)
				return
			}
			c.in <- p
		}
	}()
	return c, nil
}

func (c *x07Client) ended() bool {
	select {
	case <-c.eofCh:
		return true
	default:
		return false
	}
}

// x07Reply renders a packet the broker sent as the specs' reply record.
func x07Reply(p packets.ControlPacket) vx.M {
	switch a := p.(type) {
	case *packets.ConnackPacket:
		sp := 0
		if a.SessionPresent {
			sp = 1
		}
		return vx.M{"t": "connack", "id": sp, "rc": []int{int(a.ReturnCode)}}
	case *packets.SubackPacket:
		rc := []int{}
		for _, b := range a.ReturnCodes {
			rc = append(rc, int(b))
		}
		return vx.M{"t": "suback", "id": int(a.MessageID), "rc": rc}
	case *packets.UnsubackPacket:
		return vx.M{"t": "unsuback", "id": int(a.MessageID), "rc": []int{}}
	case *packets.PubackPacket:
		return vx.M{"t": "puback", "id": int(a.MessageID), "rc": []int{}}
	case *packets.PingrespPacket:
		return vx.M{"t": "pingresp", "id": 0, "rc": []int{}}
	}
	return vx.M{"t": "other:" + p.String(), "id": 0, "rc": []int{}}
}

// exchange writes `data` in one write and collects what the broker sends until `until` accepts a packet
// (that packet is not part of the result unless keep is set) or the broker closes the connection.
// Returns (replies, closed, stuck).
func (c *x07Client) exchange(data []byte, until func(p packets.ControlPacket) bool, keep bool) ([]vx.M, bool, bool) {
	reps := []vx.M{}
	if len(data) > 0 {
		c.conn.SetWriteDeadline(time.Now().Add(c.budget))
		if _, err := c.conn.Write(data); err != nil {
			// the broker has gone already: what it sent before is still to be read
			until = func(packets.ControlPacket) bool { return false }
		}
	}
	t := time.NewTimer(c.budget)
	defer t.Stop()
	for {
		select {
		case p := <-c.in:
			if until(p) {
				if keep {
					reps = append(reps, x07Reply(p))
				}
				return reps, false, false
			}
			reps = append(reps, x07Reply(p))
		case <-c.eofCh:
			for { // the reader queues everything it read before it reports the end
				select {
				case p := <-c.in:
					reps = append(reps, x07Reply(p))
					continue
				default:
				}
				break
			}
			return reps, true, false
		case <-t.C:
			return reps, false, true
		}
	}
}

func (c *x07Client) waitEnd(d time.Duration) bool {
	select {
	case <-c.eofCh:
		return true
	case <-time.After(d):
		return false
	}
}

var x07Seq uint32

func x07Filter(i int, ok bool) string {
	if ok {
		return fmt.Sprintf("x07/f%d/+", i)
	}
	return fmt.Sprintf("x07/f%d/a+", i) // a wildcard that does not occupy its level alone
}

// x07Encode renders the specs' packet record as bytes.
func x07Encode(p vx.M, cid string) []byte {
	var buf bytes.Buffer
	switch t := vx.Str(p["t"]); t {
	case "connect":
		cp := packets.NewControlPacket(packets.Connect).(*packets.ConnectPacket)
		cp.ClientIdentifier = cid
		cp.CleanSession = vx.Int(p["id"]) == 1
		cp.ProtocolName, cp.ProtocolVersion = "MQTT", 4
		cp.Keepalive = uint16(vx.Int(p["k"]))
		if w := vx.Int(p["w"]); w != 0 {
			cp.WillFlag = true
			cp.WillTopic = fmt.Sprintf("%s%d", x07WillTopic, w)
			cp.WillMessage = []byte(fmt.Sprintf("will-%d", w))
			cp.WillQos = byte(vx.Int(p["q"]))
		}
		switch vx.Str(p["v"]) {
		case "badproto":
			cp.ProtocolVersion = 3
		case "noid":
			cp.ClientIdentifier, cp.CleanSession = "", false
		}
		cp.Write(&buf)
	case "ping":
		packets.NewControlPacket(packets.Pingreq).Write(&buf)
	case "disc":
		packets.NewControlPacket(packets.Disconnect).Write(&buf)
	case "sub":
		sp := packets.NewControlPacket(packets.Subscribe).(*packets.SubscribePacket)
		sp.MessageID = uint16(vx.Int(p["id"]))
		for i, f := range vx.List(p["fs"]) {
			fm := f.(map[string]interface{})
			sp.Topics = append(sp.Topics, x07Filter(i, vx.Bool(fm["ok"])))
			sp.Qoss = append(sp.Qoss, byte(vx.Int(fm["q"])))
		}
		sp.Write(&buf)
	case "unsub":
		up := packets.NewControlPacket(packets.Unsubscribe).(*packets.UnsubscribePacket)
		up.MessageID = uint16(vx.Int(p["id"]))
		for i, f := range vx.List(p["fs"]) {
			up.Topics = append(up.Topics, x07Filter(i, vx.Bool(f.(map[string]interface{})["ok"])))
		}
		up.Write(&buf)
	case "pub":
		pp := packets.NewControlPacket(packets.Publish).(*packets.PublishPacket)
		pp.TopicName, pp.Qos, pp.MessageID, pp.Payload = x07PubTopic, byte(vx.Int(p["q"])), uint16(vx.Int(p["id"])), []byte("x")
		pp.Write(&buf)
	case "puback":
		pa := packets.NewControlPacket(packets.Puback).(*packets.PubackPacket)
		pa.MessageID = uint16(vx.Int(p["id"]))
		pa.Write(&buf)
	case "connack":
		packets.NewControlPacket(packets.Connack).Write(&buf)
	case "suback":
		sa := packets.NewControlPacket(packets.Suback).(*packets.SubackPacket)
		sa.MessageID, sa.ReturnCodes = 7, []byte{0}
		sa.Write(&buf)
	case "unsuback":
		ua := packets.NewControlPacket(packets.Unsuback).(*packets.UnsubackPacket)
		ua.MessageID = 7
		ua.Write(&buf)
	case "pingresp":
		packets.NewControlPacket(packets.Pingresp).Write(&buf)
	case "pubrec":
		pr := packets.NewControlPacket(packets.Pubrec).(*packets.PubrecPacket)
		pr.MessageID = 7
		pr.Write(&buf)
	case "pubrel":
		pr := packets.NewControlPacket(packets.Pubrel).(*packets.PubrelPacket)
		pr.MessageID = 7
		pr.Write(&buf)
	case "pubcomp":
		pr := packets.NewControlPacket(packets.Pubcomp).(*packets.PubcompPacket)
		pr.MessageID = 7
		pr.Write(&buf)
	case "garbage":
		buf.Write([]byte{0xF0, 0x00}) // packet type 15: reserved
	default:
		panic("x07: unknown packet type " + t)
	}
	return buf.Bytes()
}

var x07Ping = func() []byte {
	var b bytes.Buffer
	packets.NewControlPacket(packets.Pingreq).Write(&b)
	return b.Bytes()
}()

func x07IsPingresp(p packets.ControlPacket) bool { _, ok := p.(*packets.PingrespPacket); return ok }
func x07IsConnack(p packets.ControlPacket) bool  { _, ok := p.(*packets.ConnackPacket); return ok }

// x07RunScript executes one script (the `out` records of a MqttConn_Gen behaviour) on a fresh broker and
// returns the connection's events. problem != "" : the run could not be carried out (never a verdict).
func x07RunScript(script []vx.M, slack time.Duration, budget time.Duration) (evs []vx.M, problem string) {
	x, err := x07NewBroker()
	if err != nil {
		return nil, err.Error()
	}
	defer x.close()
	cid := fmt.Sprintf("x07-%d", atomic.AddUint32(&x07Seq, 1))
	c, err := x07Dial(x.addr, budget)
	if err != nil {
		return nil, err.Error()
	}
	var second *x07Client
	defer func() {
		c.conn.Close()
		if second != nil {
			second.conn.Write(x07Encode(vx.M{"t": "disc"}, cid))
			second.waitEnd(5 * time.Second)
			second.conn.Close()
		}
		c.waitEnd(5 * time.Second)
	}()

	half := 500 * time.Millisecond // one tick
	tref := time.Now()             // when the client started to write the last packet known to have been handled
	quiet := 0                     // script ticks since then
	up := false
	ticks := func(t time.Time) int { return int(t.Sub(tref) / half) }
	obs := func(e vx.M) vx.M {
		e["wills"], e["pubs"] = x.mapper.seen(cid)
		return e
	}
	expired := func() { evs = append(evs, obs(vx.M{"ev": "expire", "ic": ticks(c.eofAt)})) }

	for _, st := range script {
		if up && c.ended() {
			// the broker ended the connection while the client was silent (a stalled machine can turn any pause into
			// a long one): the only explanation the model has is the keep-alive timer, and `ic` says whether it holds
			expired()
			return evs, ""
		}
		switch a := vx.Str(st["a"]); a {
		case "init":
		case "pkt":
			p := st["p"].(map[string]interface{})
			data := x07Encode(p, cid)
			typ := vx.Str(p["t"])
			tw := time.Now()
			var reps []vx.M
			var closed, stuck bool
			switch {
			case !up && typ == "connect":
				// a CONNECT is answered by a CONNACK whatever the verdict; a refusal is followed by the end of the stream
				reps, closed, stuck = c.exchange(data, x07IsConnack, true)
				if !closed && !stuck && len(reps) == 1 && reps[0]["rc"].([]int)[0] != 0 {
					more, cl, stk := c.exchange(nil, func(packets.ControlPacket) bool { return false }, false)
					reps, closed, stuck = append(reps, more...), cl, stk
				}
			case typ == "ping":
				reps, closed, stuck = c.exchange(data, x07IsPingresp, true)
			default:
				reps, closed, stuck = c.exchange(append(data, x07Ping...), x07IsPingresp, false)
			}
			if stuck {
				return evs, fmt.Sprintf("no answer and no end of stream within %v after %v", budget, p)
			}
			e := vx.M{"ev": "step", "p": p, "rep": reps, "closed": closed, "ib": 0, "ic": 0}
			if up {
				e["ib"] = ticks(tw)
			}
			if closed {
				if up {
					e["ic"] = ticks(c.eofAt)
				}
				evs = append(evs, obs(e))
				return evs, ""
			}
			if !up {
				up = true
				if k := vx.Int(p["k"]); k > 0 {
					half = time.Duration(k) * 500 * time.Millisecond
				}
			}
			tref, quiet = tw, 0
			evs = append(evs, obs(e))
		case "tick":
			quiet++
			select {
			case <-c.eofCh:
			case <-time.After(time.Until(tref.Add(time.Duration(quiet)*half + 15*time.Millisecond))):
			}
		case "expire":
			ka := half * 2
			limit := tref.Add(ka + ka/2 + slack + 2*half)
			select {
			case <-c.eofCh:
				expired()
				return evs, ""
			case <-time.After(time.Until(limit)):
			}
			// still open: a probe says so (TLC rejects "alive that late"; the driver re-runs before it believes it)
			tw := time.Now()
			reps, closed, stuck := c.exchange(x07Ping, x07IsPingresp, true)
			if stuck {
				return evs, "no answer to the probe of a connection that should have expired"
			}
			e := vx.M{"ev": "step", "p": vx.M{"t": "ping", "id": 0, "q": 0, "fs": []int{}, "k": 0, "w": 0, "v": ""}, "rep": reps, "closed": closed, "ib": ticks(tw), "ic": 0}
			if closed {
				e["ic"] = ticks(c.eofAt)
			}
			evs = append(evs, obs(e))
			return evs, ""
		case "drop":
			if tc, ok := c.conn.(*net.TCPConn); ok {
				tc.CloseWrite()
			}
			if !c.waitEnd(budget) {
				return evs, "half-closed connection was not closed by the broker within the budget"
			}
			evs = append(evs, obs(vx.M{"ev": "drop"}))
			return evs, ""
		case "takeover":
			old := x.registered(cid)
			if old == nil {
				// the connection is being torn down (its timer fired): wait for the end and let the model judge
				if !c.waitEnd(budget) {
					return evs, "connection not registered but still open"
				}
				expired()
				return evs, ""
			}
			second, err = x07Dial(x.addr, budget)
			if err != nil {
				return evs, err.Error()
			}
			cp := vx.M{"t": "connect", "id": 1, "k": 0, "w": 0, "q": 0, "v": "ok"}
			reps, closed, stuck := second.exchange(x07Encode(cp, cid), x07IsConnack, true)
			if closed || stuck || len(reps) != 1 || reps[0]["rc"].([]int)[0] != 0 {
				return evs, fmt.Sprintf("the second connection was not accepted: %v", reps)
			}
			// handleConn closes the first Client from a goroutine of its own: wait until that has happened
			dl := time.Now().Add(budget)
			for !old.disconnected() {
				if time.Now().After(dl) {
					return evs, "the superseded Client was not closed within the budget"
				}
				runtime.Gosched()
				time.Sleep(200 * time.Microsecond)
			}
			old.Lock() // Client.close sets the flag and closes `done` under this lock
			old.Unlock()
			evs = append(evs, vx.M{"ev": "takeover"})
		default:
			panic("x07: unknown script step " + a)
		}
	}
	return evs, ""
}

// TestVerifX07Conn executes the scripts of VERIF_IN (one behaviour per line) concurrently, one broker each,
// and writes the concatenated traces to VERIF_OUT.
func TestVerifX07Conn(t *testing.T) {
	behs := vx.ReadBehaviours(t, "VERIF_IN")
	w := vx.NewWriter(t, "VERIF_OUT")
	defer w.Close()
	slack := time.Duration(vx.EnvInt("VERIF_SLACK_S", 8)) * time.Second
	budget := time.Duration(vx.EnvInt("VERIF_BUDGET_S", 120)) * time.Second
	par := vx.EnvInt("VERIF_PAR", 24)

	type result struct {
		evs     []vx.M
		problem string
	}
	res := make([]result, len(behs))
	sem := make(chan struct{}, par)
	var wg sync.WaitGroup
	for i := range behs {
		wg.Add(1)
		sem <- struct{}{}
		go func(i int) {
			defer wg.Done()
			defer func() { <-sem }()
			evs, problem := x07RunScript(behs[i], slack, budget)
			res[i] = result{evs, problem}
		}(i)
	}
	wg.Wait()
	for i, r := range res {
		w.Emit(vx.M{"ev": "reset", "script": i})
		for _, e := range r.evs {
			w.Emit(e)
		}
		if r.problem != "" {
			w.Emit(vx.M{"ev": "problem", "script": i, "what": r.problem})
			fmt.Fprintf(os.Stderr, "x07: script %d: %s\n", i, r.problem)
		}
	}
}

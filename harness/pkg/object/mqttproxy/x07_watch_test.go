package mqttproxy

// X07, fourth part - harness of specs/MqttWatch*.tla: the session-delete watcher of a real Broker driven
// through a storage the harness controls (x07Storage in x07_conn_test.go): the watch channel can be closed
// the way the cluster watcher closes it when etcd cancels the watch, and the broker's new watch can be held
// back, so that the gap is as long as the script says.  Every step is completed up to a barrier (no verdict
// depends on a time-out), then every client is probed.

import (
	"fmt"
	"net/http"
	"net/http/httptest"
	"os"
	"runtime"
	"strings"
	"testing"
	"time"

	"github.com/eclipse/paho.mqtt.golang/packets"
	vx "github.com/megaease/easegress/pkg/verifx"
)

// x07NoGoroutine waits until no goroutine has one of `frames` on its stack.
func x07NoGoroutine(d time.Duration, frames ...string) bool {
	deadline := time.Now().Add(d)
	buf := make([]byte, 1<<20)
	pause := 200 * time.Microsecond
	for {
		n := runtime.Stack(buf, true)
		if n == len(buf) {
			buf = make([]byte, 2*len(buf))
			continue
		}
		dump, found := string(buf[:n]), false
		for _, f := range frames {
			found = found || strings.Contains(dump, f)
		}
		if !found {
			return true
		}
		if time.Now().After(deadline) {
			return false
		}
		time.Sleep(pause)
		if pause < 5*time.Millisecond {
			pause += pause / 2
		}
	}
}

// watchBarrier returns when the broker's watch loop has turned every notification sent so far into a
// deleteSession call and those calls have returned: the channel is unbuffered, a put-type notification
// (value non-nil) is ignored by Broker.watchDelete, and once the loop has taken it it has gone through its
// body for everything before.
func (m *x07Storage) watchBarrier(d time.Duration) bool {
	m.mu.Lock()
	ch := m.cur
	m.mu.Unlock()
	if ch == nil {
		return true // nobody watches: nothing was sent
	}
	v := "x"
	select {
	case ch <- map[string]*string{"/x07/sentinel": &v}:
	case <-time.After(d):
		return false
	}
	// a goroutine that has not run yet shows only its entry wrapper (watchDelete.gowrapN); the frames are matched with
	// their opening parenthesis / wrapper suffix, so that a "created by ..." line does not count
	return x07NoGoroutine(d, "mqttproxy.(*Broker).deleteSession(", "mqttproxy.(*Broker).watchDelete.gowrap")
}

// x07Alive probes a connection: two PINGREQs one after the other must both be answered (a connection the
// broker has closed from inside may still answer one packet, never two: its read loop ends after the first).
func x07Alive(c *x07Client) (alive bool, stuck bool) {
	if c.ended() {
		return false, false
	}
	for i := 0; i < 2; i++ {
		_, closed, stk := c.exchange(x07Ping, x07IsPingresp, true)
		if stk {
			return false, true
		}
		if closed {
			return false, false
		}
	}
	return true, false
}

func x07RunWatchScript(script []vx.M, budget time.Duration) (evs []vx.M, problem string) {
	x, err := x07NewBroker()
	if err != nil {
		return nil, err.Error()
	}
	defer x.close()
	gate := make(chan struct{})
	x.store.mu.Lock()
	x.store.rewatch = gate
	x.store.mu.Unlock()
	gateOpen := false
	defer func() {
		if !gateOpen {
			close(gate)
		}
	}()
	clients := map[int]*x07Client{}
	ids := map[int]string{}
	defer func() {
		for _, c := range clients {
			c.conn.Close()
		}
		for _, c := range clients {
			c.waitEnd(5 * time.Second)
		}
	}()
	wait := func(cond func() bool) bool {
		dl := time.Now().Add(budget)
		for !cond() {
			if time.Now().After(dl) {
				return false
			}
			time.Sleep(300 * time.Microsecond)
		}
		return true
	}

	for _, st := range script {
		a, cn := vx.Str(st["a"]), vx.Int(st["c"])
		switch a {
		case "init":
			continue
		case "connect":
			c, err := x07Dial(x.addr, budget)
			if err != nil {
				return evs, err.Error()
			}
			cid := fmt.Sprintf("x07w-%d-%d", cn, time.Now().UnixNano())
			clients[cn], ids[cn] = c, cid
			cp := vx.M{"t": "connect", "id": 0, "k": 0, "w": 0, "q": 0, "v": "ok"}
			reps, closed, stuck := c.exchange(x07Encode(cp, cid), x07IsConnack, true)
			if closed || stuck || len(reps) != 1 || reps[0]["rc"].([]int)[0] != 0 {
				return evs, fmt.Sprintf("connect refused: %v", reps)
			}
			// the session reaches the store through the session manager's goroutine
			if !wait(func() bool { return x.store.has(sessionStoreKey(cid)) }) {
				return evs, "the session of a connected client never reached the store"
			}
		case "leave":
			c := clients[cn]
			c.conn.Write(x07Encode(vx.M{"t": "disc"}, ids[cn]))
			if !c.waitEnd(budget) {
				return evs, "DISCONNECT was not followed by the end of the stream"
			}
		case "delete":
			// the admin API's handler: DELETE /mqttproxy/{name}/sessions
			body := fmt.Sprintf(`{"sessions":[{"sessionID":%q}]}`, ids[cn])
			r := httptest.NewRequest(http.MethodDelete, "/mqttproxy/x07/sessions", strings.NewReader(body))
			x.b.httpDeleteSessionHandler(httptest.NewRecorder(), r)
			if x.store.has(sessionStoreKey(ids[cn])) {
				return evs, "admin delete left the session in the store"
			}
			if !x.store.watchBarrier(budget) {
				return evs, "the watch loop did not take the notifications within the budget"
			}
		case "lose":
			w0, _ := x.store.counts()
			x.store.loseWatch()
			// the watch loop sees the closed channel and starts reconnectWatcher, which asks for a new watch (held back)
			if !wait(func() bool { w, _ := x.store.counts(); return w == w0+1 }) {
				return evs, "the broker did not ask for a new watch after the old one was closed"
			}
		case "rewatch":
			_, p0 := x.store.counts()
			gate <- struct{}{} // lets exactly one held-back watchDelete call go on
			if !wait(func() bool { _, p := x.store.counts(); return p == p0+1 }) {
				return evs, "reconnectWatcher did not list the stored sessions"
			}
			if !x07NoGoroutine(budget, "mqttproxy.(*Broker).reconnectWatcher(") {
				return evs, "reconnectWatcher did not finish within the budget"
			}
			if !x.store.watchBarrier(budget) {
				return evs, "the new watch loop is not serving"
			}
		default:
			panic("x07: unknown watch step " + a)
		}
		alive := []int{}
		for n := 1; n <= 8; n++ {
			c, ok := clients[n]
			if !ok {
				continue
			}
			al, stuck := x07Alive(c)
			if stuck {
				return evs, fmt.Sprintf("client %d neither answers nor is closed", n)
			}
			if al {
				alive = append(alive, n)
			}
		}
		evs = append(evs, vx.M{"ev": "w", "a": a, "c": cn, "alive": alive})
	}
	gateOpen = true
	close(gate)
	return evs, ""
}

var _ = packets.Connect

// TestVerifX07Watch executes the watcher scripts of VERIF_IN one after the other (the barriers look at all
// goroutines of the process) and writes the concatenated traces to VERIF_OUT.
func TestVerifX07Watch(t *testing.T) {
	behs := vx.ReadBehaviours(t, "VERIF_IN")
	w := vx.NewWriter(t, "VERIF_OUT")
	defer w.Close()
	budget := time.Duration(vx.EnvInt("VERIF_BUDGET_S", 120)) * time.Second
	for i, b := range behs {
		evs, problem := x07RunWatchScript(b, budget)
		w.Emit(vx.M{"ev": "reset", "script": i})
		for _, e := range evs {
			w.Emit(e)
		}
		if problem != "" {
			w.Emit(vx.M{"ev": "problem", "script": i, "what": problem})
			fmt.Fprintf(os.Stderr, "x07: watch script %d: %s\n", i, problem)
		}
	}
}

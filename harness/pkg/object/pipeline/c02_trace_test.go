package pipeline

// C02 trace validation: seeded random larger configurations (up to 10 flow nodes, 4 filters, aliases,
// namespaces, END nodes, before/after pipelines, mostly valid with a dose of every kind of
// invalidity) are submitted to the real validation, the accepted ones handle requests with random
// result vectors; everything observed is logged as NDJSON and validated by TLC against the contract
// (specs/PipelineFlow_Trace.tla).

import (
	"math/rand"
	"strings"
	"testing"

	vx "github.com/megaease/easegress/pkg/verifx"
)

var (
	c02TraceFilters = []string{"f", "g", "h", "k"}
	c02TraceKinds   = []string{"K12", "K1", "K123", "K12", "K1", "K123", "KC", "K0"}
	c02TraceAliases = []string{"a", "b", "c"}
	c02TraceResults = []string{"r1", "r2", "r3", "r1", "r2", "r3", "R1"}
	c02TraceKeys    = []string{"r1", "r2", "r3", "R1"} // jumpIf keys drawn per node (declared by the node's kind or not)
)

func c02Pick(rng *rand.Rand, xs []string) string { return xs[rng.Intn(len(xs))] }

func c02RandDefs(rng *rand.Rand) []c02Def {
	n := 1 + rng.Intn(4)
	perm := rng.Perm(len(c02TraceFilters))
	var defs []c02Def
	for i := 0; i < n; i++ {
		defs = append(defs, c02Def{Name: c02TraceFilters[perm[i]], Kind: c02Pick(rng, c02TraceKinds)})
	}
	switch x := rng.Intn(100); {
	case x < 3: // duplicated filter name
		defs = append(defs, c02Def{Name: defs[rng.Intn(len(defs))].Name, Kind: c02Pick(rng, c02TraceKinds)})
	case x < 5: // reserved filter name
		defs = append(defs, c02Def{Name: "END", Kind: c02Pick(rng, c02TraceKinds)})
	}
	return defs
}

func c02DeclaredResults(kind string) []string {
	switch kind {
	case "K1":
		return []string{"r1"}
	case "K12":
		return []string{"r1", "r2"}
	case "K123":
		return []string{"r1", "r2", "r3"}
	case "KC":
		return []string{"R1", "r1"}
	}
	return nil // K0, undefined filter
}

// c02NearMiss derives a name that is close to, but is not, the declared result r: other case, proper
// prefix (down to the empty name), extension, one character replaced / prepended. Such names sort
// before, between and after the declared results of a kind.
func c02NearMiss(rng *rand.Rand, r string) string {
	if r == "" {
		r = "r1"
	}
	switch rng.Intn(7) {
	case 0:
		return strings.ToUpper(r)
	case 1:
		return strings.ToUpper(r[:1]) + r[1:]
	case 2:
		return r[:rng.Intn(len(r))] // proper prefix, possibly ""
	case 3:
		return r + c02Pick(rng, []string{"0", "1", "x", "_"})
	case 4:
		return c02Pick(rng, []string{"a", "q", "z", "_"}) + r
	case 5:
		return r[:len(r)-1] + c02Pick(rng, []string{"0", "5", "9", "a"})
	}
	return strings.ToLower(r)
}

func c02NodeName(n c02Node) string {
	if n.Alias != "" {
		return n.Alias
	}
	return n.Filter
}

// c02RandFlow draws a flow: names first, then jump maps whose targets are mostly names of later
// nodes (valid or not: duplicates happen), sometimes END, sometimes anything.
func c02RandFlow(rng *rand.Rand, defs []c02Def, maxLen int) []c02Node {
	n := rng.Intn(maxLen + 1)
	flow := make([]c02Node, n)
	kindOf := map[string]string{}
	for _, d := range defs {
		kindOf[d.Name] = d.Kind
	}
	for i := range flow {
		nd := c02Node{Jump: map[string]string{"r1": c02NoJump, "r2": c02NoJump, "r3": c02NoJump}}
		switch x := rng.Intn(100); {
		case x < 8:
			nd.Filter = "END"
			if rng.Intn(6) == 0 {
				nd.Alias = c02Pick(rng, c02TraceAliases)
			}
		case x < 10: // a filter that may be undefined
			nd.Filter = c02Pick(rng, c02TraceFilters)
		case len(defs) == 0: // a pipeline without filters: only built-in nodes are valid
			nd.Filter = "END"
			if rng.Intn(6) == 0 {
				nd.Alias = c02Pick(rng, c02TraceAliases)
			}
		default:
			nd.Filter = defs[rng.Intn(len(defs))].Name
		}
		if nd.Filter != "END" {
			if rng.Intn(100) < 35 {
				nd.Alias = c02Pick(rng, c02TraceAliases)
			}
			if rng.Intn(100) < 40 {
				nd.Ns = c02Pick(rng, []string{"n1", "n2"})
			}
		}
		flow[i] = nd
	}
	for i := range flow {
		nd := &flow[i]
		if nd.Filter == "END" {
			continue
		}
		declared := c02DeclaredResults(kindOf[nd.Filter])
		keys := append([]string{}, c02TraceKeys...)
		if rng.Intn(100) < 2 { // a key that is a near miss of a declared result (or of r1 if the kind declares none)
			base := ""
			if len(declared) > 0 {
				base = declared[rng.Intn(len(declared))]
			}
			keys = append(keys, c02NearMiss(rng, base))
		}
		for ki, r := range keys {
			if ki < len(c02TraceKeys) {
				if rng.Intn(100) >= 35 {
					continue
				}
				isDeclared := false
				for _, d := range declared {
					isDeclared = isDeclared || d == r
				}
				if !isDeclared && rng.Intn(100) >= 6 { // undeclared results only rarely
					continue
				}
			} else if _, drawn := nd.Jump[r]; drawn && nd.Jump[r] != c02NoJump {
				continue // the near miss happens to be a key that is mapped already
			}
			// names of later filter nodes that are unique among the later nodes: the valid targets
			count := map[string]int{}
			for _, l := range flow[i+1:] {
				count[c02NodeName(l)]++
			}
			var uniq []string
			for _, l := range flow[i+1:] {
				if l.Filter != "END" && count[c02NodeName(l)] == 1 {
					uniq = append(uniq, c02NodeName(l))
				}
			}
			switch x := rng.Intn(100); {
			case x < 75 && len(uniq) > 0:
				nd.Jump[r] = uniq[rng.Intn(len(uniq))]
			case x < 90:
				nd.Jump[r] = "END"
			case x < 93 && i+1 < len(flow):
				nd.Jump[r] = c02NodeName(flow[i+1+rng.Intn(len(flow)-i-1)]) // any later node: may be duplicated, may be an END node
			case x < 96 && i > 0:
				nd.Jump[r] = c02NodeName(flow[rng.Intn(i+1)]) // backward or self
			case x < 98:
				nd.Jump[r] = c02Pick(rng, []string{"f", "g", "h", "k", "a", "b", "c", "zz"})
			}
			if _, drawn := nd.Jump[r]; !drawn && ki >= len(c02TraceKeys) {
				nd.Jump[r] = "END" // a near miss is always mapped
			}
		}
	}
	return flow
}

func c02NodesJSON(flow []c02Node) []interface{} {
	out := []interface{}{}
	for _, n := range flow {
		j := vx.M{}
		for r, t := range n.Jump {
			j[r] = t
		}
		out = append(out, vx.M{"filter": n.Filter, "alias": n.Alias, "ns": n.Ns, "jump": j})
	}
	return out
}

func c02DefsJSON(defs []c02Def) []interface{} {
	out := []interface{}{}
	for _, d := range defs {
		out = append(out, vx.M{"name": d.Name, "kind": d.Kind})
	}
	return out
}

func TestVerifC02Trace(t *testing.T) {
	w := vx.NewWriter(t, "VERIF_TRACE_OUT")
	defer w.Close()
	rng := vx.Rand(202)
	nCfg := vx.EnvInt("VERIF_N", 200)
	nReq := vx.EnvInt("VERIF_REQS", 6)
	for ci := 0; ci < nCfg; ci++ {
		defs := c02RandDefs(rng)
		hasB, hasA := rng.Intn(100) < 35, rng.Intn(100) < 35
		if rng.Intn(100) < 3 {
			defs = nil // a main pipeline without filters
		}
		// the before / after pipelines are specifications of their own: mostly they declare the filters of
		// the main pipeline, sometimes filters of their own (same names, other kinds), sometimes none
		sdefs := map[string][]c02Def{"m": defs, "b": {}, "a": {}}
		flows := map[string][]c02Node{"m": c02RandFlow(rng, defs, 10), "b": {}, "a": {}}
		for _, sg := range []string{"b", "a"} {
			if (sg == "b" && !hasB) || (sg == "a" && !hasA) {
				continue
			}
			switch x := rng.Intn(100); {
			case x < 60:
				sdefs[sg] = defs
			case x < 85:
				sdefs[sg] = c02RandDefs(rng)
			}
			flows[sg] = c02RandFlow(rng, sdefs[sg], 4)
		}
		acc := vx.M{"b": true, "m": true, "a": true}
		pipes := map[string]*Pipeline{}
		all := true
		for _, sg := range []string{"b", "m", "a"} {
			if (sg == "b" && !hasB) || (sg == "a" && !hasA) {
				continue
			}
			p, _, rej, crash := c02Build(sg, sdefs[sg], flows[sg])
			if crash != nil {
				// an accepted specification that cannot be created: logged as accepted; the request
				// log that follows is empty, which the contract does not allow for a runnable flow
				w.Emit(vx.M{"ev": "note", "what": "panic on creation"})
			}
			if rej != nil {
				acc[sg] = false
				all = false
			} else if p != nil {
				pipes[sg] = p
			}
		}
		w.Emit(vx.M{"ev": "cfg", "acc": acc, "cfg": vx.M{"defs": c02DefsJSON(defs), "db": c02DefsJSON(sdefs["b"]), "da": c02DefsJSON(sdefs["a"]), "hasB": hasB, "hasA": hasA,
			"b": c02NodesJSON(flows["b"]), "m": c02NodesJSON(flows["m"]), "a": c02NodesJSON(flows["a"])}})
		if all && pipes["m"] != nil {
			bias := rng.Intn(60) + 20 // percentage of normal ("") results
			for q := 0; q < nReq; q++ {
				script := make([]string, 24)
				for k := range script {
					if rng.Intn(100) >= bias {
						script[k] = c02Pick(rng, c02TraceResults)
					}
				}
				mode := "hba"
				if !hasB && !hasA && rng.Intn(2) == 0 {
					mode = "handle"
				}
				o := c02Exec(mode, pipes["m"], pipes["b"], pipes["a"], script)
				for _, v := range o.Visits {
					w.Emit(vx.M{"ev": "visit", "seg": v.Seg, "filter": v.Filter, "name": v.Name, "ns": v.Ns, "res": v.Res})
				}
				if o.Note != "" {
					w.Emit(vx.M{"ev": "note", "what": o.Note})
				}
				if o.Obs != "" {
					w.Emit(vx.M{"ev": "obs", "what": o.Obs})
				}
				w.Emit(vx.M{"ev": "end", "result": o.Result, "mode": mode})
			}
		}
		for _, p := range pipes {
			p.Close()
		}
	}
}

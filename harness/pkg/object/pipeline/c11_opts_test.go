package pipeline

// Harness for C11 (specs/HotUpdate.tla), pipeline level: the *options* of the Proxy.
// TestVerifC11PxOptions replays TLC-generated schedules (HotUpdate_Gen, Kinds = <<"px">>, Atomic = "coarse",
// Options = {url, ca, cert, timeout, fcodes, idle}, request class "o") on real one-filter pipelines whose Proxy talks
// mTLS to an HTTPS backend.  Every option has a version of its own in the pipeline spec:
//   url      pools[0].servers[0].url = https://127.0.0.1:<port>/u<v>         the backend echoes the path it was called with
//   cert     mtls.certBase64 / keyBase64 = a client certificate with CN c<v> the backend echoes the CN presented to it
//   ca       mtls.rootCertBase64 = certificate of CA number v                the backend presents, as the harness tells it,
//                                                                            a certificate issued by one of the CAs
//   timeout  pools[0].timeout = 60s (odd v) / 100ms (even v)                 the backend holds the answer until told
//   fcodes   pools[0].failureCodes = [500+v]                                 the backend answers the status it is asked for
//   idle     maxIdleConns = 100+v                                            (nothing shows it: every other option must stay in force)
// An update changes exactly one option (one field of the spec, nothing else), all of them, or only the resilience section of
// the pipeline.  Each class "o" request is one backend call made
// under one challenge; the outcome is compared with the options the model says are in force for the generation the
// request holds (step field `eff`; the contract's Configured makes them the ones that generation's spec configures).

import (
	"crypto/ecdsa"
	"crypto/elliptic"
	"crypto/rand"
	"crypto/tls"
	"crypto/x509"
	"crypto/x509/pkix"
	"encoding/base64"
	"encoding/pem"
	"fmt"
	"io"
	"log"
	"math/big"
	"net"
	"net/http"
	"net/http/httptest"
	"runtime/debug"
	"strconv"
	"sync"
	"sync/atomic"
	"testing"
	"time"

	"github.com/megaease/easegress/pkg/context"
	"github.com/megaease/easegress/pkg/protocols/httpprot"
	"github.com/megaease/easegress/pkg/supervisor"
	"github.com/megaease/easegress/pkg/tracing"
	vx "github.com/megaease/easegress/pkg/verifx"
)

const c11OptMaxVer = 12 // versions of an option a schedule can reach (bounded by its number of updates)

type c11Cert struct {
	cert    *x509.Certificate
	key     *ecdsa.PrivateKey
	certPEM []byte
	keyPEM  []byte
	tlsCert tls.Certificate
}

func (c *c11Cert) certB64() string { return base64.StdEncoding.EncodeToString(c.certPEM) }
func (c *c11Cert) keyB64() string  { return base64.StdEncoding.EncodeToString(c.keyPEM) }

var c11Serial int64

// c11NewCert creates a certificate signed by parent (self-signed if nil).
func c11NewCert(cn string, isCA bool, parent *c11Cert) *c11Cert {
	key, err := ecdsa.GenerateKey(elliptic.P256(), rand.Reader)
	if err != nil {
		panic(err)
	}
	c11Serial++
	tmpl := &x509.Certificate{
		SerialNumber:          big.NewInt(c11Serial),
		Subject:               pkix.Name{CommonName: cn},
		NotBefore:             time.Now().Add(-time.Hour),
		NotAfter:              time.Now().Add(48 * time.Hour),
		KeyUsage:              x509.KeyUsageDigitalSignature | x509.KeyUsageCertSign,
		ExtKeyUsage:           []x509.ExtKeyUsage{x509.ExtKeyUsageServerAuth, x509.ExtKeyUsageClientAuth},
		BasicConstraintsValid: true,
		IsCA:                  isCA,
		IPAddresses:           []net.IP{net.ParseIP("127.0.0.1")},
	}
	signer, signerKey := tmpl, key
	if parent != nil {
		signer, signerKey = parent.cert, parent.key
	}
	der, err := x509.CreateCertificate(rand.Reader, tmpl, signer, &key.PublicKey, signerKey)
	if err != nil {
		panic(err)
	}
	cert, err := x509.ParseCertificate(der)
	if err != nil {
		panic(err)
	}
	keyDER, err := x509.MarshalECPrivateKey(key)
	if err != nil {
		panic(err)
	}
	c := &c11Cert{cert: cert, key: key,
		certPEM: pem.EncodeToMemory(&pem.Block{Type: "CERTIFICATE", Bytes: der}),
		keyPEM:  pem.EncodeToMemory(&pem.Block{Type: "EC PRIVATE KEY", Bytes: keyDER})}
	c.tlsCert = tls.Certificate{Certificate: [][]byte{der}, PrivateKey: key}
	return c
}

type c11OptGate struct {
	arrived chan struct{}
	release chan struct{}
}

type c11OptWorld struct {
	cas, leaves, clients [c11OptMaxVer + 1]*c11Cert
	backend              *httptest.Server
	present              int32    // number of the CA whose certificate the backend presents in the next handshakes
	gates                sync.Map // request id -> *c11OptGate
}

func c11NewOptWorld() *c11OptWorld {
	w := &c11OptWorld{present: 1}
	for v := 1; v <= c11OptMaxVer; v++ {
		w.cas[v] = c11NewCert(fmt.Sprintf("c11 backend CA %d", v), true, nil)
		w.leaves[v] = c11NewCert("c11 backend", false, w.cas[v])
		w.clients[v] = c11NewCert(fmt.Sprintf("c%d", v), false, nil)
	}
	w.backend = httptest.NewUnstartedServer(http.HandlerFunc(func(rw http.ResponseWriter, r *http.Request) {
		cn := "-"
		if r.TLS != nil && len(r.TLS.PeerCertificates) > 0 {
			cn = r.TLS.PeerCertificates[0].Subject.CommonName
		}
		rw.Header().Set("X-C11-Path", r.URL.Path)
		rw.Header().Set("X-C11-CN", cn)
		if v, ok := w.gates.Load(r.Header.Get("X-C11-Req")); ok { // the call stays in flight until the controller says so
			g := v.(*c11OptGate)
			g.arrived <- struct{}{}
			<-g.release
		}
		code := 200
		if c, err := strconv.Atoi(r.Header.Get("X-C11-Code")); err == nil {
			code = c
		}
		rw.WriteHeader(code)
		rw.Write([]byte("ok"))
	}))
	w.backend.TLS = &tls.Config{
		// (httptest adds a certificate of its own to Certificates, and GetCertificate is not consulted for a client that
		// sends no server name: the certificate to present is chosen through the per-connection configuration)
		GetConfigForClient: func(*tls.ClientHelloInfo) (*tls.Config, error) {
			leaf := w.leaves[atomic.LoadInt32(&w.present)]
			return &tls.Config{Certificates: []tls.Certificate{leaf.tlsCert}, ClientAuth: tls.RequireAnyClientCert}, nil
		},
	}
	w.backend.Config.SetKeepAlivesEnabled(false) // every call makes a handshake of its own
	w.backend.Config.ErrorLog = log.New(io.Discard, "", 0)
	w.backend.StartTLS()
	return w
}

func c11OptIdx(v int) int {
	if v < 1 {
		return 1
	}
	return (v-1)%c11OptMaxVer + 1
}

func c11TimeoutShort(v int) bool { return v%2 == 0 }

// spec of a pipeline generation: version pv of the resilience section, opt[o] of option o
func (w *c11OptWorld) spec(pipe string, pv int, opt map[string]int) (*supervisor.Spec, error) {
	timeout := "60s"
	if c11TimeoutShort(opt["timeout"]) {
		timeout = "100ms"
	}
	y := fmt.Sprintf(`name: %s
kind: Pipeline
filters:
- name: f
  kind: Proxy
  maxIdleConns: %d
  mtls:
    certBase64: %s
    keyBase64: %s
    rootCertBase64: %s
  pools:
  - servers: [{url: "%s/u%d"}]
    timeout: %s
    failureCodes: [%d]
resilience:
- {name: nobody, kind: Retry, maxAttempts: %d}
`, pipe, 100+opt["idle"], w.clients[c11OptIdx(opt["cert"])].certB64(), w.clients[c11OptIdx(opt["cert"])].keyB64(), w.cas[c11OptIdx(opt["ca"])].certB64(),
		w.backend.URL, opt["url"], timeout, 500+opt["fcodes"], pv+1)
	return supervisor.NewSpec(y)
}

func (w *c11OptWorld) build(pipe string, pv int, opt map[string]int, prev *Pipeline) (p *Pipeline, err error) {
	defer func() {
		if e := recover(); e != nil {
			p, err = nil, fmt.Errorf("%v", e)
		}
	}()
	spec, err := w.spec(pipe, pv, opt)
	if err != nil {
		return nil, err
	}
	p = &Pipeline{}
	if prev == nil {
		p.Init(spec, nil)
	} else {
		p.Inherit(spec, prev, nil)
	}
	return p, nil
}

// what one backend call through a pipeline generation showed
type c11OptSeen struct {
	result  string // result of Pipeline.Handle
	status  int    // status of the response in the context (0: none)
	path    string // path the backend was called with ("" if it was not reached)
	cn      string // CN of the client certificate the backend was shown
	panicV  string
	site    string
	pending bool // (held challenge) the call had not returned when the backend was told to answer
}

// call makes one request; the backend presents the certificate of CA `present`, answers status `code`; with hold > 0 it
// keeps the call in flight until Handle has returned or `hold` has passed.
func (w *c11OptWorld) call(p *Pipeline, id string, present, code int, hold time.Duration) c11OptSeen {
	atomic.StoreInt32(&w.present, int32(c11OptIdx(present)))
	var g *c11OptGate
	if hold > 0 {
		g = &c11OptGate{arrived: make(chan struct{}, 1), release: make(chan struct{}, 1)}
		w.gates.Store(id, g)
		defer w.gates.Delete(id)
	}
	ch := make(chan c11OptSeen, 1)
	go func() {
		var s c11OptSeen
		defer func() {
			if e := recover(); e != nil {
				s.panicV = fmt.Sprint(e)
				s.site = c11Site(string(debug.Stack()))
			}
			ch <- s
		}()
		stdr := httptest.NewRequest(http.MethodGet, "http://c11.test/x", http.NoBody)
		stdr.Header.Set("X-C11-Req", id)
		stdr.Header.Set("X-C11-Code", strconv.Itoa(code))
		req, _ := httpprot.NewRequest(stdr)
		req.FetchPayload(0)
		ctx := context.New(tracing.NoopSpan)
		ctx.SetInputRequest(req)
		s.result = p.Handle(ctx)
		if resp, _ := ctx.GetResponse(context.DefaultNamespace).(*httpprot.Response); resp != nil {
			s.status = resp.StatusCode()
			s.path = resp.HTTPHeader().Get("X-C11-Path")
			s.cn = resp.HTTPHeader().Get("X-C11-CN")
		}
		ctx.Finish()
	}()
	if g != nil {
		select {
		case s := <-ch: // ended without reaching the backend
			return s
		case <-g.arrived:
		case <-time.After(60 * time.Second):
			return c11OptSeen{panicV: "request did not reach the backend within 60s", site: "hang"}
		}
		select {
		case s := <-ch: // Handle gave up while the backend was holding the answer
			g.release <- struct{}{}
			return s
		case <-time.After(hold):
		}
		g.release <- struct{}{}
		select {
		case s := <-ch:
			s.pending = true
			return s
		case <-time.After(60 * time.Second):
			return c11OptSeen{panicV: "request blocked for 60s", site: "hang"}
		}
	}
	select {
	case s := <-ch:
		return s
	case <-time.After(60 * time.Second):
		return c11OptSeen{panicV: "request blocked for 60s", site: "hang"}
	}
}

func c11OptMap(v interface{}) map[string]int {
	m := map[string]int{}
	if mm, ok := v.(map[string]interface{}); ok {
		for k, x := range mm {
			m[k] = vx.Int(x)
		}
	}
	return m
}

func TestVerifC11PxOptions(t *testing.T) {
	behs := vx.ReadBehaviours(t, "VERIF_IN")
	out := vx.NewWriter(t, "VERIF_OUT")
	defer out.Close()
	w := c11NewOptWorld()
	defer w.backend.Close()
	one := map[string]int{"url": 1, "ca": 1, "cert": 1, "timeout": 1, "fcodes": 1, "idle": 1}
	holdFor := time.Duration(vx.EnvInt("VERIF_HOLD_MS", 250)) * time.Millisecond

	// baseline on fresh generations: the backend tells the options apart
	base := func() string {
		a, err := w.build("probe", 1, one, nil)
		if err != nil {
			return "Init failed: " + err.Error()
		}
		defer a.Close()
		two := map[string]int{"url": 2, "ca": 2, "cert": 2, "timeout": 1, "fcodes": 2, "idle": 2}
		b, err := w.build("probe", 1, two, nil)
		if err != nil {
			return "Init failed: " + err.Error()
		}
		defer b.Close()
		c, err := w.build("probe", 1, map[string]int{"url": 1, "ca": 1, "cert": 1, "timeout": 2, "fcodes": 1, "idle": 1}, nil)
		if err != nil {
			return "Init failed: " + err.Error()
		}
		defer c.Close()
		if s := w.call(a, "base1", 1, 200, 0); s.result != "" || s.status != 200 || s.path != "/u1/x" || s.cn != "c1" {
			return fmt.Sprintf("plain call on generation (all options v1): %+v", s)
		}
		if s := w.call(b, "base2", 2, 200, 0); s.result != "" || s.status != 200 || s.path != "/u2/x" || s.cn != "c2" {
			return fmt.Sprintf("plain call on generation (all options v2): %+v", s)
		}
		if s := w.call(a, "base3", 2, 200, 0); s.result != "serverError" || s.path != "" {
			return fmt.Sprintf("call on a generation that trusts CA 1 to a backend presenting a certificate of CA 2: %+v", s)
		}
		if s := w.call(a, "base4", 1, 501, 0); s.result != "failureCode" || s.status != 501 {
			return fmt.Sprintf("backend answers 501 to a generation with failureCodes [501]: %+v", s)
		}
		if s := w.call(a, "base5", 1, 502, 0); s.result != "" || s.status != 502 {
			return fmt.Sprintf("backend answers 502 to a generation with failureCodes [501]: %+v", s)
		}
		if s := w.call(a, "base6", 1, 200, holdFor); !s.pending || s.result != "" || s.status != 200 {
			return fmt.Sprintf("held call on a generation with timeout 60s: %+v", s)
		}
		if s := w.call(c, "base7", 1, 200, 30*time.Second); s.pending || s.result != "timeout" {
			return fmt.Sprintf("held call on a generation with timeout 100ms: %+v", s)
		}
		return ""
	}()
	if base != "" {
		out.Raw(vx.M{"k": "summary", "built": false, "why": "harness: baseline: " + base})
		return
	}

	steps, judged, unjudged, nid := 0, 0, 0, 0
	perOpt := map[string]int{} // judged requests on a generation (not the first, not closed) whose option o an update has changed
	challenges := map[string]int{}
	for bi, beh := range behs {
		cur := map[string]*Pipeline{}
		for _, p := range []string{"pa", "pb"} {
			cur[p], _ = w.build(p, 1, one, nil)
		}
		held := map[string]*Pipeline{}
		tgs := map[string]string{}
		cls := map[string]string{}
		var next, removed *Pipeline
		pendP := 0
		pendO := one
		maxCA := 1
		kindOf := map[string]string{} // pipeline/version -> kind of the update that produced the generation
		for si, st := range beh {
			steps++
			bad := ""
			r, p := vx.Str(st["r"]), vx.Str(st["p"])
			switch vx.Str(st["a"]) {
			case "start":
				tgs[r], cls[r] = vx.Str(st["tg"]), vx.Str(st["cl"])
			case "get":
				h, ok := cur[tgs[r]]
				if ok != vx.Bool(st["found"]) {
					bad = "harness: map out of step with the model for " + tgs[r]
				}
				held[r] = h
			case "run":
				nid++
				id := fmt.Sprintf("%s-%d", r, nid)
				eff, opt := c11OptMap(st["eff"]), c11OptMap(st["opt"])
				ver, closed := vx.Int(st["ver"]), vx.Bool(st["closed"])
				gen := fmt.Sprintf("generation %d of the pipeline (not closed; spec: url v%d, root CA v%d, client certificate v%d, timeout v%d, failureCodes v%d, maxIdleConns v%d)",
					ver, opt["url"], opt["ca"], opt["cert"], opt["timeout"], opt["fcodes"], opt["idle"])
				if cls[r] != "o" || vx.Str(st["res"]) != "pass" || closed {
					// a plain call; on a closed generation C11 only says that the request completes without panic
					s := w.call(held[r], id, eff["ca"], 200, 0)
					if s.panicV != "" {
						out.Raw(vx.M{"k": "fail", "b": bi, "step": si, "r": r, "site": s.site, "panic": s.panicV, "at": st, "behaviour": beh[:si+1]})
						bad = fmt.Sprintf("panic: Handle on the held generation (version %d) of a Proxy pipeline: panic in %s: %s", ver, s.site, s.panicV)
					} else if s.result != "" || s.path != fmt.Sprintf("/u%d/x", eff["url"]) || s.cn != fmt.Sprintf("c%d", eff["cert"]) {
						unjudged++
					}
					break
				}
				short := c11TimeoutShort(eff["timeout"])
				wrongCA := eff["ca"] - 1 // the CA the previous generation trusted, if there was one
				if wrongCA < 1 {
					wrongCA = eff["ca"] + 1
				}
				var s c11OptSeen
				// the challenge: in turn, the held call (which takes time) less often - but every other time on a generation that an
				// update of the timeout produced (and the foreign CA every other time after an update of the root CA)
				ch := []string{"plain", "failure-code", "other-ca", "held", "plain", "failure-code", "other-ca", "plain"}[nid%8]
				if k := kindOf[fmt.Sprintf("%s/%d", tgs[r], ver)]; nid%2 == 1 && (k == "timeout" || k == "allopts") {
					ch = "held"
				} else if nid%2 == 1 && k == "ca" {
					ch = "other-ca"
				}
				challenges[ch]++
				switch ch {
				case "plain", "failure-code":
					code := 200
					if ch == "failure-code" {
						code = 500 + eff["fcodes"]
					}
					for try := 0; try < 6; try++ {
						s = w.call(held[r], id, eff["ca"], code, 0)
						if !(short && s.result == "timeout") { // a timeout of 100ms may strike on a loaded machine: the call is repeated
							break
						}
					}
					wantRes := ""
					if code != 200 {
						wantRes = "failureCode"
					}
					switch {
					case s.panicV != "":
					case short && s.result == "timeout":
						bad = "unjudged"
					case s.path == "":
						// the backend was not reached: which CA does the instance trust?
						trusts := 0
						for c := 1; c <= maxCA && trusts == 0; c++ {
							if c != eff["ca"] {
								if d := w.call(held[r], id+"-diag", c, 200, 0); d.path != "" {
									trusts = c
								}
							}
						}
						if trusts != 0 {
							bad = fmt.Sprintf("configured: option ca: %s: a backend whose certificate was issued by CA v%d was refused (%q), one with a certificate of CA v%d was accepted: "+
								"the request was not handled under the root CA of the generation it holds", gen, eff["ca"], s.result, trusts)
						} else {
							bad = fmt.Sprintf("status: %s: the backend call failed (%q, status %d) although the backend presented a certificate of the configured CA", gen, s.result, s.status)
						}
					case s.path != fmt.Sprintf("/u%d/x", eff["url"]):
						bad = fmt.Sprintf("configured: option url: %s: the backend was called with path %q, the server url of the generation gives /u%d/x", gen, s.path, eff["url"])
					case s.cn != fmt.Sprintf("c%d", eff["cert"]):
						bad = fmt.Sprintf("configured: option cert: %s: the backend was shown the client certificate %q, the generation configures c%d", gen, s.cn, eff["cert"])
					case s.status != code:
						bad = fmt.Sprintf("status: %s: the backend answered %d, the response has %d", gen, code, s.status)
					case s.result != wantRes:
						bad = fmt.Sprintf("configured: option fcodes: %s: the backend answered %d and Handle returned %q, the failureCodes of the generation ([%d]) give %q",
							gen, code, s.result, 500+eff["fcodes"], wantRes)
					}
				case "other-ca":
					s = w.call(held[r], id, wrongCA, 200, 0)
					if s.panicV == "" && s.path != "" {
						bad = fmt.Sprintf("configured: option ca: %s: a backend whose certificate was issued by CA v%d was accepted: the request was not handled under the "+
							"root CA of the generation it holds", gen, wrongCA)
					}
				case "held":
					hold := holdFor
					if short {
						hold = 30 * time.Second
					}
					s = w.call(held[r], id, eff["ca"], 200, hold)
					switch {
					case s.panicV != "":
					case s.path == "" && s.result != "timeout":
						bad = "unjudged" // the backend was not reached (judged by the plain challenges)
					case short && s.pending:
						bad = fmt.Sprintf("configured: option timeout: %s: the backend call was still in flight after 30s, the generation configures a timeout of 100ms", gen)
					case !short && s.result == "timeout":
						bad = fmt.Sprintf("configured: option timeout: %s: the backend call timed out within %v, the generation configures a timeout of 60s", gen, holdFor)
					case short && s.result != "timeout", !short && (s.result != "" || s.status != 200):
						bad = fmt.Sprintf("status: %s: held backend call: Handle returned %q, status %d", gen, s.result, s.status)
					}
				}
				if s.panicV != "" {
					out.Raw(vx.M{"k": "fail", "b": bi, "step": si, "r": r, "site": s.site, "panic": s.panicV, "at": st, "behaviour": beh[:si+1]})
					bad = fmt.Sprintf("panic: Handle on the held generation (version %d) of a Proxy pipeline: panic in %s: %s", ver, s.site, s.panicV)
				}
				if bad == "" {
					judged++
					if ver > 1 {
						for o, v := range opt {
							if v > 1 {
								perOpt[o]++
							}
						}
					}
				}
				if bad != "" && bad != "unjudged" {
					bad += " [challenge: " + ch + "]"
				}
			case "done":
			case "pipBegin":
				pendP, pendO = vx.Int(st["pv"]), c11OptMap(st["opt"])
				kindOf[fmt.Sprintf("%s/%d", p, vx.Int(st["ver"]))] = vx.Str(st["kind"])
				if pendO["ca"] > maxCA {
					maxCA = pendO["ca"]
				}
			case "createInit":
				var err error
				if next, err = w.build(p, vx.Int(st["pv"]), c11OptMap(st["opt"]), nil); err != nil {
					bad = "status: Init of another pipeline failed: " + err.Error()
				}
			case "pipInherit":
				var err error
				if next, err = w.build(p, pendP, pendO, cur[p]); err != nil {
					bad = "status: Inherit failed: " + err.Error()
				}
			case "pipStore", "createStore":
				cur[p] = next
			case "deleteRemove":
				removed = cur[p]
				delete(cur, p)
			case "deleteClose":
				removed.Close()
			case "pipClose", "init", "same", "ctl":
			default:
				bad = "harness: unknown step " + vx.Str(st["a"])
			}
			if bad == "unjudged" {
				unjudged++
				continue
			}
			if bad != "" {
				out.Raw(vx.M{"k": "mismatch", "b": bi, "step": si, "a": vx.Str(st["a"]), "at": st, "what": bad, "behaviour": beh[:si+1]})
				break
			}
		}
		for _, p := range cur {
			func() {
				defer func() { recover() }()
				p.Close()
			}()
		}
	}
	out.Raw(vx.M{"k": "summary", "built": true, "behaviours": len(behs), "steps": steps, "judged": judged, "unjudged": unjudged,
		"perOption": perOpt, "challenges": challenges})
}

package pipeline

// Harness for C11 (specs/HotUpdate.tla), pipeline level, every filter kind that can be built offline.
// TestVerifC11Kinds replays TLC-generated schedules (HotUpdate_Gen, Kinds = <<"k">>, Atomic = "coarse",
// requests addressed directly to pipelines) on real Pipeline objects whose only non-helper filter is
// of the kind under test.  The harness owns the name -> pipeline map (as Namespace does):
//   get         h := cur[p]
//   run         h.Handle(ctx)         under recover(), with a watchdog against blocking forever
//   pipInherit  new.Inherit(spec', cur[p], nil)     (filter Inherit calls, then Close of the old generation)
//   pipStore    cur[p] = new
//   createInit / createStore / deleteRemove / deleteClose   for the other pipeline q
// The schedule of the brief - old.Init(); new.Inherit(old); old.Handle(ctx) - is the sub-sequence
// get(r) ; pipInherit ; run(r) that the generator produces in all its interleavings.
// A pipeline generation is built from version fv of its filters and version pv of its resilience
// section; an update changes either or both (an update of the resilience section alone leaves the
// filter's own spec byte-identical).  Two kinds make the configuration of the generation a request
// holds observable (behaviours of their own, with request classes):
//   RateLimiter        class "x" requests (POST) fall under a URL rule limited to one permit per hour; class "d"
//                      requests (PUT) under a rule whose limit is the one of the filter's default policy, which
//                      updates of kind "dflt" switch between tight (1 permit per hour) and loose (never limits)
//   Proxy/resilience   class "f" requests are answered 503 by the backend: the Proxy retries them as the
//                      retry policy of the pipeline's resilience section says (maxAttempts = pv + 1)

import (
	"crypto/tls"
	"crypto/x509"
	"crypto/x509/pkix"
	"fmt"
	"io"
	"net/http"
	"net/http/httptest"
	"os"
	"path/filepath"
	"runtime/debug"
	"strings"
	"sync"
	"sync/atomic"
	"testing"
	"time"

	"github.com/Shopify/sarama"
	"github.com/eclipse/paho.mqtt.golang/packets"
	"github.com/megaease/easegress/pkg/cluster"
	"github.com/megaease/easegress/pkg/cluster/clustertest"
	"github.com/megaease/easegress/pkg/context"
	"github.com/megaease/easegress/pkg/filters"
	_ "github.com/megaease/easegress/pkg/filters/builder"
	_ "github.com/megaease/easegress/pkg/filters/certextractor"
	_ "github.com/megaease/easegress/pkg/filters/connectcontrol"
	_ "github.com/megaease/easegress/pkg/filters/corsadaptor"
	_ "github.com/megaease/easegress/pkg/filters/fallback"
	_ "github.com/megaease/easegress/pkg/filters/headerlookup"
	_ "github.com/megaease/easegress/pkg/filters/headertojson"
	_ "github.com/megaease/easegress/pkg/filters/kafka"
	_ "github.com/megaease/easegress/pkg/filters/kafkabackend"
	_ "github.com/megaease/easegress/pkg/filters/meshadaptor"
	_ "github.com/megaease/easegress/pkg/filters/mock"
	_ "github.com/megaease/easegress/pkg/filters/mqttclientauth"
	_ "github.com/megaease/easegress/pkg/filters/proxy"
	_ "github.com/megaease/easegress/pkg/filters/ratelimiter"
	_ "github.com/megaease/easegress/pkg/filters/remotefilter"
	_ "github.com/megaease/easegress/pkg/filters/requestadaptor"
	_ "github.com/megaease/easegress/pkg/filters/responseadaptor"
	_ "github.com/megaease/easegress/pkg/filters/topicmapper"
	_ "github.com/megaease/easegress/pkg/filters/validator"
	_ "github.com/megaease/easegress/pkg/filters/wasmhost"
	"github.com/megaease/easegress/pkg/logger"
	"github.com/megaease/easegress/pkg/protocols/httpprot"
	"github.com/megaease/easegress/pkg/protocols/mqttprot"
	"github.com/megaease/easegress/pkg/supervisor"
	"github.com/megaease/easegress/pkg/tracing"
	vx "github.com/megaease/easegress/pkg/verifx"
)

func init() { logger.InitNop() }

// c11Kind describes how to build a pipeline around one filter kind and what a request needs.
type c11Kind struct {
	name    string               // label
	kind    string               // registered kind name of the filter under test
	filters func(ver int) string // yaml of the `filters:` entries (and optionally `flow:`), version ver
	ctx     string               // "http" | "mqtt-publish" | "mqtt-connect"
	want    string               // result of Handle on a healthy generation
	cluster bool                 // needs spec.Super().Cluster()
	slow    bool                 // Close finishes asynchronously: wait after an update, replay fewer schedules
	header  map[string]string    // request headers
	tls     bool
	beh     string              // behaviours replayed: "" generic (Kinds = <<"k">>), "rl" / "px" with request classes
	resil   func(pv int) string // yaml entries of the `resilience:` section, version pv (default: a policy nobody refers to)
	// yaml like `filters`, for kinds whose spec has a default-policy choice: version dv of the choice, expressed in way `how`
	filtersD func(ver, dv, how int) string
}

var c11Attempts sync.Map // request id -> *int64: calls that reached the backend

func c11AttemptsOf(id string) int64 {
	if v, ok := c11Attempts.Load(id); ok {
		return atomic.LoadInt64(v.(*int64))
	}
	return 0
}

var (
	c11Env      sync.Once
	c11HTTPBack *httptest.Server
	c11Echo     *httptest.Server
	c11Broker   *sarama.MockBroker
	c11Htpasswd string
	c11Super    *supervisor.Supervisor
)

func c11Setup(t *testing.T) {
	c11Env.Do(func() {
		c11HTTPBack = httptest.NewServer(http.HandlerFunc(func(w http.ResponseWriter, r *http.Request) {
			if id := r.Header.Get("X-C11-Req"); id != "" {
				v, _ := c11Attempts.LoadOrStore(id, new(int64))
				atomic.AddInt64(v.(*int64), 1)
			}
			if r.Header.Get("X-C11-Class") == "f" { // the backend fails this class of requests
				w.WriteHeader(503)
				w.Write([]byte("unavailable"))
				return
			}
			w.WriteHeader(200)
			w.Write([]byte("ok"))
		}))
		c11Echo = httptest.NewServer(http.HandlerFunc(func(w http.ResponseWriter, r *http.Request) {
			w.WriteHeader(200)
			io.Copy(w, r.Body)
		}))
		func() {
			defer func() { recover() }()
			b := sarama.NewMockBroker(t, 1)
			md := sarama.NewMockMetadataResponse(t).SetBroker(b.Addr(), b.BrokerID())
			for _, tp := range []string{"demo", "demo2", "a/b"} {
				md = md.SetLeader(tp, 0, b.BrokerID())
			}
			b.SetHandlerByMap(map[string]sarama.MockResponse{"MetadataRequest": md, "ProduceRequest": sarama.NewMockProduceResponse(t)})
			c11Broker = b
		}()
		dir, _ := os.MkdirTemp("", "c11-htpasswd")
		c11Htpasswd = filepath.Join(dir, "htpasswd")
		// user "u", password "p" (SHA1 scheme of htpasswd)
		os.WriteFile(c11Htpasswd, []byte("u:{SHA}UWuXg/ylF+7L0dBk2i0WUxCxl1k=\n"), 0o644)

		cls := clustertest.NewMockedCluster()
		syn := clustertest.NewMockedSyncer()
		cls.MockedSyncer = func(time.Duration) (cluster.Syncer, error) { return syn, nil }
		cls.MockedGet = func(k string) (*string, error) { s := "ext-id: \"123\""; return &s, nil }
		c11Super = supervisor.NewMock(nil, cls, sync.Map{}, sync.Map{}, nil, nil, false, nil, nil)
	})
}

func c11BrokerAddr() string {
	if c11Broker == nil {
		return "127.0.0.1:1"
	}
	return c11Broker.Addr()
}

const c11RespHelper = `
- name: helper
  kind: ResponseBuilder
  template: |
    statusCode: 200
    body: helper
`

func c11KindTable() []c11Kind {
	alt := func(ver int, a, b string) string {
		if ver%2 == 1 {
			return a
		}
		return b
	}
	return []c11Kind{
		{name: "Mock", kind: "Mock", ctx: "http", want: "mocked", filters: func(v int) string {
			return fmt.Sprintf("filters:\n- {name: f, kind: Mock, rules: [{code: 200, body: v%d}]}\n", v)
		}},
		{name: "RequestBuilder", kind: "RequestBuilder", ctx: "http", filters: func(v int) string {
			return fmt.Sprintf("filters:\n- name: f\n  kind: RequestBuilder\n  template: |\n    method: GET\n    url: http://127.0.0.1/v%d\n", v)
		}},
		{name: "ResponseBuilder", kind: "ResponseBuilder", ctx: "http", filters: func(v int) string {
			return fmt.Sprintf("filters:\n- name: f\n  kind: ResponseBuilder\n  template: |\n    statusCode: 200\n    body: v%d\n", v)
		}},
		{name: "CertExtractor", kind: "CertExtractor", ctx: "http", tls: true, filters: func(v int) string {
			return fmt.Sprintf("filters:\n- {name: f, kind: CertExtractor, certIndex: 0, target: subject, field: CommonName, headerKey: X-CN%d}\n", v)
		}},
		{name: "CORSAdaptor", kind: "CORSAdaptor", ctx: "http", filters: func(v int) string {
			return fmt.Sprintf("filters:\n- {name: f, kind: CORSAdaptor, allowedOrigins: [\"*\"], maxAge: %d}\n", 10+v)
		}},
		{name: "Fallback", kind: "Fallback", ctx: "http", want: "fallback", filters: func(v int) string {
			return fmt.Sprintf("filters:%s- {name: f, kind: Fallback, mockCode: 200, mockBody: v%d}\n", c11RespHelper, v)
		}},
		{name: "HeaderLookup", kind: "HeaderLookup", ctx: "http", cluster: true, header: map[string]string{"X-AUTH-USER": "bob"}, filters: func(v int) string {
			return fmt.Sprintf("filters:\n- name: f\n  kind: HeaderLookup\n  headerKey: X-AUTH-USER\n  etcdPrefix: credentials/\n"+
				"  headerSetters: [{etcdKey: ext-id, headerKey: user-ext-id%d}]\n", v)
		}},
		{name: "HeaderToJSON", kind: "HeaderToJSON", ctx: "http", header: map[string]string{"X-User": "bob"}, filters: func(v int) string {
			return fmt.Sprintf("filters:\n- {name: f, kind: HeaderToJSON, headerMap: [{header: X-User, json: user%d}]}\n", v)
		}},
		{name: "Kafka", kind: "Kafka", ctx: "http", slow: true, filters: func(v int) string {
			return fmt.Sprintf("filters:\n- {name: f, kind: Kafka, backend: [\"%s\"], topic: {default: %s}}\n", c11BrokerAddr(), alt(v, "demo", "demo2"))
		}},
		{name: "MeshAdaptor", kind: "MeshAdaptor", ctx: "http", header: map[string]string{"X-Canary": "1"}, filters: func(v int) string {
			return fmt.Sprintf("filters:\n- name: f\n  kind: MeshAdaptor\n  serviceCanaries:\n  - header: {set: {X-Mesh: v%d}}\n"+
				"    filter: {headers: {X-Canary: {exact: \"1\"}}}\n", v)
		}},
		{name: "Proxy", kind: "Proxy", ctx: "http", filters: func(v int) string {
			return fmt.Sprintf("filters:\n- name: f\n  kind: Proxy\n  maxIdleConns: %d\n  pools:\n  - servers: [{url: \"%s\"}]\n", 100+v, c11HTTPBack.URL)
		}},
		{name: "Proxy/resilience", kind: "Proxy", ctx: "http", beh: "px", filters: func(v int) string {
			return fmt.Sprintf("filters:\n- name: f\n  kind: Proxy\n  maxIdleConns: %d\n  pools:\n  - servers: [{url: \"%s\"}]\n"+
				"    retryPolicy: retry\n    failureCodes: [503]\n", 100+v, c11HTTPBack.URL)
		}, resil: func(pv int) string {
			return fmt.Sprintf("- {name: retry, kind: Retry, maxAttempts: %d, waitDuration: 1ms}\n", pv+1)
		}},
		{name: "RateLimiter", kind: "RateLimiter", ctx: "http", beh: "rl", filters: func(v int) string { return c11RlFilters(v, 1, 0) }, filtersD: c11RlFilters},
		{name: "RateLimiter/policy-changed", kind: "RateLimiter", ctx: "http", filters: func(v int) string {
			return fmt.Sprintf("filters:\n- name: f\n  kind: RateLimiter\n  defaultPolicyRef: p\n  policies:\n"+
				"  - {name: p, limitForPeriod: %d, limitRefreshPeriod: 10ms, timeoutDuration: 100ms}\n  urls: [{url: {prefix: /}}]\n", 1000000+v)
		}},
		{name: "RemoteFilter", kind: "RemoteFilter", ctx: "http", filters: func(v int) string {
			return fmt.Sprintf("filters:\n- {name: f, kind: RemoteFilter, url: \"%s/\", timeout: %ds}\n", c11Echo.URL, 2+v)
		}},
		{name: "RequestAdaptor", kind: "RequestAdaptor", ctx: "http", filters: func(v int) string {
			return fmt.Sprintf("filters:\n- {name: f, kind: RequestAdaptor, header: {set: {X-A: v%d}}}\n", v)
		}},
		{name: "ResponseAdaptor", kind: "ResponseAdaptor", ctx: "http", filters: func(v int) string {
			return fmt.Sprintf("filters:%s- {name: f, kind: ResponseAdaptor, header: {set: {X-B: v%d}}, body: v%d}\n", c11RespHelper, v, v)
		}},
		{name: "Validator/headers", kind: "Validator", ctx: "http", header: map[string]string{"X-Token": "v1"}, filters: func(v int) string {
			return fmt.Sprintf("filters:\n- {name: f, kind: Validator, headers: {X-Token: {values: [\"v1\", \"w%d\"]}}}\n", v)
		}},
		{name: "Validator/basicAuth-file", kind: "Validator", ctx: "http", header: map[string]string{"Authorization": "Basic dTpw"}, filters: func(v int) string {
			return fmt.Sprintf("filters:\n- name: f\n  kind: Validator\n  headers: {Authorization: {values: [\"Basic dTpw\", \"w%d\"]}}\n"+
				"  basicAuth: {mode: FILE, userFile: \"%s\"}\n", v, c11Htpasswd)
		}},
		{name: "Validator/basicAuth-etcd", kind: "Validator", ctx: "http", cluster: true, want: "invalid", header: map[string]string{"Authorization": "Basic dTpw"},
			filters: func(v int) string {
				return fmt.Sprintf("filters:\n- name: f\n  kind: Validator\n  basicAuth: {mode: ETCD, etcdPrefix: \"creds%d\"}\n", v)
			}},
		{name: "ConnectControl", kind: "ConnectControl", ctx: "mqtt-publish", filters: func(v int) string {
			return fmt.Sprintf("filters:\n- {name: f, kind: ConnectControl, bannedClients: [bad, bad%d], bannedTopics: [t/bad]}\n", v)
		}},
		{name: "MQTTClientAuth", kind: "MQTTClientAuth", ctx: "mqtt-connect", filters: func(v int) string {
			return fmt.Sprintf("filters:\n- name: f\n  kind: MQTTClientAuth\n  salt: \"\"\n  auth:\n"+
				"  - {username: test, saltedSha256Pass: 9f86d081884c7d659a2feaa0c55ad015a3bf4f1b2b0b822cd15d6c15b0f00a08}\n"+
				"  - {username: other%d, saltedSha256Pass: 9f86d081884c7d659a2feaa0c55ad015a3bf4f1b2b0b822cd15d6c15b0f00a08}\n", v)
		}},
		{name: "TopicMapper", kind: "TopicMapper", ctx: "mqtt-publish", filters: func(v int) string {
			return fmt.Sprintf("filters:\n- name: f\n  kind: TopicMapper\n  matchIndex: 0\n  route: [{name: d2s, matchExpr: d2s}]\n  policies:\n"+
				"  - name: d2s\n    topicIndex: 1\n    route: [{topic: to_cloud, exprs: [\"foo\"]}, {topic: to_raw%d, exprs: [\".*\"]}]\n"+
				"    headers: {0: d2s, 1: type}\n  setKV: {topic: kafka-topic, headers: kafka-headers}\n", v)
		}},
		{name: "KafkaMQTT", kind: "KafkaMQTT", ctx: "mqtt-publish", slow: true, filters: func(v int) string {
			return fmt.Sprintf("filters:\n- name: f\n  kind: KafkaMQTT\n  backend: [\"%s\"]\n  topic: {default: %s}\n"+
				"  mqtt: {topicKey: \"\", headerKey: \"\", payloadKey: \"\"}\n", c11BrokerAddr(), alt(v, "demo", "demo2"))
		}},
		{name: "WasmHost", kind: "WasmHost", ctx: "http", filters: func(v int) string {
			return "filters:\n- {name: f, kind: WasmHost, maxConcurrency: 1, code: \"\", timeout: 1s}\n"
		}},
	}
}

// c11RlFilters: POST is limited to one permit per hour in every version; PUT falls under the default policy, version dv of
// which is tight (odd dv: 1 permit per hour) or loose (even dv); the switch is expressed by (how) 0: defaultPolicyRef dA / dB,
// both defined identically in every version, 1: the rule's policyRef, 2: the content of the policy defaultPolicyRef names.
func c11RlFilters(v, dv, how int) string {
	const tight, loose = "limitForPeriod: 1, limitRefreshPeriod: 1h, timeoutDuration: 1ms", "limitForPeriod: 1000000, limitRefreshPeriod: 10ms, timeoutDuration: 100ms"
	name, content := "dA", tight
	if dv%2 == 0 {
		name, content = "dB", loose
	}
	dref, pref := name, ""
	switch how {
	case 1:
		dref, pref = "p", ", policyRef: "+name
	case 2:
		dref = "dflt"
	}
	return fmt.Sprintf("filters:\n- name: f\n  kind: RateLimiter\n  defaultPolicyRef: %s\n  policies:\n"+
		"  - {name: p, %s}\n  - {name: tight, %s}\n  - {name: dA, %s}\n  - {name: dB, %s}\n  - {name: dflt, %s}\n"+
		"  - {name: unused, limitForPeriod: %d}\n"+
		"  urls:\n  - {methods: [POST], url: {prefix: /}, policyRef: tight}\n  - {methods: [PUT], url: {prefix: /}%s}\n  - {url: {prefix: /}, policyRef: p}\n",
		dref, loose, tight, tight, loose, content, 10+v, pref)
}

var c11RlHow = []string{"defaultPolicyRef", "the rule's policyRef", "the content of the default policy"}

func (k *c11Kind) spec(pipe string, fv, pv int) (*supervisor.Spec, error) { return k.specD(pipe, fv, pv, 1, 0) }

func (k *c11Kind) specD(pipe string, fv, pv, dv, how int) (*supervisor.Spec, error) {
	res := fmt.Sprintf("- {name: nobody, kind: Retry, maxAttempts: %d}\n", pv+1)
	if k.resil != nil {
		res = k.resil(pv)
	}
	fl := k.filters(fv)
	if k.filtersD != nil {
		fl = k.filtersD(fv, dv, how)
	}
	y := fmt.Sprintf("name: %s\nkind: Pipeline\n%sresilience:\n%s", pipe, fl, res)
	if k.cluster {
		return c11Super.NewSpec(y)
	}
	return supervisor.NewSpec(y)
}

func (k *c11Kind) newCtx() *context.Context { return k.newCtxFor("n", "") }

// newCtxFor: class "x" is a POST, class "f" tells the backend to fail; id lets the backend count the calls.
func (k *c11Kind) newCtxFor(class, id string) *context.Context {
	ctx := context.New(tracing.NoopSpan)
	switch k.ctx {
	case "http":
		method := http.MethodGet
		if class == "x" {
			method = http.MethodPost
		} else if class == "d" {
			method = http.MethodPut
		}
		stdr := httptest.NewRequest(method, "http://c11.test/x?y=1", http.NoBody)
		for h, v := range k.header {
			stdr.Header.Set(h, v)
		}
		if class == "f" {
			stdr.Header.Set("X-C11-Class", "f")
		}
		if id != "" {
			stdr.Header.Set("X-C11-Req", id)
		}
		if k.tls {
			stdr.TLS = &tls.ConnectionState{PeerCertificates: []*x509.Certificate{{Subject: pkix.Name{CommonName: "c11"}}}}
		}
		req, _ := httpprot.NewRequest(stdr)
		req.FetchPayload(0)
		ctx.SetInputRequest(req)
	case "mqtt-publish":
		pk := packets.NewControlPacket(packets.Publish).(*packets.PublishPacket)
		pk.TopicName, pk.Payload = "d2s/foo/dev1", []byte("x")
		if k.kind == "KafkaMQTT" {
			pk.TopicName = "a/b"
		}
		ctx.SetInputRequest(mqttprot.NewRequest(pk, &mqttprot.MockClient{MockClientID: "c1"}))
		ctx.SetOutputResponse(mqttprot.NewResponse())
	case "mqtt-connect":
		pk := packets.NewControlPacket(packets.Connect).(*packets.ConnectPacket)
		pk.ClientIdentifier, pk.Username, pk.Password = "c1", "test", []byte("test")
		ctx.SetInputRequest(mqttprot.NewRequest(pk, &mqttprot.MockClient{MockClientID: "c1"}))
		ctx.SetOutputResponse(mqttprot.NewResponse())
	}
	return ctx
}

func c11Site(stack string) string {
	for _, ln := range strings.Split(stack, "\n") {
		ln = strings.TrimSpace(ln)
		if !strings.HasPrefix(ln, "github.com/megaease/easegress/pkg/") || strings.Contains(ln, "c11") || strings.Contains(ln, "verifx") {
			continue
		}
		ln = strings.TrimPrefix(ln, "github.com/megaease/easegress/pkg/")
		if i := strings.LastIndex(ln, "("); i > 0 {
			ln = ln[:i]
		}
		return ln
	}
	return "?"
}

// c11Handle runs one request through pipeline p: result, panic text, panic site.
func (k *c11Kind) handle(p *Pipeline) (result, panicV, site string) { return k.handleFor(p, "n", "") }

func (k *c11Kind) handleFor(p *Pipeline, class, id string) (result, panicV, site string) {
	type res struct{ result, panicV, site string }
	ch := make(chan res, 1)
	go func() {
		var r res
		defer func() {
			if e := recover(); e != nil {
				r.panicV = fmt.Sprint(e)
				r.site = c11Site(string(debug.Stack()))
			}
			ch <- r
		}()
		ctx := k.newCtxFor(class, id)
		r.result = p.Handle(ctx)
		ctx.Finish()
	}()
	select {
	case r := <-ch:
		return r.result, r.panicV, r.site
	case <-time.After(30 * time.Second):
		return "", "request blocked for 30s", "hang"
	}
}

// build creates a pipeline generation: Init (prev == nil) or Inherit; returns the panic, if any.
func (k *c11Kind) build(pipe string, fv, pv int, prev *Pipeline) (p *Pipeline, err error) {
	return k.buildD(pipe, fv, pv, 1, 0, prev)
}

func (k *c11Kind) buildD(pipe string, fv, pv, dv, how int, prev *Pipeline) (p *Pipeline, err error) {
	defer func() {
		if e := recover(); e != nil {
			p, err = nil, fmt.Errorf("%v", e)
		}
	}()
	spec, err := k.specD(pipe, fv, pv, dv, how)
	if err != nil {
		return nil, err
	}
	p = &Pipeline{}
	if prev == nil {
		p.Init(spec, nil)
	} else {
		p.Inherit(spec, prev, nil)
	}
	return p, nil
}

// c11HoldsAcrossUpdate: some request gets a pipeline, the pipeline is updated, then the request runs.
func c11HoldsAcrossUpdate(beh []vx.M) bool {
	holds := map[string]string{} // request -> pipeline it holds, not yet run
	stale := map[string]bool{}
	for _, st := range beh {
		r, p := vx.Str(st["r"]), vx.Str(st["p"])
		switch vx.Str(st["a"]) {
		case "get":
			if vx.Bool(st["found"]) {
				holds[r] = p
			}
		case "pipInherit":
			for rr, pp := range holds {
				if pp == p {
					stale[rr] = true
				}
			}
		case "run":
			if stale[r] {
				return true
			}
			delete(holds, r)
		}
	}
	return false
}

func TestVerifC11Kinds(t *testing.T) {
	behsOf := map[string][][]vx.M{"": vx.ReadBehaviours(t, "VERIF_IN")}
	for _, b := range []string{"rl", "px"} {
		if os.Getenv("VERIF_IN_"+strings.ToUpper(b)) != "" {
			behsOf[b] = vx.ReadBehaviours(t, "VERIF_IN_"+strings.ToUpper(b))
		}
	}
	out := vx.NewWriter(t, "VERIF_OUT")
	defer out.Close()
	c11Setup(t)
	nid := 0
	settle := time.Duration(vx.EnvInt("VERIF_SETTLE_MS", 150)) * time.Millisecond
	for _, k := range c11KindTable() {
		k := k
		if filters.GetKind(k.kind) == nil {
			out.Raw(vx.M{"k": "kind", "kind": k.name, "built": false, "why": "kind " + k.kind + " is not registered in this build (needs a build tag)"})
			continue
		}
		behs, classes := behsOf[k.beh], k.beh != ""
		if behs == nil {
			behs, classes = behsOf[""], false
		}
		if probe, err := k.build("probe", 1, 1, nil); err != nil {
			out.Raw(vx.M{"k": "kind", "kind": k.name, "built": false, "why": "Init failed offline: " + err.Error()})
			continue
		} else {
			res, pv, site := k.handle(probe)
			why := ""
			if pv == "" && res == k.want && k.beh == "rl" { // baseline: the second POST is limited
				r1, _, _ := k.handleFor(probe, "x", "")
				r2, _, _ := k.handleFor(probe, "x", "")
				if r1 != k.want || r2 != "rateLimited" {
					why = fmt.Sprintf("harness: baseline: two POSTs to a fresh generation (limit 1 per hour) answered %q, %q", r1, r2)
				}
				// ... and so is the second PUT under a tight default policy, no PUT under a loose one, however the spec says it
				for how := 0; how < 3 && why == ""; how++ {
					a, _ := k.buildD("probe", 1, 1, 1, how, nil)
					b, _ := k.buildD("probe", 1, 1, 2, how, nil)
					a1, _, _ := k.handleFor(a, "d", "")
					a2, _, _ := k.handleFor(a, "d", "")
					b1, _, _ := k.handleFor(b, "d", "")
					b2, _, _ := k.handleFor(b, "d", "")
					if a1 != k.want || a2 != "rateLimited" || b1 != k.want || b2 != k.want {
						why = fmt.Sprintf("harness: baseline (%s): two PUTs under a tight default policy answered %q, %q, under a loose one %q, %q", c11RlHow[how], a1, a2, b1, b2)
					}
					a.Close()
					b.Close()
				}
			}
			if pv == "" && res == k.want && k.beh == "px" { // baseline: a failing backend call is made maxAttempts = pv + 1 = 2 times
				r1, _, _ := k.handleFor(probe, "f", "probe-f")
				if n := c11AttemptsOf("probe-f"); r1 != "failureCode" || n != 2 {
					why = fmt.Sprintf("harness: baseline: a failing backend call on a fresh generation (retry maxAttempts 2) answered %q after %d attempts", r1, n)
				}
				c11Attempts.Delete("probe-f")
			}
			if why != "" {
				probe.Close()
				out.Raw(vx.M{"k": "kind", "kind": k.name, "built": false, "why": why})
				continue
			}
			probe.Close()
			if pv != "" || res != k.want {
				out.Raw(vx.M{"k": "kind", "kind": k.name, "built": false,
					"why": fmt.Sprintf("harness: a fresh generation answers %q panic %q at %s, expected %q", res, pv, site, k.want)})
				continue
			}
		}
		steps, nb, judged, unjudged := 0, 0, 0, 0
		for bi, beh := range behs {
			if k.slow && (nb >= 6 || !c11HoldsAcrossUpdate(beh)) {
				continue
			}
			nb++
			how := bi % 3 // the way this schedule's specs express a switch of the default policy
			cur := map[string]*Pipeline{}
			for _, p := range []string{"pa", "pb"} {
				cur[p], _ = k.buildD(p, 1, 1, 1, how, nil)
			}
			held := map[string]*Pipeline{}
			tgs := map[string]string{}
			cls := map[string]string{}
			failed := map[string]bool{}
			var next, removed *Pipeline
			pendF, pendP, pendD := 0, 0, 1
			for si, st := range beh {
				steps++
				bad := ""
				r, p := vx.Str(st["r"]), vx.Str(st["p"])
				switch vx.Str(st["a"]) {
				case "start":
					tgs[r], failed[r], cls[r] = vx.Str(st["tg"]), false, "n"
					if classes {
						cls[r] = vx.Str(st["cl"])
					}
				case "get":
					h, ok := cur[tgs[r]]
					if ok != vx.Bool(st["found"]) {
						bad = "harness: map out of step with the model for " + tgs[r]
					}
					held[r] = h
				case "run":
					nid++
					id := fmt.Sprintf("%s-%d", r, nid)
					res, pv, site := k.handleFor(held[r], cls[r], id)
					failed[r] = pv != ""
					attempts := c11AttemptsOf(id)
					c11Attempts.Delete(id)
					if pv != "" {
						out.Raw(vx.M{"k": "fail", "kind": k.name, "b": bi, "step": si, "r": r, "site": site, "panic": pv, "at": st, "behaviour": beh[:si+1]})
						bad = fmt.Sprintf("panic: Handle on the held generation (version %d) of a %s pipeline: panic in %s: %s", vx.Int(st["ver"]), k.name, site, pv)
					} else if cls[r] == "x" {
						// the limit every generation configures for POST: is the call limited as the model says?
						limited, want := res == "rateLimited", vx.Str(st["res"]) == "limited"
						switch {
						case limited == want && (limited || res == k.want):
							judged++
						case vx.Bool(st["closed"]):
							// the request holds a closed generation: what its limiter does by now is not stated by C11,
							// and the real limiter and the model's may be out of step from here on
							bad = "unjudged"
						case want:
							bad = fmt.Sprintf("configured: a request beyond the limit of its URL rule (1 permit per hour) got %q from generation %d "+
								"(filters v%d) of the pipeline, which is not closed; model says it is limited", res, vx.Int(st["ver"]), vx.Int(st["fv"]))
						default:
							bad = fmt.Sprintf("harness: generation %d answered %q to a request for which the model still has a permit", vx.Int(st["ver"]), res)
						}
					} else if cls[r] == "d" {
						// the limit of the default policy of the held generation: is the call limited as the model says?
						limited, want := res == "rateLimited", vx.Str(st["res"]) == "limited"
						pol := "loose: never limits"
						if vx.Bool(st["tight"]) {
							pol = "tight: 1 permit per hour"
						}
						switch {
						case limited == want && (limited || res == k.want):
							judged++
						case vx.Bool(st["closed"]):
							bad = "unjudged"
						case want:
							bad = fmt.Sprintf("configured: a request beyond the limit of the default policy (version %d, %s) got %q from generation %d of the pipeline, "+
								"which is not closed; model says it is limited (default policy switched by: %s)", vx.Int(st["dv"]), pol, res, vx.Int(st["ver"]), c11RlHow[how])
						case limited && !vx.Bool(st["tight"]):
							bad = fmt.Sprintf("configured: generation %d of the pipeline, whose RateLimiter's default policy (version %d, %s) does not limit the URL, "+
								"limited a request: the limiter of a previous generation's policy is still in force (default policy switched by: %s)",
								vx.Int(st["ver"]), vx.Int(st["dv"]), pol, c11RlHow[how])
						default:
							bad = fmt.Sprintf("harness: generation %d answered %q to a request for which the model still has a permit", vx.Int(st["ver"]), res)
						}
					} else if cls[r] == "f" {
						// the backend fails the call: the Proxy retries it as the retry policy of the generation says
						want := int64(vx.Int(st["pol"]) + 1)
						switch {
						case vx.Str(st["res"]) != "bfail":
							bad = "harness: class f request, model outcome " + vx.Str(st["res"])
						case res != "failureCode":
							bad = fmt.Sprintf("status: a request whose backend call fails got %q from generation %d, expected the backend's failure", res, vx.Int(st["ver"]))
						case attempts != want:
							bad = fmt.Sprintf("configured: generation %d of the pipeline (filters v%d, resilience v%d: retry maxAttempts %d) made %d attempts "+
								"for a request whose backend call fails", vx.Int(st["ver"]), vx.Int(st["fv"]), vx.Int(st["pv"]), want, attempts)
						default:
							judged++
						}
					} else if res != k.want {
						bad = fmt.Sprintf("status: Handle on the held generation (version %d) answered %q, a healthy generation answers %q", vx.Int(st["ver"]), res, k.want)
					}
				case "done":
				case "pipBegin":
					pendF, pendP, pendD = vx.Int(st["fv"]), vx.Int(st["pv"]), vx.Int(st["dv"])
				case "createInit":
					var err error
					if next, err = k.buildD(p, vx.Int(st["fv"]), vx.Int(st["pv"]), vx.Int(st["dv"]), how, nil); err != nil {
						bad = "status: Init of another pipeline failed: " + err.Error()
					}
				case "pipInherit":
					var err error
					if next, err = k.buildD(p, pendF, pendP, pendD, how, cur[p]); err != nil {
						bad = "status: Inherit failed: " + err.Error()
					}
					if k.slow {
						time.Sleep(settle) // Close of the old generation completes asynchronously
					}
				case "pipStore", "createStore":
					cur[p] = next
				case "deleteRemove":
					removed = cur[p]
					delete(cur, p)
				case "deleteClose":
					removed.Close()
					if k.slow {
						time.Sleep(settle)
					}
				case "pipClose", "init", "same", "ctl":
				default:
					bad = "harness: unknown step " + vx.Str(st["a"])
				}
				if bad == "unjudged" {
					unjudged++
					break
				}
				if bad != "" {
					out.Raw(vx.M{"k": "mismatch", "kind": k.name, "b": bi, "step": si, "a": vx.Str(st["a"]), "at": st, "what": bad, "behaviour": beh[:si+1]})
					break
				}
			}
			for _, p := range cur {
				func() {
					defer func() { recover() }()
					p.Close()
				}()
			}
		}
		out.Raw(vx.M{"k": "kind", "kind": k.name, "built": true, "behaviours": nb, "steps": steps, "beh": k.beh, "classes": classes,
			"judged": judged, "unjudged": unjudged})
	}
}

package pipeline

// Harness for C11 (specs/HotUpdate.tla), pipeline level, every filter kind that can be built offline.
// TestVerifC11Kinds replays TLC-generated schedules (HotUpdate_Gen, Kinds = <<"k">>, Atomic = "coarse",
// requests addressed directly to pipelines) on real Pipeline objects whose only non-helper filter is
// of the kind under test.  The harness owns the name -> pipeline map (as Namespace does):
//   get         h := cur[p]
//   run         h.Handle(ctx)         under recover(), with a watchdog against blocking forever
//   pipInherit  new.Inherit(spec', cur[p], nil)     (filter Inherit calls, then Close of the old generation)
//   pipStore    cur[p] = new
//   createInit / createStore / deleteRemove / deleteClose   for the other pipeline q
// The schedule of the brief - old.Init(); new.Inherit(old); old.Handle(ctx) - is the sub-sequence
// get(r) ; pipInherit ; run(r) that the generator produces in all its interleavings.

import (
	"crypto/tls"
	"crypto/x509"
	"crypto/x509/pkix"
	"fmt"
	"io"
	"net/http"
	"net/http/httptest"
	"os"
	"path/filepath"
	"runtime/debug"
	"strings"
	"sync"
	"testing"
	"time"

	"github.com/Shopify/sarama"
	"github.com/eclipse/paho.mqtt.golang/packets"
	"github.com/megaease/easegress/pkg/cluster"
	"github.com/megaease/easegress/pkg/cluster/clustertest"
	"github.com/megaease/easegress/pkg/context"
	"github.com/megaease/easegress/pkg/filters"
	_ "github.com/megaease/easegress/pkg/filters/builder"
	_ "github.com/megaease/easegress/pkg/filters/certextractor"
	_ "github.com/megaease/easegress/pkg/filters/connectcontrol"
	_ "github.com/megaease/easegress/pkg/filters/corsadaptor"
	_ "github.com/megaease/easegress/pkg/filters/fallback"
	_ "github.com/megaease/easegress/pkg/filters/headerlookup"
	_ "github.com/megaease/easegress/pkg/filters/headertojson"
	_ "github.com/megaease/easegress/pkg/filters/kafka"
	_ "github.com/megaease/easegress/pkg/filters/kafkabackend"
	_ "github.com/megaease/easegress/pkg/filters/meshadaptor"
	_ "github.com/megaease/easegress/pkg/filters/mock"
	_ "github.com/megaease/easegress/pkg/filters/mqttclientauth"
	_ "github.com/megaease/easegress/pkg/filters/proxy"
	_ "github.com/megaease/easegress/pkg/filters/ratelimiter"
	_ "github.com/megaease/easegress/pkg/filters/remotefilter"
	_ "github.com/megaease/easegress/pkg/filters/requestadaptor"
	_ "github.com/megaease/easegress/pkg/filters/responseadaptor"
	_ "github.com/megaease/easegress/pkg/filters/topicmapper"
	_ "github.com/megaease/easegress/pkg/filters/validator"
	_ "github.com/megaease/easegress/pkg/filters/wasmhost"
	"github.com/megaease/easegress/pkg/logger"
	"github.com/megaease/easegress/pkg/protocols/httpprot"
	"github.com/megaease/easegress/pkg/protocols/mqttprot"
	"github.com/megaease/easegress/pkg/supervisor"
	"github.com/megaease/easegress/pkg/tracing"
	vx "github.com/megaease/easegress/pkg/verifx"
)

func init() { logger.InitNop() }

// c11Kind describes how to build a pipeline around one filter kind and what a request needs.
type c11Kind struct {
	name    string                    // label
	kind    string                    // registered kind name of the filter under test
	filters func(ver int) string      // yaml of the `filters:` entries (and optionally `flow:`), version ver
	ctx     string                    // "http" | "mqtt-publish" | "mqtt-connect"
	want    string                    // result of Handle on a healthy generation
	cluster bool                      // needs spec.Super().Cluster()
	slow    bool                      // Close finishes asynchronously: wait after an update, replay fewer schedules
	header  map[string]string         // request headers
	tls     bool
}

var (
	c11Env      sync.Once
	c11HTTPBack *httptest.Server
	c11Echo     *httptest.Server
	c11Broker   *sarama.MockBroker
	c11Htpasswd string
	c11Super    *supervisor.Supervisor
)

func c11Setup(t *testing.T) {
	c11Env.Do(func() {
		c11HTTPBack = httptest.NewServer(http.HandlerFunc(func(w http.ResponseWriter, r *http.Request) {
			w.WriteHeader(200)
			w.Write([]byte("ok"))
		}))
		c11Echo = httptest.NewServer(http.HandlerFunc(func(w http.ResponseWriter, r *http.Request) {
			w.WriteHeader(200)
			io.Copy(w, r.Body)
		}))
		func() {
			defer func() { recover() }()
			b := sarama.NewMockBroker(t, 1)
			md := sarama.NewMockMetadataResponse(t).SetBroker(b.Addr(), b.BrokerID())
			for _, tp := range []string{"demo", "demo2", "a/b"} {
				md = md.SetLeader(tp, 0, b.BrokerID())
			}
			b.SetHandlerByMap(map[string]sarama.MockResponse{"MetadataRequest": md, "ProduceRequest": sarama.NewMockProduceResponse(t)})
			c11Broker = b
		}()
		dir, _ := os.MkdirTemp("", "c11-htpasswd")
		c11Htpasswd = filepath.Join(dir, "htpasswd")
		// user "u", password "p" (SHA1 scheme of htpasswd)
		os.WriteFile(c11Htpasswd, []byte("u:{SHA}UWuXg/ylF+7L0dBk2i0WUxCxl1k=\n"), 0o644)

		cls := clustertest.NewMockedCluster()
		syn := clustertest.NewMockedSyncer()
		cls.MockedSyncer = func(time.Duration) (cluster.Syncer, error) { return syn, nil }
		cls.MockedGet = func(k string) (*string, error) { s := "ext-id: \"123\""; return &s, nil }
		c11Super = supervisor.NewMock(nil, cls, sync.Map{}, sync.Map{}, nil, nil, false, nil, nil)
	})
}

func c11BrokerAddr() string {
	if c11Broker == nil {
		return "127.0.0.1:1"
	}
	return c11Broker.Addr()
}

const c11RespHelper = `
- name: helper
  kind: ResponseBuilder
  template: |
    statusCode: 200
    body: helper
`

func c11KindTable() []c11Kind {
	alt := func(ver int, a, b string) string {
		if ver%2 == 1 {
			return a
		}
		return b
	}
	return []c11Kind{
		{name: "Mock", kind: "Mock", ctx: "http", want: "mocked", filters: func(v int) string {
			return fmt.Sprintf("filters:\n- {name: f, kind: Mock, rules: [{code: 200, body: v%d}]}\n", v)
		}},
		{name: "RequestBuilder", kind: "RequestBuilder", ctx: "http", filters: func(v int) string {
			return fmt.Sprintf("filters:\n- name: f\n  kind: RequestBuilder\n  template: |\n    method: GET\n    url: http://127.0.0.1/v%d\n", v)
		}},
		{name: "ResponseBuilder", kind: "ResponseBuilder", ctx: "http", filters: func(v int) string {
			return fmt.Sprintf("filters:\n- name: f\n  kind: ResponseBuilder\n  template: |\n    statusCode: 200\n    body: v%d\n", v)
		}},
		{name: "CertExtractor", kind: "CertExtractor", ctx: "http", tls: true, filters: func(v int) string {
			return fmt.Sprintf("filters:\n- {name: f, kind: CertExtractor, certIndex: 0, target: subject, field: CommonName, headerKey: X-CN%d}\n", v)
		}},
		{name: "CORSAdaptor", kind: "CORSAdaptor", ctx: "http", filters: func(v int) string {
			return fmt.Sprintf("filters:\n- {name: f, kind: CORSAdaptor, allowedOrigins: [\"*\"], maxAge: %d}\n", 10+v)
		}},
		{name: "Fallback", kind: "Fallback", ctx: "http", want: "fallback", filters: func(v int) string {
			return fmt.Sprintf("filters:%s- {name: f, kind: Fallback, mockCode: 200, mockBody: v%d}\n", c11RespHelper, v)
		}},
		{name: "HeaderLookup", kind: "HeaderLookup", ctx: "http", cluster: true, header: map[string]string{"X-AUTH-USER": "bob"}, filters: func(v int) string {
			return fmt.Sprintf("filters:\n- name: f\n  kind: HeaderLookup\n  headerKey: X-AUTH-USER\n  etcdPrefix: credentials/\n"+
				"  headerSetters: [{etcdKey: ext-id, headerKey: user-ext-id%d}]\n", v)
		}},
		{name: "HeaderToJSON", kind: "HeaderToJSON", ctx: "http", header: map[string]string{"X-User": "bob"}, filters: func(v int) string {
			return fmt.Sprintf("filters:\n- {name: f, kind: HeaderToJSON, headerMap: [{header: X-User, json: user%d}]}\n", v)
		}},
		{name: "Kafka", kind: "Kafka", ctx: "http", slow: true, filters: func(v int) string {
			return fmt.Sprintf("filters:\n- {name: f, kind: Kafka, backend: [\"%s\"], topic: {default: %s}}\n", c11BrokerAddr(), alt(v, "demo", "demo2"))
		}},
		{name: "MeshAdaptor", kind: "MeshAdaptor", ctx: "http", header: map[string]string{"X-Canary": "1"}, filters: func(v int) string {
			return fmt.Sprintf("filters:\n- name: f\n  kind: MeshAdaptor\n  serviceCanaries:\n  - header: {set: {X-Mesh: v%d}}\n"+
				"    filter: {headers: {X-Canary: {exact: \"1\"}}}\n", v)
		}},
		{name: "Proxy", kind: "Proxy", ctx: "http", filters: func(v int) string {
			return fmt.Sprintf("filters:\n- name: f\n  kind: Proxy\n  maxIdleConns: %d\n  pools:\n  - servers: [{url: \"%s\"}]\n", 100+v, c11HTTPBack.URL)
		}},
		{name: "RateLimiter", kind: "RateLimiter", ctx: "http", filters: func(v int) string {
			return fmt.Sprintf("filters:\n- name: f\n  kind: RateLimiter\n  defaultPolicyRef: p\n  policies:\n"+
				"  - {name: p, limitForPeriod: 1000000, limitRefreshPeriod: 10ms, timeoutDuration: 100ms}\n"+
				"  - {name: unused, limitForPeriod: %d}\n  urls: [{url: {prefix: /}}]\n", 10+v)
		}},
		{name: "RateLimiter/policy-changed", kind: "RateLimiter", ctx: "http", filters: func(v int) string {
			return fmt.Sprintf("filters:\n- name: f\n  kind: RateLimiter\n  defaultPolicyRef: p\n  policies:\n"+
				"  - {name: p, limitForPeriod: %d, limitRefreshPeriod: 10ms, timeoutDuration: 100ms}\n  urls: [{url: {prefix: /}}]\n", 1000000+v)
		}},
		{name: "RemoteFilter", kind: "RemoteFilter", ctx: "http", filters: func(v int) string {
			return fmt.Sprintf("filters:\n- {name: f, kind: RemoteFilter, url: \"%s/\", timeout: %ds}\n", c11Echo.URL, 2+v)
		}},
		{name: "RequestAdaptor", kind: "RequestAdaptor", ctx: "http", filters: func(v int) string {
			return fmt.Sprintf("filters:\n- {name: f, kind: RequestAdaptor, header: {set: {X-A: v%d}}}\n", v)
		}},
		{name: "ResponseAdaptor", kind: "ResponseAdaptor", ctx: "http", filters: func(v int) string {
			return fmt.Sprintf("filters:%s- {name: f, kind: ResponseAdaptor, header: {set: {X-B: v%d}}, body: v%d}\n", c11RespHelper, v, v)
		}},
		{name: "Validator/headers", kind: "Validator", ctx: "http", header: map[string]string{"X-Token": "v1"}, filters: func(v int) string {
			return fmt.Sprintf("filters:\n- {name: f, kind: Validator, headers: {X-Token: {values: [\"v1\", \"w%d\"]}}}\n", v)
		}},
		{name: "Validator/basicAuth-file", kind: "Validator", ctx: "http", header: map[string]string{"Authorization": "Basic dTpw"}, filters: func(v int) string {
			return fmt.Sprintf("filters:\n- name: f\n  kind: Validator\n  headers: {Authorization: {values: [\"Basic dTpw\", \"w%d\"]}}\n"+
				"  basicAuth: {mode: FILE, userFile: \"%s\"}\n", v, c11Htpasswd)
		}},
		{name: "Validator/basicAuth-etcd", kind: "Validator", ctx: "http", cluster: true, want: "invalid", header: map[string]string{"Authorization": "Basic dTpw"},
			filters: func(v int) string {
				return fmt.Sprintf("filters:\n- name: f\n  kind: Validator\n  basicAuth: {mode: ETCD, etcdPrefix: \"creds%d\"}\n", v)
			}},
		{name: "ConnectControl", kind: "ConnectControl", ctx: "mqtt-publish", filters: func(v int) string {
			return fmt.Sprintf("filters:\n- {name: f, kind: ConnectControl, bannedClients: [bad, bad%d], bannedTopics: [t/bad]}\n", v)
		}},
		{name: "MQTTClientAuth", kind: "MQTTClientAuth", ctx: "mqtt-connect", filters: func(v int) string {
			return fmt.Sprintf("filters:\n- name: f\n  kind: MQTTClientAuth\n  salt: \"\"\n  auth:\n"+
				"  - {username: test, saltedSha256Pass: 9f86d081884c7d659a2feaa0c55ad015a3bf4f1b2b0b822cd15d6c15b0f00a08}\n"+
				"  - {username: other%d, saltedSha256Pass: 9f86d081884c7d659a2feaa0c55ad015a3bf4f1b2b0b822cd15d6c15b0f00a08}\n", v)
		}},
		{name: "TopicMapper", kind: "TopicMapper", ctx: "mqtt-publish", filters: func(v int) string {
			return fmt.Sprintf("filters:\n- name: f\n  kind: TopicMapper\n  matchIndex: 0\n  route: [{name: d2s, matchExpr: d2s}]\n  policies:\n"+
				"  - name: d2s\n    topicIndex: 1\n    route: [{topic: to_cloud, exprs: [\"foo\"]}, {topic: to_raw%d, exprs: [\".*\"]}]\n"+
				"    headers: {0: d2s, 1: type}\n  setKV: {topic: kafka-topic, headers: kafka-headers}\n", v)
		}},
		{name: "KafkaMQTT", kind: "KafkaMQTT", ctx: "mqtt-publish", slow: true, filters: func(v int) string {
			return fmt.Sprintf("filters:\n- name: f\n  kind: KafkaMQTT\n  backend: [\"%s\"]\n  topic: {default: %s}\n"+
				"  mqtt: {topicKey: \"\", headerKey: \"\", payloadKey: \"\"}\n", c11BrokerAddr(), alt(v, "demo", "demo2"))
		}},
		{name: "WasmHost", kind: "WasmHost", ctx: "http", filters: func(v int) string {
			return "filters:\n- {name: f, kind: WasmHost, maxConcurrency: 1, code: \"\", timeout: 1s}\n"
		}},
	}
}

func (k *c11Kind) spec(pipe string, ver int) (*supervisor.Spec, error) {
	y := fmt.Sprintf("name: %s\nkind: Pipeline\n%s", pipe, k.filters(ver))
	if k.cluster {
		return c11Super.NewSpec(y)
	}
	return supervisor.NewSpec(y)
}

func (k *c11Kind) newCtx() *context.Context {
	ctx := context.New(tracing.NoopSpan)
	switch k.ctx {
	case "http":
		stdr := httptest.NewRequest(http.MethodGet, "http://c11.test/x?y=1", http.NoBody)
		for h, v := range k.header {
			stdr.Header.Set(h, v)
		}
		if k.tls {
			stdr.TLS = &tls.ConnectionState{PeerCertificates: []*x509.Certificate{{Subject: pkix.Name{CommonName: "c11"}}}}
		}
		req, _ := httpprot.NewRequest(stdr)
		req.FetchPayload(0)
		ctx.SetInputRequest(req)
	case "mqtt-publish":
		pk := packets.NewControlPacket(packets.Publish).(*packets.PublishPacket)
		pk.TopicName, pk.Payload = "d2s/foo/dev1", []byte("x")
		if k.kind == "KafkaMQTT" {
			pk.TopicName = "a/b"
		}
		ctx.SetInputRequest(mqttprot.NewRequest(pk, &mqttprot.MockClient{MockClientID: "c1"}))
		ctx.SetOutputResponse(mqttprot.NewResponse())
	case "mqtt-connect":
		pk := packets.NewControlPacket(packets.Connect).(*packets.ConnectPacket)
		pk.ClientIdentifier, pk.Username, pk.Password = "c1", "test", []byte("test")
		ctx.SetInputRequest(mqttprot.NewRequest(pk, &mqttprot.MockClient{MockClientID: "c1"}))
		ctx.SetOutputResponse(mqttprot.NewResponse())
	}
	return ctx
}

func c11Site(stack string) string {
	for _, ln := range strings.Split(stack, "\n") {
		ln = strings.TrimSpace(ln)
		if !strings.HasPrefix(ln, "github.com/megaease/easegress/pkg/") || strings.Contains(ln, "c11") || strings.Contains(ln, "verifx") {
			continue
		}
		ln = strings.TrimPrefix(ln, "github.com/megaease/easegress/pkg/")
		if i := strings.LastIndex(ln, "("); i > 0 {
			ln = ln[:i]
		}
		return ln
	}
	return "?"
}

// c11Handle runs one request through pipeline p: result, panic text, panic site.
func (k *c11Kind) handle(p *Pipeline) (result, panicV, site string) {
	type res struct{ result, panicV, site string }
	ch := make(chan res, 1)
	go func() {
		var r res
		defer func() {
			if e := recover(); e != nil {
				r.panicV = fmt.Sprint(e)
				r.site = c11Site(string(debug.Stack()))
			}
			ch <- r
		}()
		ctx := k.newCtx()
		r.result = p.Handle(ctx)
		ctx.Finish()
	}()
	select {
	case r := <-ch:
		return r.result, r.panicV, r.site
	case <-time.After(30 * time.Second):
		return "", "request blocked for 30s", "hang"
	}
}

// build creates a pipeline generation: Init (prev == nil) or Inherit; returns the panic, if any.
func (k *c11Kind) build(pipe string, ver int, prev *Pipeline) (p *Pipeline, err error) {
	defer func() {
		if e := recover(); e != nil {
			p, err = nil, fmt.Errorf("%v", e)
		}
	}()
	spec, err := k.spec(pipe, ver)
	if err != nil {
		return nil, err
	}
	p = &Pipeline{}
	if prev == nil {
		p.Init(spec, nil)
	} else {
		p.Inherit(spec, prev, nil)
	}
	return p, nil
}

// c11HoldsAcrossUpdate: some request gets a pipeline, the pipeline is updated, then the request runs.
func c11HoldsAcrossUpdate(beh []vx.M) bool {
	holds := map[string]string{} // request -> pipeline it holds, not yet run
	stale := map[string]bool{}
	for _, st := range beh {
		r, p := vx.Str(st["r"]), vx.Str(st["p"])
		switch vx.Str(st["a"]) {
		case "get":
			if vx.Bool(st["found"]) {
				holds[r] = p
			}
		case "pipInherit":
			for rr, pp := range holds {
				if pp == p {
					stale[rr] = true
				}
			}
		case "run":
			if stale[r] {
				return true
			}
			delete(holds, r)
		}
	}
	return false
}

func TestVerifC11Kinds(t *testing.T) {
	behs := vx.ReadBehaviours(t, "VERIF_IN")
	out := vx.NewWriter(t, "VERIF_OUT")
	defer out.Close()
	c11Setup(t)
	settle := time.Duration(vx.EnvInt("VERIF_SETTLE_MS", 150)) * time.Millisecond
	for _, k := range c11KindTable() {
		k := k
		if filters.GetKind(k.kind) == nil {
			out.Raw(vx.M{"k": "kind", "kind": k.name, "built": false, "why": "kind " + k.kind + " is not registered in this build (needs a build tag)"})
			continue
		}
		if probe, err := k.build("probe", 1, nil); err != nil {
			out.Raw(vx.M{"k": "kind", "kind": k.name, "built": false, "why": "Init failed offline: " + err.Error()})
			continue
		} else {
			res, pv, site := k.handle(probe)
			probe.Close()
			if pv != "" || res != k.want {
				out.Raw(vx.M{"k": "kind", "kind": k.name, "built": false,
					"why": fmt.Sprintf("harness: a fresh generation answers %q panic %q at %s, expected %q", res, pv, site, k.want)})
				continue
			}
		}
		steps, nb := 0, 0
		for bi, beh := range behs {
			if k.slow && (nb >= 6 || !c11HoldsAcrossUpdate(beh)) {
				continue
			}
			nb++
			cur := map[string]*Pipeline{}
			for _, p := range []string{"pa", "pb"} {
				cur[p], _ = k.build(p, 1, nil)
			}
			held := map[string]*Pipeline{}
			tgs := map[string]string{}
			failed := map[string]bool{}
			var next, removed *Pipeline
			pend := 0
			for si, st := range beh {
				steps++
				bad := ""
				r, p := vx.Str(st["r"]), vx.Str(st["p"])
				switch vx.Str(st["a"]) {
				case "start":
					tgs[r], failed[r] = vx.Str(st["tg"]), false
				case "get":
					h, ok := cur[tgs[r]]
					if ok != vx.Bool(st["found"]) {
						bad = "harness: map out of step with the model for " + tgs[r]
					}
					held[r] = h
				case "run":
					res, pv, site := k.handle(held[r])
					failed[r] = pv != ""
					if pv != "" {
						out.Raw(vx.M{"k": "fail", "kind": k.name, "b": bi, "step": si, "r": r, "site": site, "panic": pv, "at": st, "behaviour": beh[:si+1]})
						bad = fmt.Sprintf("panic: Handle on the held generation (version %d) of a %s pipeline: panic in %s: %s", vx.Int(st["ver"]), k.name, site, pv)
					} else if res != k.want {
						bad = fmt.Sprintf("status: Handle on the held generation (version %d) answered %q, a healthy generation answers %q", vx.Int(st["ver"]), res, k.want)
					}
				case "done":
				case "pipBegin":
					pend = vx.Int(st["ver"])
				case "createInit":
					var err error
					if next, err = k.build(p, vx.Int(st["ver"]), nil); err != nil {
						bad = "status: Init of another pipeline failed: " + err.Error()
					}
				case "pipInherit":
					var err error
					if next, err = k.build(p, pend, cur[p]); err != nil {
						bad = "status: Inherit failed: " + err.Error()
					}
					if k.slow {
						time.Sleep(settle) // Close of the old generation completes asynchronously
					}
				case "pipStore", "createStore":
					cur[p] = next
				case "deleteRemove":
					removed = cur[p]
					delete(cur, p)
				case "deleteClose":
					removed.Close()
					if k.slow {
						time.Sleep(settle)
					}
				case "pipClose", "init", "same", "ctl":
				default:
					bad = "harness: unknown step " + vx.Str(st["a"])
				}
				if bad != "" {
					out.Raw(vx.M{"k": "mismatch", "kind": k.name, "b": bi, "step": si, "a": vx.Str(st["a"]), "at": st, "what": bad, "behaviour": beh[:si+1]})
					break
				}
			}
			for _, p := range cur {
				func() {
					defer func() { recover() }()
					p.Close()
				}()
			}
		}
		out.Raw(vx.M{"k": "kind", "kind": k.name, "built": true, "behaviours": nb, "steps": steps})
	}
}

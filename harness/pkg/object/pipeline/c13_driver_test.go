package pipeline_test

// Harness for C13 (DESIGN 5/C13): accepted configurations instantiate and serve without panicking.
//
// TLC enumerates abstract configurations (specs/ConfigSpace_Gen.tla); this file reads them from
// VERIF_IN (NDJSON: {"c":id,"kind":K,"cfg":{field:class}}), renders each one to the YAML/raw spec the
// admin API would receive, passes it through the very validation the admin API applies
// (filters.NewSpec / supervisor.NewSpec / resilience.NewPolicy) and, if accepted, drives the
// life-cycle  create -> init -> handle* -> inherit -> handle* -> close  of the real object, every call
// under recover(), every call logged to VERIF_OUT. The recorded life-cycles are validated by TLC
// against specs/ConfigSpace_Trace.tla (invariant NoPanicAfterAccept).
//
// It is an *external* test package on purpose: one binary can then import every filter package and
// the HTTPServer/GlobalFilter/MQTTProxy objects (which import pipeline), and a filter is driven inside
// a real one-node Pipeline object so that InjectResiliencePolicy runs exactly as in production.
//
// A panic in a goroutine the harness does not own (HTTPServer FSM, proxy mirror pool) kills the test
// binary; every event is flushed as it is written, so the driver (props/c13.py) recognises the
// config that was in flight ("begin" without "end"), takes the panic site from the crash output and
// resumes after it (VERIF_SKIP).

import (
	"bufio"
	"encoding/json"
	"fmt"
	"os"
	"runtime/debug"
	"strings"
	"sync"
	"testing"
	"time"

	"github.com/megaease/easegress/pkg/cluster"
	"github.com/megaease/easegress/pkg/cluster/clustertest"
	"github.com/megaease/easegress/pkg/logger"
	"github.com/megaease/easegress/pkg/option"
	"github.com/megaease/easegress/pkg/supervisor"
	vx "github.com/megaease/easegress/pkg/verifx"
)

func init() {
	logger.InitNop()
}

// c13Cfg is one abstract configuration: kind + field -> value class.
type c13Cfg struct {
	ID   int
	Kind string
	F    map[string]string
}

// f returns the class of a field ("-" = absent when the grammar does not mention the field).
func (c *c13Cfg) f(name string) string {
	if v, ok := c.F[name]; ok {
		return v
	}
	return "-"
}

// c13Writer writes NDJSON, flushing every record (crash attribution needs it).
type c13Writer struct {
	mu  sync.Mutex
	f   *os.File
	seq int
}

func (w *c13Writer) Emit(rec vx.M) {
	w.mu.Lock()
	defer w.mu.Unlock()
	w.seq++
	rec["seq"] = w.seq
	b, err := json.Marshal(rec)
	if err != nil {
		b, _ = json.Marshal(vx.M{"ev": "harnesserr", "c": rec["c"], "err": err.Error(), "seq": w.seq})
	}
	w.f.Write(append(b, '\n'))
}

// c13Env is what the concretisation of classes needs: live/dead backends, files, the supervisor.
type c13Env struct {
	t        *testing.T
	w        *c13Writer
	live     string // URL of a backend that answers
	live2    string
	dead     string // URL nobody listens on
	htpasswd string // existing htpasswd file
	missing  string // path that does not exist
	tmp      string
	super    *supervisor.Supervisor
	jwt      string // HS256 token signed with secret hex 313233
	certPEM  string
	keyPEM   string
	cur      *c13Cfg
	closers  []func()
	prog     *os.File // <VERIF_OUT>.cur: the call in flight
	padFams  []string // format families present in the spec being driven (c13_pad_test.go)
	padded   int      // strings padded by the configuration's pad class

	mu       sync.Mutex
	lastCall time.Time
	callName string
}

const c13CallTimeout = 40 * time.Second

// c13Frame extracts the top repository frame of a panic from a stack dump: the first frame below the
// runtime's panic machinery that belongs to the easegress module and is not harness code.
func c13Frame(stack string) (site string, line string) {
	lines := strings.Split(stack, "\n")
	// frames above the last "panic(" are the deferred recover handlers
	start := 0
	for i, ln := range lines {
		if strings.HasPrefix(ln, "panic(") {
			start = i
		}
	}
	const mod = "github.com/megaease/easegress/"
	for i := start; i+1 < len(lines); i++ {
		fn := lines[i]
		loc := strings.TrimSpace(lines[i+1])
		if !strings.HasPrefix(fn, mod) {
			continue
		}
		if strings.Contains(loc, "zz_verif_") || strings.Contains(fn, "/verifx.") {
			continue
		}
		if !strings.Contains(loc, ".go:") {
			continue
		}
		// strip the argument list "(0x..., ...)" at the end (method receivers "(*T)" are in the middle)
		if j := strings.LastIndex(fn, "("); j > 0 && strings.HasSuffix(fn, ")") {
			fn = fn[:j]
		}
		fn = strings.TrimPrefix(fn, mod)
		// closures: pkg.f.func1 / pkg.f.func1.2 -> pkg.f
		for {
			k := strings.LastIndex(fn, ".")
			if k < 0 {
				break
			}
			last := fn[k+1:]
			if strings.HasPrefix(last, "func") || (len(last) > 0 && last[0] >= '0' && last[0] <= '9') {
				fn = fn[:k]
				continue
			}
			break
		}
		if k := strings.Index(loc, "/pkg/"); k >= 0 {
			loc = loc[k+1:]
		}
		if k := strings.Index(loc, " +0x"); k >= 0 {
			loc = loc[:k]
		}
		return fn, loc
	}
	return "?", "?"
}

// call runs fn under recover and logs the call. Returns false if it panicked.
func (e *c13Env) call(ev string, extra vx.M, fn func()) (ok bool) {
	rec := extra // fn may add fields (acc, state, ...) to the record while it runs
	rec["ev"], rec["c"] = ev, e.cur.ID
	e.mu.Lock()
	e.lastCall = time.Now()
	e.callName = fmt.Sprintf("%s %v", ev, extra)
	e.mu.Unlock()
	if e.cur != nil && e.prog != nil {
		// mirror the call in flight, unbuffered: a crash of the process is attributed to it
		q := "-"
		if s, ok := extra["q"].(string); ok {
			q = s
		}
		e.prog.WriteAt([]byte(fmt.Sprintf("%-12d %-10s %-14s\n", e.cur.ID, ev, q)), 0)
	}
	func() {
		defer func() {
			if r := recover(); r != nil {
				st := string(debug.Stack())
				site, line := c13Frame(st)
				rec["ok"] = false
				rec["pv"] = c13Trunc(fmt.Sprint(r), 200)
				rec["site"] = site
				rec["line"] = line
				rec["stack"] = c13Trunc(st, 2500)
				ok = false
			}
		}()
		ok = true
		rec["ok"] = true
		fn()
	}()
	e.mu.Lock()
	e.lastCall = time.Time{}
	e.mu.Unlock()
	e.w.Emit(rec)
	return ok
}

func c13Trunc(s string, n int) string {
	if len(s) > n {
		return s[:n]
	}
	return s
}

func (e *c13Env) watchdog() {
	for {
		time.Sleep(500 * time.Millisecond)
		e.mu.Lock()
		lc, name := e.lastCall, e.callName
		e.mu.Unlock()
		if !lc.IsZero() && time.Since(lc) > c13CallTimeout {
			e.w.Emit(vx.M{"ev": "hang", "c": e.cur.ID, "call": name})
			fmt.Fprintf(os.Stderr, "C13-HANG cfg=%d call=%s\n", e.cur.ID, name)
			os.Exit(3)
		}
	}
}

func c13ReadCfgs(t *testing.T) []*c13Cfg {
	p := os.Getenv("VERIF_IN")
	if p == "" {
		t.Skip("VERIF_IN not set: harness is driven by /verif/check")
	}
	f, err := os.Open(p)
	if err != nil {
		t.Fatalf("c13: %v", err)
	}
	defer f.Close()
	var out []*c13Cfg
	sc := bufio.NewScanner(f)
	sc.Buffer(make([]byte, 1<<20), 1<<26)
	for sc.Scan() {
		if len(sc.Bytes()) == 0 {
			continue
		}
		var r struct {
			C    int               `json:"c"`
			Kind string            `json:"kind"`
			Cfg  map[string]string `json:"cfg"`
		}
		if err := json.Unmarshal(sc.Bytes(), &r); err != nil {
			t.Fatalf("c13: bad input line: %v", err)
		}
		out = append(out, &c13Cfg{ID: r.C, Kind: r.Kind, F: r.Cfg})
	}
	return out
}

// c13NewSuper builds a Supervisor over a mocked cluster (HeaderLookup, basicAuth ETCD and MQTTProxy
// need a cluster; nothing is written anywhere).
func c13NewSuper() *supervisor.Supervisor {
	opt := option.New()
	opt.Name = "c13-member"
	mc := clustertest.NewMockedCluster()
	mc.MockedSyncer = func(time.Duration) (cluster.Syncer, error) {
		s := clustertest.NewMockedSyncer()
		s.MockedSyncPrefix = func(string) (<-chan map[string]string, error) {
			return make(chan map[string]string), nil
		}
		return s, nil
	}
	mc.MockedGet = func(key string) (*string, error) {
		if strings.HasSuffix(key, "1") || strings.HasSuffix(key, "v") {
			v := "ek: found\nother: x\n"
			return &v, nil
		}
		return nil, nil
	}
	mc.MockedGetPrefix = func(prefix string) (map[string]string, error) {
		if strings.HasPrefix(prefix, "/custom-data/") {
			return map[string]string{prefix + "u1": "key: user\npassword: pass\n"}, nil
		}
		return map[string]string{}, nil
	}
	mc.MockedWatcher = func() (cluster.Watcher, error) { return clustertest.NewMockedWatcher(), nil }
	mc.MockedLayout = func() *cluster.Layout { return &cluster.Layout{} }
	var bc, sc sync.Map
	return supervisor.NewMock(opt, mc, bc, sc, nil, nil, false, nil, nil)
}

// TestVerifC13Drive drives every configuration of VERIF_IN (skipping the first VERIF_SKIP ones).
func TestVerifC13Drive(t *testing.T) {
	cfgs := c13ReadCfgs(t)
	skip := vx.EnvInt("VERIF_SKIP", 0)
	op := os.Getenv("VERIF_OUT")
	if op == "" {
		t.Skip("VERIF_OUT not set")
	}
	f, err := os.OpenFile(op, os.O_CREATE|os.O_WRONLY|os.O_APPEND, 0o644)
	if err != nil {
		t.Fatalf("c13: %v", err)
	}
	defer f.Close()
	w := &c13Writer{f: f}
	e := &c13Env{t: t, w: w}
	if pf, err := os.OpenFile(op+".cur", os.O_CREATE|os.O_WRONLY|os.O_TRUNC, 0o644); err == nil {
		e.prog = pf
		defer pf.Close()
	}
	e.cur = &c13Cfg{ID: -1}
	e.setup()
	defer e.teardown()
	go e.watchdog()
	for i, c := range cfgs {
		if i < skip {
			continue
		}
		e.cur = c
		// "begin" reaches the disk before anything runs: if the process dies, the driver knows which
		// configuration was in flight
		w.Emit(vx.M{"ev": "begin", "c": c.ID, "idx": i})
		t0 := time.Now()
		e.drive(c)
		w.Emit(vx.M{"ev": "end", "c": c.ID, "idx": i, "ms": time.Since(t0).Milliseconds()})
	}
	w.Emit(vx.M{"ev": "summary", "c": -1, "n": len(cfgs)})
}

package pipeline_test

// C13: the life-cycle drivers. One function per kind family; all follow the automaton of
// specs/ConfigSpace.tla:  validate -> (rejected | accepted -> create -> init -> handle* -> inherit -> handle* -> close).

import (
	"bytes"
	stdcontext "context"
	"crypto/ecdsa"
	"crypto/elliptic"
	"crypto/rand"
	"crypto/sha1"
	"crypto/x509"
	"crypto/x509/pkix"
	"encoding/base64"
	"encoding/pem"
	"errors"
	"fmt"
	"io"
	"math/big"
	mrand "math/rand"
	"net"
	"net/http"
	"net/http/httptest"
	"os"
	"path/filepath"
	"strings"
	"sync"
	"time"
	_ "unsafe" // go:linkname (drain of api.apisChangeChan, see c13DrainAPIs)

	"github.com/eclipse/paho.mqtt.golang/packets"
	"github.com/golang-jwt/jwt"
	yaml "gopkg.in/yaml.v2"

	_ "github.com/megaease/easegress/pkg/api"
	"github.com/megaease/easegress/pkg/context"
	_ "github.com/megaease/easegress/pkg/filters/builder"
	_ "github.com/megaease/easegress/pkg/filters/certextractor"
	_ "github.com/megaease/easegress/pkg/filters/corsadaptor"
	_ "github.com/megaease/easegress/pkg/filters/fallback"
	_ "github.com/megaease/easegress/pkg/filters/headerlookup"
	_ "github.com/megaease/easegress/pkg/filters/headertojson"
	_ "github.com/megaease/easegress/pkg/filters/kafka"
	_ "github.com/megaease/easegress/pkg/filters/kafkabackend"
	_ "github.com/megaease/easegress/pkg/filters/meshadaptor"
	_ "github.com/megaease/easegress/pkg/filters/mock"
	_ "github.com/megaease/easegress/pkg/filters/proxy"
	_ "github.com/megaease/easegress/pkg/filters/ratelimiter"
	_ "github.com/megaease/easegress/pkg/filters/remotefilter"
	_ "github.com/megaease/easegress/pkg/filters/requestadaptor"
	_ "github.com/megaease/easegress/pkg/filters/responseadaptor"
	_ "github.com/megaease/easegress/pkg/filters/validator"
	"github.com/megaease/easegress/pkg/object/globalfilter"
	"github.com/megaease/easegress/pkg/object/httpserver"
	"github.com/megaease/easegress/pkg/object/mqttproxy"
	"github.com/megaease/easegress/pkg/object/pipeline"
	"github.com/megaease/easegress/pkg/protocols/httpprot"
	"github.com/megaease/easegress/pkg/resilience"
	"github.com/megaease/easegress/pkg/supervisor"
	"github.com/megaease/easegress/pkg/tracing"
	"github.com/megaease/easegress/pkg/util/signer"
	vx "github.com/megaease/easegress/pkg/verifx"
)

// MQTTProxy.Init registers an API group, which sends on a channel of capacity 10 that only the admin
// API server drains. Without a drain the 11th MQTTProxy of a process would block forever.
//
//go:linkname c13ApisChangeChan github.com/megaease/easegress/pkg/api.apisChangeChan
var c13ApisChangeChan chan struct{}

func c13DrainAPIs() {
	go func() {
		for range c13ApisChangeChan {
		}
	}()
}

// ---------------------------------------------------------------------------------------- environment
func (e *c13Env) setup() {
	h := http.HandlerFunc(func(w http.ResponseWriter, r *http.Request) {
		io.Copy(io.Discard, r.Body)
		// request class "cancelmid": the client of the request under test goes away while this backend call is
		// in progress - the backend cancels the request's context and answers only when its own client (the
		// object under test) has dropped the call
		if tok := r.Header.Get(c13HdrCancel); tok != "" {
			if f, ok := c13Cancels.Load(tok); ok {
				f.(func())()
			}
			select {
			case <-r.Context().Done():
			case <-time.After(50 * time.Millisecond):
			}
		}
		// request class "expire": the backend answers after the request's deadline
		if r.Header.Get(c13HdrDelay) != "" {
			select {
			case <-r.Context().Done():
			case <-time.After(60 * time.Millisecond):
			}
		}
		switch {
		case strings.HasPrefix(r.URL.Path, "/introspect"):
			w.Header().Set("Content-Type", "application/json")
			io.WriteString(w, `{"active":true,"sub":"u","scope":"s"}`)
		case strings.HasPrefix(r.URL.Path, "/fail"):
			w.WriteHeader(503)
			io.WriteString(w, "backend-fail")
		default:
			w.Header().Set("Content-Type", "text/plain")
			w.Header().Set("X-Backend", "1")
			io.WriteString(w, "backend-ok-0123456789")
		}
	})
	s1, s2 := httptest.NewServer(h), httptest.NewServer(h)
	e.closers = append(e.closers, s1.Close, s2.Close)
	e.live, e.live2 = s1.URL, s2.URL
	e.dead = "http://127.0.0.1:1"
	tmp, err := os.MkdirTemp("", "c13-")
	if err != nil {
		e.t.Fatalf("c13: %v", err)
	}
	e.tmp = tmp
	e.closers = append(e.closers, func() { os.RemoveAll(tmp) })
	sum := sha1.Sum([]byte("pass"))
	e.htpasswd = filepath.Join(tmp, "htpasswd")
	os.WriteFile(e.htpasswd, []byte("user:{SHA}"+base64.StdEncoding.EncodeToString(sum[:])+"\n"), 0o644)
	e.missing = filepath.Join(tmp, "does-not-exist")
	e.super = c13NewSuper()
	tok := jwt.NewWithClaims(jwt.SigningMethodHS256, jwt.MapClaims{"sub": "u", "scope": "s", "exp": time.Now().Add(time.Hour).Unix()})
	e.jwt, _ = tok.SignedString([]byte("123"))
	e.certPEM, e.keyPEM = c13SelfSigned()
	c13DrainAPIs()
}

func (e *c13Env) teardown() {
	for _, f := range e.closers {
		f()
	}
}

func c13SelfSigned() (string, string) {
	key, err := ecdsa.GenerateKey(elliptic.P256(), rand.Reader)
	if err != nil {
		return "", ""
	}
	tpl := &x509.Certificate{SerialNumber: big.NewInt(1), Subject: pkix.Name{CommonName: "c13"},
		NotBefore: time.Now().Add(-time.Hour), NotAfter: time.Now().Add(24 * time.Hour),
		DNSNames: []string{"localhost"}, IPAddresses: []net.IP{net.ParseIP("127.0.0.1")}}
	der, err := x509.CreateCertificate(rand.Reader, tpl, tpl, &key.PublicKey, key)
	if err != nil {
		return "", ""
	}
	kb, _ := x509.MarshalECPrivateKey(key)
	return string(pem.EncodeToMemory(&pem.Block{Type: "CERTIFICATE", Bytes: der})),
		string(pem.EncodeToMemory(&pem.Block{Type: "EC PRIVATE KEY", Bytes: kb}))
}

// c13FreePort picks a port below the kernel's ephemeral range (where every other test on this machine
// gets its ":0" ports from), so that nobody grabs it between this probe and the object's own Listen:
// a lost race would make MQTTProxy.Init panic ("broker start failed") for a reason that is not the
// configuration's.
var c13PortRand = mrand.New(mrand.NewSource(int64(os.Getpid())*7919 + time.Now().UnixNano()))

func c13FreePort() int {
	for i := 0; i < 200; i++ {
		p := 20000 + c13PortRand.Intn(9000)
		l, err := net.Listen("tcp", fmt.Sprintf(":%d", p))
		if err != nil {
			continue
		}
		l.Close()
		return p
	}
	return 0
}

// ---------------------------------------------------------------------------------------- request classes
// Headers by which a request of the classes "cancelmid" / "expire" tells the harness's backend what to do, and
// the registry of the cancel functions of the requests in flight.
const (
	c13HdrCancel = "X-C13-Cancel"
	c13HdrDelay  = "X-C13-Delay"
)

var (
	c13Cancels   sync.Map // token -> func()
	c13CancelSeq int64
	c13CancelMu  sync.Mutex
)

// The request classes an accepted HTTP object must survive (ConfigSpace!HttpReqs).
var c13HTTPReqs = append(append([]string{"plain", "body", "basic", "bearer", "stream", "resp", "gz", "preflight", "jsonarr", "respstream"},
	c13PathReqs...), "signed", "presigned", "signed0", "badsig", "gone", "cancelmid", "expire")

// Request paths derived from the paths the grammar configures (ConfigSpaceGrammar!PathReqs): anchor /a or
// /api x variant.
var c13PathReqs = []string{"a_bare", "a_slash", "a_seg", "a_case", "a_enc", "a_nosep",
	"api_bare", "api_slash", "api_seg", "api_case", "api_enc", "api_nosep"}

// c13PathOf is the request path of a PathReqs class ("" = not one).
func c13PathOf(q string) string {
	i := strings.IndexByte(q, '_')
	if i < 0 {
		return ""
	}
	anchor, variant := q[:i], q[i+1:]
	if anchor != "a" && anchor != "api" {
		return ""
	}
	switch variant {
	case "bare":
		return "/" + anchor
	case "slash":
		return "/" + anchor + "/"
	case "seg":
		return "/" + anchor + "/x/y"
	case "case":
		return "/" + strings.ToUpper(anchor)
	case "enc": // "a" percent-encoded
		return "/%61" + anchor[1:]
	case "nosep":
		return "/" + anchor + "x"
	}
	return ""
}

// c13Ctx builds the context of request class q. The request carries a deadline so that retry/limiter
// waits stay short.
func (e *c13Env) c13Ctx(q string) (*context.Context, func()) {
	deadline := 150 * time.Millisecond
	if q == "expire" {
		deadline = 10 * time.Millisecond
	}
	std, cancel := stdcontext.WithTimeout(stdcontext.Background(), deadline)
	mk := func(method, url string, body io.Reader) *http.Request {
		r, err := http.NewRequestWithContext(std, method, url, body)
		if err != nil {
			panic(c13RenderErr{"request class " + q + ": " + err.Error()})
		}
		r.RemoteAddr = "127.0.0.1:4711"
		return r
	}
	var r *http.Request
	stream := false
	withResp, respStream, respGz := false, false, false
	switch q {
	case "plain":
		r = mk("GET", "http://svc.example/", nil)
	case "body":
		r = mk("POST", "http://svc.example/api/x?y=1", strings.NewReader(`{"a":1}`))
		r.Header.Set("Content-Type", "application/json")
		r.Header.Set("X-A", "1")
		r.Header.Set("X-B", "bee")
		r.Header.Set("Cookie", "token="+e.jwt)
		r.Header.Set("X-Forwarded-For", "10.1.2.3")
		r.Header.Set("Origin", "http://o.example")
	case "basic":
		r = mk("GET", "http://svc.example/a", nil)
		r.Header.Set("Authorization", "Basic "+base64.StdEncoding.EncodeToString([]byte("user:pass")))
		r.Header.Set("X-A", "v")
	case "bearer":
		r = mk("GET", "http://svc.example/api/b", nil)
		r.Header.Set("Authorization", "Bearer "+e.jwt)
		r.Header.Set("X-A", "1")
	case "stream":
		r = mk("POST", "http://svc.example/s", strings.NewReader("streamed-body"))
		r.Header.Set("X-A", "1")
		stream = true
	case "resp":
		r = mk("GET", "http://svc.example/", nil)
		withResp = true
	case "gz":
		r = mk("POST", "http://svc.example/api/gz", strings.NewReader("this is not gzip"))
		r.Header.Set("Content-Encoding", "gzip")
		r.Header.Set("Accept-Encoding", "gzip")
		withResp, respGz = true, true
	case "preflight":
		r = mk("OPTIONS", "http://svc.example/api/x", nil)
		r.Header.Set("Origin", "http://o.example")
		r.Header.Set("Access-Control-Request-Method", "GET")
		r.Header.Set("Access-Control-Request-Headers", "X-A")
		withResp = true
	case "jsonarr":
		r = mk("POST", "http://svc.example/api/arr", strings.NewReader(`[null,{"a":1}]`))
		r.Header.Set("X-A", "1")
	case "respstream":
		r = mk("GET", "http://svc.example/a", nil)
		r.Header.Set("X-A", "1")
		withResp, respStream = true, true
	case "signed", "signed0", "presigned", "badsig":
		// what the Validator's signature section verifies, produced by the repository's own signer with
		// access key k and secret s ("signed0": the empty secret)
		secret := "s"
		if q == "signed0" {
			secret = ""
		}
		sc := signer.New().SetCredential("k", secret).NewContext(time.Now())
		if q == "presigned" {
			r = mk("GET", "http://svc.example/api/x?y=1", nil)
			sc.Presign(r, time.Minute)
		} else {
			r = mk("POST", "http://svc.example/api/x?y=1", strings.NewReader("signed-body"))
			r.Header.Set("X-A", "1")
			sc.Sign(r)
		}
		if q == "badsig" {
			// a complete signature header (right algorithm, three parts) whose parts are garbage
			h := r.Header.Get("Authorization")
			if i := strings.IndexByte(h, ' '); i > 0 {
				r.Header.Set("Authorization", h[:i]+" Credential=k//, SignedHeaders=host;;x-nope, Signature=zz")
			}
		}
	case "gone", "cancelmid", "expire":
		// requests whose context ends while they are served (ConfigSpaceGrammar!CtxReqs)
		r = mk("GET", "http://svc.example/api/x?y=1", nil)
		r.Header.Set("X-A", "1")
		switch q {
		case "gone": // the client went away before the request is handled
			cancel()
		case "cancelmid": // the client goes away while the backend call is in progress (see setup)
			c13CancelMu.Lock()
			c13CancelSeq++
			tok := fmt.Sprintf("%d-%d", os.Getpid(), c13CancelSeq)
			c13CancelMu.Unlock()
			inner := cancel
			c13Cancels.Store(tok, func() { inner() })
			r.Header.Set(c13HdrCancel, tok)
			cancel = func() { c13Cancels.Delete(tok); inner() }
		case "expire": // the deadline expires while the backend call (or a back-off) is in progress
			r.Header.Set(c13HdrDelay, "1")
		}
	default:
		if p := c13PathOf(q); p != "" {
			r = mk("GET", "http://svc.example"+p, nil)
			r.Header.Set("X-A", "1")
			break
		}
		panic(c13RenderErr{"unknown request class " + q})
	}
	ctx := context.New(tracing.NoopSpan)
	req, _ := httpprot.NewRequest(r)
	if stream {
		req.FetchPayload(-1)
	} else {
		req.FetchPayload(0)
	}
	ctx.SetRequest(context.DefaultNamespace, req)
	if withResp {
		resp, _ := httpprot.NewResponse(nil)
		resp.SetStatusCode(200)
		resp.HTTPHeader().Set("Content-Type", "text/plain")
		switch {
		case respStream:
			resp.SetPayload(strings.NewReader("streamed-response"))
		case respGz:
			resp.HTTPHeader().Set("Content-Encoding", "gzip")
			resp.SetPayload([]byte("not gzip either"))
		default:
			resp.SetPayload([]byte("hello"))
			resp.HTTPHeader().Set("Content-Length", "5")
		}
		ctx.SetResponse(context.DefaultNamespace, resp)
	}
	return ctx, cancel
}

// c13Finish does what the traffic gate does after the handler returned: reads the response body and
// finishes the context.
func c13Finish(ctx *context.Context) {
	if r := ctx.GetResponse(context.DefaultNamespace); r != nil {
		if hr, ok := r.(*httpprot.Response); ok && hr != nil {
			io.Copy(io.Discard, hr.GetPayload())
		}
	}
	ctx.Finish()
}

// ---------------------------------------------------------------------------------------- dispatch
func (e *c13Env) drive(c *c13Cfg) {
	defer func() {
		if r := recover(); r != nil {
			if re, ok := r.(c13RenderErr); ok {
				e.w.Emit(vx.M{"ev": "rendererr", "c": c.ID, "err": re.msg})
				return
			}
			e.w.Emit(vx.M{"ev": "harnesserr", "c": c.ID, "err": fmt.Sprint(r)})
		}
	}()
	switch c.Kind {
	case "Proxy":
		raw, res := e.renderProxy(c)
		e.driveFilter(c, raw, res, false)
	case "Validator":
		raw, res := e.renderValidator(c)
		e.driveFilter(c, raw, res, false)
	case "RateLimiter":
		raw, res := e.renderRateLimiter(c)
		e.driveFilter(c, raw, res, false)
	case "RequestAdaptor":
		raw, res := e.renderRequestAdaptor(c)
		e.driveFilter(c, raw, res, false)
	case "ResponseAdaptor":
		raw, res := e.renderResponseAdaptor(c)
		e.driveFilter(c, raw, res, false)
	case "RequestBuilder", "ResponseBuilder":
		raw, res := e.renderBuilder(c)
		e.driveFilter(c, raw, res, false)
	case "Mock":
		raw, res := e.renderMock(c)
		e.driveFilter(c, raw, res, false)
	case "Fallback":
		raw, res := e.renderFallback(c)
		e.driveFilter(c, raw, res, false)
	case "CORSAdaptor":
		raw, res := e.renderCORS(c)
		e.driveFilter(c, raw, res, false)
	case "HeaderLookup":
		raw, res := e.renderHeaderLookup(c)
		e.driveFilter(c, raw, res, false)
	case "HeaderToJSON":
		raw, res := e.renderHeaderToJSON(c)
		e.driveFilter(c, raw, res, false)
	case "MeshAdaptor":
		raw, res := e.renderMeshAdaptor(c)
		e.driveFilter(c, raw, res, false)
	case "KafkaMQTT", "Kafka", "RemoteFilter", "CertExtractor":
		e.driveFilter(c, e.renderVOnly(c), nil, true)
	case "Retry":
		e.drivePolicy(c, e.renderRetry(c))
	case "CircuitBreaker":
		e.drivePolicy(c, e.renderCircuitBreaker(c))
	case "Pipeline":
		pl := e.renderPipeline(c)
		e.applyPad(c, pl)
		e.drivePipelineYAML(c, c13YAML(pl), false)
	case "GlobalFilter":
		gf := e.renderGlobalFilter(c)
		e.applyPad(c, gf)
		e.driveGlobalFilter(c, c13YAML(gf))
	case "HTTPServer":
		e.driveHTTPServer(c)
	case "MQTTProxy":
		e.driveMQTTProxy(c)
	default:
		panic(c13RenderErr{"unknown kind " + c.Kind})
	}
}

func c13YAML(v interface{}) string {
	b, err := yaml.Marshal(v)
	if err != nil {
		panic(c13RenderErr{"yaml: " + err.Error()})
	}
	return string(b)
}

// validate runs the admin API's check (Supervisor.NewSpec) and logs it.
func (e *c13Env) validate(y string) *supervisor.Spec {
	var spec *supervisor.Spec
	rec := vx.M{}
	e.padInfo(rec)
	e.call("validate", rec, func() {
		s, err := e.super.NewSpec(y)
		if err != nil {
			rec["acc"] = false
			rec["err"] = c13Trunc(err.Error(), 300)
			return
		}
		rec["acc"] = true
		spec = s
	})
	return spec
}

// ---------------------------------------------------------------------------------------- filters
// driveFilter wraps the filter in a one-node pipeline (with the resilience policies the grammar
// defines) - validation is then literally what the admin API does for a pipeline object, and
// Init/Inherit run filters.Create + Init/Inherit + InjectResiliencePolicy as in production.
func (e *c13Env) driveFilter(c *c13Cfg, raw c13M, res c13L, validateOnly bool) {
	pl := c13M{"name": "c13-pipeline", "kind": "Pipeline", "filters": c13L{raw}}
	if res != nil {
		pl["resilience"] = res
	}
	e.applyPad(c, pl)
	e.drivePipelineYAML(c, c13YAML(pl), validateOnly)
}

func (e *c13Env) drivePipelineYAML(c *c13Cfg, y string, validateOnly bool) {
	spec := e.validate(y)
	if spec == nil || validateOnly {
		return
	}
	var p *pipeline.Pipeline
	if !e.call("create", vx.M{}, func() { p = new(pipeline.Pipeline) }) {
		return
	}
	if !e.call("init", vx.M{}, func() { p.Init(spec, nil) }) {
		return
	}
	handle := func(p *pipeline.Pipeline, gen int) {
		for _, q := range c13HTTPReqs {
			e.call("handle", vx.M{"q": q, "gen": gen}, func() {
				ctx, cancel := e.c13Ctx(q)
				defer cancel()
				p.Handle(ctx)
				c13Finish(ctx)
			})
		}
	}
	handle(p, 1)
	spec2, err := e.super.NewSpec(y)
	if err != nil {
		e.w.Emit(vx.M{"ev": "harnesserr", "c": c.ID, "err": "second validation differs: " + err.Error()})
		return
	}
	p2 := new(pipeline.Pipeline)
	if !e.call("inherit", vx.M{}, func() { p2.Inherit(spec2, p, nil) }) {
		return
	}
	handle(p2, 2)
	e.call("close", vx.M{}, func() { p2.Close() })
}

// ---------------------------------------------------------------------------------------- resilience policies
var c13ErrBackend = errors.New("c13 backend failure")

type c13CancelKey struct{}

func (e *c13Env) drivePolicy(c *c13Cfg, raw c13M) {
	var pol resilience.Policy
	e.applyPad(c, raw)
	rec := vx.M{}
	e.padInfo(rec)
	e.call("validate", rec, func() {
		p, err := resilience.NewPolicy(raw)
		if err != nil {
			rec["acc"] = false
			rec["err"] = c13Trunc(err.Error(), 300)
			return
		}
		rec["acc"] = true
		pol = p
	})
	if pol == nil {
		return
	}
	var w resilience.Wrapper
	if !e.call("create", vx.M{}, func() { w = pol.CreateWrapper() }) {
		return
	}
	var okH, failH, slowH, cancelH resilience.HandlerFunc
	if !e.call("init", vx.M{}, func() {
		// a handler during which the caller goes away: it cancels the context it runs under and fails
		cancelH = w.Wrap(func(ctx stdcontext.Context) error {
			if f, ok := ctx.Value(c13CancelKey{}).(func()); ok {
				f()
			}
			return c13ErrBackend
		})
		okH = w.Wrap(func(stdcontext.Context) error { return nil })
		failH = w.Wrap(func(stdcontext.Context) error { return c13ErrBackend })
		slowH = w.Wrap(func(stdcontext.Context) error { time.Sleep(300 * time.Microsecond); return nil })
	}) {
		return
	}
	short := func() (stdcontext.Context, func()) {
		return stdcontext.WithTimeout(stdcontext.Background(), 3*time.Millisecond)
	}
	e.call("handle", vx.M{"q": "ok", "gen": 1}, func() {
		ctx, cancel := short()
		defer cancel()
		okH(ctx)
	})
	e.call("handle", vx.M{"q": "fail", "gen": 1}, func() {
		ctx, cancel := short()
		defer cancel()
		failH(ctx)
	})
	e.call("handle", vx.M{"q": "burst", "gen": 1}, func() {
		for i := 0; i < 6; i++ {
			ctx, cancel := short()
			failH(ctx)
			cancel()
		}
		for i := 0; i < 4; i++ {
			time.Sleep(1200 * time.Microsecond)
			ctx, cancel := short()
			if i%2 == 0 {
				okH(ctx)
			} else {
				failH(ctx)
			}
			cancel()
		}
	})
	e.call("handle", vx.M{"q": "cancelled", "gen": 1}, func() {
		ctx, cancel := stdcontext.WithCancel(stdcontext.Background())
		cancel()
		failH(ctx)
		okH(ctx)
	})
	e.call("handle", vx.M{"q": "cancelmid", "gen": 1}, func() {
		for i := 0; i < 2; i++ {
			ctx, cancel := stdcontext.WithCancel(stdcontext.Background())
			cancelH(stdcontext.WithValue(ctx, c13CancelKey{}, func() { cancel() }))
			cancel()
		}
	})
	// recovery: the open state's wait elapses, successful probes close the circuit, failures then fill the
	// fresh closed-state window and open it again, and the second half-open round is probed as well
	e.call("handle", vx.M{"q": "recover", "gen": 1}, func() {
		for round := 0; round < 2; round++ {
			time.Sleep(2500 * time.Microsecond)
			for i := 0; i < 6; i++ {
				ctx, cancel := short()
				okH(ctx)
				cancel()
			}
			for i := 0; i < 6; i++ {
				ctx, cancel := short()
				failH(ctx)
				cancel()
			}
		}
	})
	e.call("handle", vx.M{"q": "slow", "gen": 1}, func() {
		for i := 0; i < 3; i++ {
			ctx, cancel := short()
			slowH(ctx)
			cancel()
		}
		time.Sleep(2500 * time.Microsecond)
		ctx, cancel := short()
		slowH(ctx)
		cancel()
	})
}

// ---------------------------------------------------------------------------------------- Pipeline (object grammar)
func (e *c13Env) renderPipeline(c *c13Cfg) c13M {
	const K = "Pipeline"
	pl := c13M{"name": "c13-pl", "kind": K}
	mock := func(name string) c13M {
		return c13M{"name": name, "kind": "Mock", "rules": c13L{c13M{"match": c13M{"pathPrefix": "/api"}, "code": 202, "body": "mocked"}}}
	}
	ra := c13M{"name": "ra", "kind": "ResponseAdaptor", "header": c13M{"set": c13M{"X-RA": "1"}}}
	rb := c13M{"name": "rb", "kind": "RequestBuilder", "template": "method: get\nurl: /built\n"}
	px := c13M{"name": "px", "kind": "Proxy", "pools": c13L{c13M{"servers": c13L{c13M{"url": e.live}}}}}
	var names []string
	switch v := c.f("filters"); v {
	case "mock":
		pl["filters"] = c13L{mock("m1")}
		names = []string{"m1"}
	case "mock2":
		pl["filters"] = c13L{mock("m1"), ra}
		names = []string{"m1", "ra"}
	case "proxy":
		pl["filters"] = c13L{px, ra}
		names = []string{"px", "ra"}
	case "builder":
		pl["filters"] = c13L{rb, px}
		names = []string{"rb", "px"}
	case "fallback":
		pl["filters"] = c13L{mock("m1"), c13M{"name": "fb", "kind": "Fallback", "mockCode": 200}}
		names = []string{"m1", "fb"}
	case "none":
		pl["filters"] = c13L{}
	case "absent":
	case "null":
		pl["filters"] = c13L{nil}
	case "dupName":
		pl["filters"] = c13L{mock("m1"), mock("m1")}
		names = []string{"m1", "m1"}
	case "endName":
		pl["filters"] = c13L{mock("END")}
		names = []string{"END"}
	case "badKind":
		pl["filters"] = c13L{c13M{"name": "m1", "kind": "NoSuchKind"}}
		names = []string{"m1"}
	case "noName":
		pl["filters"] = c13L{c13M{"kind": "Mock"}}
	case "lowerKind": // a registered kind in another letter case
		lm := mock("m1")
		lm["kind"] = "mock"
		pl["filters"] = c13L{lm}
		names = []string{"m1"}
	default:
		c13Bad(K, "filters", v)
	}
	first, second := "m1", "ra"
	if len(names) > 0 {
		first = names[0]
	}
	if len(names) > 1 {
		second = names[1]
	} else {
		second = first
	}
	var flow c13L
	switch v := c.f("flow"); v {
	case "-":
	case "all":
		for _, n := range names {
			flow = append(flow, c13M{"filter": n})
		}
		if flow == nil {
			flow = c13L{}
		}
	case "withEnd":
		flow = c13L{c13M{"filter": first}, c13M{"filter": "END"}, c13M{"filter": second}}
	case "onlyEnd":
		flow = c13L{c13M{"filter": "END"}}
	case "unknown":
		flow = c13L{c13M{"filter": first}, c13M{"filter": "ghost"}}
	case "twice":
		flow = c13L{c13M{"filter": first}, c13M{"filter": first}}
	case "alias":
		flow = c13L{c13M{"filter": first, "alias": "a1"}, c13M{"filter": first, "alias": "a2"}, c13M{"filter": second}}
	case "reversed":
		flow = c13L{c13M{"filter": second}, c13M{"filter": first}}
	case "empty":
		flow = c13L{}
	case "null":
		flow = c13L{nil}
	case "noFilterKey":
		flow = c13L{c13M{"alias": "x"}}
	case "lowerEnd": // the built-in END node in another letter case
		flow = c13L{c13M{"filter": first}, c13M{"filter": "end"}}
	default:
		c13Bad(K, "flow", v)
	}
	firstNode := func() c13M {
		if len(flow) == 0 {
			return nil
		}
		m, _ := flow[0].(c13M)
		return m
	}
	if n := firstNode(); n != nil {
		switch v := c.f("jumpIf"); v {
		case "-":
		case "toEnd":
			n["jumpIf"] = c13M{"mocked": "END"}
		case "fwd":
			n["jumpIf"] = c13M{"mocked": second}
		case "self":
			n["jumpIf"] = c13M{"mocked": first}
		case "badResult":
			n["jumpIf"] = c13M{"nosuchresult": "END"}
		case "undefTarget":
			n["jumpIf"] = c13M{"mocked": "ghost"}
		case "emptyTarget":
			n["jumpIf"] = c13M{"mocked": ""}
		default:
			c13Bad(K, "jumpIf", v)
		}
		switch v := c.f("ns"); v {
		case "-":
		case "DEFAULT", "other":
			n["namespace"] = v
		default:
			c13Bad(K, "ns", v)
		}
	}
	if flow != nil {
		pl["flow"] = flow
	}
	retry := c13M{"name": "r1", "kind": "Retry", "maxAttempts": 2, "waitDuration": "1ms"}
	cb := c13M{"name": "cb1", "kind": "CircuitBreaker", "slidingWindowSize": 4}
	switch v := c.f("resilience"); v {
	case "-":
	case "retry":
		pl["resilience"] = c13L{retry}
	case "both":
		pl["resilience"] = c13L{retry, cb}
	case "dupName":
		pl["resilience"] = c13L{retry, c13M{"name": "r1", "kind": "CircuitBreaker"}}
	case "badKind":
		pl["resilience"] = c13L{c13M{"name": "x", "kind": "Bulkhead"}}
	case "noName":
		pl["resilience"] = c13L{c13M{"kind": "Retry"}}
	case "null":
		pl["resilience"] = c13L{nil}
	case "empty":
		pl["resilience"] = c13L{}
	default:
		c13Bad(K, "resilience", v)
	}
	return pl
}

// ---------------------------------------------------------------------------------------- GlobalFilter
func (e *c13Env) renderGlobalFilter(c *c13Cfg) c13M {
	const K = "GlobalFilter"
	gf := c13M{"name": "c13-gf", "kind": K}
	side := func(class string) interface{} {
		mock := c13M{"name": "gm", "kind": "Mock", "rules": c13L{c13M{"match": c13M{"path": "/never"}, "code": 200}}}
		switch class {
		case "mock":
			return c13M{"flow": c13L{c13M{"filter": "gm"}}, "filters": c13L{mock}}
		case "noflow":
			return c13M{"filters": c13L{mock}}
		case "flowOnly":
			return c13M{"flow": c13L{c13M{"filter": "gm"}}}
		case "endOnly":
			return c13M{"flow": c13L{c13M{"filter": "END"}}, "filters": c13L{}}
		case "badfilter":
			return c13M{"flow": c13L{c13M{"filter": "gm"}}, "filters": c13L{c13M{"name": "gm", "kind": "NoSuchKind"}}}
		case "adaptor":
			return c13M{"flow": c13L{c13M{"filter": "ga"}}, "filters": c13L{c13M{"name": "ga", "kind": "RequestAdaptor", "method": "PUT"}}}
		case "emptyobj":
			return c13M{}
		case "null":
			return nil
		}
		c13Bad(K, "side", class)
		return nil
	}
	if v := c.f("before"); v != "-" {
		gf["beforePipeline"] = side(v)
	}
	if v := c.f("after"); v != "-" {
		gf["afterPipeline"] = side(v)
	}
	return gf
}

// c13MainPipeline is the pipeline behind HTTPServer rules and GlobalFilter.Handle: a Mock answering 200.
func (e *c13Env) c13MainPipeline() *pipeline.Pipeline {
	y := c13YAML(c13M{"name": "pl", "kind": "Pipeline", "filters": c13L{
		c13M{"name": "m", "kind": "Mock", "rules": c13L{c13M{"code": 200, "body": "main-pipeline"}}}}})
	spec, err := e.super.NewSpec(y)
	if err != nil {
		panic(c13RenderErr{"main pipeline: " + err.Error()})
	}
	p := new(pipeline.Pipeline)
	p.Init(spec, nil)
	return p
}

func (e *c13Env) driveGlobalFilter(c *c13Cfg, y string) {
	spec := e.validate(y)
	if spec == nil {
		return
	}
	main := e.c13MainPipeline()
	defer main.Close()
	var gf *globalfilter.GlobalFilter
	if !e.call("create", vx.M{}, func() { gf = new(globalfilter.GlobalFilter) }) {
		return
	}
	if !e.call("init", vx.M{}, func() { gf.Init(spec) }) {
		return
	}
	handle := func(g *globalfilter.GlobalFilter, gen int) {
		for _, q := range c13HTTPReqs {
			e.call("handle", vx.M{"q": q, "gen": gen}, func() {
				ctx, cancel := e.c13Ctx(q)
				defer cancel()
				g.Handle(ctx, main)
				c13Finish(ctx)
			})
		}
	}
	handle(gf, 1)
	spec2, err := e.super.NewSpec(y)
	if err != nil {
		e.w.Emit(vx.M{"ev": "harnesserr", "c": c.ID, "err": "second validation differs: " + err.Error()})
		return
	}
	gf2 := new(globalfilter.GlobalFilter)
	if !e.call("inherit", vx.M{}, func() { gf2.Inherit(spec2, gf) }) {
		return
	}
	handle(gf2, 2)
	e.call("close", vx.M{}, func() { gf2.Close() })
}

// ---------------------------------------------------------------------------------------- HTTPServer
type c13Mapper struct{ p *pipeline.Pipeline }

func (m *c13Mapper) GetHandler(name string) (context.Handler, bool) {
	if name == "pl" {
		return m.p, true
	}
	return nil, false
}

func (e *c13Env) renderHTTPServer(c *c13Cfg) (c13M, int) {
	const K = "HTTPServer"
	hs := c13M{"name": "c13-hs", "kind": K}
	port := 0
	switch v := c.f("port"); v {
	case "free":
		port = c13FreePort()
		hs["port"] = port
	case "0":
		hs["port"] = 0
	case "65536":
		hs["port"] = 65536
	case "absent":
	default:
		c13Bad(K, "port", v)
	}
	c13Scalar(hs, "keepAlive", c.f("keepAlive"))
	switch v := c.f("https"); v {
	case "false":
		hs["https"] = false
	case "absent":
	case "nocert":
		hs["https"] = true
	case "autoCert":
		hs["https"] = true
		hs["autoCert"] = true
	case "certs":
		hs["https"] = true
		hs["certs"] = c13M{"a": e.certPEM}
		hs["keys"] = c13M{"a": e.keyPEM}
	case "certNoKey":
		hs["https"] = true
		hs["certs"] = c13M{"a": e.certPEM}
	case "garbageCert":
		hs["https"] = true
		hs["certBase64"] = "Z2FyYmFnZQ=="
		hs["keyBase64"] = "Z2FyYmFnZQ=="
	case "http3":
		hs["https"] = false
		hs["http3"] = true
	case "caOnly":
		hs["https"] = false
		hs["caCertBase64"] = "Z2FyYmFnZQ=="
	default:
		c13Bad(K, "https", v)
	}
	c13Str(hs, "keepAliveTimeout", c.f("keepAliveTimeout"))
	c13Scalar(hs, "maxConnections", c.f("maxConnections"))
	c13Scalar(hs, "cacheSize", c.f("cacheSize"))
	c13Scalar(hs, "clientMaxBodySize", c.f("clientMaxBodySize"))
	c13Scalar(hs, "xForwardedFor", c.f("xff"))
	ipf := func(class string) interface{} {
		switch class {
		case "allowLocal":
			return c13M{"blockByDefault": true, "allowIPs": c13L{"127.0.0.1", "::1"}}
		case "blockLocal":
			return c13M{"blockByDefault": false, "blockIPs": c13L{"127.0.0.0/8"}}
		case "blockDefault":
			return c13M{"blockByDefault": true}
		case "both":
			return c13M{"blockByDefault": false, "allowIPs": c13L{"127.0.0.1"}, "blockIPs": c13L{"127.0.0.1"}}
		case "badcidr":
			return c13M{"blockByDefault": false, "allowIPs": c13L{"300.1.1.1"}}
		case "v4mapped":
			return c13M{"blockByDefault": false, "allowIPs": c13L{"::ffff:127.0.0.1", "::ffff:10.0.0.0/104"}, "blockIPs": c13L{"0.0.0.0/0", "::/0"}}
		case "dup":
			return c13M{"blockByDefault": false, "allowIPs": c13L{"10.0.0.1", "10.0.0.1"}}
		case "emptyobj":
			return c13M{}
		case "nullip":
			return c13M{"blockByDefault": false, "allowIPs": c13L{nil}}
		}
		c13Bad(K, "ipFilter", class)
		return nil
	}
	if v := c.f("ipFilter"); v != "-" {
		hs["ipFilter"] = ipf(v)
	}
	path := c13M{"pathPrefix": "/", "backend": "pl"}
	rule := c13M{"paths": c13L{path}}
	switch v := c.f("path"); v {
	case "prefix":
	case "exact":
		delete(path, "pathPrefix")
		path["path"] = "/a"
	case "regexp":
		delete(path, "pathPrefix")
		path["pathRegexp"] = "^/(a|api)"
	case "badregexp":
		delete(path, "pathPrefix")
		path["pathRegexp"] = "("
	case "noSlash":
		path["pathPrefix"] = "api"
	case "any":
		delete(path, "pathPrefix")
	case "rewritePrefix":
		path["pathPrefix"] = "/api"
		path["rewriteTarget"] = "/v2"
	case "rewriteExact":
		delete(path, "pathPrefix")
		path["path"] = "/a"
		path["rewriteTarget"] = "/b"
	case "rewriteRegexp":
		delete(path, "pathPrefix")
		path["pathRegexp"] = "^/api/(.*)$"
		path["rewriteTarget"] = "/$1"
	case "rewriteMixed":
		path["pathPrefix"] = "/api"
		path["path"] = "/a"
		path["pathRegexp"] = "^/s"
		path["rewriteTarget"] = "/r"
	case "rewriteNoPath":
		delete(path, "pathPrefix")
		path["rewriteTarget"] = "/r"
	case "exactSlash":
		delete(path, "pathPrefix")
		path["path"] = "/a/"
	case "rewriteExactSlash":
		delete(path, "pathPrefix")
		path["path"] = "/a/"
		path["rewriteTarget"] = "/b/"
	default:
		c13Bad(K, "path", v)
	}
	switch v := c.f("backend"); v {
	case "pl":
	case "unknown":
		path["backend"] = "ghost"
	case "absent":
		delete(path, "backend")
	case "empty":
		path["backend"] = ""
	default:
		c13Bad(K, "backend", v)
	}
	switch v := c.f("headers"); v {
	case "-":
	case "values":
		path["headers"] = c13L{c13M{"key": "X-A", "values": c13L{"1"}}}
	case "regexp":
		path["headers"] = c13L{c13M{"key": "X-A", "regexp": "^[0-9]$"}}
	case "all":
		path["headers"] = c13L{c13M{"key": "X-A", "values": c13L{"1"}, "regexp": "^1$"}, c13M{"key": "X-B", "regexp": "^b"}}
		path["matchAllHeader"] = true
	case "badregexp":
		path["headers"] = c13L{c13M{"key": "X-A", "regexp": "("}}
	case "neither":
		path["headers"] = c13L{c13M{"key": "X-A"}}
	case "noKey":
		path["headers"] = c13L{c13M{"values": c13L{"1"}}}
	case "null":
		path["headers"] = c13L{nil}
	default:
		c13Bad(K, "headers", v)
	}
	switch v := c.f("methods"); v {
	case "-":
	case "GET":
		path["methods"] = c13L{"GET"}
	case "bogus":
		path["methods"] = c13L{"FETCH"}
	case "dup":
		path["methods"] = c13L{"GET", "GET"}
	case "lower": // a valid method in another letter case
		path["methods"] = c13L{"get"}
	default:
		c13Bad(K, "methods", v)
	}
	c13Scalar(path, "clientMaxBodySize", c.f("pathMaxBody"))
	if v := c.f("pathIPFilter"); v != "-" {
		path["ipFilter"] = ipf(v)
	}
	switch v := c.f("host"); v {
	case "-":
	case "exact":
		rule["host"] = "svc.example"
	case "regexp":
		rule["hostRegexp"] = `^.*\.example$`
	case "badregexp":
		rule["hostRegexp"] = "("
	case "both":
		rule["host"] = "h.example"
		rule["hostRegexp"] = "^127"
	default:
		c13Bad(K, "host", v)
	}
	if v := c.f("ruleIPFilter"); v != "-" {
		rule["ipFilter"] = ipf(v)
	}
	switch v := c.f("rules"); v {
	case "one":
		hs["rules"] = c13L{rule}
	case "two":
		hs["rules"] = c13L{c13M{"host": "never.example", "paths": c13L{c13M{"path": "/", "backend": "pl"}}}, rule}
	case "none":
		hs["rules"] = c13L{}
	case "absent":
	case "null":
		hs["rules"] = c13L{nil}
	case "nullPath":
		rule["paths"] = c13L{nil}
		hs["rules"] = c13L{rule}
	case "noPaths":
		delete(rule, "paths")
		hs["rules"] = c13L{rule}
	default:
		c13Bad(K, "rules", v)
	}
	switch v := c.f("globalFilter"); v {
	case "-":
	case "undef":
		hs["globalFilter"] = "ghost"
	default:
		c13Bad(K, "globalFilter", v)
	}
	return hs, port
}

var c13HSReqs = append([]string{"plain", "body", "hdr", "big", "acme", "host", "abort"}, c13PathReqs...)

// c13StderrTap redirects os.Stderr (the HTTPServer's error log is built over it) into a buffer so that
// panics recovered by net/http's per-connection handler ("http: panic serving") are observed.
type c13StderrTap struct {
	old  *os.File
	r, w *os.File
	mu   sync.Mutex
	buf  bytes.Buffer
	done chan struct{}
}

func c13TapStderr() *c13StderrTap {
	r, w, err := os.Pipe()
	if err != nil {
		return nil
	}
	t := &c13StderrTap{old: os.Stderr, r: r, w: w, done: make(chan struct{})}
	os.Stderr = w
	go func() {
		b := make([]byte, 8192)
		for {
			n, err := r.Read(b)
			if n > 0 {
				t.mu.Lock()
				t.buf.Write(b[:n])
				t.mu.Unlock()
			}
			if err != nil {
				close(t.done)
				return
			}
		}
	}()
	return t
}

func (t *c13StderrTap) take() string {
	t.mu.Lock()
	defer t.mu.Unlock()
	s := t.buf.String()
	t.buf.Reset()
	return s
}

func (t *c13StderrTap) close() {
	os.Stderr = t.old
	t.w.Close()
	<-t.done
	t.r.Close()
}

func (e *c13Env) driveHTTPServer(c *c13Cfg) {
	raw, port := e.renderHTTPServer(c)
	e.applyPad(c, raw)
	y := c13YAML(raw)
	spec := e.validate(y)
	if spec == nil {
		return
	}
	main := e.c13MainPipeline()
	defer main.Close()
	mapper := &c13Mapper{p: main}
	tap := c13TapStderr()
	if tap != nil {
		defer tap.close()
	}
	var hs *httpserver.HTTPServer
	if !e.call("create", vx.M{}, func() { hs = new(httpserver.HTTPServer) }) {
		return
	}
	state := func(h *httpserver.HTTPServer) string {
		st := h.Status()
		if st == nil {
			return "?"
		}
		if s, ok := st.ObjectStatus.(*httpserver.Status); ok {
			return string(s.State)
		}
		return "?"
	}
	wait := func(h *httpserver.HTTPServer) string {
		dl := time.Now().Add(3 * time.Second)
		for time.Now().Before(dl) {
			if s := state(h); s == "running" || s == "failed" {
				return s
			}
			time.Sleep(time.Millisecond)
		}
		return state(h)
	}
	rec := vx.M{}
	if !e.call("init", rec, func() {
		hs.Init(spec, mapper)
		rec["state"] = wait(hs)
	}) {
		return
	}
	https := strings.HasPrefix(c.f("https"), "autoCert") || c.f("https") == "certs"
	client := &http.Client{Timeout: 2 * time.Second, Transport: &http.Transport{DisableKeepAlives: true}}
	handle := func(gen int) {
		if port == 0 {
			return
		}
		for _, q := range c13HSReqs {
			rec := vx.M{"q": q, "gen": gen}
			e.call("handle", rec, func() {
				base := fmt.Sprintf("http://127.0.0.1:%d", port)
				var r *http.Request
				switch q {
				case "plain":
					r, _ = http.NewRequest("GET", base+"/", nil)
				case "body":
					r, _ = http.NewRequest("POST", base+"/api/x?y=1", strings.NewReader(`{"a":1}`))
					r.Header.Set("X-A", "1")
					r.Header.Set("X-B", "bee")
					r.Header.Set("X-Forwarded-For", "10.1.2.3, 127.0.0.1")
				case "hdr":
					r, _ = http.NewRequest("GET", base+"/a", nil)
					r.Header.Set("X-A", "zz")
					r.Header.Set("X-Real-Ip", "::ffff:127.0.0.1")
				case "big":
					r, _ = http.NewRequest("PUT", base+"/s/big", bytes.NewReader(make([]byte, 70000)))
				case "acme":
					r, _ = http.NewRequest("GET", base+"/.well-known/acme-challenge/tok", nil)
				case "host":
					r, _ = http.NewRequest("GET", base+"/api/h", nil)
					r.Host = "svc.example:8080"
					r.Header.Set("X-A", "1")
				case "abort":
					// the client sends the head and a part of the announced body and closes the connection
					conn, err := net.DialTimeout("tcp", fmt.Sprintf("127.0.0.1:%d", port), time.Second)
					if err != nil {
						rec["neterr"] = c13Trunc(err.Error(), 120)
						return
					}
					fmt.Fprintf(conn, "POST /api/x?y=1 HTTP/1.1\r\nHost: svc.example\r\nX-A: 1\r\nX-B: bee\r\nContent-Length: 1000\r\n\r\npartial-body")
					time.Sleep(time.Millisecond)
					conn.Close()
					// the server notices asynchronously: give a panic's log line time to arrive
					time.Sleep(15 * time.Millisecond)
					return
				default:
					p := c13PathOf(q)
					if p == "" {
						panic(c13RenderErr{"unknown server request class " + q})
					}
					r, _ = http.NewRequest("GET", base+p, nil)
					r.Header.Set("X-A", "1")
				}
				resp, err := client.Do(r)
				if err == nil {
					io.Copy(io.Discard, resp.Body)
					resp.Body.Close()
					rec["status"] = resp.StatusCode
				} else {
					rec["neterr"] = c13Trunc(err.Error(), 120)
					if !https {
						// the server drops the connection without an answer only when the handler
						// panicked: give its log line time to arrive
						time.Sleep(20 * time.Millisecond)
					}
				}
			})
			if tap != nil {
				if log := tap.take(); strings.Contains(log, "http: panic serving") {
					site, line := c13Frame(log)
					pv := log
					if i := strings.Index(log, "http: panic serving"); i >= 0 {
						pv = log[i:]
					}
					if i := strings.Index(pv, "\n"); i >= 0 {
						pv = pv[:i]
					}
					// a panic the server recovered itself: logged as a failed call of the same class
					e.w.Emit(vx.M{"ev": "handle", "c": c.ID, "q": q, "gen": gen, "ok": false, "recovered": "net/http",
						"pv": c13Trunc(pv, 200), "site": site, "line": line, "stack": c13Trunc(log, 2500)})
				}
			}
		}
	}
	handle(1)
	spec2, err := e.super.NewSpec(y)
	if err != nil {
		e.w.Emit(vx.M{"ev": "harnesserr", "c": c.ID, "err": "second validation differs: " + err.Error()})
		e.call("close", vx.M{}, func() { hs.Close() })
		return
	}
	hs2 := new(httpserver.HTTPServer)
	rec2 := vx.M{}
	if !e.call("inherit", rec2, func() {
		hs2.Inherit(spec2, hs, mapper)
		time.Sleep(2 * time.Millisecond)
		rec2["state"] = wait(hs2)
	}) {
		return
	}
	handle(2)
	e.call("close", vx.M{}, func() { hs2.Close() })
}

// ---------------------------------------------------------------------------------------- MQTTProxy
func (e *c13Env) renderMQTTProxy(c *c13Cfg) (c13M, int) {
	const K = "MQTTProxy"
	mp := c13M{"name": "c13-mqtt", "kind": K}
	port := 0
	switch v := c.f("port"); v {
	case "free":
		port = c13FreePort()
		mp["port"] = port
	case "0":
		mp["port"] = 0
	case "absent":
	default:
		c13Bad(K, "port", v)
	}
	switch v := c.f("tls"); v {
	case "-":
	case "nocert":
		mp["useTLS"] = true
	case "cert":
		mp["useTLS"] = true
		mp["certificate"] = c13L{c13M{"name": "a", "cert": e.certPEM, "key": e.keyPEM}}
	case "badcert":
		mp["useTLS"] = true
		mp["certificate"] = c13L{c13M{"name": "a", "cert": "garbage", "key": "garbage"}}
	case "certNoTLS":
		mp["certificate"] = c13L{c13M{"name": "a", "cert": "garbage", "key": "garbage"}}
	default:
		c13Bad(K, "tls", v)
	}
	c13Scalar(mp, "topicCacheSize", c.f("topicCacheSize"))
	c13Scalar(mp, "maxAllowedConnection", c.f("maxConn"))
	limit := func(class string) interface{} {
		switch class {
		case "req":
			return c13M{"requestRate": 1}
		case "bytes":
			return c13M{"bytesRate": 1}
		case "both":
			return c13M{"requestRate": 100, "bytesRate": 1000, "timePeriod": 1}
		case "zero":
			return c13M{"requestRate": 0, "bytesRate": 0, "timePeriod": 0}
		case "neg":
			return c13M{"requestRate": -1, "bytesRate": -1, "timePeriod": -1}
		case "emptyobj":
			return c13M{}
		}
		c13Bad(K, "limit", class)
		return nil
	}
	if v := c.f("connLimit"); v != "-" {
		mp["connectionLimit"] = limit(v)
	}
	if v := c.f("pubLimit"); v != "-" {
		mp["clientPublishLimit"] = limit(v)
	}
	switch v := c.f("rules"); v {
	case "-":
	case "connect":
		mp["rules"] = c13L{c13M{"when": c13M{"packetType": "Connect"}, "pipeline": "pl"}}
	case "publish":
		mp["rules"] = c13L{c13M{"when": c13M{"packetType": "Publish"}, "pipeline": "ghost"}}
	case "all":
		mp["rules"] = c13L{c13M{"when": c13M{"packetType": "Connect"}, "pipeline": "pl"}, c13M{"when": c13M{"packetType": "Publish"}, "pipeline": "pl"},
			c13M{"when": c13M{"packetType": "Subscribe"}, "pipeline": "pl"}, c13M{"when": c13M{"packetType": "Disconnect"}, "pipeline": "pl"}}
	case "noWhen":
		mp["rules"] = c13L{c13M{"pipeline": "pl"}}
	case "emptyWhen":
		mp["rules"] = c13L{c13M{"when": c13M{}, "pipeline": "pl"}}
	case "badType":
		mp["rules"] = c13L{c13M{"when": c13M{"packetType": "Ping"}, "pipeline": "pl"}}
	case "dup":
		mp["rules"] = c13L{c13M{"when": c13M{"packetType": "Publish"}, "pipeline": "pl"}, c13M{"when": c13M{"packetType": "Publish"}, "pipeline": "pl"}}
	case "noPipeline":
		mp["rules"] = c13L{c13M{"when": c13M{"packetType": "Publish"}}}
	case "null":
		mp["rules"] = c13L{nil}
	case "empty":
		mp["rules"] = c13L{}
	case "lowerType": // a valid packet type in another letter case
		mp["rules"] = c13L{c13M{"when": c13M{"packetType": "connect"}, "pipeline": "pl"}}
	default:
		c13Bad(K, "rules", v)
	}
	return mp, port
}

var c13MQTTReqs = []string{"connect", "pubsub"}

// c13NopMapper resolves the pipeline "pl" to a handler that does nothing: what the MQTT pipelines do is
// not the MQTTProxy spec's business (an HTTP pipeline behind an MQTT rule is a cross-object mistake
// outside this grammar).
type c13NopMapper struct{}
type c13NopHandler struct{}

func (c13NopHandler) Handle(*context.Context) string { return "" }
func (c13NopMapper) GetHandler(name string) (context.Handler, bool) {
	if name == "pl" {
		return c13NopHandler{}, true
	}
	return nil, false
}

func (e *c13Env) driveMQTTProxy(c *c13Cfg) {
	raw, port := e.renderMQTTProxy(c)
	e.applyPad(c, raw)
	y := c13YAML(raw)
	spec := e.validate(y)
	if spec == nil {
		return
	}
	mapper := c13NopMapper{}
	var mp *mqttproxy.MQTTProxy
	if !e.call("create", vx.M{}, func() { mp = new(mqttproxy.MQTTProxy) }) {
		return
	}
	if !e.call("init", vx.M{}, func() { mp.Init(spec, mapper) }) {
		return
	}
	handle := func(gen int) {
		if port == 0 || c.f("tls") == "cert" {
			return
		}
		for _, q := range c13MQTTReqs {
			rec := vx.M{"q": q, "gen": gen}
			e.call("handle", rec, func() {
				conn, err := net.DialTimeout("tcp", fmt.Sprintf("127.0.0.1:%d", port), time.Second)
				if err != nil {
					rec["neterr"] = c13Trunc(err.Error(), 120)
					return
				}
				defer conn.Close()
				conn.SetDeadline(time.Now().Add(120 * time.Millisecond))
				cp := packets.NewControlPacket(packets.Connect).(*packets.ConnectPacket)
				cp.ClientIdentifier = fmt.Sprintf("c13-%d-%s-%d", c.ID, q, gen)
				cp.ProtocolName, cp.ProtocolVersion, cp.CleanSession, cp.Keepalive = "MQTT", 4, true, 30
				cp.UsernameFlag, cp.Username, cp.PasswordFlag, cp.Password = true, "u", true, []byte("p")
				if err := cp.Write(conn); err != nil {
					rec["neterr"] = c13Trunc(err.Error(), 120)
					return
				}
				ack, err := packets.ReadPacket(conn)
				if err != nil {
					rec["neterr"] = c13Trunc(err.Error(), 120)
					return
				}
				if ca, ok := ack.(*packets.ConnackPacket); ok {
					rec["connack"] = int(ca.ReturnCode)
				}
				if q == "pubsub" {
					sp := packets.NewControlPacket(packets.Subscribe).(*packets.SubscribePacket)
					sp.MessageID, sp.Topics, sp.Qoss = 1, []string{"a/+", "b/#"}, []byte{1, 0}
					sp.Write(conn)
					packets.ReadPacket(conn)
					pp := packets.NewControlPacket(packets.Publish).(*packets.PublishPacket)
					pp.MessageID, pp.TopicName, pp.Qos, pp.Payload = 2, "a/x", 1, []byte("hello")
					pp.Write(conn)
					for i := 0; i < 2; i++ {
						if _, err := packets.ReadPacket(conn); err != nil {
							break
						}
					}
					up := packets.NewControlPacket(packets.Unsubscribe).(*packets.UnsubscribePacket)
					up.MessageID, up.Topics = 3, []string{"a/+"}
					up.Write(conn)
					packets.ReadPacket(conn)
				}
				packets.NewControlPacket(packets.Disconnect).Write(conn)
				time.Sleep(2 * time.Millisecond)
			})
		}
	}
	handle(1)
	spec2, err := e.super.NewSpec(y)
	if err != nil {
		e.w.Emit(vx.M{"ev": "harnesserr", "c": c.ID, "err": "second validation differs: " + err.Error()})
		e.call("close", vx.M{}, func() { mp.Close() })
		return
	}
	mp2 := new(mqttproxy.MQTTProxy)
	if !e.call("inherit", vx.M{}, func() { mp2.Inherit(spec2, mp, mapper) }) {
		return
	}
	handle(2)
	e.call("close", vx.M{}, func() { mp2.Close() })
}

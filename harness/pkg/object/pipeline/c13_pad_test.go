package pipeline_test

// C13: the value class "a valid value with leading / trailing white space" (grammar field "pad",
// ConfigSpaceGrammar!PadField), applied generically to every string of a rendered spec that one of the
// pkg/v formats (struct tag `jsonschema:"...,format=F"`) validates.
//
// Nothing here knows a field name: the places are found by walking the rendered raw spec side by side
// with the Go type the admin API unmarshals it into (the DefaultSpec() of the object / filter /
// resilience kind named by the spec's "kind"), exactly as pkg/v's recordFormat walks the typed value.
// A pad class "<family>_<lead|trail>" pads every string of that format family ("httpmethod-array" and
// "httpmethod" are one family). The validate event reports the families present in the spec ("fams")
// and how many strings were padded ("padded"), so that the driver can hold the grammar's carrier table
// against what the repository's types say.

import (
	"reflect"
	"sort"
	"strings"

	"github.com/megaease/easegress/pkg/filters"
	"github.com/megaease/easegress/pkg/object/globalfilter"
	"github.com/megaease/easegress/pkg/object/httpserver"
	"github.com/megaease/easegress/pkg/object/mqttproxy"
	"github.com/megaease/easegress/pkg/object/pipeline"
	"github.com/megaease/easegress/pkg/resilience"
	"github.com/megaease/easegress/pkg/supervisor"
)

type c13FmtSite struct {
	fam string
	get func() string
	set func(string)
}

// c13FmtFamily extracts the format of a jsonschema struct tag ("" = none); "x-array" belongs to family x.
func c13FmtFamily(tag string) string {
	for _, part := range strings.Split(tag, ",") {
		nv := strings.SplitN(part, "=", 2)
		if len(nv) == 2 && nv[0] == "format" {
			return strings.TrimSuffix(nv[1], "-array")
		}
	}
	return ""
}

var c13MetaType = reflect.TypeOf(supervisor.MetaSpec{})

// c13SpecType is the type a raw spec with a "kind" is unmarshalled into (nil: unknown kind).
func c13SpecType(kind string) reflect.Type {
	var v interface{}
	switch kind {
	case "Pipeline":
		v = new(pipeline.Pipeline).DefaultSpec()
	case "GlobalFilter":
		v = new(globalfilter.GlobalFilter).DefaultSpec()
	case "HTTPServer":
		v = new(httpserver.HTTPServer).DefaultSpec()
	case "MQTTProxy":
		v = new(mqttproxy.MQTTProxy).DefaultSpec()
	default:
		if k := filters.GetKind(kind); k != nil {
			v = k.DefaultSpec()
		} else if k := resilience.GetKind(kind); k != nil {
			v = k.DefaultPolicy()
		}
	}
	if v == nil {
		return nil
	}
	return reflect.TypeOf(v)
}

// c13WalkKinded walks a raw spec that names its own kind (objects, filters, resilience policies).
func c13WalkKinded(m map[string]interface{}, out *[]c13FmtSite) {
	kind, _ := m["kind"].(string)
	t := c13SpecType(kind)
	if t == nil {
		return
	}
	seen := map[string]bool{}
	c13WalkStruct(m, c13MetaType, out, seen)
	c13Walk(m, t, out, seen)
}

// c13Walk: raw value against the type it will be unmarshalled into. seen: keys of the current map that an
// inlined struct has handled already (MetaSpec is reachable twice for filters: directly and through
// the embedded BaseSpec).
func c13Walk(raw interface{}, t reflect.Type, out *[]c13FmtSite, seen map[string]bool) {
	if raw == nil {
		return
	}
	for t.Kind() == reflect.Ptr {
		t = t.Elem()
	}
	switch t.Kind() {
	case reflect.Struct:
		if m, ok := raw.(map[string]interface{}); ok {
			if seen == nil {
				seen = map[string]bool{}
			}
			c13WalkStruct(m, t, out, seen)
		}
	case reflect.Slice, reflect.Array:
		if l, ok := raw.([]interface{}); ok {
			for _, el := range l {
				c13Walk(el, t.Elem(), out, nil)
			}
		}
	case reflect.Map:
		m, ok := raw.(map[string]interface{})
		if !ok {
			return
		}
		if t.Elem().Kind() == reflect.Interface {
			// an embedded raw spec (pipeline filters, resilience policies)
			if _, has := m["kind"]; has {
				c13WalkKinded(m, out)
			}
			return
		}
		for _, v := range m {
			c13Walk(v, t.Elem(), out, nil)
		}
	case reflect.Interface:
		if m, ok := raw.(map[string]interface{}); ok {
			if _, has := m["kind"]; has {
				c13WalkKinded(m, out)
			}
		}
	}
}

func c13WalkStruct(m map[string]interface{}, t reflect.Type, out *[]c13FmtSite, seen map[string]bool) {
	for i := 0; i < t.NumField(); i++ {
		f := t.Field(i)
		tag := f.Tag.Get("yaml")
		name, opts := tag, ""
		if j := strings.IndexByte(tag, ','); j >= 0 {
			name, opts = tag[:j], tag[j+1:]
		}
		if strings.Contains(opts, "inline") || (f.Anonymous && name == "") {
			ft := f.Type
			for ft.Kind() == reflect.Ptr {
				ft = ft.Elem()
			}
			if ft.Kind() == reflect.Struct {
				c13WalkStruct(m, ft, out, seen)
			}
			continue
		}
		if f.PkgPath != "" || name == "-" {
			continue
		}
		if name == "" {
			name = strings.ToLower(f.Name)
		}
		v, present := m[name]
		if !present || v == nil || seen[name] {
			continue
		}
		seen[name] = true
		if fam := c13FmtFamily(f.Tag.Get("jsonschema")); fam != "" {
			switch x := v.(type) {
			case string:
				mm, key := m, name
				*out = append(*out, c13FmtSite{fam, func() string { return mm[key].(string) }, func(s string) { mm[key] = s }})
			case []interface{}:
				for idx := range x {
					if _, ok := x[idx].(string); ok {
						l, k := x, idx
						*out = append(*out, c13FmtSite{fam, func() string { return l[k].(string) }, func(s string) { l[k] = s }})
					}
				}
			}
		}
		c13Walk(v, f.Type, out, nil)
	}
}

// applyPad pads the rendered spec as the configuration's pad class says and remembers what it saw for
// the validate event.
func (e *c13Env) applyPad(c *c13Cfg, raw c13M) {
	var sites []c13FmtSite
	c13WalkKinded(raw, &sites)
	fams := map[string]bool{}
	for _, s := range sites {
		if s.get() != "" {
			fams[s.fam] = true
		}
	}
	var fl []string
	for f := range fams {
		fl = append(fl, f)
	}
	sort.Strings(fl)
	e.padFams, e.padded = fl, 0
	p := c.f("pad")
	if p == "-" {
		return
	}
	i := strings.LastIndexByte(p, '_')
	if i < 0 {
		c13Bad(c.Kind, "pad", p)
	}
	fam, pos := p[:i], p[i+1:]
	if pos != "lead" && pos != "trail" {
		c13Bad(c.Kind, "pad", p)
	}
	for _, s := range sites {
		v := s.get()
		if s.fam != fam || v == "" {
			continue
		}
		if pos == "lead" {
			s.set(" " + v)
		} else {
			s.set(v + " ")
		}
		e.padded++
	}
}

// padInfo adds what applyPad saw to the validate event.
func (e *c13Env) padInfo(rec map[string]interface{}) {
	if e.padFams == nil {
		rec["fams"] = []string{}
	} else {
		rec["fams"] = e.padFams
	}
	rec["padded"] = e.padded
}

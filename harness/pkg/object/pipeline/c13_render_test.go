package pipeline_test

// C13: concretisation of the abstract grammar of specs/ConfigSpace.tla. Every function maps the value
// classes of one kind to the raw spec (a YAML-able map) the admin API would receive. Class "-" always
// means "field absent". An unknown class is a harness/spec mismatch (event "rendererr" -> exit 2).

import (
	"fmt"
	"strconv"
)

type c13M = map[string]interface{}
type c13L = []interface{}

type c13RenderErr struct{ msg string }

func c13Bad(kind, field, class string) {
	panic(c13RenderErr{fmt.Sprintf("kind %s: field %s has unknown class %q", kind, field, class)})
}

// c13Scalar sets m[key] from a literal class: "-" absent, "null" YAML null, integers and floats are
// typed, everything else is a string ("empty" = "").
func c13Scalar(m c13M, key, class string) {
	switch class {
	case "-":
		return
	case "null":
		m[key] = nil
	case "empty":
		m[key] = ""
	case "true":
		m[key] = true
	case "false":
		m[key] = false
	default:
		if i, err := strconv.Atoi(class); err == nil {
			m[key] = i
		} else if f, err := strconv.ParseFloat(class, 64); err == nil {
			m[key] = f
		} else {
			m[key] = class
		}
	}
}

// c13Str sets m[key] to the class text itself (durations, names), "-" absent.
func c13Str(m c13M, key, class string) {
	if class == "-" {
		return
	}
	m[key] = class
}

// ---------------------------------------------------------------------------------------- Proxy
func (e *c13Env) renderProxy(c *c13Cfg) (c13M, c13L) {
	const K = "Proxy"
	raw := c13M{"name": "flt", "kind": K}
	server := func(url string) c13M { return c13M{"url": url} }
	var servers c13L
	main := c13M{}
	switch c.f("servers") {
	case "one":
		servers = c13L{server(e.live)}
	case "two":
		servers = c13L{server(e.live), server(e.live2)}
	case "dead":
		servers = c13L{server(e.dead)}
	case "hostname":
		servers = c13L{server("http://localhost:1")}
	case "badurl":
		servers = c13L{server("http://[::1")}
	case "nourl":
		servers = c13L{c13M{"weight": 1}}
	case "null":
		servers = c13L{nil}
	case "empty":
		servers = c13L{}
	case "none":
		servers = nil
	case "svcname":
		servers = nil
		main["serviceName"] = "svc"
	default:
		c13Bad(K, "servers", c.f("servers"))
	}
	switch w := c.f("weights"); w {
	case "-":
	case "all", "zero", "some", "neg":
		for i, s := range servers {
			sm, ok := s.(c13M)
			if !ok {
				continue
			}
			switch w {
			case "all":
				sm["weight"] = i + 1
			case "zero":
				sm["weight"] = 0
			case "neg":
				sm["weight"] = -1
			case "some":
				if i == 0 {
					sm["weight"] = 2
				}
			}
		}
	default:
		c13Bad(K, "weights", w)
	}
	if servers != nil {
		main["servers"] = servers
	}
	lb := c13M{}
	switch p := c.f("lb"); p {
	case "-":
		lb = nil
	case "emptyobj":
	case "roundRobin", "random", "weightedRandom", "ipHash", "headerHash", "bogus",
		"RoundRobin", "IPHASH": // the last two: valid policies in another letter case
		lb["policy"] = p
	default:
		c13Bad(K, "lb", p)
	}
	if hk := c.f("hashkey"); hk != "-" {
		if lb == nil {
			lb = c13M{}
		}
		lb["headerHashKey"] = hk
	}
	if lb != nil {
		main["loadBalance"] = lb
	}
	c13Str(main, "timeout", c.f("timeout"))
	switch r := c.f("retry"); r {
	case "-":
	case "r1", "cb1", "undef", "rwait":
		main["retryPolicy"] = r
	default:
		c13Bad(K, "retry", r)
	}
	switch r := c.f("cb"); r {
	case "-":
	case "r1", "cb1", "undef":
		main["circuitBreakerPolicy"] = r
	default:
		c13Bad(K, "cb", r)
	}
	switch fc := c.f("failureCodes"); fc {
	case "-":
	case "200":
		main["failureCodes"] = c13L{200}
	case "503":
		main["failureCodes"] = c13L{503, 500}
	case "empty":
		main["failureCodes"] = c13L{}
	case "999":
		main["failureCodes"] = c13L{999, -1}
	default:
		c13Bad(K, "failureCodes", fc)
	}
	mc := func(class string) c13M {
		ok := c13M{"expiration": "1s", "maxEntryBytes": 4096, "codes": c13L{200}, "methods": c13L{"GET", "POST"}}
		switch class {
		case "ok":
		case "exp0":
			ok["expiration"] = "0s"
		case "expNeg":
			ok["expiration"] = "-1s"
		case "badExp":
			ok["expiration"] = "soon"
		case "zeroBytes":
			ok["maxEntryBytes"] = 0
		case "noMethods":
			ok["methods"] = c13L{}
		case "noCodes":
			delete(ok, "codes")
		case "lowerMethods": // valid methods in another letter case
			ok["methods"] = c13L{"get", "post"}
		case "emptyobj":
			return c13M{}
		default:
			c13Bad(K, "memoryCache", class)
		}
		return ok
	}
	if v := c.f("memoryCache"); v != "-" {
		main["memoryCache"] = mc(v)
	}
	switch v := c.f("maxBody"); v {
	case "-":
	default:
		c13Scalar(main, "serverMaxBodySize", v)
	}
	matcher := func(class string) interface{} {
		switch class {
		case "hdr":
			return c13M{"headers": c13M{"X-A": c13M{"exact": "1"}}}
		case "hdrAll":
			return c13M{"matchAllHeaders": true, "headers": c13M{"X-A": c13M{"prefix": "1"}, "X-B": c13M{"empty": true}}}
		case "regex":
			return c13M{"policy": "general", "headers": c13M{"X-A": c13M{"regex": "^[0-9]+$"}}}
		case "badregex":
			return c13M{"headers": c13M{"X-A": c13M{"regex": "("}}}
		case "urls":
			return c13M{"headers": c13M{"X-A": c13M{"exact": "1"}},
				"urls": c13L{c13M{"methods": c13L{"POST"}, "url": c13M{"regex": "^/api"}}}}
		case "urlNoMatch":
			return c13M{"headers": c13M{"X-A": c13M{"exact": "1"}}, "urls": c13L{c13M{"url": c13M{}}}}
		case "urlNull":
			return c13M{"headers": c13M{"X-A": c13M{"exact": "1"}}, "urls": c13L{nil}}
		case "nullhdr":
			return c13M{"headers": c13M{"X-A": nil}}
		case "emptyhdr":
			return c13M{"headers": c13M{"X-A": c13M{}}}
		case "noHeaders":
			return c13M{"policy": "general"}
		case "emptyobj":
			return c13M{}
		case "ipHash":
			return c13M{"policy": "ipHash", "permil": 500}
		case "ipHashRegexHdr":
			return c13M{"policy": "ipHash", "permil": 1000, "headers": c13M{"X-A": c13M{"regex": "^1"}}}
		case "random1000":
			return c13M{"policy": "random", "permil": 1000}
		case "permil0":
			return c13M{"policy": "random", "permil": 0}
		case "permil1001":
			return c13M{"policy": "random", "permil": 1001}
		case "headerHash":
			return c13M{"policy": "headerHash", "permil": 1000, "headerHashKey": "X-A"}
		case "headerHashNoKey":
			return c13M{"policy": "headerHash", "permil": 1000}
		case "bogus":
			return c13M{"policy": "bogus", "permil": 10}
		case "policyUpper": // a valid policy in another letter case
			return c13M{"policy": "RANDOM", "permil": 1000}
		case "urlsLowerMethod": // a valid method in another letter case
			return c13M{"headers": c13M{"X-A": c13M{"exact": "1"}},
				"urls": c13L{c13M{"methods": c13L{"get"}, "url": c13M{"prefix": "/"}}}}
		}
		c13Bad(K, "matcher", class)
		return nil
	}
	var pools c13L
	switch mp := c.f("mainPools"); mp {
	case "one":
		pools = c13L{main}
	case "zero":
		pools = c13L{}
	case "two":
		pools = c13L{main, c13M{"servers": c13L{server(e.live)}}}
	case "absent":
		pools = nil
	case "null":
		pools = c13L{main, nil}
	default:
		c13Bad(K, "mainPools", mp)
	}
	if cd := c.f("candidate"); cd != "-" {
		cand := c13M{"servers": c13L{server(e.live2)}, "filter": matcher(cd)}
		// the candidate pool carries the same resilience references and balancer as the main pool
		for _, k := range []string{"retryPolicy", "circuitBreakerPolicy", "loadBalance", "timeout"} {
			if v, ok := main[k]; ok {
				cand[k] = v
			}
		}
		pools = append(c13L{cand}, pools...)
	}
	if pools != nil {
		raw["pools"] = pools
	}
	switch m := c.f("mirror"); m {
	case "-":
	case "ok":
		raw["mirrorPool"] = c13M{"servers": c13L{server(e.live)}, "filter": matcher("random1000")}
	case "hdr":
		raw["mirrorPool"] = c13M{"servers": c13L{server(e.live)}, "filter": matcher("hdr")}
	case "dead":
		raw["mirrorPool"] = c13M{"servers": c13L{server(e.dead)}, "filter": matcher("random1000")}
	case "nofilter":
		raw["mirrorPool"] = c13M{"servers": c13L{server(e.live)}}
	case "withcache":
		raw["mirrorPool"] = c13M{"servers": c13L{server(e.live)}, "filter": matcher("random1000"), "memoryCache": mc("ok")}
	case "noservers":
		raw["mirrorPool"] = c13M{"filter": matcher("random1000")}
	case "wrnd":
		raw["mirrorPool"] = c13M{"servers": c13L{server(e.live)}, "filter": matcher("random1000"),
			"loadBalance": c13M{"policy": "weightedRandom"}}
	default:
		c13Bad(K, "mirror", m)
	}
	switch v := c.f("compression"); v {
	case "-":
	case "emptyobj":
		raw["compression"] = c13M{}
	default:
		cm := c13M{}
		c13Scalar(cm, "minLength", v)
		raw["compression"] = cm
	}
	switch v := c.f("mtls"); v {
	case "-":
	case "badb64":
		raw["mtls"] = c13M{"certBase64": "!!!", "keyBase64": "!!!", "rootCertBase64": "!!!"}
	case "garbage":
		raw["mtls"] = c13M{"certBase64": "Z2FyYmFnZQ==", "keyBase64": "Z2FyYmFnZQ==", "rootCertBase64": "Z2FyYmFnZQ=="}
	case "partial":
		raw["mtls"] = c13M{"certBase64": "Z2FyYmFnZQ=="}
	default:
		c13Bad(K, "mtls", v)
	}
	c13Scalar(raw, "maxIdleConns", c.f("maxIdle"))
	c13Scalar(raw, "maxIdleConnsPerHost", c.f("maxIdleHost"))
	c13Scalar(raw, "serverMaxBodySize", c.f("topMaxBody"))
	var res c13L
	switch r := c.f("resdef"); r {
	case "both", "-":
		// rwait: a back-off long enough for a request's deadline to expire in it (request class "expire")
		res = c13L{c13M{"name": "r1", "kind": "Retry", "maxAttempts": 2, "waitDuration": "1ms"},
			c13M{"name": "rwait", "kind": "Retry", "maxAttempts": 2, "waitDuration": "40ms"},
			c13M{"name": "cb1", "kind": "CircuitBreaker", "slidingWindowSize": 4, "minimumNumberOfCalls": 2, "waitDurationInOpenState": "5ms"}}
	case "none":
	default:
		c13Bad(K, "resdef", r)
	}
	return raw, res
}

// ---------------------------------------------------------------------------------------- Validator
func (e *c13Env) renderValidator(c *c13Cfg) (c13M, c13L) {
	const K = "Validator"
	raw := c13M{"name": "flt", "kind": K}
	switch v := c.f("headers"); v {
	case "-":
	case "values":
		raw["headers"] = c13M{"X-A": c13M{"values": c13L{"1", "v"}}}
	case "regexp":
		raw["headers"] = c13M{"X-A": c13M{"regexp": "^[0-9a-z]+$"}}
	case "emptyval":
		raw["headers"] = c13M{"X-A": c13M{}}
	case "null":
		raw["headers"] = c13M{"X-A": nil}
	case "badre":
		raw["headers"] = c13M{"X-A": c13M{"regexp": "("}}
	case "emptyobj":
		raw["headers"] = c13M{}
	default:
		c13Bad(K, "headers", v)
	}
	switch v := c.f("jwt"); v {
	case "-":
	case "HS256":
		raw["jwt"] = c13M{"algorithm": "HS256", "secret": "313233"}
	case "HS512":
		raw["jwt"] = c13M{"algorithm": "HS512", "secret": "313233"}
	case "cookie":
		raw["jwt"] = c13M{"algorithm": "HS256", "secret": "313233", "cookieName": "token"}
	case "noSecret":
		raw["jwt"] = c13M{"algorithm": "HS256"}
	case "noAlg":
		raw["jwt"] = c13M{"secret": "313233"}
	case "badAlg":
		raw["jwt"] = c13M{"algorithm": "RS256", "secret": "313233"}
	case "oddSecret":
		raw["jwt"] = c13M{"algorithm": "HS256", "secret": "abc"}
	case "emptyobj":
		raw["jwt"] = c13M{}
	case "lowerAlg": // a valid algorithm in another letter case
		raw["jwt"] = c13M{"algorithm": "hs256", "secret": "313233"}
	default:
		c13Bad(K, "jwt", v)
	}
	switch v := c.f("sig"); v {
	case "-":
	case "keys":
		raw["signature"] = c13M{"accessKeys": c13M{"k": "s"}}
	case "emptyobj":
		raw["signature"] = c13M{}
	case "emptyKeys":
		raw["signature"] = c13M{"accessKeys": c13M{}}
	case "idOnly":
		raw["signature"] = c13M{"accessKeyId": "k", "accessKeySecret": "s"}
	case "ttl":
		raw["signature"] = c13M{"accessKeys": c13M{"k": "s"}, "ttl": "1m", "excludeBody": true, "ignoredHeaders": c13L{"X-A"}}
	case "badTTL":
		raw["signature"] = c13M{"accessKeys": c13M{"k": "s"}, "ttl": "soon"}
	case "literalPartial":
		raw["signature"] = c13M{"accessKeys": c13M{"k": "s"}, "literal": c13M{"scopeSuffix": "x"}}
	case "literalFull":
		raw["signature"] = c13M{"accessKeys": c13M{"k": "s"}, "literal": c13M{"scopeSuffix": "x", "algorithmName": "X-A", "algorithmValue": "V",
			"signedHeaders": "X-S", "signature": "X-Sig", "date": "X-D", "expires": "X-E", "credential": "X-C", "contentSha256": "X-H"}}
	case "hoist":
		raw["signature"] = c13M{"accessKeys": c13M{"k": "s"}, "headerHoisting": c13M{"allowedPrefix": c13L{"X-"}, "disallowed": c13L{"X-A"}}}
	case "emptySecret": // every key of the store has an empty secret
		raw["signature"] = c13M{"accessKeys": c13M{"k": ""}}
	case "emptyId": // the only key has an empty id
		raw["signature"] = c13M{"accessKeys": c13M{"": "s"}}
	case "nullSecret":
		raw["signature"] = c13M{"accessKeys": c13M{"k": nil}}
	case "mixedEmpty":
		raw["signature"] = c13M{"accessKeys": c13M{"k": "s", "k2": "", "": "s3"}}
	case "idNoSecret": // signing credential without a secret next to a key store
		raw["signature"] = c13M{"accessKeyId": "k", "accessKeys": c13M{"k": "s"}}
	default:
		c13Bad(K, "sig", v)
	}
	switch v := c.f("oauth2"); v {
	case "-":
	case "jwt":
		raw["oauth2"] = c13M{"jwt": c13M{"algorithm": "HS256", "secret": "313233"}}
	case "jwtNoSecret":
		raw["oauth2"] = c13M{"jwt": c13M{"algorithm": "HS256"}}
	case "emptyobj":
		raw["oauth2"] = c13M{}
	case "introspectLive":
		raw["oauth2"] = c13M{"tokenIntrospect": c13M{"endPoint": e.live + "/introspect", "clientId": "id", "clientSecret": "s"}}
	case "introspectBasic":
		raw["oauth2"] = c13M{"tokenIntrospect": c13M{"endPoint": e.live + "/introspect", "basicAuth": "dTpw", "insecureTls": true}}
	case "introspectDead":
		raw["oauth2"] = c13M{"tokenIntrospect": c13M{"endPoint": e.dead + "/introspect"}}
	case "introspectBadURL":
		raw["oauth2"] = c13M{"tokenIntrospect": c13M{"endPoint": "http://[::1/introspect"}}
	case "introspectNoEnd":
		raw["oauth2"] = c13M{"tokenIntrospect": c13M{"clientId": "id"}}
	case "both":
		raw["oauth2"] = c13M{"jwt": c13M{"algorithm": "HS256", "secret": "313233"}, "tokenIntrospect": c13M{"endPoint": e.live + "/introspect"}}
	case "jwtLowerAlg":
		raw["oauth2"] = c13M{"jwt": c13M{"algorithm": "hs256", "secret": "313233"}}
	default:
		c13Bad(K, "oauth2", v)
	}
	switch v := c.f("basicAuth"); v {
	case "-":
	case "fileOk":
		raw["basicAuth"] = c13M{"mode": "FILE", "userFile": e.htpasswd}
	case "fileMissing":
		raw["basicAuth"] = c13M{"mode": "FILE", "userFile": e.missing}
	case "emptyobj":
		raw["basicAuth"] = c13M{}
	case "etcd":
		raw["basicAuth"] = c13M{"mode": "ETCD"}
	case "etcdPrefix":
		raw["basicAuth"] = c13M{"mode": "ETCD", "etcdPrefix": "/creds/"}
	case "badMode":
		raw["basicAuth"] = c13M{"mode": "LDAP"}
	case "lowerMode": // a valid mode in another letter case
		raw["basicAuth"] = c13M{"mode": "file", "userFile": e.htpasswd}
	default:
		c13Bad(K, "basicAuth", v)
	}
	return raw, nil
}

// ---------------------------------------------------------------------------------------- RateLimiter
func (e *c13Env) renderRateLimiter(c *c13Cfg) (c13M, c13L) {
	const K = "RateLimiter"
	raw := c13M{"name": "flt", "kind": K}
	pol := c13M{"name": "p1"}
	c13Str(pol, "limitRefreshPeriod", c.f("refresh"))
	c13Str(pol, "timeoutDuration", c.f("timeout"))
	c13Scalar(pol, "limitForPeriod", c.f("limit"))
	switch v := c.f("policies"); v {
	case "one":
		raw["policies"] = c13L{pol}
	case "two":
		raw["policies"] = c13L{c13M{"name": "p0"}, pol}
	case "dup":
		raw["policies"] = c13L{pol, c13M{"name": "p1", "limitForPeriod": 7}}
	case "noName":
		delete(pol, "name")
		raw["policies"] = c13L{pol}
	case "none":
		raw["policies"] = c13L{}
	case "null":
		raw["policies"] = c13L{nil, pol}
	case "absent":
	default:
		c13Bad(K, "policies", v)
	}
	switch v := c.f("defaultRef"); v {
	case "-":
	case "p1", "undef":
		raw["defaultPolicyRef"] = v
	default:
		c13Bad(K, "defaultRef", v)
	}
	u := func(m c13M, ref string) c13M {
		r := c13M{"url": m}
		if ref != "" {
			r["policyRef"] = ref
		}
		return r
	}
	switch v := c.f("urls"); v {
	case "one":
		raw["urls"] = c13L{u(c13M{"prefix": "/"}, "p1")}
	case "exact":
		raw["urls"] = c13L{u(c13M{"exact": "/a"}, "p1")}
	case "regex":
		raw["urls"] = c13L{u(c13M{"regex": "^/(a|api)"}, "p1")}
	case "badregex":
		raw["urls"] = c13L{u(c13M{"regex": "("}, "p1")}
	case "emptyMatch":
		raw["urls"] = c13L{u(c13M{}, "p1")}
	case "emptyTrue":
		raw["urls"] = c13L{u(c13M{"empty": true}, "p1")}
	case "noURL":
		raw["urls"] = c13L{c13M{"policyRef": "p1"}}
	case "methods":
		raw["urls"] = c13L{c13M{"methods": c13L{"GET"}, "url": c13M{"prefix": "/"}, "policyRef": "p1"}}
	case "badMethod":
		raw["urls"] = c13L{c13M{"methods": c13L{"FETCH"}, "url": c13M{"prefix": "/"}, "policyRef": "p1"}}
	case "lowerMethod": // a valid method in another letter case
		raw["urls"] = c13L{c13M{"methods": c13L{"get"}, "url": c13M{"prefix": "/"}, "policyRef": "p1"}}
	case "noRef":
		raw["urls"] = c13L{u(c13M{"prefix": "/"}, "")}
	case "undefRef":
		raw["urls"] = c13L{u(c13M{"prefix": "/"}, "undef")}
	case "two":
		raw["urls"] = c13L{u(c13M{"exact": "/a"}, "p1"), u(c13M{"prefix": "/"}, "")}
	case "none":
		raw["urls"] = c13L{}
	case "null":
		raw["urls"] = c13L{nil}
	case "absent":
	default:
		c13Bad(K, "urls", v)
	}
	return raw, nil
}

// ---------------------------------------------------------------------------------------- adaptors
func c13AdaptHeader(K, class string) interface{} {
	switch class {
	case "set":
		return c13M{"set": c13M{"X-Set": "1"}}
	case "add":
		return c13M{"add": c13M{"X-Add": "1", "X-A": "2"}}
	case "del":
		return c13M{"del": c13L{"X-A", "Content-Length"}}
	case "all":
		return c13M{"del": c13L{"X-A"}, "set": c13M{"Host": "h"}, "add": c13M{"": "x"}}
	case "nullval":
		return c13M{"set": c13M{"X-Set": nil}, "del": c13L{nil}}
	case "emptyobj":
		return c13M{}
	}
	c13Bad(K, "header", class)
	return nil
}

func (e *c13Env) renderRequestAdaptor(c *c13Cfg) (c13M, c13L) {
	const K = "RequestAdaptor"
	raw := c13M{"name": "flt", "kind": K}
	c13Str(raw, "host", c.f("host"))
	c13Str(raw, "method", c.f("method"))
	switch v := c.f("path"); v {
	case "-":
	case "replace":
		raw["path"] = c13M{"replace": "/r"}
	case "addPrefix":
		raw["path"] = c13M{"addPrefix": "/p"}
	case "trimPrefix":
		raw["path"] = c13M{"trimPrefix": "/api"}
	case "regexp":
		raw["path"] = c13M{"regexpReplace": c13M{"regexp": "^/([a-z]+)", "replace": "/x/$1"}}
	case "badregexp":
		raw["path"] = c13M{"regexpReplace": c13M{"regexp": "(", "replace": "/x"}}
	case "noregexp":
		raw["path"] = c13M{"regexpReplace": c13M{"replace": "/x"}}
	case "noSlash":
		raw["path"] = c13M{"addPrefix": "p"}
	case "emptyobj":
		raw["path"] = c13M{}
	case "all":
		raw["path"] = c13M{"replace": "/r", "addPrefix": "/p", "trimPrefix": "/t", "regexpReplace": c13M{"regexp": "a", "replace": "b"}}
	default:
		c13Bad(K, "path", v)
	}
	if v := c.f("header"); v != "-" {
		raw["header"] = c13AdaptHeader(K, v)
	}
	c13Str(raw, "body", c.f("body"))
	c13Str(raw, "compress", c.f("compress"))
	c13Str(raw, "decompress", c.f("decompress"))
	return raw, nil
}

func (e *c13Env) renderResponseAdaptor(c *c13Cfg) (c13M, c13L) {
	const K = "ResponseAdaptor"
	raw := c13M{"name": "flt", "kind": K}
	if v := c.f("header"); v != "-" {
		raw["header"] = c13AdaptHeader(K, v)
	}
	c13Str(raw, "body", c.f("body"))
	c13Str(raw, "compress", c.f("compress"))
	c13Str(raw, "decompress", c.f("decompress"))
	return raw, nil
}

// ---------------------------------------------------------------------------------------- builders
func (e *c13Env) renderBuilder(c *c13Cfg) (c13M, c13L) {
	K := c.Kind
	raw := c13M{"name": "flt", "kind": K}
	l, r := "{{", "}}"
	if v := c.f("leftDelim"); v != "-" {
		raw["leftDelim"] = v
		l = v
	}
	if v := c.f("rightDelim"); v != "-" {
		raw["rightDelim"] = v
		r = v
	}
	isReq := K == "RequestBuilder"
	okT := "statusCode: 201\nbody: hello\nheaders:\n  X-B: [\"1\"]\n"
	if isReq {
		okT = "method: post\nurl: /built\nbody: hello\nheaders:\n  X-B: [\"1\"]\n"
	}
	switch v := c.f("template"); v {
	case "-":
	case "ok":
		raw["template"] = okT
	case "useReq":
		raw["template"] = okT + "x: " + l + " .requests.DEFAULT.Method " + r + "\n"
	case "useBody":
		raw["template"] = "body: " + l + " .requests.DEFAULT.Body | quote " + r + "\n"
	case "useJSON":
		raw["template"] = "body: " + l + " .requests.DEFAULT.JSONBody.a " + r + "\n"
	case "useResp":
		raw["template"] = "body: " + l + " .responses.DEFAULT.Body | quote " + r + "\n"
	case "missingNs":
		raw["template"] = "body: " + l + " .requests.nope.Method " + r + "\n"
	case "syntaxErr":
		raw["template"] = "body: " + l + " .x "
	case "badFunc":
		raw["template"] = "body: " + l + " nosuchfunc 1 " + r + "\n"
	case "divzero":
		raw["template"] = "body: " + l + " divf 1 0 " + r + "\n"
	case "notYaml":
		raw["template"] = "a: b: c: [\n"
	case "badMethod":
		raw["template"] = "method: fetch\nstatusCode: 99999\nurl: \"http://[::1\"\n"
	case "scalar":
		raw["template"] = "just a string"
	case "emptyDoc":
		raw["template"] = "\n"
	default:
		c13Bad(K, "template", v)
	}
	c13Str(raw, "sourceNamespace", c.f("sourceNamespace"))
	c13Str(raw, "protocol", c.f("protocol"))
	return raw, nil
}

// ---------------------------------------------------------------------------------------- Mock
func (e *c13Env) renderMock(c *c13Cfg) (c13M, c13L) {
	const K = "Mock"
	raw := c13M{"name": "flt", "kind": K}
	match := c13M{}
	switch v := c.f("matchPath"); v {
	case "-":
	case "exact":
		match["path"] = "/a"
	case "prefix":
		match["pathPrefix"] = "/"
	case "both":
		match["path"] = "/a"
		match["pathPrefix"] = "/api"
	case "noSlash":
		match["path"] = "a"
	default:
		c13Bad(K, "matchPath", v)
	}
	switch v := c.f("matchHeaders"); v {
	case "-":
	case "exact":
		match["headers"] = c13M{"X-A": c13M{"exact": "1"}}
	case "emptyTrue":
		match["headers"] = c13M{"X-A": c13M{"empty": true}}
	case "regex":
		match["headers"] = c13M{"X-A": c13M{"regex": "^[0-9]$"}}
	case "badregex":
		match["headers"] = c13M{"X-A": c13M{"regex": "("}}
	case "null":
		match["headers"] = c13M{"X-A": nil}
	case "emptyval":
		match["headers"] = c13M{"X-A": c13M{}}
	case "conflict":
		match["headers"] = c13M{"X-A": c13M{"empty": true, "exact": "1"}}
	case "two":
		match["headers"] = c13M{"X-A": c13M{"exact": "1"}, "X-B": c13M{"prefix": "b"}}
	default:
		c13Bad(K, "matchHeaders", v)
	}
	c13Scalar(match, "matchAllHeaders", c.f("matchAll"))
	rule := c13M{"match": match}
	c13Scalar(rule, "code", c.f("code"))
	c13Str(rule, "delay", c.f("delay"))
	c13Str(rule, "body", c.f("body"))
	switch v := c.f("headers"); v {
	case "-":
	case "set":
		rule["headers"] = c13M{"X-M": "1", "Content-Type": "text/plain"}
	case "nullval":
		rule["headers"] = c13M{"X-M": nil}
	default:
		c13Bad(K, "headers", v)
	}
	switch v := c.f("rules"); v {
	case "one":
		raw["rules"] = c13L{rule}
	case "two":
		raw["rules"] = c13L{c13M{"match": c13M{"path": "/never"}, "code": 204}, rule}
	case "noMatch":
		delete(rule, "match")
		raw["rules"] = c13L{rule}
	case "none":
		raw["rules"] = c13L{}
	case "null":
		raw["rules"] = c13L{nil}
	case "nullThenOne":
		raw["rules"] = c13L{rule, nil}
	case "absent":
	default:
		c13Bad(K, "rules", v)
	}
	return raw, nil
}

// ---------------------------------------------------------------------------------------- Fallback
func (e *c13Env) renderFallback(c *c13Cfg) (c13M, c13L) {
	const K = "Fallback"
	raw := c13M{"name": "flt", "kind": K}
	c13Scalar(raw, "mockCode", c.f("mockCode"))
	switch v := c.f("mockHeaders"); v {
	case "-":
	case "set":
		raw["mockHeaders"] = c13M{"X-F": "1", "Content-Length": "999"}
	case "nullval":
		raw["mockHeaders"] = c13M{"X-F": nil}
	default:
		c13Bad(K, "mockHeaders", v)
	}
	c13Str(raw, "mockBody", c.f("mockBody"))
	return raw, nil
}

// ---------------------------------------------------------------------------------------- CORSAdaptor
func (e *c13Env) renderCORS(c *c13Cfg) (c13M, c13L) {
	const K = "CORSAdaptor"
	raw := c13M{"name": "flt", "kind": K}
	list := func(key, class string, vals map[string]c13L) {
		if class == "-" {
			return
		}
		v, ok := vals[class]
		if !ok {
			c13Bad(K, key, class)
		}
		raw[key] = v
	}
	list("allowedOrigins", c.f("origins"), map[string]c13L{"star": {"*"}, "one": {"http://o.example"}, "wild": {"http://*.example"},
		"twoWild": {"http://*.*.example", "*"}, "empty": {}, "nullval": {nil}, "emptystr": {""}})
	list("allowedMethods", c.f("methods"), map[string]c13L{"GET": {"GET", "POST"}, "bogus": {"FETCH"}, "dup": {"GET", "GET"}, "empty": {}, "lower": {"get"}})
	list("allowedHeaders", c.f("headers"), map[string]c13L{"star": {"*"}, "one": {"X-A"}, "empty": {}, "emptystr": {""}})
	list("exposedHeaders", c.f("exposed"), map[string]c13L{"one": {"X-E"}, "empty": {}})
	c13Scalar(raw, "allowCredentials", c.f("credentials"))
	c13Scalar(raw, "maxAge", c.f("maxAge"))
	c13Scalar(raw, "supportCORSRequest", c.f("support"))
	return raw, nil
}

// ---------------------------------------------------------------------------------------- HeaderLookup
func (e *c13Env) renderHeaderLookup(c *c13Cfg) (c13M, c13L) {
	const K = "HeaderLookup"
	raw := c13M{"name": "flt", "kind": K}
	c13Str(raw, "headerKey", c.f("headerKey"))
	if c.f("headerKey") == "empty" {
		raw["headerKey"] = ""
	}
	c13Str(raw, "etcdPrefix", c.f("etcdPrefix"))
	if c.f("etcdPrefix") == "empty" {
		raw["etcdPrefix"] = ""
	}
	switch v := c.f("pathRegExp"); v {
	case "-":
	case "plain":
		raw["pathRegExp"] = "^/api"
	case "group":
		raw["pathRegExp"] = "^/([a-z]+)"
	case "bad":
		raw["pathRegExp"] = "("
	default:
		c13Bad(K, "pathRegExp", v)
	}
	switch v := c.f("setters"); v {
	case "one":
		raw["headerSetters"] = c13L{c13M{"etcdKey": "ek", "headerKey": "X-Found"}}
	case "two":
		raw["headerSetters"] = c13L{c13M{"etcdKey": "ek", "headerKey": "X-Found"}, c13M{"etcdKey": "nokey", "headerKey": "X-No"}}
	case "noEtcdKey":
		raw["headerSetters"] = c13L{c13M{"headerKey": "X-Found"}}
	case "noHeaderKey":
		raw["headerSetters"] = c13L{c13M{"etcdKey": "ek"}}
	case "none":
		raw["headerSetters"] = c13L{}
	case "null":
		raw["headerSetters"] = c13L{nil}
	case "absent":
	default:
		c13Bad(K, "setters", v)
	}
	return raw, nil
}

// ---------------------------------------------------------------------------------------- HeaderToJSON
func (e *c13Env) renderHeaderToJSON(c *c13Cfg) (c13M, c13L) {
	const K = "HeaderToJSON"
	raw := c13M{"name": "flt", "kind": K}
	switch v := c.f("headerMap"); v {
	case "one":
		raw["headerMap"] = c13L{c13M{"header": "X-A", "json": "a"}}
	case "two":
		raw["headerMap"] = c13L{c13M{"header": "X-A", "json": "a"}, c13M{"header": "x-a", "json": "b"}}
	case "noJSON":
		raw["headerMap"] = c13L{c13M{"header": "X-A"}}
	case "emptyJSON":
		raw["headerMap"] = c13L{c13M{"header": "X-A", "json": ""}}
	case "none":
		raw["headerMap"] = c13L{}
	case "null":
		raw["headerMap"] = c13L{nil}
	case "absent":
	default:
		c13Bad(K, "headerMap", v)
	}
	return raw, nil
}

// ---------------------------------------------------------------------------------------- MeshAdaptor
func (e *c13Env) renderMeshAdaptor(c *c13Cfg) (c13M, c13L) {
	const K = "MeshAdaptor"
	raw := c13M{"name": "flt", "kind": K}
	canary := c13M{}
	if v := c.f("header"); v != "-" {
		canary["header"] = c13AdaptHeader(K, v)
	}
	switch v := c.f("filter"); v {
	case "-":
	case "hdr":
		canary["filter"] = c13M{"headers": c13M{"X-A": c13M{"exact": "1"}}}
	case "regex":
		canary["filter"] = c13M{"headers": c13M{"X-A": c13M{"regex": "^1"}}}
	case "random":
		canary["filter"] = c13M{"policy": "random", "permil": 1000}
	case "noHeaders":
		canary["filter"] = c13M{}
	case "nullhdr":
		canary["filter"] = c13M{"headers": c13M{"X-A": nil}}
	case "policyUpper": // a valid policy in another letter case
		canary["filter"] = c13M{"policy": "RANDOM", "permil": 1000}
	default:
		c13Bad(K, "filter", v)
	}
	switch v := c.f("canaries"); v {
	case "one":
		raw["serviceCanaries"] = c13L{canary}
	case "none":
		raw["serviceCanaries"] = c13L{}
	case "null":
		raw["serviceCanaries"] = c13L{nil}
	case "absent":
	default:
		c13Bad(K, "canaries", v)
	}
	return raw, nil
}

// ---------------------------------------------------------------------------------------- resilience
func (e *c13Env) renderRetry(c *c13Cfg) c13M {
	raw := c13M{"name": "pol", "kind": "Retry"}
	c13Scalar(raw, "maxAttempts", c.f("maxAttempts"))
	c13Str(raw, "waitDuration", c.f("waitDuration"))
	c13Str(raw, "backOffPolicy", c.f("backOff"))
	c13Scalar(raw, "randomizationFactor", c.f("factor"))
	return raw
}

func (e *c13Env) renderCircuitBreaker(c *c13Cfg) c13M {
	raw := c13M{"name": "pol", "kind": "CircuitBreaker"}
	c13Str(raw, "slidingWindowType", c.f("windowType"))
	c13Scalar(raw, "failureRateThreshold", c.f("failRate"))
	c13Scalar(raw, "slowCallRateThreshold", c.f("slowRate"))
	c13Scalar(raw, "countingNetworkError", c.f("netErr"))
	c13Scalar(raw, "slidingWindowSize", c.f("windowSize"))
	c13Scalar(raw, "permittedNumberOfCallsInHalfOpenState", c.f("permitted"))
	c13Scalar(raw, "minimumNumberOfCalls", c.f("minCalls"))
	c13Str(raw, "slowCallDurationThreshold", c.f("slowDur"))
	c13Str(raw, "maxWaitDurationInHalfOpenState", c.f("maxWait"))
	c13Str(raw, "waitDurationInOpenState", c.f("waitOpen"))
	return raw
}

// ---------------------------------------------------------------------------------------- validate-only kinds
// Kinds that need an external system to run (Kafka broker, remote HTTP filter, TLS peer certificates): only validation is exercised.
func (e *c13Env) renderVOnly(c *c13Cfg) c13M {
	K := c.Kind
	raw := c13M{"name": "flt", "kind": K}
	v := c.f("spec")
	switch K {
	case "KafkaMQTT":
		switch v {
		case "ok":
			raw["backend"] = c13L{"127.0.0.1:1"}
			raw["topic"] = c13M{"default": "t"}
			raw["mqtt"] = c13M{"topicKey": "t", "headerKey": "h", "payloadKey": "p"}
		case "noMQTT":
			raw["backend"] = c13L{"127.0.0.1:1"}
			raw["topic"] = c13M{"default": "t"}
		case "noBackend":
			raw["topic"] = c13M{"default": "t"}
			raw["mqtt"] = c13M{"topicKey": "t", "headerKey": "h", "payloadKey": "p"}
		case "empty":
		default:
			c13Bad(K, "spec", v)
		}
	case "Kafka":
		switch v {
		case "ok":
			raw["backend"] = c13L{"127.0.0.1:1"}
			raw["topic"] = c13M{"default": "t", "dynamic": c13M{"header": "X-T"}}
		case "noBackend":
			raw["topic"] = c13M{"default": "t"}
		case "noTopic":
			raw["backend"] = c13L{"127.0.0.1:1"}
		case "empty":
		default:
			c13Bad(K, "spec", v)
		}
	case "RemoteFilter":
		switch v {
		case "ok":
			raw["url"] = e.dead
			raw["timeout"] = "10ms"
		case "badURL":
			raw["url"] = "http://[::1"
		case "badTimeout":
			raw["url"] = e.dead
			raw["timeout"] = "soon"
		case "empty":
		default:
			c13Bad(K, "spec", v)
		}
	case "CertExtractor":
		switch v {
		case "ok":
			raw["certIndex"] = -1
			raw["target"] = "subject"
			raw["field"] = "CommonName"
			raw["headerKey"] = "X-CN"
		case "badTarget":
			raw["certIndex"] = 0
			raw["target"] = "nobody"
			raw["field"] = "CommonName"
			raw["headerKey"] = "X-CN"
		case "noHeaderKey":
			raw["certIndex"] = 0
			raw["target"] = "issuer"
			raw["field"] = "Country"
		case "upperTarget": // valid target and field in another letter case
			raw["certIndex"] = -1
			raw["target"] = "Subject"
			raw["field"] = "commonName"
			raw["headerKey"] = "X-CN"
		case "empty":
		default:
			c13Bad(K, "spec", v)
		}
	default:
		c13Bad(K, "kind", K)
	}
	return raw
}

package pipeline

// Harness for the growth item X06 (a), composition part (specs/CorsAdaptor.tla, ClientSees): the decision-table
// cases with supportCORSRequest are sent through a real Pipeline [CORSAdaptor, Mock] (Mock stands for any filter that
// produces the response, e.g. Proxy); what the client would get - status, CORS / Vary headers, whether the backend's
// answer is in it - is compared with the model's ClientSees.

import (
	"fmt"
	"net/http"
	"sort"
	"strconv"
	"strings"
	"testing"

	"github.com/megaease/easegress/pkg/context"
	_ "github.com/megaease/easegress/pkg/filters/corsadaptor"
	_ "github.com/megaease/easegress/pkg/filters/mock"
	"github.com/megaease/easegress/pkg/logger"
	"github.com/megaease/easegress/pkg/protocols/httpprot"
	"github.com/megaease/easegress/pkg/supervisor"
	vx "github.com/megaease/easegress/pkg/verifx"
	yaml "gopkg.in/yaml.v2"
)

func init() { logger.InitNop() }

func x06Strs(v interface{}) []string {
	out := []string{}
	for _, x := range vx.List(v) {
		out = append(out, vx.Str(x))
	}
	return out
}

var x06CorsNames = map[string]bool{"Vary": true, "Access-Control-Allow-Origin": true, "Access-Control-Allow-Methods": true,
	"Access-Control-Allow-Headers": true, "Access-Control-Allow-Credentials": true, "Access-Control-Max-Age": true,
	"Access-Control-Expose-Headers": true}

func x06CorsHeaders(h http.Header) string {
	keys := []string{}
	for k := range h {
		if x06CorsNames[k] {
			keys = append(keys, k)
		}
	}
	sort.Strings(keys)
	parts := []string{}
	for _, k := range keys {
		parts = append(parts, k+"="+strings.Join(h[k], "|"))
	}
	return strings.Join(parts, ";")
}

func TestVerifX06CorsPipeline(t *testing.T) {
	groups := vx.ReadNDJSON(t, "VERIF_IN")
	w := vx.NewWriter(t, "VERIF_OUT")
	defer w.Close()
	cases, mism := 0, 0
	classes := map[string]int{}
	kinds := map[string]vx.M{}
	for _, g := range groups {
		cfg := g["cfg"].(vx.M)
		cors := map[string]interface{}{"name": "cors", "kind": "CORSAdaptor", "supportCORSRequest": vx.Bool(cfg["support"]),
			"allowCredentials": vx.Bool(cfg["cred"]), "maxAge": vx.Int(cfg["maxAge"])}
		for _, p := range [][2]string{{"origins", "allowedOrigins"}, {"methods", "allowedMethods"}, {"headers", "allowedHeaders"}, {"exposed", "exposedHeaders"}} {
			if o := x06Strs(cfg[p[0]]); len(o) > 0 {
				cors[p[1]] = o
			}
		}
		spec := map[string]interface{}{"name": "x06pipe", "kind": "Pipeline",
			"flow": []interface{}{map[string]interface{}{"filter": "cors"}, map[string]interface{}{"filter": "backend"}},
			"filters": []interface{}{cors, map[string]interface{}{"name": "backend", "kind": "Mock",
				"rules": []interface{}{map[string]interface{}{"code": 200, "body": "hello", "headers": map[string]interface{}{"X-Backend": "1"}}}}}}
		buf, _ := yaml.Marshal(spec)
		ss, err := supervisor.NewSpec(string(buf))
		if err != nil {
			w.Raw(vx.M{"k": "specerror", "cfg": cfg, "err": err.Error()})
			continue
		}
		p := &Pipeline{}
		p.Init(ss, nil)
		for _, cv := range vx.List(g["cases"]) {
			c := cv.(vx.M)
			rq := c["req"].(vx.M)
			cases++
			classes[vx.Str(c["cls"])]++
			std, _ := http.NewRequest(vx.Str(rq["method"]), "http://svc.example.com/api/x", nil)
			for _, p := range [][2]string{{"origin", "Origin"}, {"acrm", "Access-Control-Request-Method"}, {"acrh", "Access-Control-Request-Headers"}} {
				if v := vx.Str(rq[p[0]]); v != "" {
					std.Header.Set(p[1], v)
				}
			}
			req, _ := httpprot.NewRequest(std)
			ctx := context.New(nil)
			ctx.SetInputRequest(req)
			p.Handle(ctx)
			got := map[string]string{"backend": "false", "status": "0", "cors": ""}
			if r := ctx.GetOutputResponse(); r != nil {
				hr := r.(*httpprot.Response)
				got["status"] = strconv.Itoa(hr.StatusCode())
				got["backend"] = fmt.Sprint(hr.Std().Header.Get("X-Backend") == "1" && string(hr.RawPayload()) == "hello")
				got["cors"] = x06CorsHeaders(hr.Std().Header)
			}
			sees := c["sees"].(vx.M)
			eh := http.Header{}
			for _, v := range x06Strs(sees["vary"]) {
				eh.Add("Vary", v)
			}
			h := sees["h"].(vx.M)
			for _, p := range [][2]string{{"acao", "Access-Control-Allow-Origin"}, {"acam", "Access-Control-Allow-Methods"},
				{"acah", "Access-Control-Allow-Headers"}, {"aceh", "Access-Control-Expose-Headers"}} {
				if v := vx.Str(h[p[0]]); v != "" {
					eh.Set(p[1], v)
				}
			}
			if vx.Bool(h["acac"]) {
				eh.Set("Access-Control-Allow-Credentials", "true")
			}
			if n := vx.Int(h["acma"]); n != 0 {
				eh.Set("Access-Control-Max-Age", strconv.Itoa(n))
			}
			want := map[string]string{"backend": fmt.Sprint(vx.Bool(sees["backend"])), "status": strconv.Itoa(vx.Int(sees["status"])), "cors": x06CorsHeaders(eh)}
			for _, fld := range []string{"backend", "status", "cors"} {
				if got[fld] != want[fld] {
					mism++
					lost := fld == "cors" && got["backend"] == "true" && got["cors"] == ""
					key := fmt.Sprint(c["cls"], "/", fld, "/", lost)
					if kinds[key] == nil {
						kinds[key] = vx.M{"k": "mismatch", "cfg": cfg, "req": rq, "cls": c["cls"], "field": fld, "got": got[fld], "want": want[fld],
							"lostOnly": lost, "count": 0}
					}
					kinds[key]["count"] = kinds[key]["count"].(int) + 1
					break
				}
			}
		}
		p.Close()
	}
	for _, m := range kinds {
		w.Raw(m)
	}
	w.Raw(vx.M{"k": "summary", "groups": len(groups), "cases": cases, "mismatches": mism, "classes": classes})
}

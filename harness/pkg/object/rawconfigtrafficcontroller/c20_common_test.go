package rawconfigtrafficcontroller

// C20 harness, common part (identical, except for the package clause, to
// harness/pkg/object/rawconfigtrafficcontroller/c20_common_test.go; the package specific glue is in
// c20_glue_test.go).
//
// A real Supervisor (MustNew) runs over clustertest.MockedCluster whose Syncer().SyncPrefix returns a
// channel owned by the harness, so configuration snapshots are pushed exactly as the cluster syncer
// would deliver them.  Test-only object kinds record every Init / Inherit / Close call:
//
//	C20K1, C20K2   business controllers      (handled by Supervisor.handleEvent)
//	C20G1          traffic gate category     (handled by RawConfigTrafficController -> TrafficController)
//	C20P1          pipeline category         (ditto)
//	C20SB, C20SG   sentinels (business / traffic gate): harness machinery used as a barrier
//
// Quiescence is detected without any timing assumption: every watcher handles its events in FIFO
// order in one goroutine, so after pushing a snapshot the harness pushes the same snapshot again
// with the version of the sentinel objects bumped; when the sentinels' Inherit callbacks have run, the
// event of the first push has been handled completely.  (The second push leaves every other name
// unchanged, which the contract says must not cause any callback - that is checked, too.)
//
//	TestVerifC20Replay  - MBT: replays TLC-generated snapshot sequences (with scripted panics) in
//	                      lock-step and compares callbacks and live set per step with the contract
//	TestVerifC20Trace   - TV: seeded random longer histories (bursts of snapshots, panics), recorded
//	                      as NDJSON for validation by TLC against Lifecycle_Trace
//
// Start-up histories (VERIF_STARTUP=1): the first burst of snapshots is already waiting at the
// syncer channel when the supervisor is created and keeps coming while supervisor.MustNew runs
// (the registry goroutine is started before the watchers are registered).  Three kinds of code
// supplied by the user of the supervisor run during a start-up, and the harness uses them to
// let the registry goroutine get on (bounded waits, never a condition on the code under test):
//
//	VerifC20Sys.Init      a system controller, registered before RawConfigTrafficController, whose
//	                      Init takes until the registry has applied a snapshot or two: the traffic
//	                      objects' watcher is created when snapshots have already been applied
//	Category()            of an object of a recording kind, when called by the category filter
//	                      inside ObjectRegistry.NewWatcher (once per caller of NewWatcher), takes
//	                      until the registry has taken two more snapshots or stands still
//	staged start          (package supervisor only) the statements of MustNew, re-done by the glue
//	                      with such a wait between newObjectRegistry and NewWatcher: the schedule
//	                      in which the registry goroutine gets ahead of the supervisor's watcher

import (
	"fmt"
	"os"
	"runtime"
	"sort"
	"strings"
	"sync"
	"sync/atomic"
	"testing"
	"time"

	"github.com/megaease/easegress/pkg/cluster"
	"github.com/megaease/easegress/pkg/cluster/clustertest"
	"github.com/megaease/easegress/pkg/context"
	"github.com/megaease/easegress/pkg/logger"
	"github.com/megaease/easegress/pkg/option"
	vx "github.com/megaease/easegress/pkg/verifx"
)

func init() {
	logger.InitNop()
	// heartbeat: tells a supervisor that does not reconcile (a stall) from a test process that does
	// not get any CPU on an overloaded machine
	go func() {
		for {
			time.Sleep(5 * time.Millisecond)
			atomic.AddInt64(&c20Beats, 1)
		}
	}()
}

var c20Beats int64

const (
	c20PanicMsg    = "c20 scripted panic"
	c20Prefix      = "/config/objects/"
	c20SentBizName = "zzb"
	c20SentGateNme = "zzg"
)

// ---------------------------------------------------------------------------------------------
// recording object kinds

type c20ObjSpec struct {
	Ver int `yaml:"ver" jsonschema:"omitempty"`
}

// c20Inst is what the harness knows about one object instance (one reflect.New of a kind).
type c20Inst struct {
	id   int
	name string
	kind string // TLA+ kind name ("K1"), "none" when unknown
	ver  int
	born int // step in which its first callback was seen (lock-step replay), 0 in trace mode
}

// c20CB is one recorded callback.
type c20CB struct {
	Op       string
	Name     string
	K        string
	V        int
	ID, Born int
	PK       string
	PV       int
	PID      int
	PBorn    int
	Panicked bool
}

type c20Base struct {
	w    *c20World
	inst *c20Inst
}

type c20World struct {
	mu         sync.Mutex
	super      *c20Supervisor
	ch         chan map[string]string
	dir        string
	insts      map[interface{}]*c20Inst
	nextID     int
	step       int
	log        []c20CB
	panicNames map[string]bool
	sentVer    int
	sentSeen   map[string]int // sentinel name -> highest version whose Init/Inherit ran
	sentCond   *sync.Cond
	onCB       func(c20CB) // called under mu
	closed     bool
	starved    bool
	broken     bool
	// slow consumers (long bursts): while `gate` is not nil every callback of a recording kind
	// waits, after having been recorded, until the gate is closed (= opened for passage) by the
	// harness; `slow` makes every callback take that long.  `held` counts the callbacks that
	// have waited at the current gate.
	gate chan struct{}
	slow time.Duration
	held int
	// start-up histories
	opt        *option.Options
	cls        cluster.Cluster
	pushed     int64 // snapshots taken from w.ch by the registry (atomic)
	pusherDone int32 // the pusher of the start-up burst has nothing left (atomic)
	armed      int32 // the supervisor is being started with snapshots waiting: pause points are active (atomic)
	paused     map[string]bool
	pauses     []vx.M
}

// pausePoint is called from code that the supervisor calls while it starts (see the head of this
// file).  It returns when the registry has taken two more snapshots from the syncer channel (so
// one has been applied completely in between), when nothing is left to take, or when the taking
// stands still for ~30 ms of this process running (the caller holds the registry's lock).
// site "": called from Category(); only a call from inside ObjectRegistry.NewWatcher counts, once
// per caller of NewWatcher.
func (w *c20World) pausePoint(site string) {
	if atomic.LoadInt32(&w.armed) == 0 {
		return
	}
	if site == "" {
		if site = c20NewWatcherCaller(); site == "" {
			return
		}
		site = "NewWatcher<-" + site
	}
	w.mu.Lock()
	if w.paused[site] {
		w.mu.Unlock()
		return
	}
	w.paused[site] = true
	w.mu.Unlock()
	p0 := atomic.LoadInt64(&w.pushed)
	stagnated := false
	for rounds := 0; rounds < 20 && !stagnated; rounds++ {
		p1, b0 := atomic.LoadInt64(&w.pushed), atomic.LoadInt64(&c20Beats)
		for atomic.LoadInt64(&c20Beats) < b0+6 && atomic.LoadInt64(&w.pushed) < p0+2 && atomic.LoadInt32(&w.pusherDone) == 0 {
			time.Sleep(200 * time.Microsecond)
		}
		if atomic.LoadInt64(&w.pushed) >= p0+2 || atomic.LoadInt32(&w.pusherDone) != 0 {
			break
		}
		stagnated = atomic.LoadInt64(&w.pushed) == p1
	}
	w.mu.Lock()
	w.pauses = append(w.pauses, vx.M{"site": site, "before": int(p0), "taken": int(atomic.LoadInt64(&w.pushed) - p0), "stagnated": stagnated})
	w.mu.Unlock()
}

// c20NewWatcherCaller: the function that called ObjectRegistry.NewWatcher, if that is on the stack.
func c20NewWatcherCaller() string {
	var pcs [32]uintptr
	n := runtime.Callers(2, pcs[:])
	frames := runtime.CallersFrames(pcs[:n])
	found := false
	for {
		f, more := frames.Next()
		if found {
			return f.Function[strings.LastIndex(f.Function, "/")+1:]
		}
		found = strings.HasSuffix(f.Function, ".NewWatcher")
		if !more {
			return ""
		}
	}
}

// c20Cat is what Category() of the harness' kinds returns through.
func c20Cat(c c20Category) c20Category {
	if w := c20WorldOf(nil); w != nil {
		w.pausePoint("")
	}
	return c
}

// hold is called by a callback (without w.mu) after it has been recorded.
func c20Hold(g chan struct{}, d time.Duration) {
	if g != nil {
		<-g
	}
	if d > 0 {
		time.Sleep(d)
	}
}

// holdArgs must be called under w.mu.
func (w *c20World) holdArgs() (chan struct{}, time.Duration) {
	if w.gate != nil {
		w.held++
	}
	return w.gate, w.slow
}

func (w *c20World) shutGate() {
	w.mu.Lock()
	w.gate, w.held = make(chan struct{}), 0
	w.mu.Unlock()
}

// openGate lets every waiting callback go on; returns how many callbacks have waited.
func (w *c20World) openGate() int {
	w.mu.Lock()
	g, h := w.gate, w.held
	w.gate = nil
	w.mu.Unlock()
	if g != nil {
		close(g)
	}
	return h
}

// waitDone waits for the pushing goroutine like waitSentinels waits for the sentinels.
func (w *c20World) waitDone(done chan struct{}, d time.Duration) bool {
	for i := 0; i < 10; i++ {
		b0 := atomic.LoadInt64(&c20Beats)
		select {
		case <-done:
			return true
		case <-time.After(d):
		}
		if beats := atomic.LoadInt64(&c20Beats) - b0; beats >= int64(d/(5*time.Millisecond))/3 {
			return false
		}
	}
	w.starved = true
	return false
}

func (w *c20World) setSlow(d time.Duration) {
	w.mu.Lock()
	w.slow = d
	w.mu.Unlock()
}

var (
	c20Worlds  sync.Map // *Supervisor -> *c20World
	c20Current *c20World
	c20CurMu   sync.Mutex
)

func c20WorldOf(spec *c20Spec) *c20World {
	if spec != nil {
		if w, ok := c20Worlds.Load(spec.Super()); ok {
			return w.(*c20World)
		}
	}
	c20CurMu.Lock()
	defer c20CurMu.Unlock()
	return c20Current
}

func c20KindName(kind string) string { return strings.TrimPrefix(kind, "C20") }

// instOf returns (creating if necessary) the record of an object instance; must hold w.mu.
func (w *c20World) instOf(o interface{}, kind string) *c20Inst {
	if i, ok := w.insts[o]; ok {
		return i
	}
	w.nextID++
	i := &c20Inst{id: w.nextID, kind: "none", name: "?"}
	_ = kind
	w.insts[o] = i
	return i
}

func (w *c20World) record(cb c20CB) {
	if w.panicNames[cb.Name] {
		cb.Panicked = true
	}
	w.log = append(w.log, cb)
	if w.onCB != nil {
		w.onCB(cb)
	}
}

func c20Create(self interface{}, b *c20Base, kind string, spec *c20Spec, prev interface{}, prevKind string) {
	w := c20WorldOf(spec)
	ver := spec.ObjectSpec().(*c20ObjSpec).Ver
	name := spec.Name()
	if kind == "C20SB" || kind == "C20SG" {
		w.mu.Lock()
		if ver > w.sentSeen[name] {
			w.sentSeen[name] = ver
		}
		w.sentCond.Broadcast()
		w.mu.Unlock()
		return
	}
	w.mu.Lock()
	inst := w.instOf(self, kind)
	fresh := inst.kind == "none"
	if fresh {
		inst.name, inst.kind, inst.ver, inst.born = name, c20KindName(kind), ver, w.step
	}
	b.w, b.inst = w, inst
	cb := c20CB{Name: name, K: c20KindName(kind), V: ver, ID: inst.id, Born: inst.born, PK: "none"}
	if !fresh {
		// a second Init/Inherit on the same instance: make it visible as a different callback
		cb.Born = -1
	}
	if prev == nil {
		cb.Op = "init"
	} else {
		cb.Op = "inherit"
		if p, ok := w.insts[prev]; ok {
			cb.PK, cb.PV, cb.PID, cb.PBorn = p.kind, p.ver, p.id, p.born
		} else {
			p := w.instOf(prev, prevKind)
			cb.PK, cb.PV, cb.PID, cb.PBorn = c20KindName(prevKind), 0, p.id, -1
		}
	}
	w.record(cb)
	pan := w.panicNames[name]
	g, d := w.holdArgs()
	w.mu.Unlock()
	c20Hold(g, d)
	if pan {
		panic(c20PanicMsg)
	}
}

func c20Close(self interface{}, b *c20Base, kind string) {
	if kind == "C20SB" || kind == "C20SG" {
		return
	}
	w := b.w
	if w == nil {
		w = c20WorldOf(nil)
	}
	w.mu.Lock()
	inst := w.instOf(self, kind)
	cb := c20CB{Op: "close", Name: inst.name, K: inst.kind, V: inst.ver, ID: inst.id, Born: inst.born, PK: "none"}
	if inst.kind == "none" {
		// Close of an instance that never saw Init/Inherit
		cb.K, cb.Born = c20KindName(kind), -1
	}
	w.record(cb)
	pan := w.panicNames[inst.name]
	g, d := w.holdArgs()
	w.mu.Unlock()
	c20Hold(g, d)
	if pan {
		panic(c20PanicMsg)
	}
}

type (
	c20K1 struct{ c20Base }
	c20K2 struct{ c20Base }
	c20SB struct{ c20Base }
	c20G1 struct{ c20Base }
	c20P1 struct{ c20Base }
	c20SG struct{ c20Base }
)

func c20PrevKind(p c20Object) string {
	if p == nil {
		return "none"
	}
	return p.Kind()
}

func (o *c20K1) Category() c20Category    { return c20Cat(c20CatBiz) }
func (o *c20K1) Kind() string             { return "C20K1" }
func (o *c20K1) DefaultSpec() interface{} { return &c20ObjSpec{} }
func (o *c20K1) Status() *c20Status       { return &c20Status{} }
func (o *c20K1) Init(s *c20Spec)          { c20Create(o, &o.c20Base, o.Kind(), s, nil, "") }
func (o *c20K1) Inherit(s *c20Spec, p c20Object) {
	c20Create(o, &o.c20Base, o.Kind(), s, p, c20PrevKind(p))
}
func (o *c20K1) Close() { c20Close(o, &o.c20Base, o.Kind()) }

func (o *c20K2) Category() c20Category    { return c20Cat(c20CatBiz) }
func (o *c20K2) Kind() string             { return "C20K2" }
func (o *c20K2) DefaultSpec() interface{} { return &c20ObjSpec{} }
func (o *c20K2) Status() *c20Status       { return &c20Status{} }
func (o *c20K2) Init(s *c20Spec)          { c20Create(o, &o.c20Base, o.Kind(), s, nil, "") }
func (o *c20K2) Inherit(s *c20Spec, p c20Object) {
	c20Create(o, &o.c20Base, o.Kind(), s, p, c20PrevKind(p))
}
func (o *c20K2) Close() { c20Close(o, &o.c20Base, o.Kind()) }

func (o *c20SB) Category() c20Category    { return c20Cat(c20CatBiz) }
func (o *c20SB) Kind() string             { return "C20SB" }
func (o *c20SB) DefaultSpec() interface{} { return &c20ObjSpec{} }
func (o *c20SB) Status() *c20Status       { return &c20Status{} }
func (o *c20SB) Init(s *c20Spec)          { c20Create(o, &o.c20Base, o.Kind(), s, nil, "") }
func (o *c20SB) Inherit(s *c20Spec, p c20Object) {
	c20Create(o, &o.c20Base, o.Kind(), s, p, c20PrevKind(p))
}
func (o *c20SB) Close() { c20Close(o, &o.c20Base, o.Kind()) }

func (o *c20G1) Category() c20Category    { return c20Cat(c20CatGate) }
func (o *c20G1) Kind() string             { return "C20G1" }
func (o *c20G1) DefaultSpec() interface{} { return &c20ObjSpec{} }
func (o *c20G1) Status() *c20Status       { return &c20Status{} }
func (o *c20G1) Init(s *c20Spec, _ context.MuxMapper) {
	c20Create(o, &o.c20Base, o.Kind(), s, nil, "")
}
func (o *c20G1) Inherit(s *c20Spec, p c20Object, _ context.MuxMapper) {
	c20Create(o, &o.c20Base, o.Kind(), s, p, c20PrevKind(p))
}
func (o *c20G1) Close() { c20Close(o, &o.c20Base, o.Kind()) }

func (o *c20P1) Category() c20Category    { return c20Cat(c20CatPipe) }
func (o *c20P1) Kind() string             { return "C20P1" }
func (o *c20P1) DefaultSpec() interface{} { return &c20ObjSpec{} }
func (o *c20P1) Status() *c20Status       { return &c20Status{} }
func (o *c20P1) Init(s *c20Spec, _ context.MuxMapper) {
	c20Create(o, &o.c20Base, o.Kind(), s, nil, "")
}
func (o *c20P1) Inherit(s *c20Spec, p c20Object, _ context.MuxMapper) {
	c20Create(o, &o.c20Base, o.Kind(), s, p, c20PrevKind(p))
}
func (o *c20P1) Close() { c20Close(o, &o.c20Base, o.Kind()) }

func (o *c20SG) Category() c20Category    { return c20Cat(c20CatGate) }
func (o *c20SG) Kind() string             { return "C20SG" }
func (o *c20SG) DefaultSpec() interface{} { return &c20ObjSpec{} }
func (o *c20SG) Status() *c20Status       { return &c20Status{} }
func (o *c20SG) Init(s *c20Spec, _ context.MuxMapper) {
	c20Create(o, &o.c20Base, o.Kind(), s, nil, "")
}
func (o *c20SG) Inherit(s *c20Spec, p c20Object, _ context.MuxMapper) {
	c20Create(o, &o.c20Base, o.Kind(), s, p, c20PrevKind(p))
}
func (o *c20SG) Close() { c20Close(o, &o.c20Base, o.Kind()) }

// c20Sys is a system controller whose Init takes some time while the supervisor starts.  It is
// registered by a variable initialiser, i.e. before the init() functions of the package, so that
// in package rawconfigtrafficcontroller it is initialised before RawConfigTrafficController.
type c20Sys struct{}

func (o *c20Sys) Category() c20Category    { return c20CatSys }
func (o *c20Sys) Kind() string             { return "VerifC20Sys" }
func (o *c20Sys) DefaultSpec() interface{} { return &c20ObjSpec{} }
func (o *c20Sys) Status() *c20Status       { return &c20Status{} }
func (o *c20Sys) Init(s *c20Spec) {
	if w := c20WorldOf(nil); w != nil {
		w.pausePoint("system controller Init")
	}
}
func (o *c20Sys) Inherit(s *c20Spec, p c20Object) {}
func (o *c20Sys) Close()                          {}

var _ = func() bool { c20Register(&c20Sys{}); return true }()

func init() {
	c20Register(&c20K1{})
	c20Register(&c20K2{})
	c20Register(&c20SB{})
	c20Register(&c20G1{})
	c20Register(&c20P1{})
	c20Register(&c20SG{})
}

// ---------------------------------------------------------------------------------------------
// the world: a real supervisor fed by the harness

// c20PrepWorld prepares everything a supervisor needs; w.start creates the supervisor.
func c20PrepWorld(t testing.TB) *c20World {
	dir, err := os.MkdirTemp("", "c20-home-")
	if err != nil {
		t.Fatalf("c20: %v", err)
	}
	w := &c20World{
		ch:         make(chan map[string]string),
		dir:        dir,
		insts:      map[interface{}]*c20Inst{},
		panicNames: map[string]bool{},
		sentSeen:   map[string]int{},
		paused:     map[string]bool{},
		sentVer:    1,
	}
	w.sentCond = sync.NewCond(&w.mu)
	syncer := clustertest.NewMockedSyncer()
	syncer.MockedSyncPrefix = func(string) (<-chan map[string]string, error) { return w.ch, nil }
	cls := clustertest.NewMockedCluster()
	cls.MockedLayout = func() *cluster.Layout { return &cluster.Layout{} }
	cls.MockedGetPrefix = func(string) (map[string]string, error) { return map[string]string{}, nil }
	cls.MockedSyncer = func(time.Duration) (cluster.Syncer, error) { return syncer, nil }
	opt := &option.Options{Name: "c20", ClusterName: "c20"}
	opt.AbsHomeDir, opt.AbsDataDir, opt.AbsLogDir, opt.AbsMemberDir, opt.AbsWALDir = dir, dir, dir, dir, dir
	w.opt, w.cls = opt, cls
	c20CurMu.Lock()
	c20Current = w
	c20CurMu.Unlock()
	return w
}

// start creates the supervisor: supervisor.MustNew, or (staged, package supervisor only) its
// statements with a pause between the start of the registry goroutine and NewWatcher.
func (w *c20World) start(staged bool) {
	if staged && c20MustNewStaged != nil {
		w.super = c20MustNewStaged(w.opt, w.cls, func() { w.pausePoint("between newObjectRegistry and NewWatcher") })
	} else {
		w.super = c20MustNew(w.opt, w.cls)
	}
	c20Worlds.Store(w.super, w)
}

func c20NewWorld(t testing.TB) *c20World {
	w := c20PrepWorld(t)
	w.start(false)
	// bring the sentinels to life (version 1)
	if !w.pushAndWait(nil, c20Wait) {
		w.broken = true // the sentinel objects were not initialised: reported as a stall by the callers
	}
	return w
}

func (w *c20World) close() {
	if w.closed {
		return
	}
	w.closed = true
	var wg sync.WaitGroup
	wg.Add(1)
	w.super.Close(&wg)
	wg.Wait()
	c20Worlds.Delete(w.super)
	// the registry goroutine may still be writing running_objects.yaml for the last push
	for i := 0; i < 200; i++ {
		os.RemoveAll(w.dir)
		if _, err := os.Stat(w.dir); os.IsNotExist(err) {
			break
		}
		time.Sleep(5 * time.Millisecond)
	}
}

type c20Obj struct {
	K string
	V int
}

func c20Yaml(name, kind string, ver int) string {
	return fmt.Sprintf("name: %s\nkind: %s\nver: %d\n", name, kind, ver)
}

// config renders a snapshot; an EMPTY snapshot that is not a barrier push is delivered as it is:
// a configuration without any object (the sentinels disappear with everything else and come back,
// by Init, with the next push).
func (w *c20World) config(snap map[string]c20Obj, barrier bool) map[string]string {
	kv := map[string]string{}
	for n, o := range snap {
		kv[c20Prefix+n] = c20Yaml(n, "C20"+o.K, o.V)
	}
	if len(snap) == 0 && !barrier {
		return kv
	}
	for _, s := range c20Sentinels {
		kv[c20Prefix+s[0]] = c20Yaml(s[0], s[1], w.sentVer)
	}
	return kv
}

// push delivers one snapshot to the object registry (returns when the registry has taken it).
func (w *c20World) push(snap map[string]c20Obj) { w.pushCfg(w.config(snap, false)) }

func (w *c20World) pushCfg(kv map[string]string) {
	w.ch <- kv
	atomic.AddInt64(&w.pushed, 1)
}

// waitSentinels waits until all sentinels have reached version `ver`.  It gives up (a stall) after
// `d` - but only if the process was actually running during that time (the heartbeat goroutine
// has been scheduled for at least a third of it); otherwise it keeps waiting, up to 10 d, and
// marks the world as starved: that is no observation about the supervisor.
func (w *c20World) waitSentinels(ver int, d time.Duration) bool {
	for i := 0; i < 10; i++ {
		b0 := atomic.LoadInt64(&c20Beats)
		if w.waitSentinels1(ver, d) {
			return true
		}
		if beats := atomic.LoadInt64(&c20Beats) - b0; beats >= int64(d/(5*time.Millisecond))/3 {
			return false
		}
	}
	w.starved = true
	return false
}

func (w *c20World) waitSentinels1(ver int, d time.Duration) bool {
	deadline := time.Now().Add(d)
	timer := time.AfterFunc(d, func() { w.mu.Lock(); w.sentCond.Broadcast(); w.mu.Unlock() })
	defer timer.Stop()
	w.mu.Lock()
	defer w.mu.Unlock()
	for {
		ok := true
		for _, s := range c20Sentinels {
			if w.sentSeen[s[0]] < ver {
				ok = false
			}
		}
		if ok {
			return true
		}
		if time.Now().After(deadline) {
			return false
		}
		w.sentCond.Wait()
	}
}

func (w *c20World) pushAndWait(snap map[string]c20Obj, d time.Duration) bool {
	w.pushCfg(w.config(snap, true))
	return w.waitSentinels(w.sentVer, d)
}

// barrier: re-push `snap` with bumped sentinels and wait until they were inherited: every event
// generated by earlier pushes has then been handled completely by every watcher.
func (w *c20World) barrier(snap map[string]c20Obj, d time.Duration) bool {
	w.sentVer++
	return w.pushAndWait(snap, d)
}

func (w *c20World) setStep(step int, pan []string) {
	w.mu.Lock()
	w.step = step
	w.panicNames = map[string]bool{}
	for _, n := range pan {
		w.panicNames[n] = true
	}
	w.mu.Unlock()
}

func (w *c20World) takeLog() []c20CB {
	w.mu.Lock()
	defer w.mu.Unlock()
	l := w.log
	w.log = nil
	return l
}

// live returns the live object of every name as the supervisor / traffic controller report it.
func (w *c20World) live() map[string][]vx.M {
	out := map[string][]vx.M{}
	for _, e := range c20LiveEntities(w.super) {
		name := e.Spec().Name()
		if name == c20SentBizName || name == c20SentGateNme {
			continue
		}
		k := e.Spec().Kind()
		if !strings.HasPrefix(k, "C20") {
			continue // system controllers
		}
		ver := 0
		if osp, ok := e.Spec().ObjectSpec().(*c20ObjSpec); ok {
			ver = osp.Ver
		}
		m := vx.M{"k": c20KindName(k), "v": ver, "id": 0, "born": -1}
		w.mu.Lock()
		if i, ok := w.insts[e.Instance()]; ok {
			m["id"], m["born"] = i.id, i.born
			if i.kind != c20KindName(k) || i.ver != ver {
				m["born"] = -2 // the instance was created for another spec than the entity's
			}
		}
		w.mu.Unlock()
		out[name] = append(out[name], m)
	}
	return out
}

// ---------------------------------------------------------------------------------------------
// MBT

func c20CBKey(op, name, k string, v, born int, pk string, pv, pborn int) string {
	return fmt.Sprintf("%s %s %s/%d#%d<-%s/%d#%d", op, name, k, v, born, pk, pv, pborn)
}

func c20Snap(m interface{}) map[string]c20Obj {
	out := map[string]c20Obj{}
	mm, _ := m.(vx.M)
	for n, o := range mm {
		om := o.(vx.M)
		if vx.Str(om["k"]) == "none" {
			continue
		}
		out[n] = c20Obj{K: vx.Str(om["k"]), V: vx.Int(om["v"])}
	}
	return out
}

func c20Strs(v interface{}) []string {
	var out []string
	for _, x := range vx.List(v) {
		out = append(out, vx.Str(x))
	}
	return out
}

// generous: a barrier normally completes within a millisecond
const c20Wait = 30 * time.Second

// c20ReplayOne replays one behaviour; returns mismatch records (at most one per name) and whether
// the supervisor stalled (sentinel not reconciled in time).
func c20ReplayOne(t testing.TB, beh []vx.M) (mism []vx.M, stalled bool, ncb int) {
	w := c20NewWorld(t)
	if w.broken {
		c20Starved = c20Starved || w.starved
		return nil, true, 0
	}
	defer func() {
		if !stalled {
			w.close()
		}
	}()
	poisoned := map[string]bool{}
	var snap map[string]c20Obj
	// check compares what happened since the last barrier with what the contract predicts for the
	// steps `sts` (more than one when snapshots without any object were pushed: they have no barrier
	// of their own, see below): the callbacks of all of them, the live set of the last one.
	check := func(si int, sts []vx.M, cbs []c20CB, final bool) {
		st := sts[len(sts)-1]
		got := map[string][]string{}
		for _, cb := range cbs {
			got[cb.Name] = append(got[cb.Name], c20CBKey(cb.Op, cb.Name, cb.K, cb.V, cb.Born, cb.PK, cb.PV, cb.PBorn))
		}
		exp := map[string][]string{}
		trans := vx.M{}
		for _, s1 := range sts {
			for _, e := range vx.List(s1["exp"]) {
				em := e.(vx.M)
				n := vx.Str(em["name"])
				exp[n] = append(exp[n], c20CBKey(vx.Str(em["op"]), n, vx.Str(em["k"]), vx.Int(em["v"]), vx.Int(em["born"]),
					vx.Str(em["pk"]), vx.Int(em["pv"]), vx.Int(em["pborn"])))
			}
			t1, _ := s1["trans"].(vx.M)
			for n, t := range t1 {
				if len(sts) == 1 {
					trans[n] = t
				} else if ts := vx.Str(t); ts != "absent" && ts != "unchanged" {
					if old := vx.Str(trans[n]); old != "" {
						ts = old + "+" + ts
					}
					trans[n] = ts
				}
			}
		}
		names := map[string]bool{}
		for n := range got {
			names[n] = true
		}
		for n := range exp {
			names[n] = true
		}
		for n := range names {
			if poisoned[n] {
				continue
			}
			g, e := append([]string{}, got[n]...), append([]string{}, exp[n]...)
			sort.Strings(g)
			sort.Strings(e)
			if strings.Join(g, "|") != strings.Join(e, "|") {
				poisoned[n] = true
				ops := []string{}
				for _, cb := range cbs {
					if cb.Name == n {
						ops = append(ops, cb.Op)
					}
				}
				sort.Strings(ops)
				mism = append(mism, vx.M{"k": "mismatch", "what": "callbacks", "step": si + 1, "name": n, "trans": vx.Str(trans[n]),
					"exp": e, "got": g, "gotops": strings.Join(ops, "+"), "pan": st["pan"], "final": final})
			}
		}
		// live set = latest snapshot
		lv := w.live()
		expLive, _ := st["live"].(vx.M)
		for n := range lv {
			names[n] = true
		}
		for n := range expLive {
			names[n] = true
		}
		for n := range names {
			if poisoned[n] || n == "?" {
				continue
			}
			e := "-"
			if em, ok := expLive[n].(vx.M); ok && vx.Str(em["k"]) != "none" {
				e = fmt.Sprintf("%s/%d#%d", vx.Str(em["k"]), vx.Int(em["v"]), vx.Int(em["born"]))
			}
			gs := []string{}
			for _, m := range lv[n] {
				gs = append(gs, fmt.Sprintf("%s/%d#%d", m["k"], m["v"], m["born"]))
			}
			g := "-"
			if len(gs) > 0 {
				sort.Strings(gs)
				g = strings.Join(gs, ",")
			}
			if g != e {
				poisoned[n] = true
				mism = append(mism, vx.M{"k": "mismatch", "what": "live", "step": si + 1, "name": n, "trans": vx.Str(trans[n]),
					"exp": e, "got": g, "gotops": "live", "pan": st["pan"], "final": final})
			}
		}
	}
	// A snapshot without any object is delivered as such - no sentinel objects either - and so has
	// no barrier of its own: the next snapshot is pushed right behind it, and what both cause is
	// compared at that snapshot's barrier.  (A barrier push is a non-empty configuration that would
	// make the registry compute the empty snapshot's diff once more.)  An empty last snapshot is
	// followed by its barrier push like any other.
	var group []vx.M
	var pans []string
	for si, st := range beh {
		snap = c20Snap(st["snap"])
		group = append(group, st)
		pans = append(pans, c20Strs(st["pan"])...)
		w.setStep(si+1, pans)
		w.push(snap)
		if len(snap) == 0 && si+1 < len(beh) {
			continue
		}
		stalled = !w.barrier(snap, c20Wait)
		cbs := w.takeLog()
		ncb += len(cbs)
		check(si, group, cbs, false) // after a stall: what has (not) happened within the deadline
		group, pans = nil, nil
		if stalled {
			if w.starved {
				c20Starved = true
			}
			return mism, true, ncb
		}
	}
	// final flush: callbacks caused by the last barrier push itself (there must be none)
	if len(beh) > 0 {
		w.setStep(len(beh)+1, nil)
		if !w.barrier(snap, c20Wait) {
			if w.starved {
				c20Starved = true
			}
			return mism, true, ncb
		}
		last := vx.M{"exp": []interface{}{}, "live": beh[len(beh)-1]["live"], "trans": vx.M{}, "pan": []interface{}{}}
		check(len(beh)-1, []vx.M{last}, w.takeLog(), true)
	}
	return mism, false, ncb
}

var c20Starved bool

func TestVerifC20Replay(t *testing.T) {
	behs := vx.ReadBehaviours(t, "VERIF_IN")
	out := vx.NewWriter(t, "VERIF_OUT")
	defer out.Close()
	nm, steps, ncb, stalls := 0, 0, 0, 0
	for bi, beh := range behs {
		mism, stalled, n := c20ReplayOne(t, beh)
		if stalled && !c20Starved {
			// re-check before reporting (DESIGN 2.3): a stall must reproduce
			mism, stalled, n = c20ReplayOne(t, beh)
		}
		if c20Starved {
			out.Raw(vx.M{"k": "starved", "beh": bi})
			break
		}
		ncb += n
		steps += len(beh)
		if stalled {
			stalls++
			out.Raw(vx.M{"k": "stall", "beh": bi, "behaviour": beh})
		}
		for _, m := range mism {
			nm++
			m["beh"] = bi
			if nm <= 400 {
				m["behaviour"] = beh
			}
			out.Raw(m)
		}
		if stalled {
			break // the barrier itself is broken: everything else would only time out, too
		}
	}
	out.Raw(vx.M{"k": "summary", "pkg": c20Pkg, "behaviours": len(behs), "steps": steps, "callbacks": ncb, "mismatches": nm, "stalls": stalls})
}

// ---------------------------------------------------------------------------------------------
// TV

// TestVerifC20Trace: VERIF_N histories of VERIF_STEPS snapshots over VERIF_NAMES names.  Snapshots
// are pushed in bursts (1..3 without waiting in between), with a random set of panicking names per
// burst; callbacks are logged as they happen, `quiet` events (with the observed live set) after
// each barrier.  VERIF_KINDCHANGE=0 keeps the kind of a live name fixed (a kind may change only
// through disappear + reappear).
//
// One snapshot in eight is the empty configuration, delivered to the registry as a map without any
// entry (in the middle of a burst the next snapshot follows without a barrier push in between).
//
// VERIF_LONGBURST=1 adds long bursts with slow consumers: three of four bursts have 14..32
// snapshots, pushed back to back while the watchers' handler goroutines are kept busy
//
//	gated   every callback waits at a gate that the harness opens only when all snapshots of the
//	        burst have been taken by the registry or the pushing has made no progress for a while
//	        (the registry waits for room in a watcher's event channel);
//	sleepy  every callback takes 1..3 ms;
//
// so that far more events are outstanding than a watcher's channel buffers.  A `gate` event
// (coverage only) tells how many snapshots were taken while callbacks were waiting.
//
// VERIF_STARTUP=1: the first burst (5..8 snapshots) of every history is pushed while the
// supervisor is being created (see the head of this file); `up` is logged when MustNew has
// returned, `note` events (coverage only) tell what the pause points saw.  The burst is kept
// below the buffer of a watcher's event channel: the supervisor's handler goroutine is started at
// the very end of MustNew.
func TestVerifC20Trace(t *testing.T) {
	out := vx.NewWriter(t, "VERIF_OUT")
	defer out.Close()
	n, steps := vx.EnvInt("VERIF_N", 5), vx.EnvInt("VERIF_STEPS", 20)
	kindChange := vx.EnvInt("VERIF_KINDCHANGE", 1) != 0
	longBursts := vx.EnvInt("VERIF_LONGBURST", 0) != 0
	startup := vx.EnvInt("VERIF_STARTUP", 0) != 0
	names := []string{"a", "b", "c", "d"}[:vx.EnvInt("VERIF_NAMES", 3)]
	rng := vx.Rand(int64(2000 + vx.EnvInt("VERIF_SALT", 0)))
	kinds := c20TraceKinds
	for h := 0; h < n; h++ {
		var w *c20World
		if startup {
			w = c20PrepWorld(t)
		} else {
			w = c20NewWorld(t)
		}
		out.Emit(vx.M{"ev": "reset", "h": h})
		if !startup {
			out.Emit(vx.M{"ev": "up"})
		}
		starting := startup
		staged := startup && c20MustNewStaged != nil && h%4 != 3
		if w.broken {
			if w.starved {
				out.Emit(vx.M{"ev": "starved"})
			} else {
				out.Emit(vx.M{"ev": "stall"})
			}
			break
		}
		w.mu.Lock()
		w.onCB = func(cb c20CB) {
			out.Emit(vx.M{"ev": "cb", "op": cb.Op, "name": cb.Name, "k": cb.K, "v": cb.V, "id": cb.ID, "pk": cb.PK, "pv": cb.PV,
				"pid": cb.PID, "panicked": cb.Panicked})
		}
		w.mu.Unlock()
		snap := map[string]c20Obj{}
		stalled := false
		// versions: 1..3, so that a name often comes back with a spec it had before; with long bursts
		// every new spec of a name gets a version the name never had (dozens of outstanding
		// obligations with equal specs would make the validation search which Init is which)
		used := map[string]int{}
		newVer := func(nm string, v int) int {
			if longBursts || startup {
				used[nm]++
				return used[nm]
			}
			return v
		}
		for s := 0; s < steps && !stalled; {
			burst := 1 + rng.Intn(3)
			mode := "plain"
			if longBursts {
				switch rng.Intn(4) {
				case 0:
				case 1:
					mode, burst = "sleepy", 14+rng.Intn(19)
				default:
					mode, burst = "gated", 14+rng.Intn(19)
				}
			}
			if starting {
				mode, burst = "startup", 5+rng.Intn(4)
			}
			long := mode != "plain"
			var pan []string
			for _, nm := range names {
				if rng.Intn(5) == 0 {
					pan = append(pan, nm)
				}
			}
			w.setStep(0, pan)
			// the snapshots of the burst
			var todo []map[string]c20Obj
			gsnap := snap
			for b := 0; b < burst && s < steps; b, s = b+1, s+1 {
				next := map[string]c20Obj{}
				cross := false
				// one snapshot in eight is the empty configuration: every name disappears at once (and
				// the snapshot is delivered without any object, see config)
				empty := rng.Intn(8) == 0
				for _, nm := range names {
					if empty {
						break
					}
					cur, has := gsnap[nm]
					r := rng.Intn(10)
					switch {
					case r < 3: // keep
						if has {
							next[nm] = cur
						}
					case r < 5: // absent
					case r < 8 && has: // new version, same kind
						next[nm] = c20Obj{K: cur.K, V: newVer(nm, 1+(cur.V%3))}
					default:
						k := kinds[rng.Intn(len(kinds))]
						if has && !kindChange {
							k = cur.K
						}
						if has && c20Traffic(k) != c20Traffic(cur.K) {
							if long {
								// (long bursts are not cut short, see below: the kind stays on its side)
								for c20Traffic(k) != c20Traffic(cur.K) {
									k = kinds[rng.Intn(len(kinds))]
								}
							} else {
								cross = true
							}
						}
						next[nm] = c20Obj{K: k, V: newVer(nm, 1+rng.Intn(3))}
					}
				}
				if cross && b > 0 {
					// a kind change across watchers is reconciled by two goroutines: keep it out of the
					// middle of a burst so that successive steps of one name do not overlap
					break
				}
				todo = append(todo, next)
				gsnap = next
				if cross {
					b = burst
				}
			}
			var pushed int64
			pushAll := func() {
				for _, next := range todo {
					sm := vx.M{}
					for nm, o := range next {
						sm[nm] = vx.M{"k": o.K, "v": o.V}
					}
					for _, nm := range names {
						if _, ok := sm[nm]; !ok {
							sm[nm] = vx.M{"k": "none", "v": 0}
						}
					}
					out.Emit(vx.M{"ev": "snap", "snap": sm, "pan": append([]string{}, pan...)})
					w.push(next)
					atomic.AddInt64(&pushed, 1)
				}
			}
			switch mode {
			case "gated":
				w.shutGate()
				done := make(chan struct{})
				go func() { pushAll(); close(done) }()
				// wait until everything is pushed or the pushing stands still (6 heartbeats ~ 30 ms
				// of this process actually running)
				stagnated, finished := false, false
				for !stagnated && !finished {
					p0, b0 := atomic.LoadInt64(&pushed), atomic.LoadInt64(&c20Beats)
					for !finished && atomic.LoadInt64(&c20Beats) < b0+6 {
						select {
						case <-done:
							finished = true
						case <-time.After(5 * time.Millisecond):
						}
					}
					if !finished && atomic.LoadInt64(&pushed) == p0 {
						stagnated = true
					}
				}
				taken := atomic.LoadInt64(&pushed)
				held := w.openGate()
				if !w.waitDone(done, c20Wait) {
					stalled = true
					break
				}
				out.Emit(vx.M{"ev": "gate", "mode": mode, "n": len(todo), "taken": int(taken), "held": held, "stagnated": stagnated})
			case "startup":
				starting = false
				atomic.StoreInt32(&w.armed, 1)
				done := make(chan struct{})
				go func() { pushAll(); atomic.StoreInt32(&w.pusherDone, 1); close(done) }()
				w.start(staged)
				atomic.StoreInt32(&w.armed, 0)
				out.Emit(vx.M{"ev": "up"})
				w.mu.Lock()
				for _, p := range w.pauses {
					p["ev"], p["staged"], p["n"] = "note", staged, len(todo)
					out.Emit(p)
				}
				w.mu.Unlock()
				if !w.waitDone(done, c20Wait) {
					stalled = true
					break
				}
			case "sleepy":
				w.setSlow(time.Duration(1+rng.Intn(3)) * time.Millisecond)
				done := make(chan struct{})
				go func() { pushAll(); close(done) }()
				if !w.waitDone(done, c20Wait) {
					stalled = true
					break
				}
				out.Emit(vx.M{"ev": "gate", "mode": mode, "n": len(todo), "taken": len(todo), "held": 0, "stagnated": false})
			default:
				pushAll()
			}
			if len(todo) > 0 {
				snap = todo[len(todo)-1]
			}
			ok := !stalled && w.barrier(snap, c20Wait)
			w.setSlow(0)
			if !ok || !w.barrier(snap, c20Wait) {
				stalled = true
				break
			}
			lm := vx.M{}
			lv := w.live()
			for _, nm := range names {
				if len(lv[nm]) == 1 {
					lm[nm] = vx.M{"k": lv[nm][0]["k"], "v": lv[nm][0]["v"], "id": lv[nm][0]["id"]}
				} else if len(lv[nm]) == 0 {
					lm[nm] = vx.M{"k": "none", "v": 0, "id": 0}
				} else {
					lm[nm] = vx.M{"k": "many", "v": len(lv[nm]), "id": 0}
				}
			}
			out.Emit(vx.M{"ev": "quiet", "live": lm})
		}
		if stalled {
			if w.starved {
				out.Emit(vx.M{"ev": "starved"})
			} else {
				out.Emit(vx.M{"ev": "stall"})
			}
			break
		}
		w.mu.Lock()
		w.onCB = nil
		w.mu.Unlock()
		w.close()
	}
}

// TestVerifC20Build only makes the driver build (and cache) the test binary.
func TestVerifC20Build(t *testing.T) {}

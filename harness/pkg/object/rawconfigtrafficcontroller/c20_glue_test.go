package rawconfigtrafficcontroller

// C20 harness: glue for package rawconfigtrafficcontroller.  Here the whole chain is real:
// Supervisor (business controllers) + the system controllers TrafficController and
// RawConfigTrafficController (traffic gates and pipelines of the default namespace).

import (
	"github.com/megaease/easegress/pkg/cluster"
	"github.com/megaease/easegress/pkg/object/trafficcontroller"
	"github.com/megaease/easegress/pkg/option"
	"github.com/megaease/easegress/pkg/supervisor"
)

type (
	c20Supervisor = supervisor.Supervisor
	c20Spec       = supervisor.Spec
	c20Object     = supervisor.Object
	c20Category   = supervisor.ObjectCategory
	c20Status     = supervisor.Status
	c20Entity     = supervisor.ObjectEntity
)

const (
	c20CatBiz  = supervisor.CategoryBusinessController
	c20CatGate = supervisor.CategoryTrafficGate
	c20CatPipe = supervisor.CategoryPipeline
	c20CatSys  = supervisor.CategorySystemController
	c20Pkg     = "rawconfigtrafficcontroller"
)

var (
	c20Register   = supervisor.Register
	c20MustNew    = supervisor.MustNew
	c20Sentinels  = [][2]string{{c20SentBizName, "C20SB"}, {c20SentGateNme, "C20SG"}}
	c20TraceKinds = []string{"K1", "K2", "G1", "P1"}
)

func c20Traffic(k string) bool { return k == "G1" || k == "P1" }

// (the staged start needs the unexported parts of package supervisor: not available here; the
// watcher of RawConfigTrafficController is created late in MustNew anyway)
var c20MustNewStaged func(opt *option.Options, cls cluster.Cluster, between func()) *supervisor.Supervisor

// c20LiveEntities: everything the supervisor and the traffic controller report as live.
func c20LiveEntities(s *supervisor.Supervisor) []*supervisor.ObjectEntity {
	var out []*supervisor.ObjectEntity
	s.WalkControllers(func(e *supervisor.ObjectEntity) bool {
		out = append(out, e)
		return true
	})
	if e, ok := s.GetSystemController(trafficcontroller.Kind); ok {
		tc := e.Instance().(*trafficcontroller.TrafficController)
		out = append(out, tc.ListTrafficGates(DefaultNamespace)...)
		out = append(out, tc.ListPipelines(DefaultNamespace)...)
	}
	return out
}

package trafficcontroller

// Harness for C11 (specs/HotUpdate.tla) at the level of the TrafficController: TLC-generated
// schedules (HotUpdate_Gen, Atomic = "gates", requests addressed directly to pipelines) are replayed
// on a real TrafficController holding real Pipelines.  A request is `h, ok := space.GetHandler(p)`
// followed by `h.Handle(ctx)`, stopped inside the pipeline by the harness' marker filter; an update
// is the real Create/Update/Apply/DeletePipeline call, stopped at the end of the last filter's
// Init/Inherit.  After every step the namespace map is compared with the model's (`nsv`), and
// the entities of the pipelines the step did not address must be the very same objects (Isolation);
// applying an unchanged spec and inheriting the TrafficController itself must change nothing (NoOp).

import (
	"fmt"
	"net/http"
	"net/http/httptest"
	"runtime/debug"
	"strconv"
	"strings"
	"sync"
	"sync/atomic"
	"testing"
	"time"

	"github.com/megaease/easegress/pkg/context"
	"github.com/megaease/easegress/pkg/filters"
	_ "github.com/megaease/easegress/pkg/filters/mock"
	"github.com/megaease/easegress/pkg/logger"
	"github.com/megaease/easegress/pkg/object/pipeline"
	"github.com/megaease/easegress/pkg/protocols/httpprot"
	"github.com/megaease/easegress/pkg/supervisor"
	"github.com/megaease/easegress/pkg/tracing"
	vx "github.com/megaease/easegress/pkg/verifx"
)

const (
	c11Namespace = "c11ns"
	c11ReqHeader = "X-C11-Req"
	c11Wait      = 60 * time.Second
)

func init() {
	logger.InitNop()
	filters.Register(c11MarkKind)
}

type c11MarkSpec struct {
	filters.BaseSpec `yaml:",inline"`
	Value            int  `yaml:"value"`
	Pos              int  `yaml:"pos"`
	Last             bool `yaml:"last"`
}

type c11Mark struct{ spec *c11MarkSpec }

var c11MarkKind = &filters.Kind{
	Name:           "C11Mark",
	Description:    "verification marker",
	Results:        []string{},
	DefaultSpec:    func() filters.Spec { return &c11MarkSpec{} },
	CreateInstance: func(spec filters.Spec) filters.Filter { return &c11Mark{spec: spec.(*c11MarkSpec)} },
}

var (
	c11Reqs  sync.Map     // id -> *c11Req
	c11Upd   atomic.Value // *c11UpdGate
	c11Calls int64        // Init/Inherit/Close calls on marker filters
)

type c11Req struct {
	id     string
	ev     chan string
	rel    chan struct{}
	mu     sync.Mutex
	gated  bool
	ver    int
	pipe   string
	status int
	panicV string
	site   string
	done   chan struct{}
	fin    bool
	told   bool
	h      context.Handler
}

type c11UpdGate struct {
	pipe string
	ev   chan string
	rel  chan struct{}
}

func (m *c11Mark) Name() string        { return m.spec.Name() }
func (m *c11Mark) Kind() *filters.Kind { return c11MarkKind }
func (m *c11Mark) Spec() filters.Spec  { return m.spec }
func (m *c11Mark) Status() interface{} { return nil }
func (m *c11Mark) Close()              { atomic.AddInt64(&c11Calls, 1) }

func (m *c11Mark) stopUpdater(point string) {
	if !m.spec.Last {
		return
	}
	if g, _ := c11Upd.Load().(*c11UpdGate); g != nil && g.pipe == m.spec.Pipeline() {
		g.ev <- point
		<-g.rel
	}
}

func (m *c11Mark) Init() {
	atomic.AddInt64(&c11Calls, 1)
	m.stopUpdater("inited")
}

func (m *c11Mark) Inherit(previousGeneration filters.Filter) {
	atomic.AddInt64(&c11Calls, 1)
	m.stopUpdater("inherited")
}

func (m *c11Mark) Handle(ctx *context.Context) string {
	req := ctx.GetInputRequest().(*httpprot.Request)
	v, ok := c11Reqs.Load(req.HTTPHeader().Get(c11ReqHeader))
	if !ok {
		return ""
	}
	r := v.(*c11Req)
	r.mu.Lock()
	r.ver, r.pipe = m.spec.Value, m.spec.Pipeline()
	gated := r.gated
	r.mu.Unlock()
	if gated {
		r.ev <- "mark" + strconv.Itoa(m.spec.Pos)
		<-r.rel
	}
	return ""
}

func c11MustSpec(yaml string) *supervisor.Spec {
	s, err := supervisor.NewSpec(yaml)
	if err != nil {
		panic(fmt.Errorf("c11: bad spec: %v\n%s", err, yaml))
	}
	return s
}

// version ver of pipeline name: mark1 -> Mock (answers 200); markLast only delimits Init/Inherit.
func c11PipelineYAML(name string, ver int) string {
	return fmt.Sprintf(`
name: %s
kind: Pipeline
flow:
- filter: mark1
- filter: mock
filters:
- name: mark1
  kind: C11Mark
  value: %d
  pos: 1
- name: mock
  kind: Mock
  rules:
  - match:
      pathPrefix: /
    code: 200
    body: v%d
- name: marklast
  kind: C11Mark
  value: %d
  pos: 9
  last: true
`, name, ver, ver, ver)
}

type c11Replay struct {
	tc    *TrafficController
	reqs  map[string]*c11Req
	tgs   map[string]string
	upd   *c11UpdGate
	updCh chan string
	kept  bool
	pend  string
	nreq  int
	ents  map[string]*supervisor.ObjectEntity // entity stored under every pipeline after the previous step
	sp    *Namespace
}

func c11Site(stack string) string {
	for _, ln := range strings.Split(stack, "\n") {
		ln = strings.TrimSpace(ln)
		if !strings.HasPrefix(ln, "github.com/megaease/easegress/pkg/") || strings.Contains(ln, "c11") || strings.Contains(ln, "verifx") {
			continue
		}
		ln = strings.TrimPrefix(ln, "github.com/megaease/easegress/pkg/")
		if i := strings.LastIndex(ln, "("); i > 0 {
			ln = ln[:i]
		}
		return ln
	}
	return "?"
}

// space is the namespace object; fetched once (the updater may be stopped inside tc.mutex later on,
// and the namespace is never empty, hence never deleted).
func (rp *c11Replay) space() *Namespace { return rp.sp }

// stored returns entity and marker version stored under name (nil, 0 if absent), read from the
// sync.Map directly (the updater may be stopped inside tc.mutex).
func (rp *c11Replay) stored(sp *Namespace, name string) (*supervisor.ObjectEntity, int) {
	v, ok := sp.pipelines.Load(name)
	if !ok {
		return nil, 0
	}
	e := v.(*supervisor.ObjectEntity)
	p, ok := e.Instance().(*pipeline.Pipeline)
	if !ok {
		return e, -1
	}
	f := pipeline.MockGetFilter(p, "mark1")
	if f == nil {
		return e, -1
	}
	return e, f.(*c11Mark).spec.Value
}

func (rp *c11Replay) waitReq(r *c11Req) string {
	select {
	case p := <-r.ev:
		return p
	case <-r.done:
		r.fin = true
		return "finished"
	case <-time.After(c11Wait):
		return "stuck"
	}
}

func (rp *c11Replay) waitUpd() string {
	select {
	case p := <-rp.upd.ev:
		return p
	case p := <-rp.updCh:
		return p
	case <-time.After(c11Wait):
		return "stuck"
	}
}

func (rp *c11Replay) startUpdate(pipe, want string, fn func()) string {
	rp.upd = &c11UpdGate{pipe: pipe, ev: make(chan string, 4), rel: make(chan struct{}, 4)}
	rp.updCh = make(chan string, 2)
	rp.kept = false
	c11Upd.Store(rp.upd)
	ch := rp.updCh
	go func() {
		defer func() {
			if e := recover(); e != nil {
				ch <- "panic: " + fmt.Sprint(e)
				return
			}
			ch <- "returned"
		}()
		fn()
	}()
	if p := rp.waitUpd(); p != want {
		return fmt.Sprintf("update of %s reached %q instead of %q", pipe, p, want)
	}
	return ""
}

func (rp *c11Replay) step(st vx.M) string {
	a := vx.Str(st["a"])
	switch a {
	case "start":
		rp.nreq++
		id := fmt.Sprintf("%s-%d", vx.Str(st["r"]), rp.nreq)
		r := &c11Req{id: id, gated: true, ev: make(chan string, 8), rel: make(chan struct{}, 8)}
		c11Reqs.Store(id, r)
		rp.reqs[vx.Str(st["r"])] = r
		rp.tgs[vx.Str(st["r"])] = vx.Str(st["tg"])
	case "get":
		r := rp.reqs[vx.Str(st["r"])]
		h, ok := rp.space().GetHandler(rp.tgs[vx.Str(st["r"])])
		if ok != vx.Bool(st["found"]) {
			return fmt.Sprintf("available: GetHandler(%s) found=%v, model says %v", vx.Str(st["p"]), ok, vx.Bool(st["found"]))
		}
		if !ok {
			r.status = 503
			r.fin = true
			return ""
		}
		r.h = h
		r.done = make(chan struct{})
		go func() {
			defer func() {
				if e := recover(); e != nil {
					r.panicV = fmt.Sprint(e)
					r.site = c11Site(string(debug.Stack()))
				}
				close(r.done)
			}()
			stdr := httptest.NewRequest(http.MethodGet, "http://c11.test/direct", http.NoBody)
			stdr.Header.Set(c11ReqHeader, r.id)
			req, _ := httpprot.NewRequest(stdr)
			req.FetchPayload(0)
			ctx := context.New(tracing.NoopSpan)
			ctx.SetRequest(context.DefaultNamespace, req)
			h.Handle(ctx)
			if resp, _ := ctx.GetResponse(context.DefaultNamespace).(*httpprot.Response); resp != nil {
				r.status = resp.StatusCode()
			}
			ctx.Finish()
		}()
		if p := rp.waitReq(r); p != "mark1" {
			return fmt.Sprintf("after GetHandler the request is at %q (panic %q at %s)", p, r.panicV, r.site)
		}
		if r.ver != vx.Int(st["ver"]) || r.pipe != vx.Str(st["p"]) {
			return fmt.Sprintf("visibility: handler is %s version %d, model says %s version %d", r.pipe, r.ver, vx.Str(st["p"]), vx.Int(st["ver"]))
		}
	case "run":
		r := rp.reqs[vx.Str(st["r"])]
		r.rel <- struct{}{}
		p := rp.waitReq(r)
		if p == "finished" && r.panicV != "" {
			return fmt.Sprintf("panic: filter %s of pipeline version %d: panic in %s: %s", vx.Str(st["k"]), vx.Int(st["ver"]), r.site, r.panicV)
		}
		if p != "finished" {
			return fmt.Sprintf("after the filter the request is at %q", p)
		}
	case "done":
		r := rp.reqs[vx.Str(st["r"])]
		want := vx.Str(st["st"])
		if (want == "ok" && (r.status != 200 || r.panicV != "")) || (want == "503" && r.status != 503) {
			return fmt.Sprintf("status: request ended with status %d panic %q (%s), model says %s", r.status, r.panicV, r.site, want)
		}
		c11Reqs.Delete(r.id)
		delete(rp.reqs, vx.Str(st["r"]))
	case "pipBegin":
		rp.pend = c11PipelineYAML(vx.Str(st["p"]), vx.Int(st["ver"]))
	case "createInit":
		rp.pend = c11PipelineYAML(vx.Str(st["p"]), vx.Int(st["ver"]))
		return rp.startUpdate(vx.Str(st["p"]), "inited", func() {
			if _, err := rp.tc.CreatePipelineForSpec(c11Namespace, c11MustSpec(rp.pend)); err != nil {
				panic(err)
			}
		})
	case "pipInherit":
		if vx.Int(st["i"]) != 1 {
			return ""
		}
		p := vx.Str(st["p"])
		prev := rp.ents[p]
		useUpdate := rp.nreq%2 == 0 // both entry points of the controller
		return rp.startUpdate(p, "inherited", func() {
			var e *supervisor.ObjectEntity
			var err error
			if useUpdate {
				e, err = rp.tc.UpdatePipelineForSpec(c11Namespace, c11MustSpec(rp.pend))
			} else {
				e, err = rp.tc.ApplyPipelineForSpec(c11Namespace, c11MustSpec(rp.pend))
			}
			if err != nil {
				panic(err)
			}
			rp.kept = e == prev
		})
	case "pipClose", "createStore":
		rp.upd.rel <- struct{}{}
		if p := rp.waitUpd(); p != "returned" {
			return fmt.Sprintf("update did not return: %q", p)
		}
		c11Upd.Store((*c11UpdGate)(nil))
		if a == "pipClose" && rp.kept {
			return "visibility: update with a changed spec returned the previous entity"
		}
	case "pipStore", "deleteClose", "init":
	case "same":
		p := vx.Str(st["p"])
		e0, ver0 := rp.stored(rp.space(), p)
		n0 := atomic.LoadInt64(&c11Calls)
		e1, err := rp.tc.ApplyPipelineForSpec(c11Namespace, c11MustSpec(c11PipelineYAML(p, ver0)))
		if err != nil {
			return "noop: apply of an unchanged spec failed: " + err.Error()
		}
		e2, _ := rp.stored(rp.space(), p)
		if e1 != e0 || e2 != e0 || atomic.LoadInt64(&c11Calls) != n0 {
			return fmt.Sprintf("noop: applying an unchanged spec replaced the entity (same=%v/%v) or touched its filters (%d calls)",
				e1 == e0, e2 == e0, atomic.LoadInt64(&c11Calls)-n0)
		}
	case "ctl":
		n0 := atomic.LoadInt64(&c11Calls)
		tc2 := &TrafficController{}
		tc2.Inherit(c11MustSpec("kind: TrafficController\nname: c11tc\n"), rp.tc)
		rp.tc = tc2
		if atomic.LoadInt64(&c11Calls) != n0 {
			return "noop: inheriting the TrafficController touched the filters of its pipelines"
		}
	case "deleteRemove":
		if err := rp.tc.DeletePipeline(c11Namespace, vx.Str(st["p"])); err != nil {
			return "delete failed: " + err.Error()
		}
	default:
		return "harness: unknown step " + a
	}
	return ""
}

// compare checks the namespace map against the model's after a step, and that the entities of
// the pipelines the step did not address are untouched.
func (rp *c11Replay) compare(st vx.M) string {
	sp := rp.space()
	if sp == nil {
		return "isolation: the namespace disappeared"
	}
	nsv, _ := st["nsv"].(vx.M)
	addressed := vx.Str(st["p"])
	switch vx.Str(st["a"]) {
	case "start", "get", "run", "done", "init", "ctl":
		addressed = ""
	}
	for name, v := range nsv {
		e, ver := rp.stored(sp, name)
		if vx.Str(st["a"]) == "pipClose" && name == addressed {
			continue // Close(prev);Store is one block of the real call: compared at pipStore
		}
		if ver != vx.Int(v) {
			return fmt.Sprintf("stored: after %s the namespace holds version %d of %s, model says %d", vx.Str(st["a"]), ver, name, vx.Int(v))
		}
		if name != addressed && e != rp.ents[name] {
			return fmt.Sprintf("isolation: step %s on %q replaced the entity of %s", vx.Str(st["a"]), addressed, name)
		}
		rp.ents[name] = e
	}
	return ""
}

func (rp *c11Replay) finish() {
	if g, _ := c11Upd.Load().(*c11UpdGate); g != nil {
		c11Upd.Store((*c11UpdGate)(nil))
		g.rel <- struct{}{}
		select {
		case <-rp.updCh:
		case <-time.After(c11Wait):
		}
	}
	for _, r := range rp.reqs {
		r.mu.Lock()
		r.gated = false
		r.mu.Unlock()
		select {
		case r.rel <- struct{}{}:
		default:
		}
		if r.done != nil && !r.fin {
			select {
			case <-r.done:
			case <-time.After(c11Wait):
			}
		}
		c11Reqs.Delete(r.id)
	}
	rp.tc.Close()
}

func TestVerifC11TcReplay(t *testing.T) {
	behs := vx.ReadBehaviours(t, "VERIF_IN")
	out := vx.NewWriter(t, "VERIF_OUT")
	defer out.Close()
	steps, mism := 0, 0
	for bi, beh := range behs {
		c11Upd.Store((*c11UpdGate)(nil))
		tc := &TrafficController{}
		tc.Init(c11MustSpec("kind: TrafficController\nname: c11tc\n"))
		rp := &c11Replay{tc: tc, reqs: map[string]*c11Req{}, tgs: map[string]string{}, ents: map[string]*supervisor.ObjectEntity{}}
		for _, p := range []string{"pa", "pb"} {
			e, err := tc.CreatePipelineForSpec(c11Namespace, c11MustSpec(c11PipelineYAML(p, 1)))
			if err != nil {
				t.Fatal(err)
			}
			rp.ents[p] = e
		}
		rp.sp = tc.namespaces[c11Namespace]
		for si, st := range beh {
			steps++
			bad := rp.step(st)
			for name, r := range rp.reqs {
				if r.fin && r.panicV != "" && !r.told {
					r.told = true
					out.Raw(vx.M{"k": "fail", "b": bi, "step": si, "r": name, "site": r.site, "panic": r.panicV, "at": st, "behaviour": beh[:si+1]})
				}
			}
			if bad == "" {
				bad = rp.compare(st)
			}
			if bad != "" {
				mism++
				out.Raw(vx.M{"k": "mismatch", "b": bi, "step": si, "a": vx.Str(st["a"]), "at": st, "what": bad, "behaviour": beh[:si+1]})
				break
			}
		}
		rp.finish()
	}
	out.Raw(vx.M{"k": "summary", "behaviours": len(behs), "steps": steps, "mismatches": mism})
}

package trafficcontroller

// C20 harness for the Apply path of the TrafficController (specs/LifecycleApply.tla): the way every
// owner of traffic objects other than RawConfigTrafficController (mesh ingress / sidecar, ingress
// controller, function controller ...) keeps the traffic gates and pipelines of its namespaces in
// line with its desired configuration:
//
//	ApplyTrafficGate[ForSpec] / ApplyPipeline[ForSpec]   for every object of the snapshot
//	DeleteTrafficGate / DeletePipeline                    for every object that is gone
//	Clean(namespace)                                      when a whole namespace is gone
//
// A real TrafficController holds objects of two test-only kinds that record every Init / Inherit /
// Close call together with the identity of the Go instance:
//
//	C20G1   traffic gate category  (Namespace.trafficGates)
//	C20P1   pipeline category      (Namespace.pipelines)
//
// The harness plays the owner: per snapshot it makes the calls above in a random order (an
// unchanged object is applied again or left alone, a namespace that becomes empty is cleaned or its
// objects deleted one by one; a name that changes between the two categories is deleted in the one
// map and applied to the other, in either order).  All calls are synchronous, so every snapshot is
// reconciled when the calls have returned.
//
//	TestVerifC20ApplyReplay - MBT: TLC-generated snapshot sequences (Lifecycle_Gen, with scripted
//	                          panics), callbacks and live set compared per step with the contract
//	TestVerifC20ApplyTrace  - TV: seeded random longer histories recorded as NDJSON for validation
//	                          by TLC against Lifecycle_Trace (the contract)
//
// Names a, b live in namespace c20ns1, every other name in c20ns2.

import (
	"fmt"
	"math/rand"
	"sort"
	"strings"
	"testing"

	"github.com/megaease/easegress/pkg/context"
	"github.com/megaease/easegress/pkg/logger"
	"github.com/megaease/easegress/pkg/supervisor"
	vx "github.com/megaease/easegress/pkg/verifx"
)

func init() {
	logger.InitNop()
	supervisor.Register(&c20G1{})
	supervisor.Register(&c20P1{})
}

const c20PanicMsg = "c20 scripted panic"

type c20ObjSpec struct {
	Ver int `yaml:"ver" jsonschema:"omitempty"`
}

type c20Inst struct {
	id   int
	name string
	kind string // "G1" / "P1"; "none" until the first Init / Inherit
	ver  int
	born int
}

type c20CB struct {
	Op       string
	Name     string
	K        string
	V        int
	ID, Born int
	PK       string
	PV       int
	PID      int
	PBorn    int
	Panicked bool
}

type c20World struct {
	tc         *TrafficController
	insts      map[interface{}]*c20Inst
	nextID     int
	step       int
	log        []c20CB
	panicNames map[string]bool
	onCB       func(c20CB)
	have       map[string]c20Obj // what the owner has asked for so far
	errs       []string          // unexpected errors of the TrafficController's methods
}

// the calls are synchronous and the harness is sequential: one world at a time, no locking
var c20Cur *c20World

func c20KindName(kind string) string { return strings.TrimPrefix(kind, "C20") }

func (w *c20World) instOf(o interface{}) *c20Inst {
	if i, ok := w.insts[o]; ok {
		return i
	}
	w.nextID++
	i := &c20Inst{id: w.nextID, kind: "none", name: "?"}
	w.insts[o] = i
	return i
}

func (w *c20World) record(cb c20CB) {
	cb.Panicked = w.panicNames[cb.Name]
	w.log = append(w.log, cb)
	if w.onCB != nil {
		w.onCB(cb)
	}
}

func c20Create(self interface{}, kind string, spec *supervisor.Spec, prev supervisor.Object) {
	w := c20Cur
	ver := spec.ObjectSpec().(*c20ObjSpec).Ver
	name := spec.Name()
	inst := w.instOf(self)
	fresh := inst.kind == "none"
	if fresh {
		inst.name, inst.kind, inst.ver, inst.born = name, c20KindName(kind), ver, w.step
	}
	cb := c20CB{Name: name, K: c20KindName(kind), V: ver, ID: inst.id, Born: inst.born, PK: "none"}
	if !fresh {
		cb.Born = -1 // a second Init / Inherit on the same instance
	}
	if prev == nil {
		cb.Op = "init"
	} else {
		cb.Op = "inherit"
		if p, ok := w.insts[prev]; ok {
			cb.PK, cb.PV, cb.PID, cb.PBorn = p.kind, p.ver, p.id, p.born
		} else {
			p := w.instOf(prev)
			cb.PK, cb.PV, cb.PID, cb.PBorn = c20KindName(prev.Kind()), 0, p.id, -1
		}
	}
	w.record(cb)
	if w.panicNames[name] {
		panic(c20PanicMsg)
	}
}

func c20Close(self interface{}, kind string) {
	w := c20Cur
	inst := w.instOf(self)
	cb := c20CB{Op: "close", Name: inst.name, K: inst.kind, V: inst.ver, ID: inst.id, Born: inst.born, PK: "none"}
	if inst.kind == "none" {
		cb.K, cb.Born = c20KindName(kind), -1 // Close of an instance that never saw Init / Inherit
	}
	w.record(cb)
	if w.panicNames[inst.name] {
		panic(c20PanicMsg)
	}
}

type (
	c20G1 struct{ _ int }
	c20P1 struct{ _ int }
)

func (o *c20G1) Category() supervisor.ObjectCategory { return supervisor.CategoryTrafficGate }
func (o *c20G1) Kind() string                        { return "C20G1" }
func (o *c20G1) DefaultSpec() interface{}            { return &c20ObjSpec{} }
func (o *c20G1) Status() *supervisor.Status          { return &supervisor.Status{} }
func (o *c20G1) Init(s *supervisor.Spec, _ context.MuxMapper) {
	c20Create(o, o.Kind(), s, nil)
}
func (o *c20G1) Inherit(s *supervisor.Spec, p supervisor.Object, _ context.MuxMapper) {
	c20Create(o, o.Kind(), s, p)
}
func (o *c20G1) Close() { c20Close(o, o.Kind()) }

func (o *c20P1) Category() supervisor.ObjectCategory { return supervisor.CategoryPipeline }
func (o *c20P1) Kind() string                        { return "C20P1" }
func (o *c20P1) DefaultSpec() interface{}            { return &c20ObjSpec{} }
func (o *c20P1) Status() *supervisor.Status          { return &supervisor.Status{} }
func (o *c20P1) Init(s *supervisor.Spec, _ context.MuxMapper) {
	c20Create(o, o.Kind(), s, nil)
}
func (o *c20P1) Inherit(s *supervisor.Spec, p supervisor.Object, _ context.MuxMapper) {
	c20Create(o, o.Kind(), s, p)
}
func (o *c20P1) Close() { c20Close(o, o.Kind()) }

// ---------------------------------------------------------------------------------------------

type c20Obj struct {
	K string
	V int
}

func c20MustSpec(yaml string) *supervisor.Spec {
	s, err := supervisor.NewSpec(yaml)
	if err != nil {
		panic(fmt.Errorf("c20: bad spec: %v\n%s", err, yaml))
	}
	return s
}

func c20NewWorld() *c20World {
	w := &c20World{insts: map[interface{}]*c20Inst{}, panicNames: map[string]bool{}, have: map[string]c20Obj{}}
	w.tc = &TrafficController{}
	w.tc.Init(c20MustSpec("kind: TrafficController\nname: c20tc\n"))
	c20Cur = w
	return w
}

func c20NS(name string) string {
	if name == "a" || name == "b" {
		return "c20ns1"
	}
	return "c20ns2"
}

func (w *c20World) setStep(step int, pan []string) {
	w.step = step
	w.panicNames = map[string]bool{}
	for _, n := range pan {
		w.panicNames[n] = true
	}
}

func (w *c20World) takeLog() []c20CB {
	l := w.log
	w.log = nil
	return l
}

func (w *c20World) fail(format string, a ...interface{}) {
	w.errs = append(w.errs, fmt.Sprintf(format, a...))
}

func (w *c20World) apply(name string, o c20Obj, rng *rand.Rand) {
	spec := c20MustSpec(fmt.Sprintf("name: %s\nkind: C20%s\nver: %d\n", name, o.K, o.V))
	ns := c20NS(name)
	var err error
	forSpec := rng.Intn(2) == 0
	var ent *supervisor.ObjectEntity
	if !forSpec {
		var s *supervisor.Supervisor
		if ent, err = s.NewObjectEntityFromSpec(spec); err != nil {
			panic(err)
		}
	}
	switch {
	case o.K == "G1" && forSpec:
		_, err = w.tc.ApplyTrafficGateForSpec(ns, spec)
	case o.K == "G1":
		_, err = w.tc.ApplyTrafficGate(ns, ent)
	case forSpec:
		_, err = w.tc.ApplyPipelineForSpec(ns, spec)
	default:
		_, err = w.tc.ApplyPipeline(ns, ent)
	}
	if err != nil {
		w.fail("apply %s/%s %s/%d: %v", ns, name, o.K, o.V, err)
	}
}

func (w *c20World) delete(name string, k string) {
	var err error
	if k == "G1" {
		err = w.tc.DeleteTrafficGate(c20NS(name), name)
	} else {
		err = w.tc.DeletePipeline(c20NS(name), name)
	}
	if err != nil {
		w.fail("delete %s/%s %s: %v", c20NS(name), name, k, err)
	}
}

// reconcile makes the owner's calls for one snapshot.
func (w *c20World) reconcile(snap map[string]c20Obj, rng *rand.Rand) {
	// namespaces of which nothing is wanted any more: cleaned as a whole, every second time
	cleaned := map[string]bool{}
	for _, ns := range []string{"c20ns1", "c20ns2"} {
		had, wants := false, false
		for n := range w.have {
			had = had || c20NS(n) == ns
		}
		for n := range snap {
			wants = wants || c20NS(n) == ns
		}
		if had && !wants && rng.Intn(2) == 0 {
			cleaned[ns] = true
		}
	}
	names := map[string]bool{}
	for n := range w.have {
		names[n] = true
	}
	for n := range snap {
		names[n] = true
	}
	order := make([]string, 0, len(names))
	for n := range names {
		order = append(order, n)
	}
	sort.Strings(order)
	rng.Shuffle(len(order), func(i, j int) { order[i], order[j] = order[j], order[i] })
	didClean := map[string]bool{}
	for _, n := range order {
		old, had := w.have[n]
		nw, wants := snap[n]
		switch {
		case had && !wants:
			if ns := c20NS(n); cleaned[ns] {
				if !didClean[ns] {
					didClean[ns] = true
					if err := w.tc.Clean(ns); err != nil {
						w.fail("clean %s: %v", ns, err)
					}
				}
			} else {
				w.delete(n, old.K)
			}
		case !had && wants:
			w.apply(n, nw, rng)
		case had && wants && old.K != nw.K:
			if rng.Intn(2) == 0 {
				w.delete(n, old.K)
				w.apply(n, nw, rng)
			} else {
				w.apply(n, nw, rng)
				w.delete(n, old.K)
			}
		case had && wants:
			if old != nw || rng.Intn(2) == 0 {
				w.apply(n, nw, rng)
			}
		}
	}
	w.have = map[string]c20Obj{}
	for n, o := range snap {
		w.have[n] = o
	}
}

// reload replaces the TrafficController by a new generation of itself (hot update of the
// controller: the namespaces are handed over); no object may be touched.
func (w *c20World) reload() {
	tc2 := &TrafficController{}
	tc2.Inherit(c20MustSpec("kind: TrafficController\nname: c20tc\n"), w.tc)
	w.tc = tc2
}

// live: what the TrafficController reports as live, by List* and by Get*.
func (w *c20World) live(names []string) map[string][]vx.M {
	out := map[string][]vx.M{}
	seen := map[*supervisor.ObjectEntity]bool{}
	add := func(e *supervisor.ObjectEntity) {
		if e == nil || seen[e] {
			return
		}
		seen[e] = true
		k, ver := e.Spec().Kind(), 0
		if osp, ok := e.Spec().ObjectSpec().(*c20ObjSpec); ok {
			ver = osp.Ver
		}
		m := vx.M{"k": c20KindName(k), "v": ver, "id": 0, "born": -1}
		if i, ok := w.insts[e.Instance()]; ok {
			m["id"], m["born"] = i.id, i.born
			if i.kind != c20KindName(k) || i.ver != ver {
				m["born"] = -2 // the instance was created for another spec than the entity's
			}
		}
		out[e.Spec().Name()] = append(out[e.Spec().Name()], m)
	}
	for _, ns := range []string{"c20ns1", "c20ns2"} {
		for _, e := range w.tc.ListTrafficGates(ns) {
			add(e)
		}
		for _, e := range w.tc.ListPipelines(ns) {
			add(e)
		}
	}
	for _, n := range names {
		if e, ok := w.tc.GetTrafficGate(c20NS(n), n); ok {
			add(e)
		}
		if e, ok := w.tc.GetPipeline(c20NS(n), n); ok {
			add(e)
		}
	}
	return out
}

// ---------------------------------------------------------------------------------------------
// MBT

func c20CBKey(op, name, k string, v, born int, pk string, pv, pborn int) string {
	return fmt.Sprintf("%s %s %s/%d#%d<-%s/%d#%d", op, name, k, v, born, pk, pv, pborn)
}

func c20Snap(m interface{}) map[string]c20Obj {
	out := map[string]c20Obj{}
	mm, _ := m.(vx.M)
	for n, o := range mm {
		om := o.(vx.M)
		if vx.Str(om["k"]) == "none" {
			continue
		}
		out[n] = c20Obj{K: vx.Str(om["k"]), V: vx.Int(om["v"])}
	}
	return out
}

func c20Strs(v interface{}) []string {
	var out []string
	for _, x := range vx.List(v) {
		out = append(out, vx.Str(x))
	}
	return out
}

func c20ReplayOne(beh []vx.M, rng *rand.Rand) (mism []vx.M, ncb int) {
	w := c20NewWorld()
	poisoned := map[string]bool{}
	var allNames []string
	if len(beh) > 0 {
		if mm, ok := beh[0]["snap"].(vx.M); ok {
			for n := range mm {
				allNames = append(allNames, n)
			}
		}
	}
	for si, st := range beh {
		snap := c20Snap(st["snap"])
		w.setStep(si+1, c20Strs(st["pan"]))
		if rng.Intn(6) == 0 {
			w.reload()
		}
		w.reconcile(snap, rng)
		cbs := w.takeLog()
		ncb += len(cbs)
		got := map[string][]string{}
		for _, cb := range cbs {
			got[cb.Name] = append(got[cb.Name], c20CBKey(cb.Op, cb.Name, cb.K, cb.V, cb.Born, cb.PK, cb.PV, cb.PBorn))
		}
		exp := map[string][]string{}
		for _, e := range vx.List(st["exp"]) {
			em := e.(vx.M)
			n := vx.Str(em["name"])
			exp[n] = append(exp[n], c20CBKey(vx.Str(em["op"]), n, vx.Str(em["k"]), vx.Int(em["v"]), vx.Int(em["born"]),
				vx.Str(em["pk"]), vx.Int(em["pv"]), vx.Int(em["pborn"])))
		}
		names := map[string]bool{}
		for n := range got {
			names[n] = true
		}
		for n := range exp {
			names[n] = true
		}
		trans, _ := st["trans"].(vx.M)
		for n := range names {
			if poisoned[n] {
				continue
			}
			g, e := append([]string{}, got[n]...), append([]string{}, exp[n]...)
			sort.Strings(g)
			sort.Strings(e)
			if strings.Join(g, "|") != strings.Join(e, "|") {
				poisoned[n] = true
				ops := []string{}
				for _, cb := range cbs {
					if cb.Name == n {
						ops = append(ops, cb.Op)
					}
				}
				sort.Strings(ops)
				mism = append(mism, vx.M{"k": "mismatch", "what": "callbacks", "step": si + 1, "name": n, "trans": vx.Str(trans[n]),
					"exp": e, "got": g, "gotops": strings.Join(ops, "+"), "pan": st["pan"]})
			}
		}
		lv := w.live(allNames)
		expLive, _ := st["live"].(vx.M)
		for n := range lv {
			names[n] = true
		}
		for n := range expLive {
			names[n] = true
		}
		for n := range names {
			if poisoned[n] || n == "?" {
				continue
			}
			e := "-"
			if em, ok := expLive[n].(vx.M); ok && vx.Str(em["k"]) != "none" {
				e = fmt.Sprintf("%s/%d#%d", vx.Str(em["k"]), vx.Int(em["v"]), vx.Int(em["born"]))
			}
			gs := []string{}
			for _, m := range lv[n] {
				gs = append(gs, fmt.Sprintf("%s/%d#%d", m["k"], m["v"], m["born"]))
			}
			g := "-"
			if len(gs) > 0 {
				sort.Strings(gs)
				g = strings.Join(gs, ",")
			}
			if g != e {
				poisoned[n] = true
				mism = append(mism, vx.M{"k": "mismatch", "what": "live", "step": si + 1, "name": n, "trans": vx.Str(trans[n]),
					"exp": e, "got": g, "gotops": "live", "pan": st["pan"]})
			}
		}
		for _, e := range w.errs {
			mism = append(mism, vx.M{"k": "mismatch", "what": "error", "step": si + 1, "name": "-", "trans": "none", "exp": "no error",
				"got": e, "gotops": "error", "pan": st["pan"]})
		}
		w.errs = nil
	}
	return mism, ncb
}

func TestVerifC20ApplyReplay(t *testing.T) {
	behs := vx.ReadBehaviours(t, "VERIF_IN")
	out := vx.NewWriter(t, "VERIF_OUT")
	defer out.Close()
	rng := vx.Rand(2020)
	nm, steps, ncb := 0, 0, 0
	for bi, beh := range behs {
		mism, n := c20ReplayOne(beh, rng)
		ncb += n
		steps += len(beh)
		for _, m := range mism {
			nm++
			m["beh"] = bi
			if nm <= 400 {
				m["behaviour"] = beh
			}
			out.Raw(m)
		}
	}
	out.Raw(vx.M{"k": "summary", "pkg": "trafficcontroller", "behaviours": len(behs), "steps": steps, "callbacks": ncb, "mismatches": nm})
}

// ---------------------------------------------------------------------------------------------
// TV

// TestVerifC20ApplyTrace: VERIF_N histories of VERIF_STEPS snapshots over VERIF_NAMES names (kinds
// G1 / P1, versions 1..3, one snapshot in eight empty, scripted panics, occasional reload of the
// TrafficController itself); every snapshot is reconciled by the owner's calls, callbacks are
// logged as they happen and a `quiet` event with the observed live set follows every snapshot.
func TestVerifC20ApplyTrace(t *testing.T) {
	out := vx.NewWriter(t, "VERIF_OUT")
	defer out.Close()
	n, steps := vx.EnvInt("VERIF_N", 5), vx.EnvInt("VERIF_STEPS", 30)
	names := []string{"a", "b", "c", "d"}[:vx.EnvInt("VERIF_NAMES", 3)]
	rng := vx.Rand(int64(2100 + vx.EnvInt("VERIF_SALT", 0)))
	kinds := []string{"G1", "P1"}
	for h := 0; h < n; h++ {
		w := c20NewWorld()
		out.Emit(vx.M{"ev": "reset", "h": h})
		out.Emit(vx.M{"ev": "up"})
		w.onCB = func(cb c20CB) {
			out.Emit(vx.M{"ev": "cb", "op": cb.Op, "name": cb.Name, "k": cb.K, "v": cb.V, "id": cb.ID, "pk": cb.PK, "pv": cb.PV,
				"pid": cb.PID, "panicked": cb.Panicked})
		}
		snap := map[string]c20Obj{}
		for s := 0; s < steps; s++ {
			var pan []string
			for _, nm := range names {
				if rng.Intn(5) == 0 {
					pan = append(pan, nm)
				}
			}
			w.setStep(0, pan)
			next := map[string]c20Obj{}
			empty := rng.Intn(8) == 0
			for _, nm := range names {
				if empty {
					break
				}
				cur, has := snap[nm]
				r := rng.Intn(10)
				switch {
				case r < 2: // keep
					if has {
						next[nm] = cur
					}
				case r < 4: // absent
				case r < 8 && has: // new version, same kind
					next[nm] = c20Obj{K: cur.K, V: 1 + (cur.V % 3)}
				default:
					next[nm] = c20Obj{K: kinds[rng.Intn(len(kinds))], V: 1 + rng.Intn(3)}
				}
			}
			sm := vx.M{}
			for _, nm := range names {
				if o, ok := next[nm]; ok {
					sm[nm] = vx.M{"k": o.K, "v": o.V}
				} else {
					sm[nm] = vx.M{"k": "none", "v": 0}
				}
			}
			reload := rng.Intn(6) == 0
			if reload {
				w.reload()
			}
			out.Emit(vx.M{"ev": "snap", "snap": sm, "pan": append([]string{}, pan...), "reload": reload})
			w.reconcile(next, rng)
			snap = next
			lm := vx.M{}
			lv := w.live(names)
			for _, nm := range names {
				if len(lv[nm]) == 1 {
					lm[nm] = vx.M{"k": lv[nm][0]["k"], "v": lv[nm][0]["v"], "id": lv[nm][0]["id"]}
				} else if len(lv[nm]) == 0 {
					lm[nm] = vx.M{"k": "none", "v": 0, "id": 0}
				} else {
					lm[nm] = vx.M{"k": "many", "v": len(lv[nm]), "id": 0}
				}
			}
			out.Emit(vx.M{"ev": "quiet", "live": lm, "errors": len(w.errs)})
			for _, e := range w.errs {
				out.Emit(vx.M{"ev": "note", "site": "error", "what": e}) // (diagnosis only)
			}
			w.errs = nil
		}
		w.onCB = nil
	}
}

// TestVerifC20Build only makes the driver build (and cache) the test binary.
func TestVerifC20Build(t *testing.T) {}

package trafficcontroller

// Harness for the growth item X08 (specs/TrafficCtl.tla): the TrafficController as a sequential and
// as a concurrent object.
//
// The controller manages *recording* object kinds (X08Gate in category TrafficGate, X08Pipe in
// category Pipeline): every Init / Inherit / Close the controller makes on an instance is logged
// with the identity of the instance (numbered in the order of initialisation, as the model numbers
// generations), of the previous generation handed to Inherit, and of the MuxMapper (= namespace
// incarnation) it was given.
//
//   TestVerifX08Replay  TLC-generated operation sequences (TrafficCtl_Gen) are replayed in lock-step
//                       on a real TrafficController; after every call the reply, the returned
//                       generation and the callbacks are compared with the model's step, and the
//                       complete projected state (Get on every slot, List per namespace and
//                       category, Status, the namespace map, GetHandler through the mapper of every
//                       generation ever installed, also the disposed ones) with the model's state.
//   TestVerifX08Conc    goroutines call one controller concurrently (same and different
//                       namespaces); inv / ret events with the observed outcome are written for
//                       TrafficCtl_CTrace, where TLC searches a linearisation.

import (
	"fmt"
	"math/rand"
	"regexp"
	"runtime"
	"sort"
	"strconv"
	"strings"
	"sync"
	"sync/atomic"
	"testing"
	"time"

	"github.com/megaease/easegress/pkg/context"
	"github.com/megaease/easegress/pkg/logger"
	"github.com/megaease/easegress/pkg/object/pipeline"
	"github.com/megaease/easegress/pkg/supervisor"
	vx "github.com/megaease/easegress/pkg/verifx"
)

func init() {
	logger.InitNop()
	supervisor.Register(&x08Gate{})
	supervisor.Register(&x08Pipe{})
}

// ---------------------------------------------------------------------------------------------
// the recording world

type x08World struct {
	mu     sync.Mutex
	nextID int
	insts  map[int]*x08Base
	incs   map[*Namespace]int
	nsCnt  map[string]int
	cbs    map[int64][]vx.M // callbacks per calling goroutine, drained by the caller
	pub    []int            // instances whose creating call has returned (concurrent runs: lookups go through these)
	jitter bool             // stretch the critical sections (concurrent runs)
	rndMu  sync.Mutex
	rnd    *rand.Rand
}

var x08Cur atomic.Value // *x08World

func x08NewWorld(jitter bool, salt int64) *x08World {
	w := &x08World{insts: map[int]*x08Base{}, incs: map[*Namespace]int{}, nsCnt: map[string]int{},
		cbs: map[int64][]vx.M{}, jitter: jitter, rnd: vx.Rand(salt)}
	x08Cur.Store(w)
	return w
}

var x08GidRe = regexp.MustCompile(`^goroutine (\d+) `)

func x08Gid() int64 {
	var buf [64]byte
	n := runtime.Stack(buf[:], false)
	m := x08GidRe.FindSubmatch(buf[:n])
	if m == nil {
		return -1
	}
	g, _ := strconv.ParseInt(string(m[1]), 10, 64)
	return g
}

func (w *x08World) pause() {
	if !w.jitter {
		return
	}
	w.rndMu.Lock()
	x := w.rnd.Intn(12)
	d := time.Duration(20+w.rnd.Intn(200)) * time.Microsecond
	w.rndMu.Unlock()
	switch {
	case x < 4:
		runtime.Gosched()
	case x < 6:
		time.Sleep(d)
	}
}

func (w *x08World) take() []vx.M {
	g := x08Gid()
	w.mu.Lock()
	defer w.mu.Unlock()
	c := w.cbs[g]
	delete(w.cbs, g)
	if c == nil {
		c = []vx.M{}
	}
	return c
}

// x08Base is the part shared by both recording kinds.
type x08Base struct {
	w      *x08World
	id     int
	kind   string
	ns     string
	name   string
	ver    int
	depth  int
	inc    int
	mux    context.MuxMapper
	closes int32
}

type x08HasBase interface{ x08base() *x08Base }

func (b *x08Base) x08base() *x08Base { return b }

type x08ObjSpec struct {
	Ver int `yaml:"ver" jsonschema:"omitempty"`
}

func (b *x08Base) born(kind string, spec *supervisor.Spec, prev supervisor.Object, mux context.MuxMapper) {
	w, _ := x08Cur.Load().(*x08World)
	if w == nil {
		return
	}
	b.w, b.kind, b.name, b.mux = w, kind, spec.Name(), mux
	b.ver = spec.ObjectSpec().(*x08ObjSpec).Ver
	g := x08Gid()
	w.mu.Lock()
	w.nextID++
	b.id = w.nextID
	w.insts[b.id] = b
	if sp, ok := mux.(*Namespace); ok && sp != nil {
		b.ns = sp.namespace
		if w.incs[sp] == 0 {
			w.nsCnt[sp.namespace]++
			w.incs[sp] = w.nsCnt[sp.namespace]
		}
		b.inc = w.incs[sp]
	} else {
		b.inc = -1
	}
	cb := vx.M{"cb": "init", "id": b.id, "prev": 0, "inc": b.inc, "ns": b.ns, "name": b.name, "ver": b.ver, "kind": kind}
	b.depth = 1
	if prev != nil {
		cb["cb"] = "inherit"
		if pb, ok := prev.(x08HasBase); ok {
			cb["prev"] = pb.x08base().id
			b.depth = pb.x08base().depth + 1
		} else {
			cb["prev"] = -1
		}
	}
	w.cbs[g] = append(w.cbs[g], cb)
	w.mu.Unlock()
	w.pause()
}

func (b *x08Base) closed() {
	w := b.w
	if w == nil {
		return
	}
	atomic.AddInt32(&b.closes, 1)
	g := x08Gid()
	w.mu.Lock()
	w.cbs[g] = append(w.cbs[g], vx.M{"cb": "close", "id": b.id, "prev": 0, "inc": 0, "ns": b.ns, "name": b.name})
	w.mu.Unlock()
	w.pause()
}

type x08GateStatus struct {
	ID int `yaml:"id"`
}

type (
	x08Gate struct{ x08Base }
	x08Pipe struct{ x08Base }
)

func (o *x08Gate) Category() supervisor.ObjectCategory { return supervisor.CategoryTrafficGate }
func (o *x08Gate) Kind() string                         { return "X08Gate" }
func (o *x08Gate) DefaultSpec() interface{}             { return &x08ObjSpec{} }
func (o *x08Gate) Status() *supervisor.Status {
	return &supervisor.Status{ObjectStatus: &x08GateStatus{ID: o.id}}
}
func (o *x08Gate) Init(s *supervisor.Spec, m context.MuxMapper) { o.born(o.Kind(), s, nil, m) }
func (o *x08Gate) Inherit(s *supervisor.Spec, p supervisor.Object, m context.MuxMapper) {
	o.born(o.Kind(), s, p, m)
}
func (o *x08Gate) Close() { o.closed() }

func (o *x08Pipe) Category() supervisor.ObjectCategory { return supervisor.CategoryPipeline }
func (o *x08Pipe) Kind() string                         { return "X08Pipe" }
func (o *x08Pipe) DefaultSpec() interface{}             { return &x08ObjSpec{} }
func (o *x08Pipe) Status() *supervisor.Status {
	// TrafficController.Status asserts *pipeline.Status: the instance id travels in Health
	return &supervisor.Status{ObjectStatus: &pipeline.Status{Health: strconv.Itoa(o.id)}}
}
func (o *x08Pipe) Init(s *supervisor.Spec, m context.MuxMapper) { o.born(o.Kind(), s, nil, m) }
func (o *x08Pipe) Inherit(s *supervisor.Spec, p supervisor.Object, m context.MuxMapper) {
	o.born(o.Kind(), s, p, m)
}
func (o *x08Pipe) Close()                             { o.closed() }
func (o *x08Pipe) Handle(ctx *context.Context) string { return "" }

func x08IDOf(e *supervisor.ObjectEntity) int {
	if e == nil {
		return 0
	}
	if hb, ok := e.Instance().(x08HasBase); ok {
		return hb.x08base().id
	}
	return -1
}

func x08MustSpec(yaml string) *supervisor.Spec {
	s, err := supervisor.NewSpec(yaml)
	if err != nil {
		panic(fmt.Errorf("x08: bad spec: %v\n%s", err, yaml))
	}
	return s
}

func x08ObjYAML(cat, name string, ver int) string {
	kind := "X08Gate"
	if cat == "pipe" {
		kind = "X08Pipe"
	}
	return fmt.Sprintf("name: %s\nkind: %s\nver: %d\n", name, kind, ver)
}

func x08NewTC() *TrafficController {
	tc := &TrafficController{}
	tc.Init(x08MustSpec("kind: TrafficController\nname: x08tc\n"))
	return tc
}

// ---------------------------------------------------------------------------------------------
// one call on the real controller

type x08Reply struct {
	ok    bool
	ret   int
	ids   []int
	nss   []string
	cbs   []vx.M
	newID int
	panic string
	gen   uint64
}

type x08Caller struct {
	w   *x08World
	tc  *TrafficController
	rnd *rand.Rand
}

func (c *x08Caller) call(op vx.M) (r x08Reply) {
	a := vx.Str(op["a"])
	ns, cat, name, ver := vx.Str(op["ns"]), vx.Str(op["cat"]), vx.Str(op["name"]), vx.Int(op["ver"])
	r.ids, r.nss = []int{}, []string{}
	defer func() {
		if e := recover(); e != nil {
			r.panic = fmt.Sprint(e)
		}
		r.cbs = c.w.take()
		for _, cb := range r.cbs {
			if s := vx.Str(cb["cb"]); s == "init" || s == "inherit" {
				r.newID = vx.Int(cb["id"])
			}
		}
	}()
	tc := c.tc
	switch a {
	case "create", "update", "apply":
		spec := x08MustSpec(x08ObjYAML(cat, name, ver))
		var ent *supervisor.ObjectEntity
		var err error
		if c.rnd.Intn(2) == 0 {
			switch a + cat {
			case "creategate":
				ent, err = tc.CreateTrafficGateForSpec(ns, spec)
			case "createpipe":
				ent, err = tc.CreatePipelineForSpec(ns, spec)
			case "updategate":
				ent, err = tc.UpdateTrafficGateForSpec(ns, spec)
			case "updatepipe":
				ent, err = tc.UpdatePipelineForSpec(ns, spec)
			case "applygate":
				ent, err = tc.ApplyTrafficGateForSpec(ns, spec)
			case "applypipe":
				ent, err = tc.ApplyPipelineForSpec(ns, spec)
			}
		} else {
			fresh, e0 := tc.super.NewObjectEntityFromSpec(spec)
			if e0 != nil {
				panic(e0)
			}
			switch a + cat {
			case "creategate":
				ent, err = tc.CreateTrafficGate(ns, fresh)
			case "createpipe":
				ent, err = tc.CreatePipeline(ns, fresh)
			case "updategate":
				ent, err = tc.UpdateTrafficGate(ns, fresh)
			case "updatepipe":
				ent, err = tc.UpdatePipeline(ns, fresh)
			case "applygate":
				ent, err = tc.ApplyTrafficGate(ns, fresh)
			case "applypipe":
				ent, err = tc.ApplyPipeline(ns, fresh)
			}
		}
		r.ok = err == nil
		if err == nil {
			r.ret = x08IDOf(ent)
			if ent != nil {
				r.gen = ent.Generation()
			}
		} else if ent != nil {
			r.ret = -2 // an entity together with an error
		}
	case "delete":
		var err error
		if cat == "gate" {
			err = tc.DeleteTrafficGate(ns, name)
		} else {
			err = tc.DeletePipeline(ns, name)
		}
		r.ok = err == nil
	case "clean":
		r.ok = tc.Clean(ns) == nil
	case "closeall":
		tc.Close()
		r.ok = true
	case "regen":
		tc2 := &TrafficController{}
		tc2.Inherit(x08MustSpec("kind: TrafficController\nname: x08tc\n"), tc)
		c.tc = tc2
		r.ok = true
	case "get":
		var ent *supervisor.ObjectEntity
		var ok bool
		if cat == "gate" {
			ent, ok = tc.GetTrafficGate(ns, name)
		} else {
			ent, ok = tc.GetPipeline(ns, name)
		}
		r.ok = ok
		r.ret = x08IDOf(ent)
		if ok && ent == nil {
			r.ret = -2
		}
	case "list":
		var es []*supervisor.ObjectEntity
		if cat == "gate" {
			es = tc.ListTrafficGates(ns)
		} else {
			es = tc.ListPipelines(ns)
		}
		for _, e := range es {
			r.ids = append(r.ids, x08IDOf(e))
		}
		r.ok = true
	case "walk":
		lim := vx.Int(op["lim"])
		fn := func(e *supervisor.ObjectEntity) bool {
			r.ids = append(r.ids, x08IDOf(e))
			if lim == 0 {
				panic("x08: walk function panics")
			}
			return len(r.ids) < lim
		}
		if cat == "gate" {
			tc.WalkTrafficGates(ns, fn)
		} else {
			tc.WalkPipelines(ns, fn)
		}
		r.ok = true
	case "handler":
		c.w.mu.Lock()
		inst := c.w.insts[vx.Int(op["o"])]
		c.w.mu.Unlock()
		if inst == nil || inst.mux == nil {
			r.panic = "harness: unknown instance"
			return
		}
		h, ok := inst.mux.GetHandler(name)
		r.ok = ok
		if hb, isb := h.(x08HasBase); isb {
			r.ret = hb.x08base().id
		} else if h != nil {
			r.ret = -1
		}
		if ok && h == nil {
			r.ret = -2
		}
	case "status":
		st := tc.Status().ObjectStatus.(*Status)
		for _, sp := range st.Specs {
			r.nss = append(r.nss, sp.Namespace)
			for _, v := range sp.TrafficGates {
				if gs, ok := v.(*x08GateStatus); ok {
					r.ids = append(r.ids, gs.ID)
				} else {
					r.ids = append(r.ids, -1)
				}
			}
			for _, v := range sp.Pipelines {
				id, err := strconv.Atoi(v.Health)
				if err != nil {
					id = -1
				}
				r.ids = append(r.ids, id)
			}
		}
		r.ok = true
	default:
		panic("x08: unknown op " + a)
	}
	return
}

// ---------------------------------------------------------------------------------------------
// deadlock certificate: some goroutine waits for tc.mutex inside a TrafficController method and
// no goroutine is inside a TrafficController method anywhere else (nobody is going to unlock)

var x08TCFrame = regexp.MustCompile(`trafficcontroller\.\(\*TrafficController\)\.`)

func x08Deadlocked() (bool, string) {
	buf := make([]byte, 1<<22)
	n := runtime.Stack(buf, true)
	waiting, inside := 0, 0
	sample := ""
	for _, g := range strings.Split(string(buf[:n]), "\n\n") {
		if !x08TCFrame.MatchString(g) {
			continue
		}
		lines := strings.Split(g, "\n")
		// the innermost frames: a goroutine blocked in Mutex.Lock called directly from a controller method
		lock := -1
		for i, ln := range lines {
			if strings.HasPrefix(ln, "sync.(*Mutex).Lock(") {
				lock = i
				break
			}
		}
		if lock >= 0 && lock+2 < len(lines) && x08TCFrame.MatchString(lines[lock+2]) && strings.Contains(lines[0], "sync.Mutex.Lock") {
			waiting++
			sample = g
		} else {
			inside++
		}
	}
	return waiting > 0 && inside == 0, sample
}

// x08Watch runs fn on its own goroutine; it returns false when fn is certified deadlocked on tc.mutex.
func x08Watch(progress *int64, fn func()) (finished bool, cert string) {
	done := make(chan struct{})
	go func() {
		defer close(done)
		fn()
	}()
	last, idle := atomic.LoadInt64(progress), 0
	for {
		select {
		case <-done:
			return true, ""
		case <-time.After(2 * time.Second):
		}
		if p := atomic.LoadInt64(progress); p != last {
			last, idle = p, 0
			continue
		}
		idle++
		if idle >= 5 {
			if dl, g := x08Deadlocked(); dl {
				// confirm: still the same a little later
				time.Sleep(2 * time.Second)
				if dl2, _ := x08Deadlocked(); dl2 && atomic.LoadInt64(progress) == last {
					return false, g
				}
			}
		}
	}
}

// ---------------------------------------------------------------------------------------------
// lock-step replay

func x08SortedInts(xs []int) []int {
	out := append([]int{}, xs...)
	sort.Ints(out)
	return out
}

func x08CbKeys(cbs []vx.M) []string {
	var out []string
	for _, cb := range cbs {
		out = append(out, fmt.Sprintf("%s(id=%d,prev=%d,inc=%d)", vx.Str(cb["cb"]), vx.Int(cb["id"]), vx.Int(cb["prev"]), vx.Int(cb["inc"])))
	}
	sort.Strings(out)
	return out
}

func x08ModelCbs(v interface{}) []vx.M {
	var out []vx.M
	for _, x := range vx.List(v) {
		out = append(out, x.(vx.M))
	}
	return out
}

func x08Diff(want, got []string) (missing, extra []string) {
	cnt := map[string]int{}
	for _, w := range want {
		cnt[w]++
	}
	for _, g := range got {
		if cnt[g] > 0 {
			cnt[g]--
		} else {
			extra = append(extra, g)
		}
	}
	for _, w := range want {
		if cnt[w] > 0 {
			cnt[w]--
			missing = append(missing, w)
		}
	}
	return
}

func x08Kinds(xs []string) string {
	set := map[string]bool{}
	for _, x := range xs {
		set[x[:strings.Index(x, "(")]] = true
	}
	var out []string
	for k := range set {
		out = append(out, k)
	}
	sort.Strings(out)
	return strings.Join(out, "+")
}

var (
	x08NSs   = []string{"", "n1", "n2"}
	x08Names = []string{"a", "b"}
	x08Cats  = []string{"gate", "pipe"}
)

type x08Mismatch struct {
	class, what    string
	missing, extra string
	soft           bool
}

// x08CheckReply compares the reply of the call with the model's step.
func x08CheckReply(op vx.M, r x08Reply) *x08Mismatch {
	a := vx.Str(op["a"])
	if r.panic != "" {
		return &x08Mismatch{class: "panic", what: a + " panicked: " + r.panic}
	}
	if r.ok != vx.Bool(op["ok"]) {
		return &x08Mismatch{class: "reply", what: fmt.Sprintf("%s returned ok=%v, model says ok=%v", a, r.ok, vx.Bool(op["ok"]))}
	}
	switch a {
	case "create", "update", "apply", "get", "handler":
		if r.ret != vx.Int(op["ret"]) {
			return &x08Mismatch{class: "ret", what: fmt.Sprintf("%s returned generation %d, model says %d", a, r.ret, vx.Int(op["ret"]))}
		}
	case "list", "status":
		var want []int
		for _, x := range vx.List(op["ids"]) {
			want = append(want, vx.Int(x))
		}
		if fmt.Sprint(x08SortedInts(want)) != fmt.Sprint(x08SortedInts(r.ids)) {
			return &x08Mismatch{class: "list", what: fmt.Sprintf("%s returned generations %v, model says %v", a, x08SortedInts(r.ids), x08SortedInts(want))}
		}
		if a == "status" {
			var wn []string
			for _, x := range vx.List(op["nss"]) {
				wn = append(wn, x.(string))
			}
			sort.Strings(wn)
			gn := append([]string{}, r.nss...)
			sort.Strings(gn)
			if fmt.Sprint(wn) != fmt.Sprint(gn) {
				return &x08Mismatch{class: "ns", what: fmt.Sprintf("Status lists namespaces %v, model says %v", gn, wn)}
			}
		}
	case "walk":
		allowed := map[int]bool{}
		for _, x := range vx.List(op["ids"]) {
			allowed[vx.Int(x)] = true
		}
		seen := map[int]bool{}
		for _, id := range r.ids {
			if !allowed[id] || seen[id] {
				return &x08Mismatch{class: "walk", what: fmt.Sprintf("walk visited %v, the model's objects are %v", r.ids, op["ids"])}
			}
			seen[id] = true
		}
		if len(r.ids) != vx.Int(op["n"]) {
			return &x08Mismatch{class: "walk", what: fmt.Sprintf("walk (limit %d) visited %d objects, model says %d", vx.Int(op["lim"]), len(r.ids), vx.Int(op["n"]))}
		}
	}
	if _, has := op["cbs"]; has || len(r.cbs) > 0 {
		want, got := x08CbKeys(x08ModelCbs(op["cbs"])), x08CbKeys(r.cbs)
		if fmt.Sprint(want) != fmt.Sprint(got) {
			miss, extra := x08Diff(want, got)
			soft := true
			for _, x := range append(append([]string{}, miss...), extra...) {
				if !strings.HasPrefix(x, "close(") {
					soft = false
				}
			}
			return &x08Mismatch{class: "cbs", soft: soft, missing: x08Kinds(miss), extra: x08Kinds(extra),
				what: fmt.Sprintf("callbacks during %s: real %v, model %v", a, got, want)}
		}
	}
	return nil
}

// x08CheckState compares the complete projected state with the model's.
func x08CheckState(c *x08Caller, st vx.M) *x08Mismatch {
	tc, w := c.tc, c.w
	rows := map[string]vx.M{}
	for _, x := range vx.List(st["tbl"]) {
		m := x.(vx.M)
		rows[vx.Str(m["ns"])+"/"+vx.Str(m["cat"])+"/"+vx.Str(m["name"])] = m
	}
	wantNS := map[string]bool{}
	for _, x := range vx.List(st["nss"]) {
		wantNS[x.(string)] = true
	}
	// Get on every slot
	for _, ns := range x08NSs {
		for _, cat := range x08Cats {
			var listed []int
			var es []*supervisor.ObjectEntity
			if cat == "gate" {
				es = tc.ListTrafficGates(ns)
			} else {
				es = tc.ListPipelines(ns)
			}
			for _, e := range es {
				listed = append(listed, x08IDOf(e))
			}
			var want []int
			for _, name := range x08Names {
				var ent *supervisor.ObjectEntity
				var ok bool
				if cat == "gate" {
					ent, ok = tc.GetTrafficGate(ns, name)
				} else {
					ent, ok = tc.GetPipeline(ns, name)
				}
				row := rows[ns+"/"+cat+"/"+name]
				if row == nil {
					if ok || ent != nil {
						return &x08Mismatch{class: "table", what: fmt.Sprintf("Get(%s/%s/%s) finds generation %d, the model has none", ns, cat, name, x08IDOf(ent))}
					}
					continue
				}
				want = append(want, vx.Int(row["id"]))
				if !ok || x08IDOf(ent) != vx.Int(row["id"]) {
					return &x08Mismatch{class: "table", what: fmt.Sprintf("Get(%s/%s/%s) finds generation %d (found=%v), model says %d", ns, cat, name, x08IDOf(ent), ok, vx.Int(row["id"]))}
				}
				b := ent.Instance().(x08HasBase).x08base()
				if ent.Spec().Name() != name || b.name != name || b.ns != ns || b.ver != vx.Int(row["ver"]) {
					return &x08Mismatch{class: "table", what: fmt.Sprintf("generation stored at %s/%s/%s is %s/%s version %d, model says version %d", ns, cat, name, b.ns, b.name, b.ver, vx.Int(row["ver"]))}
				}
				if b.depth != vx.Int(row["depth"]) {
					return &x08Mismatch{class: "lineage", what: fmt.Sprintf("generation at %s/%s/%s has lineage depth %d, model says %d", ns, cat, name, b.depth, vx.Int(row["depth"]))}
				}
				if b.inc != vx.Int(row["inc"]) {
					return &x08Mismatch{class: "mapper", what: fmt.Sprintf("generation at %s/%s/%s was given namespace incarnation %d, model says %d", ns, cat, name, b.inc, vx.Int(row["inc"]))}
				}
				if n := atomic.LoadInt32(&b.closes); n != 0 {
					return &x08Mismatch{class: "closed-live", what: fmt.Sprintf("generation stored at %s/%s/%s has been closed %d times", ns, cat, name, n)}
				}
				tc.mutex.Lock()
				sp := tc.namespaces[ns]
				tc.mutex.Unlock()
				if sp == nil || b.mux != context.MuxMapper(sp) {
					return &x08Mismatch{class: "mapper", what: fmt.Sprintf("generation at %s/%s/%s holds a MuxMapper that is not the current namespace object", ns, cat, name)}
				}
			}
			if fmt.Sprint(x08SortedInts(want)) != fmt.Sprint(x08SortedInts(listed)) {
				return &x08Mismatch{class: "list", what: fmt.Sprintf("List(%s, %s) = %v, model says %v", ns, cat, x08SortedInts(listed), x08SortedInts(want))}
			}
		}
	}
	// namespaces: the map itself and Status
	var gotNS []string
	tc.mutex.Lock()
	for ns := range tc.namespaces {
		gotNS = append(gotNS, ns)
	}
	tc.mutex.Unlock()
	stat := c.call(vx.M{"a": "status"})
	for _, lst := range [][]string{gotNS, stat.nss} {
		if len(lst) != len(wantNS) {
			return &x08Mismatch{class: "ns", what: fmt.Sprintf("namespaces %v, model says %v", lst, st["nss"])}
		}
		for _, ns := range lst {
			if !wantNS[ns] {
				return &x08Mismatch{class: "ns", what: fmt.Sprintf("namespaces %v, model says %v", lst, st["nss"])}
			}
		}
	}
	if len(stat.ids) != len(rows) {
		return &x08Mismatch{class: "ns", what: fmt.Sprintf("Status reports %d objects, the model has %d", len(stat.ids), len(rows))}
	}
	// GetHandler through the mapper of every generation ever installed
	for _, x := range vx.List(st["handlers"]) {
		m := x.(vx.M)
		w.mu.Lock()
		inst := w.insts[vx.Int(m["o"])]
		w.mu.Unlock()
		if inst == nil {
			return &x08Mismatch{class: "handler", what: fmt.Sprintf("the model knows generation %d, the harness does not", vx.Int(m["o"]))}
		}
		h, ok := inst.mux.GetHandler(vx.Str(m["name"]))
		got := 0
		if hb, isb := h.(x08HasBase); isb {
			got = hb.x08base().id
		}
		if got != vx.Int(m["h"]) || ok != (vx.Int(m["h"]) != 0) {
			return &x08Mismatch{class: "handler", what: fmt.Sprintf("GetHandler(%s) through the mapper of generation %d (%s/%s) resolves to %d (found=%v), model says %d",
				vx.Str(m["name"]), inst.id, inst.ns, inst.name, got, ok, vx.Int(m["h"]))}
		}
	}
	return nil
}

func TestVerifX08Replay(t *testing.T) {
	behs := vx.ReadBehaviours(t, "VERIF_IN")
	w := vx.NewWriter(t, "VERIF_OUT")
	defer w.Close()
	var progress int64
	steps, mism, soft := 0, 0, 0
	gens := map[string]int{}
	classes := map[string]int{}
	aborted := false
	var cur struct {
		bi, si int
		op     vx.M
	}
	fin, cert := x08Watch(&progress, func() {
		for bi, beh := range behs {
			world := x08NewWorld(false, int64(bi))
			c := &x08Caller{w: world, tc: x08NewTC(), rnd: vx.Rand(int64(7000 + bi))}
			for si, st := range beh[1:] {
				steps++
				op := st["step"].(vx.M)
				cur.bi, cur.si, cur.op = bi, si, op
				atomic.AddInt64(&progress, 1)
				r := c.call(op)
				a := vx.Str(op["a"])
				if r.gen != 0 && (a == "update" || a == "apply") && r.newID != 0 && vx.Bool(op["existed"]) {
					gens[strconv.FormatUint(r.gen, 10)]++
				}
				m := x08CheckReply(op, r)
				hard := m != nil && !m.soft
				var m2 *x08Mismatch
				if !hard {
					m2 = x08CheckState(c, st)
				}
				for _, mm := range []*x08Mismatch{m, m2} {
					if mm == nil {
						continue
					}
					mism++
					if mm.soft {
						soft++
					}
					w.Raw(vx.M{"k": "mismatch", "beh": bi, "step": si + 1, "op": a, "class": mm.class, "what": mm.what,
						"existed": vx.Bool(op["existed"]), "missing": mm.missing, "extra": mm.extra, "cat": vx.Str(op["cat"]),
						"behaviour": beh[:si+2]})
				}
				if hard || m2 != nil {
					break
				}
				classes[x08Class(op)]++
			}
		}
	})
	if !fin {
		aborted = true
		mism++
		w.Raw(vx.M{"k": "mismatch", "beh": cur.bi, "step": cur.si + 1, "op": vx.Str(cur.op["a"]), "class": "deadlock",
			"what":    "the call never returns: it waits for tc.mutex, which no goroutine holds any more\n" + cert,
			"existed": false, "missing": "", "extra": "", "cat": vx.Str(cur.op["cat"]), "behaviour": behs[cur.bi][:cur.si+2]})
	}
	w.Raw(vx.M{"k": "summary", "behaviours": len(behs), "steps": steps, "mismatches": mism, "soft": soft, "aborted": aborted,
		"generation_field_after_update": gens, "classes": classes})
}

// x08Class names the class of a replayed step (vacuity accounting on the Go side: what really ran).
func x08Class(op vx.M) string {
	a := vx.Str(op["a"])
	switch a {
	case "create", "update", "apply":
		s := a
		if !vx.Bool(op["ok"]) {
			return s + "-refused"
		}
		if vx.Bool(op["existed"]) {
			if len(vx.List(op["cbs"])) == 0 {
				return s + "-unchanged"
			}
			return s + "-existing"
		}
		return s + "-new"
	case "delete", "clean", "get", "handler":
		if vx.Bool(op["ok"]) {
			return a + "-ok"
		}
		return a + "-miss"
	case "walk":
		return fmt.Sprintf("walk-lim%d", vx.Int(op["lim"]))
	}
	return a
}

// ---------------------------------------------------------------------------------------------
// concurrent histories

type x08Log struct {
	mu sync.Mutex
	ev []vx.M
}

func (l *x08Log) add(m vx.M) vx.M {
	l.mu.Lock()
	l.ev = append(l.ev, m)
	l.mu.Unlock()
	return m
}

func x08RandOp(rnd *rand.Rand, w *x08World) vx.M {
	ns := []string{"n1", "n1", "n1", "n2", "n2", ""}[rnd.Intn(6)]
	op := vx.M{"ns": ns, "cat": x08Cats[rnd.Intn(2)], "name": x08Names[rnd.Intn(2)], "ver": 1 + rnd.Intn(3), "o": 0, "lim": 0}
	x := rnd.Intn(100)
	switch {
	case x < 14:
		op["a"] = "create"
	case x < 27:
		op["a"] = "update"
	case x < 45:
		op["a"] = "apply"
	case x < 58:
		op["a"] = "delete"
	case x < 63:
		op["a"] = "clean"
	case x < 70:
		op["a"] = "get"
	case x < 76:
		op["a"] = "list"
	case x < 82:
		op["a"] = "walk"
		op["lim"] = []int{0, 1, 9}[rnd.Intn(3)]
	case x < 86:
		op["a"] = "status"
	case x < 96:
		op["a"] = "handler"
		w.mu.Lock()
		if len(w.pub) == 0 {
			op["a"] = "get"
		} else {
			op["o"] = w.pub[rnd.Intn(len(w.pub))]
		}
		w.mu.Unlock()
	case x < 98:
		op["a"] = "regen"
	default:
		op["a"] = "create"
	}
	return op
}

func TestVerifX08Conc(t *testing.T) {
	out := vx.NewWriter(t, "VERIF_OUT")
	defer out.Close()
	n := vx.EnvInt("VERIF_N", 40)
	G := vx.EnvInt("VERIF_G", 3)
	K := vx.EnvInt("VERIF_K", 9)
	var progress int64
	total := 0
	for ti := 0; ti < n; ti++ {
		world := x08NewWorld(true, int64(100000+ti))
		tc := x08NewTC()
		log := &x08Log{}
		log.add(vx.M{"ev": "reset", "trace": ti})
		start := make(chan struct{})
		var wg sync.WaitGroup
		fin, cert := x08Watch(&progress, func() {
			for g := 0; g < G; g++ {
				wg.Add(1)
				go func(g int) {
					defer wg.Done()
					rnd := vx.Rand(int64(ti*131 + g + 500000))
					c := &x08Caller{w: world, tc: tc, rnd: rnd}
					p := fmt.Sprintf("g%d", g)
					<-start
					for k := 0; k < K; k++ {
						op := x08RandOp(rnd, world)
						op["ev"], op["p"], op["id"] = "inv", p, 0
						inv := log.add(op)
						atomic.AddInt64(&progress, 1)
						r := c.call(op)
						// the outcome goes into the inv event (it is written to the file after the run only)
						cbs := make([]interface{}, 0, len(r.cbs))
						for _, cb := range r.cbs {
							cbs = append(cbs, cb)
						}
						res := vx.M{"ok": r.ok, "ret": r.ret, "ids": r.ids, "nss": r.nss, "cbs": cbs}
						if r.panic != "" {
							res["panic"] = r.panic
							res["ret"] = -9
						}
						log.mu.Lock()
						inv["r"], inv["id"] = res, r.newID
						log.mu.Unlock()
						log.add(vx.M{"ev": "ret", "p": p})
						if r.newID != 0 {
							world.mu.Lock()
							world.pub = append(world.pub, r.newID)
							world.mu.Unlock()
						}
						if rnd.Intn(3) == 0 {
							runtime.Gosched()
						}
					}
				}(g)
			}
			close(start)
			wg.Wait()
			// the end of the controller's life: Close finds exactly what is left
			c := &x08Caller{w: world, tc: tc, rnd: vx.Rand(int64(ti))}
			op := vx.M{"ev": "inv", "p": "g0", "a": "closeall", "ns": "*", "cat": "", "name": "", "ver": 0, "o": 0, "lim": 0, "id": 0}
			log.add(op)
			r := c.call(op)
			cbs := make([]interface{}, 0, len(r.cbs))
			for _, cb := range r.cbs {
				cbs = append(cbs, cb)
			}
			op["r"] = vx.M{"ok": r.ok, "ret": 0, "ids": r.ids, "nss": r.nss, "cbs": cbs}
			log.add(vx.M{"ev": "ret", "p": "g0"})
		})
		if !fin {
			out.Raw(vx.M{"ev": "deadlock", "trace": ti, "what": cert})
			break
		}
		for _, e := range log.ev {
			out.Raw(e)
			total++
		}
	}
	_ = total
}

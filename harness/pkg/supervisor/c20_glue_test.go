package supervisor

import (
	"github.com/megaease/easegress/pkg/cluster"
	"github.com/megaease/easegress/pkg/option"
)

// C20 harness: glue for package supervisor (business controllers only; the traffic-object path is
// driven from the harness in pkg/object/rawconfigtrafficcontroller).

type (
	c20Supervisor = Supervisor
	c20Spec       = Spec
	c20Object     = Object
	c20Category   = ObjectCategory
	c20Status     = Status
	c20Entity     = ObjectEntity
)

const (
	c20CatBiz  = CategoryBusinessController
	c20CatGate = CategoryTrafficGate
	c20CatPipe = CategoryPipeline
	c20CatSys  = CategorySystemController
	c20Pkg     = "supervisor"
)

var (
	c20Register   = Register
	c20MustNew    = MustNew
	c20Sentinels  = [][2]string{{c20SentBizName, "C20SB"}}
	c20TraceKinds = []string{"K1", "K2"}
)

func c20Traffic(k string) bool { return false }

// c20MustNewStaged is MustNew, statement by statement (pkg/supervisor/supervisor.go), with a call
// of `between` between the creation of the object registry - which starts the registry goroutine -
// and the registration of the supervisor's watcher: the schedule of MustNew in which the registry
// goroutine gets ahead of the goroutine that creates the supervisor.
var c20MustNewStaged = c20StagedMustNew

func c20StagedMustNew(opt *option.Options, cls cluster.Cluster, between func()) *Supervisor {
	s := &Supervisor{
		options: opt,
		cls:     cls,

		firstHandle:     true,
		firstHandleDone: make(chan struct{}),
		done:            make(chan struct{}),
	}

	initObjs := loadInitialObjects(s, opt.InitialObjectConfigFiles)

	s.objectRegistry = newObjectRegistry(s, initObjs)
	between()
	s.watcher = s.objectRegistry.NewWatcher(watcherName, FilterCategory(
		CategoryBusinessController))

	globalSuper = s

	s.initSystemControllers()

	go s.run()

	return s
}

// c20LiveEntities: everything the supervisor reports as live.
func c20LiveEntities(s *Supervisor) []*ObjectEntity {
	var out []*ObjectEntity
	s.WalkControllers(func(e *ObjectEntity) bool {
		out = append(out, e)
		return true
	})
	return out
}

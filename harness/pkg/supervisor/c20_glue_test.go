package supervisor

// C20 harness: glue for package supervisor (business controllers only; the traffic-object path is
// driven from the harness in pkg/object/rawconfigtrafficcontroller).

type (
	c20Supervisor = Supervisor
	c20Spec       = Spec
	c20Object     = Object
	c20Category   = ObjectCategory
	c20Status     = Status
	c20Entity     = ObjectEntity
)

const (
	c20CatBiz  = CategoryBusinessController
	c20CatGate = CategoryTrafficGate
	c20CatPipe = CategoryPipeline
	c20Pkg     = "supervisor"
)

var (
	c20Register   = Register
	c20MustNew    = MustNew
	c20Sentinels  = [][2]string{{c20SentBizName, "C20SB"}}
	c20TraceKinds = []string{"K1", "K2"}
)

func c20Traffic(k string) bool { return false }

// c20LiveEntities: everything the supervisor reports as live.
func c20LiveEntities(s *Supervisor) []*ObjectEntity {
	var out []*ObjectEntity
	s.WalkControllers(func(e *ObjectEntity) bool {
		out = append(out, e)
		return true
	})
	return out
}

package circuitbreaker

// Harness for C08 (DESIGN 5/C08): drives the real CircuitBreaker under a virtual clock.
//   TestVerifC08Replay  - replays TLC-generated behaviours in lock-step (MBT)
//   TestVerifC08Trace   - seeded random histories, recorded for TLC trace validation (TV)
//   TestVerifC08Conc    - concurrent callers under a frozen clock, inv/ret events (linearisation by TLC)

import (
	"fmt"
	"sync"
	"testing"
	"time"

	vx "github.com/megaease/easegress/pkg/verifx"
)

const verifTick = 500 * time.Millisecond

type verifClock struct {
	mu  sync.Mutex
	now time.Time
}

func (c *verifClock) Now() time.Time {
	c.mu.Lock()
	defer c.mu.Unlock()
	return c.now
}

func (c *verifClock) Advance(d time.Duration) {
	c.mu.Lock()
	c.now = c.now.Add(d)
	c.mu.Unlock()
}

func verifInstallClock(offset time.Duration) *verifClock {
	c := &verifClock{now: time.Date(2022, 3, 4, 5, 6, 7, 0, time.UTC).Add(offset)}
	nowFunc = c.Now
	return c
}

var verifStateNames = map[State]string{StateClosed: "closed", StateOpen: "open", StateHalfOpen: "halfopen",
	StateDisabled: "disabled", StateForceOpen: "forceopen"}

func verifPolicy(p vx.M) *Policy {
	wt := uint8(CountBased)
	if vx.Str(p["wt"]) == "time" {
		wt = TimeBased
	}
	return NewPolicy(uint8(vx.Int(p["failT"])), uint8(vx.Int(p["slowT"])), wt,
		uint32(vx.Int(p["wsize"])), uint32(vx.Int(p["permitted"])), uint32(vx.Int(p["minCalls"])),
		10*time.Millisecond, // slow-call threshold: results are injected as durations 0 / 10ms
		time.Duration(vx.Int(p["maxWaitHO"]))*verifTick, time.Duration(vx.Int(p["waitOpen"]))*verifTick)
}

func verifRecord(cb *CircuitBreaker, id uint32, r string) {
	switch r {
	case "ok":
		cb.RecordResult(id, false, 9*time.Millisecond)
	case "slow":
		cb.RecordResult(id, false, 10*time.Millisecond)
	case "fail":
		cb.RecordResult(id, true, 0)
	case "failslow": // failed and at least as slow as the slow-call threshold (a backend time-out)
		cb.RecordResult(id, true, 10*time.Millisecond)
	default:
		panic("bad result " + r)
	}
}

// TestVerifC08Replay: for each behaviour (list of `out` records of CircuitBreaker_Gen) build a
// fresh breaker and compare the observation after every step with the contract's prediction.
func TestVerifC08Replay(t *testing.T) {
	behs := vx.ReadBehaviours(t, "VERIF_IN")
	w := vx.NewWriter(t, "VERIF_OUT")
	defer w.Close()
	rng := vx.Rand(8)
	steps, mism, freeDiv := 0, 0, 0
	for bi, beh := range behs {
		if len(beh) == 0 || vx.Str(beh[0]["a"]) != "init" {
			t.Fatalf("behaviour %d does not start with init", bi)
		}
		offset := time.Duration(rng.Intn(500)) * time.Millisecond
		clk := verifInstallClock(offset)
		cb := New(verifPolicy(beh[0]["pol"].(vx.M)))
		var pend []uint32
		emap := map[uint32]int{} // real stateID -> contract epoch
		rmap := map[int]uint32{}
		bad := ""
	replay:
		for si, st := range beh[1:] {
			steps++
			switch vx.Str(st["a"]) {
			case "tick":
				clk.Advance(time.Duration(vx.Int(st["d"])) * verifTick)
			case "acq":
				ok, id := cb.AcquirePermission()
				if ok {
					pend = append(pend, id)
				}
				ep := vx.Int(st["ep"])
				if ok != vx.Bool(st["ok"]) {
					bad = fmt.Sprintf("acquire permitted=%v, contract says %v", ok, vx.Bool(st["ok"]))
				} else if got := verifStateNames[cb.State()]; got != vx.Str(st["st"]) {
					bad = fmt.Sprintf("state after acquire %s, contract says %s", got, vx.Str(st["st"]))
				} else if e, seen := emap[id]; seen && e != ep {
					bad = fmt.Sprintf("stateID %d returned for contract epochs %d and %d", id, e, ep)
				} else if r, seen := rmap[ep]; seen && r != id {
					bad = fmt.Sprintf("contract epoch %d seen as stateIDs %d and %d", ep, r, id)
				}
				emap[id] = ep
				rmap[ep] = id
			case "rec":
				i := vx.Int(st["i"]) - 1
				if i < 0 || i >= len(pend) {
					bad = fmt.Sprintf("harness lost track of outstanding calls (i=%d, have %d)", i+1, len(pend))
					break
				}
				id := pend[i]
				pend = append(pend[:i:i], pend[i+1:]...)
				verifRecord(cb, id, vx.Str(st["r"]))
				if got := verifStateNames[cb.State()]; got != vx.Str(st["st"]) && vx.Bool(st["free"]) && got == vx.Str(st["alt"]) {
					// the contract leaves this step open and TLC took the other branch: the rest of the
					// behaviour does not apply to this breaker
					freeDiv++
					break replay
				} else if got != vx.Str(st["st"]) {
					bad = fmt.Sprintf("state after record(%s) %s, contract says %s", vx.Str(st["r"]), got, vx.Str(st["st"]))
				}
			}
			if bad != "" {
				mism++
				w.Raw(vx.M{"k": "mismatch", "beh": bi, "step": si + 1, "what": bad, "offset_ms": int(offset / time.Millisecond),
					"behaviour": beh[:si+2]})
				break
			}
		}
	}
	w.Raw(vx.M{"k": "summary", "behaviours": len(behs), "steps": steps, "mismatches": mism, "free_diverged": freeDiv})
}

type verifRandPolicy struct {
	m vx.M
}

// TestVerifC08Trace: seeded random histories over random policies (thresholds 1..100), logged
// with the observed replies; TLC validates them against the contract (CircuitBreaker_Trace).
func TestVerifC08Trace(t *testing.T) {
	w := vx.NewWriter(t, "VERIF_OUT")
	defer w.Close()
	rng := vx.Rand(808)
	nTraces := vx.EnvInt("VERIF_N", 40)
	nSteps := vx.EnvInt("VERIF_STEPS", 60)
	for ti := 0; ti < nTraces; ti++ {
		wt := "count"
		if rng.Intn(2) == 0 {
			wt = "time"
		}
		thr := func() int {
			switch rng.Intn(6) {
			case 0:
				return 1 + rng.Intn(100)
			case 1:
				return 100
			case 2:
				return []int{25, 33, 34, 50, 66, 67, 75}[rng.Intn(7)]
			case 3, 4:
				// exact threshold boundaries: the integer percentages next to a rate k/tot that a small
				// window can hold (the last one not above it, the first one above it)
				tot := 2 + rng.Intn(8)
				k := 1 + rng.Intn(tot)
				t := 100*k/tot + rng.Intn(2)
				if t > 100 {
					t = 100
				}
				return t
			}
			return 50
		}
		pol := vx.M{"failT": thr(), "slowT": thr(), "wt": wt, "wsize": 1 + rng.Intn(5), "minCalls": 1 + rng.Intn(5),
			"permitted": 1 + rng.Intn(3), "waitOpen": 1 + rng.Intn(5), "maxWaitHO": rng.Intn(4)}
		failBias, slowBias := rng.Intn(100), 20
		if ti%2 == 1 {
			// every other trace aims at an exact threshold boundary: a window of tot results (preferably a
			// rate that is not a whole percentage), the threshold the last whole percentage not above k/tot
			// or the first one above it, and results drawn so that k of tot is what the window tends to hold
			tot, k := 2+rng.Intn(7), 1
			for try := 0; try < 3; try++ {
				tot = 2 + rng.Intn(7)
				k = 1 + rng.Intn(tot)
				if 100*k%tot != 0 {
					break
				}
			}
			t := 100 * k / tot
			if rng.Intn(3) > 0 && t < 100 {
				t++
			}
			if t < 1 {
				t = 1
			}
			if rng.Intn(3) == 0 {
				pol["slowT"], pol["failT"] = t, 100
				slowBias, failBias = 100*k/tot, rng.Intn(10)
			} else {
				pol["failT"], pol["slowT"] = t, 100
				failBias, slowBias = 100*k/tot, rng.Intn(10)
			}
			if rng.Intn(4) > 0 {
				pol["wt"], pol["wsize"] = "count", tot
			}
			pol["minCalls"] = 1 + rng.Intn(tot)
		}
		clk := verifInstallClock(time.Duration(rng.Intn(500)) * time.Millisecond)
		cb := New(verifPolicy(pol))
		w.Emit(vx.M{"ev": "reset", "pol": pol})
		var pend []uint32
		slowFails := rng.Intn(4) // 0: failed calls are all fast; n: one failed call in n is slow as well
		for s := 0; s < nSteps; s++ {
			x := rng.Intn(100)
			switch {
			case x < 25:
				d := 1 + rng.Intn(3)
				clk.Advance(time.Duration(d) * verifTick)
				w.Emit(vx.M{"ev": "tick", "d": d})
			case x < 60 || len(pend) == 0:
				ok, id := cb.AcquirePermission()
				if ok {
					pend = append(pend, id)
				}
				w.Emit(vx.M{"ev": "acq", "ok": ok, "id": int(id), "st": verifStateNames[cb.State()]})
			default:
				i := rng.Intn(len(pend))
				if rng.Intn(3) > 0 {
					i = 0
				}
				id := pend[i]
				pend = append(pend[:i:i], pend[i+1:]...)
				r := "ok"
				if y := rng.Intn(100); y < failBias {
					r = "fail"
					if slowFails > 0 && rng.Intn(slowFails) == 0 {
						r = "failslow"
					}
				} else if y < failBias+slowBias {
					r = "slow"
				}
				verifRecord(cb, id, r)
				w.Emit(vx.M{"ev": "rec", "i": i + 1, "r": r, "st": verifStateNames[cb.State()]})
			}
		}
	}
}

// TestVerifC08Conc: G goroutines acquire and record concurrently while the virtual clock is
// frozen; the clock only moves at barriers where every goroutine is idle. Each call is logged at
// invocation and at return; CircuitBreaker_CTrace searches a linearisation.
func TestVerifC08Conc(t *testing.T) {
	w := vx.NewWriter(t, "VERIF_OUT")
	defer w.Close()
	rng := vx.Rand(8080)
	nTraces := vx.EnvInt("VERIF_N", 20)
	rounds := vx.EnvInt("VERIF_ROUNDS", 6)
	for ti := 0; ti < nTraces; ti++ {
		G := 2 + rng.Intn(3)
		pol := vx.M{"failT": []int{1, 34, 50, 100}[rng.Intn(4)], "slowT": []int{50, 100}[rng.Intn(2)],
			"wt": []string{"count", "time"}[rng.Intn(2)], "wsize": 2 + rng.Intn(3), "minCalls": 1 + rng.Intn(3),
			"permitted": 1 + rng.Intn(2), "waitOpen": 1 + rng.Intn(2), "maxWaitHO": rng.Intn(3)}
		clk := verifInstallClock(time.Duration(rng.Intn(500)) * time.Millisecond)
		cb := New(verifPolicy(pol))
		w.Emit(vx.M{"ev": "reset", "pol": pol})
		for r := 0; r < rounds; r++ {
			var wg sync.WaitGroup
			for g := 0; g < G; g++ {
				wg.Add(1)
				seed := rng.Int63()
				go func(g int, seed int64) {
					defer wg.Done()
					lr := vx.Rand(seed)
					p := fmt.Sprintf("g%d", g)
					for k := 0; k < 2; k++ {
						w.Emit(vx.M{"ev": "inv", "p": p, "op": "acq"})
						ok, id := cb.AcquirePermission()
						w.Emit(vx.M{"ev": "ret", "p": p, "op": "acq", "ok": ok, "id": int(id)})
						if !ok {
							continue
						}
						res := []string{"ok", "fail", "fail", "slow", "failslow", "failslow"}[lr.Intn(6)]
						w.Emit(vx.M{"ev": "inv", "p": p, "op": "rec", "r": res})
						verifRecord(cb, id, res)
						w.Emit(vx.M{"ev": "ret", "p": p, "op": "rec"})
					}
				}(g, seed)
			}
			wg.Wait()
			d := 1 + rng.Intn(3)
			clk.Advance(time.Duration(d) * verifTick)
			w.Emit(vx.M{"ev": "tick", "d": d})
		}
	}
}

package ipfilter

// Harness for C05, first half (DESIGN 5/C05): the decision of the real IPFilter.
//   TestVerifC05Vectors - replays the TLC-generated decision vectors of IPFilter_MC (small bit
//                         widths - VERIF_W -, concretised below a public base address; the general
//                         universe at width 2 and the universe of two same-size nets in one list at
//                         width 3) on ipfilter.New/Allow (MBT)
//   TestVerifC05Trace   - seeded random filters (single addresses, CIDRs of every prefix length,
//                         IPv4 and IPv6, overlapping entries, the same entry on both lists, the
//                         next / previous net of the same size next to an entry) and
//                         addresses biased to the prefix boundaries; the bits are computed with
//                         net/netip (independent of the cidranger path of the code); the decisions
//                         are recorded for TLC trace validation against IPFilter!Denied (TV)

import (
	"fmt"
	"math/rand"
	"net/netip"
	"strings"
	"testing"

	"github.com/megaease/easegress/pkg/logger"
	vx "github.com/megaease/easegress/pkg/verifx"
)

func init() { logger.InitNop() }

var c05Width = vx.EnvInt("VERIF_W", 2)

// c05Concrete: model bits -> address below 203.0.113.0 / 2001:db8:: (last c05Width bits)
func c05Concrete(fam int, bits []interface{}) (netip.Addr, int) {
	full := 32
	var b [16]byte
	if fam == 6 {
		full = 128
		copy(b[:], []byte{0x20, 0x01, 0x0d, 0xb8})
	} else {
		copy(b[:], []byte{203, 0, 113, 0})
	}
	off := full - c05Width
	for i, x := range bits {
		if vx.Int(x) != 0 {
			p := off + i
			b[p/8] |= 1 << (7 - uint(p%8))
		}
	}
	if fam == 6 {
		return netip.AddrFrom16(b), off + len(bits)
	}
	return netip.AddrFrom4([4]byte{b[0], b[1], b[2], b[3]}), off + len(bits)
}

func c05Entry(n vx.M, alt bool) string {
	if t := vx.Str(n["txt"]); t != "" {
		return t
	}
	a, plen := c05Concrete(vx.Int(n["fam"]), vx.List(n["bits"]))
	if plen == a.BitLen() && !alt {
		return a.String() // bare address: New chooses the /32 resp. /128 mask
	}
	return fmt.Sprintf("%s/%d", a.String(), plen)
}

func c05Spec(f vx.M, alt bool) *Spec {
	s := &Spec{BlockByDefault: vx.Bool(f["dflt"])}
	for _, n := range vx.List(f["allow"]) {
		s.AllowIPs = append(s.AllowIPs, c05Entry(n.(vx.M), alt))
	}
	for _, n := range vx.List(f["block"]) {
		s.BlockIPs = append(s.BlockIPs, c05Entry(n.(vx.M), alt))
	}
	return s
}

func TestVerifC05Vectors(t *testing.T) {
	vecs := vx.ReadNDJSON(t, "VERIF_IN")
	w := vx.NewWriter(t, "VERIF_OUT")
	defer w.Close()
	n, mism := 0, 0
	cache := map[string]*IPFilter{}
	for i, v := range vecs {
		f := v["f"].(vx.M)
		a := v["a"].(vx.M)
		alt := i%2 == 1 // full-length prefixes alternately as bare address and as /32 (/128)
		spec := c05Spec(f, alt)
		key := fmt.Sprint(spec.AllowIPs, spec.BlockIPs, spec.BlockByDefault)
		flt := cache[key]
		if flt == nil {
			flt = New(spec)
			if len(cache) > 50000 {
				cache = map[string]*IPFilter{}
			}
			cache[key] = flt
		}
		ad, _ := c05Concrete(vx.Int(a["fam"]), vx.List(a["bits"]))
		got := flt.Allow(ad.String())
		n++
		if got != vx.Bool(v["allow"]) {
			mism++
			w.Raw(vx.M{"k": "mismatch", "f": f, "a": a, "allowIPs": spec.AllowIPs, "blockIPs": spec.BlockIPs,
				"blockByDefault": spec.BlockByDefault, "addr": ad.String(), "got": got, "exp": vx.Bool(v["allow"])})
		}
	}
	w.Raw(vx.M{"k": "summary", "vectors": n, "mismatches": mism})
}

// ---- TV ---------------------------------------------------------------------------------------------

func c05Bits(a netip.Addr, n int) []interface{} {
	b := a.AsSlice()
	out := make([]interface{}, 0, n)
	for i := 0; i < n; i++ {
		out = append(out, int((b[i/8]>>(7-uint(i%8)))&1))
	}
	return out
}

func c05RandAddr(r *rand.Rand, fam int) netip.Addr {
	n := 4
	if fam == 6 {
		n = 16
	}
	b := make([]byte, n)
	switch r.Intn(3) {
	case 0: // anywhere
		r.Read(b)
	case 1: // a few well-known neighbourhoods, so that entries and addresses meet
		if fam == 4 {
			copy(b, [][]byte{{10, 1, 2, 3}, {192, 168, 1, 77}, {203, 0, 113, 5}, {127, 0, 0, 1}, {255, 255, 255, 255}, {0, 0, 0, 0}}[r.Intn(6)])
		} else {
			copy(b, [][]byte{{0x20, 0x01, 0x0d, 0xb8}, {0xfe, 0x80}, {0xfc}, {}, {0xff, 0xff, 0xff, 0xff, 0xff, 0xff, 0xff, 0xff, 0xff, 0xff, 0xff, 0xff, 0xff, 0xff, 0xff, 0xff}}[r.Intn(5)])
			if r.Intn(2) == 0 {
				b[15] = byte(r.Intn(256))
			}
		}
	default: // sparse
		for k := 0; k < 3; k++ {
			b[r.Intn(n)] = byte(1 << uint(r.Intn(8)))
		}
	}
	a, _ := netip.AddrFromSlice(b)
	if fam == 6 && a.Is4In6() { // ::ffff:a.b.c.d is outside the property's two families
		b[0] = 0x20
		a, _ = netip.AddrFromSlice(b)
	}
	return a
}

func c05RandNet(r *rand.Rand, near []netip.Addr) vx.M {
	fam := 4
	if r.Intn(3) == 0 {
		fam = 6
	}
	var a netip.Addr
	if len(near) > 0 && r.Intn(2) == 0 {
		a = near[r.Intn(len(near))]
		if a.Is4() {
			fam = 4
		} else {
			fam = 6
		}
	} else {
		a = c05RandAddr(r, fam)
	}
	full := a.BitLen()
	if r.Intn(4) == 0 {
		return vx.M{"fam": fam, "bits": c05Bits(a, full), "txt": a.String()}
	}
	plen := r.Intn(full + 1)
	if r.Intn(3) == 0 {
		plen = full - r.Intn(9)
	}
	return vx.M{"fam": fam, "bits": c05Bits(a, plen), "txt": fmt.Sprintf("%s/%d", a.String(), plen)}
}

// c05Neighbour: the net of the same size right after (or right before) n in address order: the
// prefix, read as a number, plus (minus) one. Depending on the last prefix bit the two are the
// halves of one supernet (10.0.0.0/24, 10.0.1.0/24) or not (10.0.1.0/24, 10.0.2.0/24; two
// consecutive single addresses x.1, x.2). ok = false at the ends of the address space.
func c05Neighbour(r *rand.Rand, n vx.M) (vx.M, bool) {
	fam := vx.Int(n["fam"])
	full := 32
	if fam == 6 {
		full = 128
	}
	src := vx.List(n["bits"])
	plen := len(src)
	if plen == 0 {
		return nil, false
	}
	bits := make([]int, plen)
	for i, x := range src {
		bits[i] = vx.Int(x)
	}
	up := r.Intn(2) == 0
	i := plen - 1
	for ; i >= 0; i-- { // binary increment / decrement
		if (bits[i] == 0) == up {
			bits[i] ^= 1
			break
		}
		bits[i] ^= 1
	}
	if i < 0 {
		return nil, false
	}
	b := make([]byte, full/8)
	for i, x := range bits {
		if x != 0 {
			b[i/8] |= 1 << (7 - uint(i%8))
		}
	}
	a, _ := netip.AddrFromSlice(b)
	if a.Is4In6() {
		return nil, false
	}
	txt := fmt.Sprintf("%s/%d", a.String(), plen)
	if plen == full && !strings.Contains(vx.Str(n["txt"]), "/") {
		txt = a.String() // a bare address next to a bare address
	}
	return vx.M{"fam": fam, "bits": c05Bits(a, plen), "txt": txt}, true
}

// an address related to net n: inside, last prefix bit flipped, first host bit flipped relative
// to the entry, last bit flipped
func c05Around(r *rand.Rand, n vx.M) netip.Addr {
	fam := vx.Int(n["fam"])
	full := 32
	if fam == 6 {
		full = 128
	}
	bits := vx.List(n["bits"])
	b := make([]byte, full/8)
	for i, x := range bits {
		if vx.Int(x) != 0 {
			b[i/8] |= 1 << (7 - uint(i%8))
		}
	}
	for i := len(bits); i < full; i++ {
		if r.Intn(2) == 0 {
			b[i/8] |= 1 << (7 - uint(i%8))
		}
	}
	flip := func(p int) {
		if p >= 0 && p < full {
			b[p/8] ^= 1 << (7 - uint(p%8))
		}
	}
	switch r.Intn(6) {
	case 0:
		flip(len(bits) - 1)
	case 1:
		flip(r.Intn(full))
	case 2:
		flip(full - 1)
	case 3: // all-zero / all-one host part
		for i := len(bits); i < full; i++ {
			b[i/8] &^= 1 << (7 - uint(i%8))
		}
	}
	a, _ := netip.AddrFromSlice(b)
	if a.Is4In6() {
		b[0] ^= 0x20
		a, _ = netip.AddrFromSlice(b)
	}
	return a
}

func TestVerifC05Trace(t *testing.T) {
	w := vx.NewWriter(t, "VERIF_OUT")
	defer w.Close()
	nf := vx.EnvInt("VERIF_N", 300)
	na := vx.EnvInt("VERIF_ADDRS", 12)
	r := vx.Rand(501)
	for i := 0; i < nf; i++ {
		var near []netip.Addr
		for k := 0; k < 3; k++ {
			fam := 4
			if r.Intn(3) == 0 {
				fam = 6
			}
			near = append(near, c05RandAddr(r, fam))
		}
		f := vx.M{"on": true, "dflt": r.Intn(2) == 0}
		seenA, seenB := map[string]bool{}, map[string]bool{}
		mk := func(n int, seen map[string]bool) []interface{} {
			out := []interface{}{}
			for k := 0; k < n; k++ {
				x := c05RandNet(r, near)
				if !seen[vx.Str(x["txt"])] {
					seen[vx.Str(x["txt"])] = true
					out = append(out, x)
				}
				// now and then the next / previous net of the same size goes into the same list
				if r.Intn(3) == 0 {
					if y, ok := c05Neighbour(r, x); ok && !seen[vx.Str(y["txt"])] {
						seen[vx.Str(y["txt"])] = true
						out = append(out, y)
					}
				}
			}
			return out
		}
		al := mk(r.Intn(4), seenA)
		bl := mk(r.Intn(4), seenB)
		if len(al) > 0 && r.Intn(4) == 0 && !seenB[vx.Str(al[0].(vx.M)["txt"])] {
			bl = append(bl, al[0]) // the same entry allowed and blocked
		}
		f["allow"], f["block"] = al, bl
		flt := New(c05Spec(f, false))
		all := append(append([]interface{}{}, al...), bl...)
		for k := 0; k < na; k++ {
			var a netip.Addr
			if len(all) > 0 && r.Intn(4) != 0 {
				a = c05Around(r, all[r.Intn(len(all))].(vx.M))
			} else {
				fam := 4
				if r.Intn(3) == 0 {
					fam = 6
				}
				a = c05RandAddr(r, fam)
			}
			fam := 4
			if a.Is6() {
				fam = 6
			}
			// the address as the client may spell it: plain, IPv4-mapped (::ffff:a.b.c.d is the IPv4
			// host a.b.c.d), expanded or upper-case IPv6
			txt := a.String()
			switch r.Intn(8) {
			case 0:
				if a.Is4() {
					txt = "::ffff:" + txt
				} else {
					txt = a.StringExpanded()
				}
			case 1:
				txt = strings.ToUpper(txt)
			}
			got := flt.Allow(txt)
			w.Raw(vx.M{"f": f, "a": vx.M{"fam": fam, "bits": c05Bits(a, a.BitLen()), "txt": txt}, "allow": got})
		}
	}
}

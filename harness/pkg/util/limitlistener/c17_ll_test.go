package limitlistener

// Harness for C17 (DESIGN 5/C17), listener level: the real LimitListener over an inner listener
// the harness feeds (in-memory net.Pipe connections, or real loopback TCP).
//   TestVerifC17LLTrace   - seeded concurrent histories: clients dial and hang up, the handler side
//                           closes (also twice / from two goroutines at once, the two calls really
//                           overlapping inside a slow close of the underlying connection: c17SlowConn),
//                           the inner Accept fails now and then,
//                           the cap is changed through SetMaxConnection (completion unobservable) or
//                           through the semaphore's SetMaxCount (done channel observed); calls with the
//                           value already configured; in a third of the histories the clients stay
//                           connected across the whole burst of cap changes  (TV)
//   TestVerifC17LLReplay  - TLC-generated schedules of specs/ConnCap.tla executed step by step: the
//                           acceptor's Accept call, the inner Accept's return (or failure), closes,
//                           SetMaxCount calls and - through the gate hook when the tree has it - the
//                           order of the background adjustments; two overlapping Close calls on one
//                           connection and the order in which they come out of the underlying
//                           close (close2 / crel / cnop)  (MBT schedules)
//                         cap values at and above the capacity of the semaphore underneath occur in the
//                         histories and in the schedules (profile BoundaryFirst); every schedule ends at a
//                         barrier - everything closed, acceptor gone - at which every cap change must have
//                         completed (c17AwaitResizes: "never" decided from goroutine dumps, event rzstuck)
//                         and the semaphore must hold exactly the last cap (c17ProbeSem)
// Events are those of specs/ConnCap_Trace.tla.  The harness never judges: TLC validates the log.

import (
	"context"
	"errors"
	"fmt"
	"io"
	"net"
	"runtime"
	"strings"
	"sync"
	"sync/atomic"
	"testing"
	"time"

	vx "github.com/megaease/easegress/pkg/verifx"
)

type c17Log struct {
	mu   sync.Mutex
	w    *vx.Writer
	open int
	nrz  int
	nacc int
}

func (g *c17Log) reset(cap int, meta vx.M) {
	g.mu.Lock()
	defer g.mu.Unlock()
	g.open, g.nrz, g.nacc = 0, 0, 0
	rec := vx.M{"ev": "reset", "cap": cap}
	for k, v := range meta {
		rec[k] = v
	}
	g.w.Emit(rec)
}

func (g *c17Log) rz(n int) int { // BEFORE the call
	g.mu.Lock()
	defer g.mu.Unlock()
	g.nrz++
	g.w.Emit(vx.M{"ev": "rz", "id": g.nrz, "n": n})
	return g.nrz
}

func (g *c17Log) rzdone(id int) { // AFTER done was seen closed
	g.mu.Lock()
	defer g.mu.Unlock()
	g.w.Emit(vx.M{"ev": "rzdone", "id": id})
}

func (g *c17Log) accInv(p string) {
	g.mu.Lock()
	defer g.mu.Unlock()
	g.w.Emit(vx.M{"ev": "acc.inv", "p": p})
}

func (g *c17Log) acc(p string) int { // AFTER Accept returned
	g.mu.Lock()
	defer g.mu.Unlock()
	g.w.Emit(vx.M{"ev": "acc", "p": p, "open": g.open})
	g.open++
	g.nacc++
	return g.open - 1
}

func (g *c17Log) accErr(p string) {
	g.mu.Lock()
	defer g.mu.Unlock()
	g.w.Emit(vx.M{"ev": "acc.err", "p": p})
}

func (g *c17Log) closing() { // BEFORE Close
	g.mu.Lock()
	defer g.mu.Unlock()
	g.open--
	g.w.Emit(vx.M{"ev": "close"})
}

func (g *c17Log) drop() {
	g.mu.Lock()
	defer g.mu.Unlock()
	g.w.Emit(vx.M{"ev": "drop"})
}

func (g *c17Log) stuck(openhi int) {
	atomic.StoreInt32(&c17Patient, 0)
	g.mu.Lock()
	defer g.mu.Unlock()
	g.w.Emit(vx.M{"ev": "stuck", "openhi": openhi})
}

// rzstuck: resize `id` was found never to complete, at a barrier: nothing is held, nobody is running
// (see c17AwaitResizes); `how` says how that was established.
func (g *c17Log) rzstuck(id int, how string) {
	atomic.StoreInt32(&c17Patient, 0)
	g.mu.Lock()
	defer g.mu.Unlock()
	g.w.Emit(vx.M{"ev": "rzstuck", "id": id, "open": g.open, "how": how})
}

func (g *c17Log) note(rec vx.M) {
	g.mu.Lock()
	defer g.mu.Unlock()
	rec["ev"] = "note" // dropped by the driver before the log goes to TLC
	g.w.Raw(rec)
}

func (g *c17Log) counts() (open, nacc int) {
	g.mu.Lock()
	defer g.mu.Unlock()
	return g.open, g.nacc
}

// c17Patience is the deadline for things that must happen eventually.  Generous the first time; once
// something has been declared stuck the run is rejected anyway and the later deadlines are short.
var c17Patient = int32(1)

func c17Patience() time.Duration {
	if atomic.LoadInt32(&c17Patient) == 1 {
		return 20 * time.Second
	}
	return 2 * time.Second
}

// c17Tuners looks at the goroutines of the process that belong to SetMaxCount calls (started by
// SetMaxCount or running code of it): `blocked` of them sit in a channel operation nobody can complete
// from outside the semaphore - the select / receive inside Weighted.Acquire, or the wait for the
// previous call's completion - and `active` are anywhere else (runnable, running, parked at the
// harness's gate, ...).  A goroutine that has been woken is runnable at once (the waker marks it), so a
// blocked one has not been woken by anything that happened before the dump.
func c17Tuners() (blocked, active int) {
	buf := make([]byte, 1<<20)
	for {
		n := runtime.Stack(buf, true)
		if n < len(buf) {
			buf = buf[:n]
			break
		}
		buf = make([]byte, 2*len(buf))
	}
	for _, blk := range strings.Split(string(buf), "\n\n") {
		if !strings.HasPrefix(blk, "goroutine ") || !strings.Contains(blk, "SetMaxCount") {
			continue
		}
		hdr := blk
		if i := strings.IndexByte(blk, '\n'); i >= 0 {
			hdr = blk[:i]
		}
		state := ""
		if i := strings.IndexByte(hdr, '['); i >= 0 {
			state = hdr[i+1:]
		}
		if (strings.HasPrefix(state, "select") || strings.HasPrefix(state, "chan receive")) && !strings.Contains(blk, "c17Gate") {
			blocked++
		} else {
			active++
		}
	}
	return
}

// c17Leaked counts the background goroutines of calls already declared stuck (they stay in the process).
var c17Leaked int

// c17AwaitResizes is called at a barrier: every token has been given back (the Release calls have
// returned), no acquirer is left, the gate is open.  Every SetMaxCount call must complete now.  A call
// is declared stuck ("never completes") when its done channel is open and ALL background goroutines of
// SetMaxCount calls (there is at least one that was not given up before) are blocked inside the
// semaphore / behind each other, none runnable, in two goroutine dumps in a row: with nothing held and
// nobody running nothing can ever wake them.  (Only if
// the goroutines cannot be told from the dump the generous deadline decides.)  Returns the number of
// calls declared stuck.
func c17AwaitResizes(g *c17Log, dones []chan struct{}, ids []int) int {
	deadline := time.Now().Add(c17Patience())
	pending := func() []int {
		var p []int
		for i, d := range dones {
			select {
			case <-d:
			default:
				p = append(p, i)
			}
		}
		return p
	}
	quietDumps := 0
	for {
		p := pending()
		if len(p) == 0 {
			return 0
		}
		how := ""
		blocked, active := c17Tuners()
		if active == 0 && blocked > c17Leaked {
			if quietDumps++; quietDumps >= 2 {
				how = "barrier"
			}
		} else {
			quietDumps = 0
		}
		if how == "" && time.Now().After(deadline) {
			how = "deadline"
		}
		if how != "" {
			if p2 := pending(); len(p2) != len(p) {
				quietDumps = 0
				continue
			}
			for _, i := range p {
				g.rzstuck(ids[i], how)
			}
			if how == "barrier" {
				c17Leaked = blocked
			}
			return len(p)
		}
		time.Sleep(5 * time.Millisecond)
	}
}

// c17ProbeSem: at the end of a schedule - every connection closed, the listener closed, the acceptor
// gone, every cap change completed - the listener's semaphore must hold exactly `cap` free slots:
// `cap` can be taken (released capacity is usable again) and one more cannot.  A cap too large to be
// filled (values near maxCapacity) is probed from below only.  Logged as ordinary events; TLC judges.
const c17ProbeMax = 16

// the capacity of the weighted semaphore underneath (pkg/util/sem maxCapacity; given by the driver)
var c17MaxCapacity = vx.EnvInt("VERIF_C17_MAXCAP", 20_000_000)

func c17ProbeSem(g *c17Log, l *LimitListener, cap int) {
	got := 0
	want, exact := cap, true
	if cap > c17ProbeMax {
		want, exact = 6, false
	}
	for i := 0; i < want; i++ {
		ctx, cancel := context.WithTimeout(context.Background(), c17Patience())
		g.accInv("probe")
		err := l.sem.AcquireWithContext(ctx)
		cancel()
		if err != nil {
			g.accErr("probe")
			g.stuck(got)
			break
		}
		g.acc("probe")
		got++
	}
	if exact {
		ctx, cancel := context.WithTimeout(context.Background(), 3*time.Millisecond)
		g.accInv("probe")
		if err := l.sem.AcquireWithContext(ctx); err == nil {
			g.acc("probe") // beyond the cap: TLC rejects it
			got++
		} else {
			g.accErr("probe")
		}
		cancel()
	}
	for ; got > 0; got-- {
		g.closing()
		l.sem.Release()
	}
}

func c17WaitGroup(wg *sync.WaitGroup, d time.Duration) bool {
	ch := make(chan struct{})
	go func() { wg.Wait(); close(ch) }()
	return c17Wait(ch, d)
}

// ---- inner listener fed by the harness

type c17TempErr struct{}

func (c17TempErr) Error() string   { return "c17: injected accept error" }
func (c17TempErr) Timeout() bool   { return false }
func (c17TempErr) Temporary() bool { return true }

type c17Addr struct{}

func (c17Addr) Network() string { return "c17" }
func (c17Addr) String() string  { return "c17" }

type c17Inner struct {
	q      chan net.Conn
	errs   chan error // replay mode: an error to return from the Accept that is waiting for a client
	closed chan struct{}
	once   sync.Once
	mu     sync.Mutex
	failIn int // trace mode: fail the n-th Accept from now (0: never)
}

func c17NewInner(gated bool) *c17Inner {
	in := &c17Inner{q: make(chan net.Conn, 256), closed: make(chan struct{})}
	if gated {
		in.errs = make(chan error, 64)
	}
	return in
}

func (in *c17Inner) Accept() (net.Conn, error) {
	if in.errs == nil {
		in.mu.Lock()
		fail := false
		if in.failIn > 0 {
			in.failIn--
			fail = in.failIn == 0
		}
		in.mu.Unlock()
		if fail {
			return nil, c17TempErr{}
		}
	}
	select {
	case c := <-in.q:
		return c, nil
	case e := <-in.errs:
		return nil, e
	case <-in.closed:
		return nil, net.ErrClosed
	}
}

func (in *c17Inner) Close() error   { in.once.Do(func() { close(in.closed) }); return nil }
func (in *c17Inner) Addr() net.Addr { return c17Addr{} }

// c17TCPInner wraps a real TCP listener and injects errors the same way.
type c17TCPInner struct {
	net.Listener
	mu     sync.Mutex
	failIn int
}

func (in *c17TCPInner) Accept() (net.Conn, error) {
	in.mu.Lock()
	fail := false
	if in.failIn > 0 {
		in.failIn--
		fail = in.failIn == 0
	}
	in.mu.Unlock()
	if fail {
		return nil, c17TempErr{}
	}
	c, err := in.Listener.Accept()
	if err != nil {
		return nil, err
	}
	return &c17SlowConn{Conn: c}, nil
}

// ---- connections whose Close takes a while

// c17SlowConn is the server-side end of a client connection as the inner listener hands it out.  Its
// Close can be slow: once the harness has armed it (two Close calls are about to be made on the
// accepted connection at the same time) a caller that enters Close stays inside until
//   - rendezvous mode (TV): the second caller has entered as well, or c17Overlap has passed (an
//     implementation is free to serialise the calls itself; then only one ever enters);
//   - parked mode (schedule replay): the harness lets it out (letOut), one caller at a time.
//
// So the two calls overlap inside the close of the underlying connection for certain, not by luck
// (closing a net.Pipe end or a loopback socket takes no time at all).
type c17SlowConn struct {
	net.Conn
	mu     sync.Mutex
	armed  bool
	parked bool
	in     int             // callers that entered Close since it was armed
	both   chan struct{}   // closed when the second one has entered
	hold   []chan struct{} // parked mode: one per caller inside, nil once let out
	once   sync.Once
	err    error
}

const c17Overlap = 30 * time.Millisecond

// c17ConnAddr is what a c17SlowConn reports as its local address: the harness finds the inner
// connection of an accepted one through it, whatever the listener wraps it in.
type c17ConnAddr struct{ sc *c17SlowConn }

func (c17ConnAddr) Network() string { return "c17" }
func (c17ConnAddr) String() string  { return "c17conn" }

func (s *c17SlowConn) LocalAddr() net.Addr { return c17ConnAddr{s} }

func c17SlowOf(c net.Conn) *c17SlowConn {
	if a, ok := c.LocalAddr().(c17ConnAddr); ok {
		return a.sc
	}
	return nil
}

func (s *c17SlowConn) arm(parked bool) {
	s.mu.Lock()
	defer s.mu.Unlock()
	s.armed, s.parked, s.in, s.both = true, parked, 0, make(chan struct{})
}

func (s *c17SlowConn) Close() error {
	s.mu.Lock()
	armed, both := s.armed, s.both
	var park chan struct{}
	if armed {
		s.in++
		if s.in == 2 {
			close(s.both)
		}
		if s.parked {
			park = make(chan struct{})
			s.hold = append(s.hold, park)
		}
	}
	s.mu.Unlock()
	if park != nil {
		<-park
	} else if armed {
		select {
		case <-both:
		case <-time.After(c17Overlap):
		}
	}
	s.once.Do(func() { s.err = s.Conn.Close() })
	return s.err
}

func (s *c17SlowConn) inside() int {
	s.mu.Lock()
	defer s.mu.Unlock()
	return s.in
}

// letOut lets the oldest parked caller out of Close; all = true: everybody, and later callers pass.
func (s *c17SlowConn) letOut(all bool) {
	s.mu.Lock()
	defer s.mu.Unlock()
	for i, ch := range s.hold {
		if ch != nil {
			close(ch)
			s.hold[i] = nil
			if !all {
				return
			}
		}
	}
	if all {
		s.parked, s.armed = false, false
	}
}

// c17Dbl is a connection of the replay that two overlapping Close calls are busy with.
type c17Dbl struct {
	sc   *c17SlowConn
	fin  chan struct{} // one token per Close call that has returned
	seen int           // calls seen returned
	out  int           // 0: both inside, 1: the first one was let out
}

func (d *c17Dbl) waitReturned(k int, dl time.Duration) bool {
	deadline := time.After(dl)
	for d.seen < k {
		select {
		case <-d.fin:
			d.seen++
		case <-deadline:
			return false
		}
	}
	return true
}

// ---- TV

// TestVerifC17LLTrace: seeded concurrent histories of the real LimitListener.
func TestVerifC17LLTrace(t *testing.T) {
	w := vx.NewWriter(t, "VERIF_OUT")
	defer w.Close()
	g := &c17Log{w: w}
	rng := vx.Rand(1702)
	nTraces := vx.EnvInt("VERIF_N", 30)
	useTCP := vx.EnvInt("VERIF_TCP", 0) == 1
	for ti := 0; ti < nTraces; ti++ {
		if atomic.LoadInt32(&c17Patient) == 0 {
			break // something was declared stuck: the log is rejected anyway, do not spend more deadlines
		}
		cap0 := 1 + rng.Intn(4)
		nClients := 3 + rng.Intn(8)
		nrz := rng.Intn(4)
		via := []string{"api", "sem"}[rng.Intn(2)]
		overlap := rng.Intn(2) == 0
		tcp := useTCP && rng.Intn(2) == 0
		// hold: long-lived connections - the clients do not hang up before the resizer has issued all its
		// calls (a busy server with keep-alive clients during a burst of reloads), so that a shrink below
		// the usage stays blocked while the later calls are made.  Resizes overlap then.
		hold := rng.Intn(3) == 0
		if hold {
			overlap = true
			nrz = 2 + rng.Intn(3)
		}
		holdUntil := make(chan struct{})
		if !hold {
			close(holdUntil)
		}
		g.reset(cap0, vx.M{"level": "ll", "trace": ti, "via": via, "overlap": overlap, "tcp": tcp, "hold": hold})

		var inner net.Listener
		var pin *c17Inner
		var tin *c17TCPInner
		if tcp {
			ln, err := net.Listen("tcp", "127.0.0.1:0")
			if err != nil {
				t.Fatalf("c17: listen: %v", err)
			}
			tin = &c17TCPInner{Listener: ln}
			inner = tin
		} else {
			pin = c17NewInner(false)
			inner = pin
		}
		l := NewLimitListener(inner, uint32(cap0))

		// acceptor + handlers
		var hwg sync.WaitGroup
		accDone := make(chan struct{})
		hseeds := rng.Int63()
		var active, probed, probing int32 // handlers alive (accepted, Close not yet returned); probe clients seen by a handler; probe phase
		go func() {
			defer close(accDone)
			hr := vx.Rand(hseeds)
			for {
				g.accInv("a")
				c, err := l.Accept()
				if err != nil {
					g.accErr("a")
					var te c17TempErr
					if errors.As(err, &te) {
						continue
					}
					return
				}
				g.acc("a")
				mode := hr.Intn(8)
				if atomic.LoadInt32(&probing) == 1 && mode == 0 {
					mode = 3 // probe phase: every handler waits for its client (a probe is recognised by what it sends)
				}
				delay := time.Duration(100+hr.Intn(400)) * time.Microsecond
				linger := time.Duration(0)
				if mode >= 6 {
					// the peer has finished but the handler is not done with the connection yet (still
					// writing its answer): the connection stays open, and counted, until Close
					linger = time.Duration(300+hr.Intn(1500)) * time.Microsecond
				}
				hwg.Add(1)
				atomic.AddInt32(&active, 1)
				go func() {
					defer hwg.Done()
					defer atomic.AddInt32(&active, -1)
					buf := make([]byte, 8)
					if mode == 0 {
						// the handler hangs up first, after a moment
						c.SetReadDeadline(time.Now().Add(delay))
						if n, _ := c.Read(buf); n > 0 && buf[0] == 'P' {
							atomic.AddInt32(&probed, 1)
						}
					} else {
						var rerr error
						for rerr == nil {
							var n int
							n, rerr = c.Read(buf)
							if n > 0 && buf[0] == 'P' {
								atomic.AddInt32(&probed, 1)
							}
						}
						if rerr != io.EOF {
							// neither the client hanging up nor us: somebody closed an established connection
							g.drop()
							g.note(vx.M{"what": "read error on established connection", "err": rerr.Error()})
						}
						time.Sleep(linger)
					}
					g.closing()
					switch mode {
					case 1: // close twice
						c.Close()
						c.Close()
					case 2: // close from two goroutines at once, both inside the underlying close at the same time
						if sc := c17SlowOf(c); sc != nil {
							sc.arm(false)
						}
						var cw sync.WaitGroup
						cw.Add(2)
						for k := 0; k < 2; k++ {
							go func() { defer cw.Done(); c.Close() }()
						}
						cw.Wait()
					default:
						c.Close()
					}
				}()
			}
		}()

		// clients
		var cwg sync.WaitGroup
		for ci := 0; ci < nClients; ci++ {
			cwg.Add(1)
			seed := rng.Int63()
			go func() {
				defer cwg.Done()
				r := vx.Rand(seed)
				time.Sleep(time.Duration(r.Intn(800)) * time.Microsecond)
				var cl net.Conn
				if tcp {
					c, err := net.DialTimeout("tcp", tin.Listener.Addr().String(), 10*time.Second)
					if err != nil {
						return
					}
					cl = c
				} else {
					a, b := net.Pipe()
					pin.q <- &c17SlowConn{Conn: b}
					cl = a
				}
				<-holdUntil
				time.Sleep(time.Duration(200+r.Intn(1500)) * time.Microsecond)
				if r.Intn(3) == 0 {
					runtime.Gosched()
				}
				if tc, ok := cl.(*net.TCPConn); ok && r.Intn(2) == 0 {
					// half-close and wait for the other side to hang up
					tc.CloseWrite()
					tc.SetReadDeadline(time.Now().Add(30 * time.Second))
					io.Copy(io.Discard, tc)
				}
				cl.Close()
			}()
		}
		// injected inner errors
		if rng.Intn(2) == 0 {
			n := 1 + rng.Intn(nClients)
			if tcp {
				tin.mu.Lock()
				tin.failIn = n
				tin.mu.Unlock()
			} else {
				pin.mu.Lock()
				pin.failIn = n
				pin.mu.Unlock()
			}
		}
		// resizer
		var dwg sync.WaitGroup
		var dones []chan struct{}
		var ids []int
		final := cap0
		if hold {
			// let the server fill up (the acceptor then waits for a slot)
			for k := 0; k < 200; k++ {
				if o, _ := g.counts(); o >= cap0 || o >= nClients {
					break
				}
				time.Sleep(100 * time.Microsecond)
			}
		}
		for i := 0; i < nrz; i++ {
			gap := rng.Intn(600)
			if hold {
				gap = rng.Intn(80)
			}
			time.Sleep(time.Duration(gap) * time.Microsecond)
			n := 1 + rng.Intn(5)
			if hold {
				n = 1 + rng.Intn(cap0) // never above the initial cap: the bound of the contract is the tightest
			}
			if !hold && rng.Intn(6) == 0 {
				// a value at or above what the semaphore underneath can hold (maxConnections is a uint32):
				// just below, at, just above, far above its capacity; usually a small value follows
				n = []int{c17MaxCapacity - 1, c17MaxCapacity, c17MaxCapacity + 1, 2_000_000_000}[rng.Intn(4)]
			}
			if rng.Intn(4) == 0 || (hold && rng.Intn(4) == 0) {
				n = final // the value already configured: what a reload that leaves maxConnections alone does
			}
			id := g.rz(n)
			final = n
			if via == "api" {
				l.SetMaxConnection(uint32(n))
				continue
			}
			done := l.sem.SetMaxCount(int64(n))
			dones, ids = append(dones, done), append(ids, id)
			if !overlap && c17Wait(done, c17Patience()) {
				g.rzdone(id)
				continue
			}
			dwg.Add(1)
			go func() { defer dwg.Done(); <-done; g.rzdone(id) }()
		}
		if hold {
			time.Sleep(time.Duration(500+rng.Intn(3000)) * time.Microsecond) // the adjustments that can run do
			close(holdUntil)
		}
		cwg.Wait()
		// every client has hung up: the handlers close (accepted ones see EOF) ...  (the acceptor may still
		// pick up clients that hung up while waiting, so this polls a counter instead of a WaitGroup)
		for i, quiet := 0, 0; quiet < 5; i++ {
			if atomic.LoadInt32(&active) == 0 && (pin == nil || len(pin.q) == 0) {
				quiet++
			} else {
				quiet = 0
			}
			if i > 300000 {
				t.Fatalf("c17: trace %d: handlers did not finish", ti)
			}
			time.Sleep(200 * time.Microsecond)
		}
		// ... and with nothing open every resize completes.  Barrier: no client, no handler left; only the
		// acceptor, which waits inside the inner Accept with its slot or for a slot
		if via == "sem" && c17AwaitResizes(g, dones, ids) == 0 {
			c17WaitGroup(&dwg, c17Patience()) // (the completions are in the log)
		}
		// probe: with nothing open, `final` clients get accepted (released capacity is usable), one more does not.
		// Probe clients say "P" so that stale clients still sitting in the backlog are not mistaken for them.
		var probes []net.Conn
		atomic.StoreInt32(&probing, 1)
		nProbe, want := final+1, final
		if final > c17ProbeMax { // a cap too large to be filled is probed from below only
			nProbe, want = 6, 6
		}
		for i := 0; i < nProbe; i++ {
			var cl net.Conn
			if tcp {
				c, err := net.DialTimeout("tcp", tin.Listener.Addr().String(), 10*time.Second)
				if err != nil {
					continue
				}
				cl = c
			} else {
				a, b := net.Pipe()
				pin.q <- &c17SlowConn{Conn: b}
				cl = a
			}
			probes = append(probes, cl)
			go cl.Write([]byte("P")) // net.Pipe writes block until the handler reads
		}
		deadline := time.Now().Add(c17Patience())
		for int(atomic.LoadInt32(&probed)) < want {
			if time.Now().After(deadline) {
				g.stuck(int(atomic.LoadInt32(&active)))
				break
			}
			time.Sleep(200 * time.Microsecond)
		}
		time.Sleep(20 * time.Millisecond) // an accept beyond the cap would show up in the log (TLC judges it)
		for _, c := range probes {
			c.Close()
		}
		// wait until the accepted probes' handlers are through, then close the listener
		for i := 0; i < 20000; i++ {
			if o, _ := g.counts(); o == 0 {
				break
			}
			time.Sleep(200 * time.Microsecond)
		}
		l.Close()
		select {
		case <-accDone:
		case <-time.After(20 * time.Second):
			t.Fatalf("c17: trace %d: Accept did not return after Close", ti)
		}
		hwg.Wait()
		if pin != nil { // connections still queued in the fake backlog
			for len(pin.q) > 0 {
				(<-pin.q).Close()
			}
		}
	}
}

// ---- schedule replay

type c17Gate struct {
	mu      sync.Mutex
	arrived []chan struct{}
	notify  chan struct{}
	open    bool
}

func (gt *c17Gate) fn(point string, args ...int64) {
	if point != "sem.resize" {
		return
	}
	gt.mu.Lock()
	if gt.open {
		gt.mu.Unlock()
		return
	}
	ch := make(chan struct{})
	gt.arrived = append(gt.arrived, ch)
	gt.mu.Unlock()
	select {
	case gt.notify <- struct{}{}:
	default:
	}
	<-ch
}

func (gt *c17Gate) waitArrival(k int, d time.Duration) bool {
	deadline := time.Now().Add(d)
	for {
		gt.mu.Lock()
		n := len(gt.arrived)
		gt.mu.Unlock()
		if n >= k {
			return true
		}
		if time.Now().After(deadline) {
			return false
		}
		select {
		case <-gt.notify:
		case <-time.After(2 * time.Millisecond):
		}
	}
}

func (gt *c17Gate) count() int {
	gt.mu.Lock()
	defer gt.mu.Unlock()
	return len(gt.arrived)
}

// waitArrivalOrDone waits until the k-th tuner is parked at the gate (returns k) or the call's done
// channel is closed without a tuner having come to the gate (returns 0: the call was completed
// without a background adjustment - an implementation is free to do that, e.g. for a call that
// changes nothing; its tuner steps in a schedule are then empty).  -1 after the deadline.
func (gt *c17Gate) waitArrivalOrDone(k int, done <-chan struct{}, d time.Duration) int {
	deadline := time.Now().Add(d)
	for {
		if gt.count() >= k {
			return k
		}
		select {
		case <-done:
			if gt.count() >= k {
				return k
			}
			return 0
		default:
		}
		if time.Now().After(deadline) {
			return -1
		}
		select {
		case <-gt.notify:
		case <-done:
		case <-time.After(2 * time.Millisecond):
		}
	}
}

func (gt *c17Gate) release(k int) {
	gt.mu.Lock()
	defer gt.mu.Unlock()
	if k-1 < len(gt.arrived) && gt.arrived[k-1] != nil {
		close(gt.arrived[k-1])
		gt.arrived[k-1] = nil
	}
}

func (gt *c17Gate) releaseAll() {
	gt.mu.Lock()
	defer gt.mu.Unlock()
	gt.open = true
	for i, ch := range gt.arrived {
		if ch != nil {
			close(ch)
			gt.arrived[i] = nil
		}
	}
}

func c17Wait(ch <-chan struct{}, d time.Duration) bool {
	select {
	case <-ch:
		return true
	case <-time.After(d):
		return false
	}
}

// c17RConn is an accepted connection of the replay with its handler-side reader.
type c17RConn struct {
	c      net.Conn
	sc     *c17SlowConn // the inner connection underneath
	peer   net.Conn     // the client's end
	sawEOF chan struct{}
	eof    bool
}

// TestVerifC17LLReplay executes behaviours of ConnCap_Gen (one JSON array of `out` records per line).
func TestVerifC17LLReplay(t *testing.T) {
	behs := vx.ReadBehaviours(t, "VERIF_IN")
	w := vx.NewWriter(t, "VERIF_OUT")
	defer w.Close()
	g := &c17Log{w: w}
	hook := c17HasGate
	realised, diverged := 0, 0
	for bi, beh := range behs {
		if len(beh) == 0 || vx.Str(beh[0]["a"]) != "init" {
			t.Fatalf("c17: behaviour %d does not start with init", bi)
		}
		cap0 := vx.Int(beh[0]["cap"])
		gt := &c17Gate{notify: make(chan struct{}, 1)}
		c17InstallGate(gt.fn)
		g.reset(cap0, vx.M{"level": "ll", "beh": bi, "gated": hook})
		inner := c17NewInner(true)
		l := NewLimitListener(inner, uint32(cap0))

		accCmd := make(chan struct{}, 64)
		accRes := make(chan error, 64)
		var cmu sync.Mutex
		var conns []*c17RConn
		peerOf := map[*c17SlowConn]net.Conn{} // inner (server side) end -> client end
		var dbls []*c17Dbl                    // connections two overlapping Close calls are busy with
		accExit := make(chan struct{})
		go func() {
			defer close(accExit)
			for range accCmd {
				g.accInv("a")
				c, err := l.Accept()
				if err != nil {
					g.accErr("a")
				} else {
					g.acc("a")
					rc := &c17RConn{c: c, sawEOF: make(chan struct{})}
					if rc.sc = c17SlowOf(c); rc.sc != nil {
						cmu.Lock()
						rc.peer = peerOf[rc.sc]
						cmu.Unlock()
					}
					go func() { // the handler's reader: notices when the peer finishes
						buf := make([]byte, 8)
						for {
							if _, err := rc.c.Read(buf); err != nil {
								if err == io.EOF {
									close(rc.sawEOF)
								}
								return
							}
						}
					}()
					cmu.Lock()
					conns = append(conns, rc)
					cmu.Unlock()
				}
				accRes <- err
			}
		}()
		inAccept := false // the acceptor is inside l.Accept()
		listenerClosed := false
		var dones []chan struct{}
		var ids []int
		finalCap := cap0
		var slots []int // gate slot of the i-th call's tuner; 0: the call completed without one
		var dwg sync.WaitGroup
		var clients []net.Conn
		div := ""
		for si, st := range beh[1:] {
			switch vx.Str(st["a"]) {
			case "dial":
				a, b := net.Pipe()
				clients = append(clients, a)
				sb := &c17SlowConn{Conn: b}
				cmu.Lock()
				peerOf[sb] = a
				cmu.Unlock()
				inner.q <- sb
			case "acq":
				accCmd <- struct{}{}
				inAccept = true
				time.Sleep(1500 * time.Microsecond) // let it take its slot / queue (realisation only)
			case "accept":
				pre, _ := g.counts()
				select {
				case err := <-accRes:
					inAccept = false
					if err != nil {
						div = "accept returned an error"
					} else if pre != vx.Int(st["open"]) && pre-1 != vx.Int(st["open"]) {
						div = fmt.Sprintf("open=%d at accept, model says %d", pre, vx.Int(st["open"]))
					}
				case <-time.After(150 * time.Millisecond):
					// (not a verdict: the schedule is simply not realisable on this tree, e.g. a schedule of
					// the unordered-tuner model on a tree whose tuners wait for their predecessors)
					div = "model accepts here, the real acceptor is still held back"
				}
			case "err":
				inner.errs <- c17TempErr{}
				select {
				case <-accRes:
					inAccept = false
				case <-time.After(300 * time.Millisecond):
					div = "model has the inner Accept fail here, the real acceptor is still held back"
				}
			case "eof":
				// the peer of the oldest connection that has not seen EOF yet finishes; the handler's
				// read returns EOF; the connection stays open
				cmu.Lock()
				var rc *c17RConn
				for _, x := range conns {
					if !x.eof {
						rc = x
						rc.eof = true
						break
					}
				}
				cmu.Unlock()
				if rc == nil || rc.peer == nil {
					div = "model has a peer finish, no such connection"
					break
				}
				rc.peer.Close()
				if !c17Wait(rc.sawEOF, 300*time.Millisecond) {
					div = "handler did not see EOF after the peer hung up"
				}
			case "close":
				want := vx.Bool(st["eof"])
				cmu.Lock()
				var rc *c17RConn
				for k, x := range conns {
					if x.eof == want {
						rc = x
						conns = append(conns[:k:k], conns[k+1:]...)
						break
					}
				}
				cmu.Unlock()
				if rc == nil {
					div = "model closes a connection, none of that kind is open"
					break
				}
				g.closing()
				rc.c.Close()
				rc.c.Close() // idempotent: releases once
			case "close2":
				// two Close calls on one connection, both inside the close of the underlying connection
				want := vx.Bool(st["eof"])
				cmu.Lock()
				var rc *c17RConn
				for k, x := range conns {
					if x.eof == want {
						rc = x
						conns = append(conns[:k:k], conns[k+1:]...)
						break
					}
				}
				cmu.Unlock()
				if rc == nil || rc.sc == nil {
					div = "model closes a connection from two goroutines, none of that kind is open"
					break
				}
				g.closing()
				d := &c17Dbl{sc: rc.sc, fin: make(chan struct{}, 2)}
				dbls = append(dbls, d)
				rc.sc.arm(true)
				for k := 0; k < 2; k++ {
					go func() { rc.c.Close(); d.fin <- struct{}{} }()
				}
				// both inside - unless the implementation serialises Close calls itself (then one is inside and
				// the other waits for it: the steps below still let them out one after the other)
				for dl := time.Now().Add(100 * time.Millisecond); rc.sc.inside() < 2 && time.Now().Before(dl); {
					time.Sleep(100 * time.Microsecond)
				}
				if rc.sc.inside() < 2 {
					g.note(vx.M{"k": "close-serialised", "beh": bi, "step": si + 1})
				}
			case "crel":
				// the first of the two comes out of the underlying close (and gives the slot back)
				var d *c17Dbl
				for _, x := range dbls {
					if x.out == 0 {
						d = x
						break
					}
				}
				if d == nil {
					div = "model lets a Close call out, none is inside"
					break
				}
				d.out = 1
				d.sc.letOut(false)
				if !d.waitReturned(1, 300*time.Millisecond) {
					div = "Close did not return after the underlying close did"
				}
			case "cnop":
				// the second one comes out
				var d *c17Dbl
				for k, x := range dbls {
					if x.out == 1 {
						d = x
						dbls = append(dbls[:k:k], dbls[k+1:]...)
						break
					}
				}
				if d == nil {
					div = "model lets the second Close call out, none is inside"
					break
				}
				d.sc.letOut(true)
				if !d.waitReturned(2, 300*time.Millisecond) {
					div = "second Close did not return after the underlying close did"
				}
			case "setmax":
				n := vx.Int(st["n"])
				id := g.rz(n)
				next := gt.count() + 1
				done := l.sem.SetMaxCount(int64(n))
				dones, ids = append(dones, done), append(ids, id)
				finalCap = n
				dwg.Add(1)
				go func() { defer dwg.Done(); <-done; g.rzdone(id) }()
				slot := 0
				if hook {
					if slot = gt.waitArrivalOrDone(next, done, 2*time.Second); slot < 0 {
						div = "tuner did not reach the gate"
					}
				}
				slots = append(slots, slot)
			case "tuner":
				i := vx.Int(st["i"])
				if i <= len(slots) && slots[i-1] > 0 {
					gt.release(slots[i-1])
				}
				if vx.Bool(st["blocks"]) {
					time.Sleep(1500 * time.Microsecond)
				} else if i <= len(dones) {
					c17Wait(dones[i-1], 5*time.Millisecond)
				}
			case "tdone":
				i := vx.Int(st["i"])
				if i <= len(dones) && !c17Wait(dones[i-1], 150*time.Millisecond) {
					div = fmt.Sprintf("model completes resize %d here, the real one is still pending", i)
				}
			case "lclose":
				listenerClosed = true
				l.Close()
				if !inAccept {
					break
				}
				fallthrough
			case "acancel", "aabort":
				if inAccept {
					select {
					case <-accRes:
						inAccept = false
					case <-time.After(300 * time.Millisecond):
						div = "Accept did not return after Close"
					}
				}
			}
			if div != "" {
				g.note(vx.M{"k": "diverged", "beh": bi, "step": si + 1, "what": div, "gated": hook})
				break
			}
		}
		if div == "" {
			realised++
		} else {
			diverged++
		}
		// end-of-schedule probe, in the state the schedule ends in (pending tuners still parked): one more
		// client.  If the acceptor gets through, the accept is in the log and TLC
		// decides whether a cap allows it; if it is held back, it completes during the wind-down.
		if div == "" && !listenerClosed {
			a, b := net.Pipe()
			clients = append(clients, a)
			sb := &c17SlowConn{Conn: b}
			cmu.Lock()
			peerOf[sb] = a
			cmu.Unlock()
			inner.q <- sb
			if !inAccept {
				accCmd <- struct{}{}
				inAccept = true
			}
			select {
			case <-accRes:
				inAccept = false
			case <-time.After(5 * time.Millisecond):
			}
		}
		// wind down: let every tuner go, let every Close call out, hang up everything, close the listener
		gt.releaseAll()
		for _, d := range dbls {
			d.sc.letOut(true)
			d.waitReturned(2, 2*time.Second)
		}
		time.Sleep(time.Millisecond)
		cmu.Lock()
		rest := conns
		conns = nil
		cmu.Unlock()
		for _, rc := range rest {
			g.closing()
			rc.c.Close()
		}
		l.Close()
		close(accCmd)
		if !c17Wait(accExit, 20*time.Second) {
			t.Fatalf("c17: behaviour %d: acceptor did not stop", bi)
		}
		// an accept that completed during the wind-down holds a slot until it is closed
		cmu.Lock()
		rest = conns
		cmu.Unlock()
		for _, rc := range rest {
			g.closing()
			rc.c.Close()
		}
		// barrier: every connection is closed (the Close calls have returned), the acceptor has stopped, the
		// gate is open - every cap change completes now; then the semaphore has exactly the last cap free
		if c17AwaitResizes(g, dones, ids) > 0 {
			g.note(vx.M{"k": "pending-resize", "beh": bi, "what": "a resize did not complete although everything was released"})
		} else {
			c17WaitGroup(&dwg, c17Patience()) // (the completions are in the log)
			c17ProbeSem(g, l, finalCap)
		}
		for _, c := range clients {
			c.Close()
		}
		for len(inner.q) > 0 {
			(<-inner.q).Close()
		}
		c17InstallGate(nil)
	}
	g.note(vx.M{"k": "summary", "behaviours": len(behs), "realised": realised, "diverged": diverged, "gated": hook})
}

//go:build c17hook

package limitlistener

import sem2 "github.com/megaease/easegress/pkg/util/sem"

// Built only when /verif/check found the gate hook of fixes/hook-sem.diff in the tree.

const c17HasGate = true

func c17InstallGate(f func(point string, args ...int64)) { sem2.VerifSetGate(f) }

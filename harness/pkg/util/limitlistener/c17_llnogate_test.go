//go:build !c17hook

package limitlistener

// The tree has no gate hook: the order of the background adjustments is left to the scheduler.

const c17HasGate = false

func c17InstallGate(f func(point string, args ...int64)) {}

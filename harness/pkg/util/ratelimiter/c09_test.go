package ratelimiter

// Harness for C09 (DESIGN 5/C09): drives the real RateLimiter / MultiRateLimiter under a virtual
// clock installed through the package variable nowFunc.
//   TestVerifC09Replay - replays TLC-generated behaviours (RateLimiter_Gen / RateLimiterMqtt_Gen) in
//                        lock-step and records what the real code answered (MBT)
//   TestVerifC09Trace  - seeded random arrival processes over random time.Duration policies (TV)
//   TestVerifC09Conc   - concurrent acquirers under a frozen clock, inv/ret events (linearisation by TLC)
//   TestVerifC09Lead   - replays one TLC counterexample of the implementation-shaped layer (lead only)
// All durations in the records are microseconds (TLC integers are 32 bit).

import (
	"fmt"
	"sync"
	"testing"
	"time"

	vx "github.com/megaease/easegress/pkg/verifx"
)

type c09Clock struct {
	mu    sync.Mutex
	now   time.Time
	start time.Time
}

func (c *c09Clock) Now() time.Time {
	c.mu.Lock()
	defer c.mu.Unlock()
	return c.now
}

func (c *c09Clock) Advance(d time.Duration) {
	c.mu.Lock()
	c.now = c.now.Add(d)
	c.mu.Unlock()
}

// Since returns the virtual time since the clock was installed, in microseconds.
func (c *c09Clock) Since() int {
	c.mu.Lock()
	defer c.mu.Unlock()
	return int(c.now.Sub(c.start) / time.Microsecond)
}

// c09Age lets a freshly made limiter live through a number of idle refresh periods before the
// history starts (none, or close to and beyond 2^10 and 2^12): a limiter in production is rarely
// in its first seconds, and the contract does not depend on its age.  Whole periods, so the phase
// of the period boundaries is kept; chosen from the offset already drawn: no further random draws.
func c09Age(c *c09Clock, P time.Duration) {
	ages := []int{0, 0, 1000, 1020, 1022, 1023, 1024, 4094}
	c.mu.Lock()
	a := ages[int((c.start.UnixNano()/1000)%8)]
	c.now = c.now.Add(time.Duration(a) * P)
	c.start = c.now
	c.mu.Unlock()
}

func c09InstallClock(offset time.Duration) *c09Clock {
	t0 := time.Date(2022, 3, 4, 5, 6, 7, 0, time.UTC).Add(offset)
	c := &c09Clock{now: t0, start: t0}
	nowFunc = c.Now
	return c
}

// c09Limiter hides the three entry points behind one call taking a count vector.
type c09Limiter struct {
	single *RateLimiter
	multi  *MultiRateLimiter
	none   bool
}

func c09New(L []int, P, T time.Duration) *c09Limiter {
	switch len(L) {
	case 0:
		return &c09Limiter{none: true}
	case 1:
		return &c09Limiter{single: New(NewPolicy(T, P, L[0]))}
	}
	return &c09Limiter{multi: NewMulti(NewMultiPolicy(T, P, append([]int(nil), L...)))}
}

func (l *c09Limiter) acquire(n []int) (bool, time.Duration) {
	if l.none {
		return true, 0
	}
	if l.single != nil {
		if n[0] == 1 {
			return l.single.AcquirePermission()
		}
		return l.single.AcquireNPermission(n[0])
	}
	ok, d, err := l.multi.AcquirePermission(append([]int(nil), n...))
	if err != nil {
		panic(err)
	}
	return ok, d
}

func (l *c09Limiter) setState(s State) {
	if l.single != nil {
		l.single.SetState(s)
	} else if l.multi != nil {
		l.multi.SetState(s)
	}
}

func c09Ints(v interface{}) []int {
	out := []int{}
	for _, x := range vx.List(v) {
		out = append(out, vx.Int(x))
	}
	return out
}

func c09Us(d time.Duration) int { return int(d / time.Microsecond) }

// TestVerifC09Replay: each behaviour is the list of `out` records of a generator module: the
// first one carries the policy in ticks, the others one arrival each ({"a":"arr"|"acq","d":gap,
// "n":[..],"ok":b,"w":ticks}) or a SetState ({"a":"dis"|"en"}). A fresh limiter per behaviour,
// one tick = a random unit, random phase of the wall clock. The reply of the real code is
// compared with the prediction and, in any case, written (in microseconds) to VERIF_OUT2 so that
// TLC can validate what the real code did against the contract.
func TestVerifC09Replay(t *testing.T) {
	behs := vx.ReadBehaviours(t, "VERIF_IN")
	w := vx.NewWriter(t, "VERIF_OUT")
	defer w.Close()
	obs := vx.NewWriter(t, "VERIF_OUT2")
	defer obs.Close()
	rng := vx.Rand(9)
	units := []time.Duration{time.Millisecond, 250 * time.Microsecond, 7 * time.Millisecond, time.Second, 13 * time.Microsecond}
	steps, mism := 0, 0
	for bi, beh := range behs {
		if len(beh) == 0 || vx.Str(beh[0]["a"]) != "init" {
			t.Fatalf("behaviour %d does not start with init", bi)
		}
		unit := units[rng.Intn(len(units))]
		pol := beh[0]["pol"].(vx.M)
		L := c09Ints(pol["L"])
		P := time.Duration(vx.Int(pol["P"])) * unit
		T := time.Duration(vx.Int(pol["T"])) * unit // absent (MQTT form) = 0
		clk := c09InstallClock(time.Duration(rng.Int63n(int64(time.Hour))))
		lim := c09New(L, P, T)
		c09Age(clk, P)
		obs.Raw(vx.M{"b": bi, "ev": "reset", "pol": vx.M{"L": L, "P": c09Us(P), "T": c09Us(T)}})
		bad := ""
		for si, st := range beh[1:] {
			steps++
			switch vx.Str(st["a"]) {
			case "dis":
				lim.setState(StateDisabled)
				obs.Raw(vx.M{"b": bi, "ev": "dis"})
			case "en":
				lim.setState(StateNormal)
				obs.Raw(vx.M{"b": bi, "ev": "en", "t": clk.Since()})
			case "arr", "acq":
				clk.Advance(time.Duration(vx.Int(st["d"])) * unit)
				n := c09Ints(st["n"])
				ok, d := lim.acquire(n)
				obs.Raw(vx.M{"b": bi, "ev": "arr", "t": clk.Since(), "n": n, "ok": ok, "w": c09Us(d)})
				if bad != "" {
					break
				}
				if ok != vx.Bool(st["ok"]) {
					bad = fmt.Sprintf("permitted=%v, model says %v", ok, vx.Bool(st["ok"]))
				} else if wv, has := st["w"]; has && d != time.Duration(vx.Int(wv))*unit {
					bad = fmt.Sprintf("wait=%v, model says %v", d, time.Duration(vx.Int(wv))*unit)
				}
				if bad != "" {
					mism++
					w.Raw(vx.M{"k": "mismatch", "b": bi, "step": si + 1, "what": bad, "unit_us": c09Us(unit), "behaviour": beh[:si+2]})
				}
			}
		}
	}
	w.Raw(vx.M{"k": "summary", "behaviours": len(behs), "steps": steps, "mismatches": mism})
}

func c09RandPolicy(rng interface{ Intn(int) int }, mqtt bool) ([]int, time.Duration, time.Duration) {
	periods := []time.Duration{time.Millisecond, 10 * time.Millisecond, 250 * time.Millisecond, time.Second,
		7300 * time.Microsecond, 333 * time.Microsecond, 50 * time.Millisecond}
	P := periods[rng.Intn(len(periods))]
	if mqtt {
		P = time.Duration(1+rng.Intn(3)) * time.Second
		switch rng.Intn(4) {
		case 0:
			return []int{1 + rng.Intn(5)}, P, 0 // request limiter
		case 1:
			return []int{20 + rng.Intn(200)}, P, 0 // byte limiter
		}
		return []int{1 + rng.Intn(5), 20 + rng.Intn(200)}, P, 0
	}
	var T time.Duration
	switch rng.Intn(8) {
	case 0:
		T = 0
	case 1:
		T = P / 3
	case 2:
		T = P - time.Microsecond
	case 3:
		T = P
	case 4:
		T = 2 * P
	case 5:
		T = 2*P + P/2
	case 6:
		T = time.Duration(1+rng.Intn(6))*P + time.Duration(rng.Intn(int(P/time.Microsecond)))*time.Microsecond
	case 7:
		T = 10 * P
	}
	T = T.Truncate(time.Microsecond) // records are in whole microseconds
	L := 1 + rng.Intn(5)
	if rng.Intn(6) == 0 {
		L = 50
	}
	return []int{L}, P, T
}

// c09RandMultiPolicy: MultiRateLimiter with a timeout > 0: 2 or 3 dimensions, each either a small
// "request" budget or a large "byte" budget, in any order; timeouts below, at and above the
// period, multiples and non-multiples of it.
func c09RandMultiPolicy(rng interface{ Intn(int) int }) ([]int, time.Duration, time.Duration) {
	periods := []time.Duration{time.Millisecond, 10 * time.Millisecond, 250 * time.Millisecond, time.Second, 7300 * time.Microsecond}
	P := periods[rng.Intn(len(periods))]
	var T time.Duration
	switch rng.Intn(7) {
	case 0:
		T = P / 3
	case 1:
		T = P
	case 2:
		T = 2 * P
	case 3:
		T = 2*P + P/2
	case 4:
		T = time.Duration(1+rng.Intn(6))*P + time.Duration(rng.Intn(int(P/time.Microsecond)))*time.Microsecond
	case 5:
		T = 10 * P
	case 6:
		T = 3*P - time.Microsecond
	}
	T = T.Truncate(time.Microsecond)
	L := make([]int, 2+rng.Intn(2))
	for i := range L {
		if rng.Intn(2) == 0 {
			L[i] = 1 + rng.Intn(5)
		} else {
			L[i] = 20 + rng.Intn(200)
		}
	}
	return L, P, T
}

// c09MultiCount: one token of a small budget (now and then more), a "packet" of up to the whole
// period's budget of a large one (now and then several periods' worth).
func c09MultiCount(rng interface{ Intn(int) int }, L []int) []int {
	n := make([]int, len(L))
	for i := range n {
		switch {
		case L[i] <= 5 && rng.Intn(6) == 0:
			n[i] = 1 + rng.Intn(L[i])
		case L[i] <= 5:
			n[i] = 1
		case rng.Intn(15) == 0:
			n[i] = L[i] + rng.Intn(2*L[i])
		default:
			n[i] = 1 + rng.Intn(L[i])
		}
	}
	return n
}

// TestVerifC09Trace: seeded random arrival processes (bursts, sparse arrivals, arrivals exactly on
// and just before cycle boundaries, idle gaps spanning many periods) over random time.Duration
// policies (timeout 0, < period, not a multiple of the period, ...). VERIF_MQTT=1: timeout 0,
// request / byte / request+byte limiters with packet sizes as token counts. VERIF_MQTT=2:
// MultiRateLimiter with 2-3 dimensions and a timeout > 0 (only the wait bound is judged).
func TestVerifC09Trace(t *testing.T) {
	w := vx.NewWriter(t, "VERIF_OUT")
	defer w.Close()
	mqtt := vx.EnvInt("VERIF_MQTT", 0) == 1
	multi := vx.EnvInt("VERIF_MQTT", 0) == 2 // MultiRateLimiter with a timeout > 0
	rng := vx.Rand(909 + int64(vx.EnvInt("VERIF_MQTT", 0)))
	nTraces := vx.EnvInt("VERIF_N", 40)
	nArr := vx.EnvInt("VERIF_STEPS", 200)
	for ti := 0; ti < nTraces; ti++ {
		L, P, T := c09RandPolicy(rng, mqtt)
		if multi {
			L, P, T = c09RandMultiPolicy(rng)
		}
		clk := c09InstallClock(time.Duration(rng.Int63n(int64(time.Hour))))
		lim := c09New(L, P, T)
		c09Age(clk, P)
		w.Emit(vx.M{"ev": "reset", "pol": vx.M{"L": L, "P": c09Us(P), "T": c09Us(T)}})
		pUs := int64(P / time.Microsecond)
		mode := rng.Intn(5)
		if mqtt && ti%2 == 0 {
			mode = 5
		}
		setState := !mqtt && !multi && rng.Intn(10) == 0
		disabled := false
		for a := 0; a < nArr && clk.Since() < 1500000000; a++ {
			if rng.Intn(25) == 0 && mode != 5 {
				mode = rng.Intn(5)
			}
			var gap int64 // microseconds
			switch mode {
			case 0: // bursts
				if rng.Intn(8) == 0 {
					gap = rng.Int63n(2 * pUs)
				}
			case 1: // around the nominal rate
				gap = rng.Int63n(2*pUs/int64(L[0]) + 1)
			case 2: // boundaries: exactly on, one microsecond before / after
				since := int64(clk.Since())
				toNext := pUs - since%pUs
				switch rng.Intn(5) {
				case 0:
					gap = toNext
				case 1:
					gap = toNext - 1
				case 2:
					gap = toNext + 1
				case 3:
					gap = toNext + pUs*int64(rng.Intn(4))
				case 4:
					gap = 0
				}
			case 3: // sparse with idle gaps spanning many periods
				gap = rng.Int63n(pUs)
				if rng.Intn(6) == 0 {
					gap += pUs * int64(1+rng.Intn(12))
				}
			case 4: // slow trickle inside a period
				gap = rng.Int63n(pUs/4 + 1)
			case 5: // MQTT debt: 3-4 attempts in every period, for many periods, while oversized packets are paid off
				gap = pUs/4 + rng.Int63n(pUs/12+1)
			}
			if gap < 0 {
				gap = 0
			}
			clk.Advance(time.Duration(gap) * time.Microsecond)
			if setState && rng.Intn(30) == 0 {
				if disabled {
					lim.setState(StateNormal)
					w.Emit(vx.M{"ev": "en", "t": clk.Since()})
				} else {
					lim.setState(StateDisabled)
					w.Emit(vx.M{"ev": "dis"})
				}
				disabled = !disabled
			}
			n := make([]int, len(L))
			for i := range n {
				n[i] = 1
			}
			if mqtt {
				bytes := 2 + rng.Intn(60)
				if rng.Intn(12) == 0 {
					bytes = 100 + rng.Intn(600) // oversized packet
				}
				if mode == 5 {
					bytes = 1 + rng.Intn(L[len(L)-1]/4+1)
					if rng.Intn(40) == 0 {
						bytes = L[len(L)-1] * (3 + rng.Intn(12)) // a debt of 3..14 periods
					}
				}
				if len(L) == 2 {
					n[1] = bytes
				} else if L[0] >= 20 {
					n[0] = bytes
				}
			}
			if multi {
				n = c09MultiCount(rng, L)
			}
			ok, d := lim.acquire(n)
			w.Emit(vx.M{"ev": "arr", "t": clk.Since(), "n": n, "ok": ok, "w": c09Us(d)})
		}
	}
}

// TestVerifC09Conc: G goroutines acquire concurrently while the virtual clock is frozen; the clock
// moves only at barriers. Each call is logged at invocation and at return; the reply is copied
// onto the invocation record afterwards (RateLimiter_CTrace explains why).
func TestVerifC09Conc(t *testing.T) {
	w := vx.NewWriter(t, "VERIF_OUT")
	defer w.Close()
	rng := vx.Rand(9090)
	nTraces := vx.EnvInt("VERIF_N", 20)
	rounds := vx.EnvInt("VERIF_ROUNDS", 6)
	var mu sync.Mutex
	var log []vx.M
	emit := func(rec vx.M) vx.M {
		mu.Lock()
		defer mu.Unlock()
		rec["seq"] = len(log) + 1
		log = append(log, rec)
		return rec
	}
	for ti := 0; ti < nTraces; ti++ {
		G := 2 + rng.Intn(3)
		P := []time.Duration{time.Millisecond, 10 * time.Millisecond, time.Second}[rng.Intn(3)]
		T := []time.Duration{0, P / 2, P, 2 * P, 2*P + P/2, 3 * P}[rng.Intn(6)]
		L := 1 + rng.Intn(3)
		clk := c09InstallClock(time.Duration(rng.Int63n(int64(time.Hour))))
		rl := New(NewPolicy(T, P, L))
		c09Age(clk, P)
		emit(vx.M{"ev": "reset", "pol": vx.M{"L": []int{L}, "P": c09Us(P), "T": c09Us(T)}})
		for r := 0; r < rounds; r++ {
			var wg sync.WaitGroup
			for g := 0; g < G; g++ {
				wg.Add(1)
				go func(g int) {
					defer wg.Done()
					p := fmt.Sprintf("g%d", g)
					for k := 0; k < 2; k++ {
						inv := emit(vx.M{"ev": "inv", "p": p, "n": []int{1}})
						ok, d := rl.AcquirePermission()
						mu.Lock()
						inv["ok"], inv["w"] = ok, c09Us(d)
						mu.Unlock()
						emit(vx.M{"ev": "ret", "p": p, "ok": ok, "w": c09Us(d)})
					}
				}(g)
			}
			wg.Wait()
			adv := []time.Duration{0, P / 2, P, (P + P/3).Truncate(time.Microsecond), 3 * P}[rng.Intn(5)]
			clk.Advance(adv)
			emit(vx.M{"ev": "tick", "t": clk.Since()})
		}
	}
	for _, rec := range log {
		w.Raw(rec)
	}
}

// TestVerifC09Lead replays one behaviour (a TLC counterexample of the implementation-shaped
// layer) and reports the replies of the real code; the python side only records the outcome.
func TestVerifC09Lead(t *testing.T) {
	behs := vx.ReadBehaviours(t, "VERIF_IN")
	w := vx.NewWriter(t, "VERIF_OUT")
	defer w.Close()
	for bi, beh := range behs {
		pol := beh[0]["pol"].(vx.M)
		unit := time.Millisecond
		L := c09Ints(pol["L"])
		P := time.Duration(vx.Int(pol["P"])) * unit
		T := time.Duration(vx.Int(pol["T"])) * unit
		clk := c09InstallClock(0)
		lim := c09New(L, P, T)
		w.Raw(vx.M{"b": bi, "ev": "reset", "pol": vx.M{"L": L, "P": c09Us(P), "T": c09Us(T)}})
		for _, st := range beh[1:] {
			if vx.Str(st["a"]) != "arr" {
				continue
			}
			clk.Advance(time.Duration(vx.Int(st["d"])) * unit)
			n := c09Ints(st["n"])
			ok, d := lim.acquire(n)
			w.Raw(vx.M{"b": bi, "ev": "arr", "t": clk.Since(), "n": n, "ok": ok, "w": c09Us(d),
				"same": ok == vx.Bool(st["ok"]) && d == time.Duration(vx.Int(st["w"]))*unit})
		}
	}
}

//go:build c17hook

package sem

// Built only when /verif/check found the gate hook of fixes/hook-sem.diff in the tree
// (pkg/util/sem/verif_on.go): the harness can then order the background adjustments of
// overlapping SetMaxCount calls.

const c17HasGate = true

func c17InstallGate(f func(point string, args ...int64)) { VerifSetGate(f) }

//go:build !c17hook

package sem

// The tree has no gate hook: schedules that need one are provoked, not forced.

const c17HasGate = false

func c17InstallGate(f func(point string, args ...int64)) {}

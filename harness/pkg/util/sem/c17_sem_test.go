package sem

// Harness for C17 (DESIGN 5/C17), semaphore level: the real resizable Semaphore is driven and its
// behaviour is logged as events of specs/ConnCap_Trace.tla (the contract of a connection cap).
//   TestVerifC17SemTrace    - concurrent acquirers/releasers and a resizer (sequential or
//                             overlapping SetMaxCount calls, also with the value already configured;
//                             in a third of the traces the holders keep their tokens across the
//                             whole burst of calls); conservative counter (TV)
//   TestVerifC17SemOverlap  - overlapping resizes taken from TLC behaviours of specs/ConnCap.tla:
//                             (cap, tokens held, waiters, resize values, order of the background
//                             adjustments); the cases cover every sequence of call kinds (grow,
//                             shrink, shrink below the usage, same value).  A call that completes
//                             without a background adjustment has no gate slot; its place in the
//                             order is empty.  The order is forced through the gate hook
//                             verifGate("sem.resize") when the tree has it (c17_gate_test.go), else
//                             it is provoked with GOMAXPROCS(1) (the newest goroutine runs first).
//   cap values at and above maxCapacity (maxCapacity-1, maxCapacity, maxCapacity+1, 2e9) occur in the
//   random histories and in the TLC cases (profile BoundaryFirst of specs/ConnCap.tla, mapped to the
//   real values by the driver).  Every history / case ends at a barrier (nothing held, no acquirer
//   left) at which every SetMaxCount call must have completed: c17AwaitResizes decides "never" from
//   goroutine dumps (event rzstuck), then c17Probe checks that exactly the last cap is obtainable.
//   TestVerifC17SemInitChild - NewSem with a cap around maxCapacity, in a process of its own.
// The harness never judges: it logs, TLC validates the log against the contract.

import (
	"context"
	"fmt"
	"runtime"
	"strings"
	"sync"
	"sync/atomic"
	"testing"
	"time"

	vx "github.com/megaease/easegress/pkg/verifx"
)

// c17Log writes contract events; the open counter and the event order are kept under one mutex.
type c17Log struct {
	mu   sync.Mutex
	w    *vx.Writer
	open int
	nrz  int
}

func (g *c17Log) reset(cap int, meta vx.M) {
	g.mu.Lock()
	defer g.mu.Unlock()
	g.open, g.nrz = 0, 0
	rec := vx.M{"ev": "reset", "cap": cap}
	for k, v := range meta {
		rec[k] = v
	}
	g.w.Emit(rec)
}

// rz is called BEFORE SetMaxCount.
func (g *c17Log) rz(n int) int {
	g.mu.Lock()
	defer g.mu.Unlock()
	g.nrz++
	g.w.Emit(vx.M{"ev": "rz", "id": g.nrz, "n": n})
	return g.nrz
}

// rzdone is called AFTER the done channel was seen closed.
func (g *c17Log) rzdone(id int) {
	g.mu.Lock()
	defer g.mu.Unlock()
	g.w.Emit(vx.M{"ev": "rzdone", "id": id})
}

func (g *c17Log) accInv(p string) {
	g.mu.Lock()
	defer g.mu.Unlock()
	g.w.Emit(vx.M{"ev": "acc.inv", "p": p})
}

// acc is called AFTER Acquire returned.
func (g *c17Log) acc(p string) {
	g.mu.Lock()
	defer g.mu.Unlock()
	g.w.Emit(vx.M{"ev": "acc", "p": p, "open": g.open})
	g.open++
}

func (g *c17Log) accErr(p string) {
	g.mu.Lock()
	defer g.mu.Unlock()
	g.w.Emit(vx.M{"ev": "acc.err", "p": p})
}

// closing is called BEFORE Release.
func (g *c17Log) closing() {
	g.mu.Lock()
	defer g.mu.Unlock()
	g.open--
	g.w.Emit(vx.M{"ev": "close"})
}

func (g *c17Log) stuck(openhi int) {
	atomic.StoreInt32(&c17Patient, 0)
	g.mu.Lock()
	defer g.mu.Unlock()
	g.w.Emit(vx.M{"ev": "stuck", "openhi": openhi})
}

// rzstuck: resize `id` was found never to complete, at a barrier: nothing is held, nobody is running
// (see c17AwaitResizes); `how` says how that was established.
func (g *c17Log) rzstuck(id int, how string) {
	atomic.StoreInt32(&c17Patient, 0)
	g.mu.Lock()
	defer g.mu.Unlock()
	g.w.Emit(vx.M{"ev": "rzstuck", "id": id, "open": g.open, "how": how})
}

func (g *c17Log) note(rec vx.M) {
	g.mu.Lock()
	defer g.mu.Unlock()
	rec["ev"] = "note" // dropped by the driver before the log goes to TLC
	g.w.Raw(rec)
}

// c17Probe: with nothing held and every resize completed, exactly `cap` tokens must be obtainable
// (released capacity is usable again) and one more must not be.  Both observations are logged as
// ordinary events; the deadline for the positive part is generous.
//
// A cap too large to be filled (values near maxCapacity) is probed from below only: a handful of
// tokens must be obtainable.
const c17ProbeMax = 16

func c17Probe(g *c17Log, s *Semaphore, cap int) {
	got := 0
	want, exact := cap, true
	if cap > c17ProbeMax {
		want, exact = 6, false
	}
	for i := 0; i < want; i++ {
		ctx, cancel := context.WithTimeout(context.Background(), c17Patience())
		g.accInv("probe")
		err := s.AcquireWithContext(ctx)
		cancel()
		if err != nil {
			g.accErr("probe")
			g.stuck(got)
			break
		}
		g.acc("probe")
		got++
	}
	if exact {
		ctx, cancel := context.WithTimeout(context.Background(), 30*time.Millisecond)
		g.accInv("probe")
		if err := s.AcquireWithContext(ctx); err == nil {
			g.acc("probe") // beyond the cap: TLC rejects it
			got++
		} else {
			g.accErr("probe")
		}
		cancel()
	}
	for ; got > 0; got-- {
		g.closing()
		s.Release()
	}
}

// c17Patience is the deadline for things that must happen eventually (a resize completing once the
// tokens it needs are free, a waiter being served).  Generous the first time; once something has
// been declared stuck the run is rejected anyway and the later deadlines are short.
var c17Patient = int32(1)

func c17Patience() time.Duration {
	if atomic.LoadInt32(&c17Patient) == 1 {
		return 20 * time.Second
	}
	return 2 * time.Second
}

func c17WaitDone(ch <-chan struct{}, d time.Duration) bool {
	select {
	case <-ch:
		return true
	case <-time.After(d):
		return false
	}
}

// c17Tuners looks at the goroutines of the process that belong to SetMaxCount calls (started by
// SetMaxCount or running code of it): `blocked` of them sit in a channel operation nobody can complete
// from outside the semaphore - the select / receive inside Weighted.Acquire, or the wait for the
// previous call's completion - and `active` are anywhere else (runnable, running, parked at the
// harness's gate, ...).  A goroutine that has been woken is runnable at once (the waker marks it), so a
// blocked one has not been woken by anything that happened before the dump.
func c17Tuners() (blocked, active int) {
	buf := make([]byte, 1<<20)
	for {
		n := runtime.Stack(buf, true)
		if n < len(buf) {
			buf = buf[:n]
			break
		}
		buf = make([]byte, 2*len(buf))
	}
	for _, blk := range strings.Split(string(buf), "\n\n") {
		if !strings.HasPrefix(blk, "goroutine ") || !strings.Contains(blk, "SetMaxCount") {
			continue
		}
		hdr := blk
		if i := strings.IndexByte(blk, '\n'); i >= 0 {
			hdr = blk[:i]
		}
		state := ""
		if i := strings.IndexByte(hdr, '['); i >= 0 {
			state = hdr[i+1:]
		}
		if (strings.HasPrefix(state, "select") || strings.HasPrefix(state, "chan receive")) && !strings.Contains(blk, "c17Gate") {
			blocked++
		} else {
			active++
		}
	}
	return
}

// c17Leaked counts the background goroutines of calls already declared stuck (they stay in the process).
var c17Leaked int

// c17AwaitResizes is called at a barrier: every token has been given back (the Release calls have
// returned), no acquirer is left, the gate is open.  Every SetMaxCount call must complete now.  A call
// is declared stuck ("never completes") when its done channel is open and ALL background goroutines of
// SetMaxCount calls (there is at least one that was not given up before) are blocked inside the
// semaphore / behind each other, none runnable, in two goroutine dumps in a row: with nothing held and
// nobody running nothing can ever wake them.  (Only if
// the goroutines cannot be told from the dump the generous deadline decides.)  Returns the number of
// calls declared stuck.
func c17AwaitResizes(g *c17Log, dones []chan struct{}, ids []int) int {
	deadline := time.Now().Add(c17Patience())
	pending := func() []int {
		var p []int
		for i, d := range dones {
			select {
			case <-d:
			default:
				p = append(p, i)
			}
		}
		return p
	}
	quietDumps := 0
	for {
		p := pending()
		if len(p) == 0 {
			return 0
		}
		how := ""
		blocked, active := c17Tuners()
		if active == 0 && blocked > c17Leaked {
			if quietDumps++; quietDumps >= 2 {
				how = "barrier"
			}
		} else {
			quietDumps = 0
		}
		if how == "" && time.Now().After(deadline) {
			how = "deadline"
		}
		if how != "" {
			if p2 := pending(); len(p2) != len(p) {
				quietDumps = 0
				continue
			}
			for _, i := range p {
				g.rzstuck(ids[i], how)
			}
			if how == "barrier" {
				c17Leaked = blocked
			}
			return len(p)
		}
		time.Sleep(5 * time.Millisecond)
	}
}

func c17WaitGroup(wg *sync.WaitGroup, d time.Duration) bool {
	ch := make(chan struct{})
	go func() { wg.Wait(); close(ch) }()
	return c17WaitDone(ch, d)
}

// TestVerifC17SemTrace: seeded concurrent histories.
func TestVerifC17SemTrace(t *testing.T) {
	w := vx.NewWriter(t, "VERIF_OUT")
	defer w.Close()
	g := &c17Log{w: w}
	rng := vx.Rand(1701)
	nTraces := vx.EnvInt("VERIF_N", 30)
	for ti := 0; ti < nTraces; ti++ {
		if atomic.LoadInt32(&c17Patient) == 0 {
			break // something was declared stuck: the log is rejected anyway, do not spend more deadlines
		}
		cap0 := 1 + rng.Intn(5)
		workers := 2 + rng.Intn(5)
		iters := 3 + rng.Intn(8)
		nrz := rng.Intn(4)
		overlap := rng.Intn(2) == 0
		// hold: long-lived holders - every worker keeps the first token it gets until the resizer has
		// issued all its calls (connections that stay open across a burst of reloads), so that a shrink
		// below the usage stays blocked while the later calls are made.  Resizes overlap then.
		hold := rng.Intn(3) == 0
		if hold {
			overlap = true
			nrz = 2 + rng.Intn(3)
		}
		g.reset(cap0, vx.M{"level": "sem", "trace": ti, "overlap": overlap, "hold": hold})
		s := NewSem(uint32(cap0))
		holdUntil := make(chan struct{})
		if !hold {
			close(holdUntil)
		}
		var wg sync.WaitGroup
		seeds := make([]int64, workers)
		for i := range seeds {
			seeds[i] = rng.Int63()
		}
		for wi := 0; wi < workers; wi++ {
			wg.Add(1)
			go func(wi int) {
				defer wg.Done()
				r := vx.Rand(seeds[wi])
				p := fmt.Sprintf("w%d", wi)
				for k := 0; k < iters; k++ {
					g.accInv(p)
					s.Acquire()
					g.acc(p)
					if k == 0 {
						<-holdUntil
					}
					switch r.Intn(3) {
					case 0:
						runtime.Gosched()
					case 1:
						time.Sleep(time.Duration(r.Intn(300)) * time.Microsecond)
					}
					g.closing()
					s.Release()
					if r.Intn(3) == 0 {
						runtime.Gosched()
					}
				}
			}(wi)
		}
		// resizer
		caps := make([]int, nrz)
		gaps := make([]int, nrz)
		for i := range caps {
			caps[i] = 1 + rng.Intn(6)
			if hold {
				caps[i] = 1 + rng.Intn(cap0) // never above the initial cap: the bound of the contract is the tightest
			}
			if !hold && rng.Intn(5) == 0 {
				// a value at or above what the underlying weighted semaphore can hold (maxConnections is a
				// uint32): just below, at, just above, far above maxCapacity; usually a small value follows
				caps[i] = []int{int(maxCapacity) - 1, int(maxCapacity), int(maxCapacity) + 1, 2_000_000_000}[rng.Intn(4)]
			}
			if rng.Intn(4) == 0 || (hold && rng.Intn(4) == 0) {
				// a call with the value already configured (what every reload of an HTTPServer that
				// leaves maxConnections alone does)
				caps[i] = cap0
				if i > 0 {
					caps[i] = caps[i-1]
				}
			}
			gaps[i] = rng.Intn(400)
			if hold {
				gaps[i] = rng.Intn(60)
			}
		}
		if hold {
			// let the holders take their tokens and the others queue up
			for k := 0; k < 100; k++ {
				g.mu.Lock()
				o := g.open
				g.mu.Unlock()
				if o >= cap0 || o >= workers {
					break
				}
				time.Sleep(100 * time.Microsecond)
			}
		}
		var dwg sync.WaitGroup
		var dones []chan struct{}
		var ids []int
		final := cap0
		for i, n := range caps {
			time.Sleep(time.Duration(gaps[i]) * time.Microsecond)
			id := g.rz(n)
			done := s.SetMaxCount(int64(n))
			dones, ids = append(dones, done), append(ids, id)
			final = n
			if !overlap && c17WaitDone(done, c17Patience()) {
				g.rzdone(id)
				continue
			}
			// overlapping mode, or a resize that does not complete although the workers keep releasing
			dwg.Add(1)
			go func() { defer dwg.Done(); <-done; g.rzdone(id) }()
		}
		if hold {
			time.Sleep(time.Duration(500+rng.Intn(3000)) * time.Microsecond) // the adjustments that can run do
			close(holdUntil)
		}
		if !c17WaitGroup(&wg, c17Patience()) {
			// workers that only acquire, yield and release do not get through: the semaphore is stuck.
			// They are blocked, so the counter is steady; take the largest of a few samples.
			hi := 0
			for k := 0; k < 20; k++ {
				g.mu.Lock()
				if g.open > hi {
					hi = g.open
				}
				g.mu.Unlock()
				time.Sleep(10 * time.Millisecond)
			}
			g.stuck(hi)
			break
		}
		// nothing is held any more, no acquirer is left: every resize completes (barrier)
		if c17AwaitResizes(g, dones, ids) > 0 {
			break
		}
		c17WaitGroup(&dwg, c17Patience()) // (the completions are in the log)
		c17Probe(g, s, final)
	}
}

// c17Gate is the harness side of the gate hook (installed only when the tree has it).
type c17Gate struct {
	mu      sync.Mutex
	arrived []chan struct{} // k-th goroutine that reached the gate waits on arrived[k]
	notify  chan struct{}
	open    bool
}

func (gt *c17Gate) fn(point string, args ...int64) {
	if point != "sem.resize" {
		return
	}
	gt.mu.Lock()
	if gt.open {
		gt.mu.Unlock()
		return
	}
	ch := make(chan struct{})
	gt.arrived = append(gt.arrived, ch)
	gt.mu.Unlock()
	select {
	case gt.notify <- struct{}{}:
	default:
	}
	<-ch
}

// waitArrival waits until the k-th (1-based) tuner is parked at the gate.
func (gt *c17Gate) waitArrival(k int, d time.Duration) bool {
	deadline := time.Now().Add(d)
	for {
		gt.mu.Lock()
		n := len(gt.arrived)
		gt.mu.Unlock()
		if n >= k {
			return true
		}
		if time.Now().After(deadline) {
			return false
		}
		select {
		case <-gt.notify:
		case <-time.After(2 * time.Millisecond):
		}
	}
}

func (gt *c17Gate) count() int {
	gt.mu.Lock()
	defer gt.mu.Unlock()
	return len(gt.arrived)
}

// waitArrivalOrDone waits until the k-th tuner is parked at the gate (returns k) or the call's done
// channel is closed without a tuner having come to the gate (returns 0: the call was completed
// without a background adjustment - an implementation is free to do that, e.g. for a call that
// changes nothing; its tuner steps in a schedule are then empty).  -1 after the deadline.
func (gt *c17Gate) waitArrivalOrDone(k int, done <-chan struct{}, d time.Duration) int {
	deadline := time.Now().Add(d)
	for {
		if gt.count() >= k {
			return k
		}
		select {
		case <-done:
			if gt.count() >= k {
				return k
			}
			return 0
		default:
		}
		if time.Now().After(deadline) {
			return -1
		}
		select {
		case <-gt.notify:
		case <-done:
		case <-time.After(2 * time.Millisecond):
		}
	}
}

func (gt *c17Gate) release(k int) {
	gt.mu.Lock()
	defer gt.mu.Unlock()
	if k-1 < len(gt.arrived) && gt.arrived[k-1] != nil {
		close(gt.arrived[k-1])
		gt.arrived[k-1] = nil
	}
}

// releaseAll opens the gate for good.
func (gt *c17Gate) releaseAll() {
	gt.mu.Lock()
	defer gt.mu.Unlock()
	gt.open = true
	for i, ch := range gt.arrived {
		if ch != nil {
			close(ch)
			gt.arrived[i] = nil
		}
	}
}

// TestVerifC17SemOverlap: one case per input line
//
//	{"cap":3,"open":3,"waiters":1,"rz":[1,3],"order":[2,1]}
//
// hold `open` tokens, park `waiters` goroutines in Acquire, call SetMaxCount for every value of rz
// back to back, let the background adjustments run in `order`, then release everything and probe.
func TestVerifC17SemOverlap(t *testing.T) {
	cases := vx.ReadNDJSON(t, "VERIF_IN")
	w := vx.NewWriter(t, "VERIF_OUT")
	defer w.Close()
	g := &c17Log{w: w}
	gated := 0
	hook := c17HasGate
	if !hook {
		// no gate in this tree: one P, so that goroutines started back to back run newest first
		defer runtime.GOMAXPROCS(runtime.GOMAXPROCS(1))
	}
	for ci, cs := range cases {
		if atomic.LoadInt32(&c17Patient) == 0 {
			break // something was declared stuck: the log is rejected anyway, do not spend more deadlines
		}
		cap0, nOpen, nWait := vx.Int(cs["cap"]), vx.Int(cs["open"]), vx.Int(cs["waiters"])
		rzs, order := vx.List(cs["rz"]), vx.List(cs["order"])
		gt := &c17Gate{notify: make(chan struct{}, 1)}
		c17InstallGate(gt.fn)
		g.reset(cap0, vx.M{"level": "sem", "case": ci, "gated": hook})
		s := NewSem(uint32(cap0))
		for i := 0; i < nOpen; i++ {
			g.accInv("m")
			s.Acquire()
			g.acc("m")
		}
		held := nOpen
		var hmu sync.Mutex
		var wwg sync.WaitGroup
		for i := 0; i < nWait; i++ {
			wwg.Add(1)
			go func(i int) {
				defer wwg.Done()
				p := fmt.Sprintf("w%d", i)
				g.accInv(p)
				s.Acquire()
				g.acc(p)
				hmu.Lock()
				held++
				hmu.Unlock()
			}(i)
		}
		time.Sleep(3 * time.Millisecond) // let the waiters queue (only the realisation of the schedule depends on it)
		dones := make([]chan struct{}, len(rzs))
		ids := make([]int, len(rzs))
		slots := make([]int, len(rzs)) // gate slot of the i-th call's tuner; 0: completed without one
		for i, n := range rzs {
			ids[i] = g.rz(vx.Int(n))
			next := gt.count() + 1
			dones[i] = s.SetMaxCount(int64(vx.Int(n)))
			if hook {
				slots[i] = gt.waitArrivalOrDone(next, dones[i], 2*time.Second)
				if slots[i] < 0 {
					g.note(vx.M{"k": "note", "case": ci, "what": "tuner did not reach the gate"})
				}
			}
		}
		if hook {
			gated++
			for _, k := range order {
				if i := vx.Int(k) - 1; i >= 0 && i < len(slots) && slots[i] > 0 {
					gt.release(slots[i])
					c17WaitDone(dones[i], 3*time.Millisecond)
				}
			}
			gt.releaseAll()
		} else {
			runtime.Gosched()
		}
		var dwg sync.WaitGroup
		for i := range dones {
			dwg.Add(1)
			go func(i int) { defer dwg.Done(); <-dones[i]; g.rzdone(ids[i]) }(i)
		}
		time.Sleep(3 * time.Millisecond)
		// give everything back, one token at a time, until all waiters have been served
		allServed := make(chan struct{})
		go func() { wwg.Wait(); close(allServed) }()
		deadline := time.Now().Add(c17Patience())
		starved := false
		for served := false; !served; {
			select {
			case <-allServed:
				served = true
			default:
				hmu.Lock()
				if held > 0 {
					held--
					hmu.Unlock()
					g.closing()
					s.Release()
				} else {
					hmu.Unlock()
				}
				time.Sleep(200 * time.Microsecond)
				hmu.Lock()
				h := held
				hmu.Unlock()
				if h == 0 && time.Now().After(deadline) {
					g.stuck(0) // everything was given back and a waiter is still not served
					served, starved = true, true
				}
			}
		}
		hmu.Lock()
		for ; held > 0; held-- {
			g.closing()
			s.Release()
		}
		hmu.Unlock()
		// barrier: every token is back, every waiter was served and gave its token back, the gate is open
		if starved || c17AwaitResizes(g, dones, ids) > 0 {
			c17InstallGate(nil)
			continue
		}
		c17WaitGroup(&dwg, c17Patience()) // (the completions are in the log)
		final := cap0
		if len(rzs) > 0 {
			final = vx.Int(rzs[len(rzs)-1])
		}
		c17Probe(g, s, final)
		c17InstallGate(nil)
	}
	g.note(vx.M{"k": "summary", "cases": len(cases), "gated": gated})
}

// TestVerifC17SemPanicChild runs the schedule TLC finds for caps up to maxCapacity (specs/ConnCap.tla
// with Size = largest cap: NoReleasePanic): a semaphore at maxCapacity with tokens held is shrunk
// below the usage (the background Acquire blocks) and grown back before anything is released.
// If the adjustments are not ordered the grow's Release drives x/sync below zero and the process
// panics - so this test runs in a go test process of its own and the driver reads its output.
func TestVerifC17SemPanicChild(t *testing.T) {
	if vx.EnvInt("VERIF_C17_CHILD", 0) != 1 {
		t.Skip("runs only as a child process of /verif/check")
	}
	w := vx.NewWriter(t, "VERIF_OUT")
	defer w.Close()
	held := vx.EnvInt("VERIF_C17_HELD", 2)
	s := NewSem(uint32(maxCapacity))
	for i := 0; i < held; i++ {
		s.Acquire()
	}
	d1 := s.SetMaxCount(1) // blocks in the background: `held` tokens are out
	time.Sleep(30 * time.Millisecond)
	d2 := s.SetMaxCount(maxCapacity)
	time.Sleep(100 * time.Millisecond) // a panic in the background goroutine ends the process here
	for i := 0; i < held; i++ {
		s.Release()
	}
	ok1, ok2 := c17WaitDone(d1, 20*time.Second), c17WaitDone(d2, 20*time.Second)
	w.Raw(vx.M{"k": "survived", "done1": ok1, "done2": ok2})
}

// TestVerifC17SemInitChild: a Semaphore created with a cap around maxCapacity (VERIF_C17_INIT), a few
// tokens taken and given back, then resized to 2 with nothing held: the change must be applied and
// exactly 2 tokens must be obtainable afterwards.  Runs in a process of its own (x/sync panics when
// its counter goes below zero); the driver reads the records and the output.
func TestVerifC17SemInitChild(t *testing.T) {
	if vx.EnvInt("VERIF_C17_CHILD", 0) != 1 {
		t.Skip("runs only as a child process of /verif/check")
	}
	w := vx.NewWriter(t, "VERIF_OUT")
	defer w.Close()
	init := vx.EnvInt("VERIF_C17_INIT", int(maxCapacity))
	held := vx.EnvInt("VERIF_C17_HELD", 2)
	s := NewSem(uint32(init))
	w.Raw(vx.M{"k": "created", "cap": init})
	for i := 0; i < held; i++ {
		s.Acquire()
	}
	for i := 0; i < held; i++ {
		s.Release() // (a panic ends the process here)
	}
	w.Raw(vx.M{"k": "released", "held": held})
	g := &c17Log{w: w}
	done := s.SetMaxCount(2)
	how := ""
	if n := c17AwaitResizes(g, []chan struct{}{done}, []int{1}); n > 0 {
		how = "barrier/deadline: the background goroutine of SetMaxCount is blocked inside the semaphore"
		w.Raw(vx.M{"k": "end", "done": false, "probe": false, "how": how})
		return
	}
	// exactly two tokens
	got, what := 0, ""
	for i := 0; i < 3; i++ {
		d := 10 * time.Second
		if i == 2 {
			d = 50 * time.Millisecond
		}
		ctx, cancel := context.WithTimeout(context.Background(), d)
		if s.AcquireWithContext(ctx) == nil {
			got++
		}
		cancel()
	}
	if got != 2 {
		what = fmt.Sprintf("%d tokens can be taken, the cap is 2", got)
	}
	w.Raw(vx.M{"k": "end", "done": true, "probe": got == 2, "what": what})
}

// Package verifx holds the helpers shared by the in-package verification harnesses. It is a
// virtual package: the driver maps it to /repo/pkg/verifx through `go test -overlay`.
package verifx

import (
	"bufio"
	"encoding/json"
	"fmt"
	"math/rand"
	"os"
	"strconv"
	"sync"
	"testing"
)

// Seed returns VERIF_SEED (default 1).
func Seed() int64 {
	s, err := strconv.ParseInt(os.Getenv("VERIF_SEED"), 10, 64)
	if err != nil {
		return 1
	}
	return s
}

// Rand returns a generator seeded from VERIF_SEED and a per-use salt.
func Rand(salt int64) *rand.Rand { return rand.New(rand.NewSource(Seed()*1000003 + salt)) }

// Thorough tells whether VERIF_TIER=thorough.
func Thorough() bool { return os.Getenv("VERIF_TIER") == "thorough" }

// EnvInt reads an integer environment variable.
func EnvInt(name string, def int) int {
	v, err := strconv.Atoi(os.Getenv(name))
	if err != nil {
		return def
	}
	return v
}

// M is a JSON object.
type M = map[string]interface{}

// Writer writes NDJSON records, numbering them under its own lock (the global sequence number
// of DESIGN 2.2-3).
type Writer struct {
	mu  sync.Mutex
	f   *os.File
	w   *bufio.Writer
	seq int
}

// NewWriter opens the file named by the environment variable `env`.
func NewWriter(t testing.TB, env string) *Writer {
	p := os.Getenv(env)
	if p == "" {
		t.Skipf("%s not set: harness is driven by /verif/check", env)
	}
	f, err := os.Create(p)
	if err != nil {
		t.Fatalf("verifx: %v", err)
	}
	return &Writer{f: f, w: bufio.NewWriterSize(f, 1<<20)}
}

// Emit appends one record; "seq" is added.
func (w *Writer) Emit(rec M) {
	w.mu.Lock()
	defer w.mu.Unlock()
	w.seq++
	rec["seq"] = w.seq
	b, err := json.Marshal(rec)
	if err != nil {
		panic(err)
	}
	w.w.Write(b)
	w.w.WriteByte('\n')
}

// Raw appends one record without touching it.
func (w *Writer) Raw(rec interface{}) {
	w.mu.Lock()
	defer w.mu.Unlock()
	b, err := json.Marshal(rec)
	if err != nil {
		panic(err)
	}
	w.w.Write(b)
	w.w.WriteByte('\n')
}

// Close flushes.
func (w *Writer) Close() {
	w.mu.Lock()
	defer w.mu.Unlock()
	w.w.Flush()
	w.f.Close()
}

// ReadNDJSON reads the file named by environment variable `env` into generic records.
func ReadNDJSON(t testing.TB, env string) []M {
	p := os.Getenv(env)
	if p == "" {
		t.Skipf("%s not set: harness is driven by /verif/check", env)
	}
	f, err := os.Open(p)
	if err != nil {
		t.Fatalf("verifx: %v", err)
	}
	defer f.Close()
	var out []M
	sc := bufio.NewScanner(f)
	sc.Buffer(make([]byte, 1<<20), 1<<28)
	for sc.Scan() {
		if len(sc.Bytes()) == 0 {
			continue
		}
		var m M
		if err := json.Unmarshal(sc.Bytes(), &m); err != nil {
			t.Fatalf("verifx: bad line: %v", err)
		}
		out = append(out, m)
	}
	return out
}

// ReadBehaviours reads a file of behaviours: one JSON array of step records per line.
func ReadBehaviours(t testing.TB, env string) [][]M {
	p := os.Getenv(env)
	if p == "" {
		t.Skipf("%s not set: harness is driven by /verif/check", env)
	}
	f, err := os.Open(p)
	if err != nil {
		t.Fatalf("verifx: %v", err)
	}
	defer f.Close()
	var out [][]M
	sc := bufio.NewScanner(f)
	sc.Buffer(make([]byte, 1<<20), 1<<28)
	for sc.Scan() {
		if len(sc.Bytes()) == 0 {
			continue
		}
		var b []M
		if err := json.Unmarshal(sc.Bytes(), &b); err != nil {
			t.Fatalf("verifx: bad behaviour line: %v", err)
		}
		out = append(out, b)
	}
	return out
}

// Int converts a JSON number.
func Int(v interface{}) int {
	switch x := v.(type) {
	case float64:
		return int(x)
	case int:
		return x
	case json.Number:
		i, _ := x.Int64()
		return int(i)
	case nil:
		return 0
	}
	panic(fmt.Sprintf("verifx.Int: %T", v))
}

// Str converts a JSON string (nil → "").
func Str(v interface{}) string {
	if v == nil {
		return ""
	}
	return v.(string)
}

// Bool converts a JSON bool (nil → false).
func Bool(v interface{}) bool {
	if v == nil {
		return false
	}
	return v.(bool)
}

// Chars joins a JSON array of one-character strings (the specs' string representation).
func Chars(v interface{}) string {
	if v == nil {
		return ""
	}
	if s, ok := v.(string); ok {
		return s
	}
	s := ""
	for _, c := range v.([]interface{}) {
		s += c.(string)
	}
	return s
}

// List converts a JSON array (nil → empty).
func List(v interface{}) []interface{} {
	if v == nil {
		return nil
	}
	return v.([]interface{})
}
